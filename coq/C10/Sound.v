(** C10 — the evaluator's property predicate is a consequence of the theorems.

    [Run/Eval_C10.check] computes, per generated case, [v_corr] (the model
    answers like the implementation), [v_prop] (the property predicate, written
    from the property text, on the implementation's observation) and the finding
    guards.  Here it is proved that for every case -- not only generated ones --
    correspondence without a firing guard implies the property predicate.  So
    the verdict-table row "corr holds, prop fails, no guard" can never occur: a
    property failure on an unguarded input is always a disagreement between the
    implementation and the model (a real regression), and conversely the property
    predicate demands nothing the theorems about the model do not deliver. *)
From HV Require Import Base.Prelude Base.Time C10.Model C10.Proofs Run.Eval_C10.
Open Scope Z_scope.

Lemma guards1 n b : guards [(n, b)] = [] -> b = false.
Proof. unfold guards. simpl. destruct b; [discriminate | reflexivity]. Qed.

Lemma guards2 n1 b1 n2 b2 : guards [(n1, b1); (n2, b2)] = [] -> b1 = false /\ b2 = false.
Proof. unfold guards. simpl. destruct b1; [discriminate|]. destruct b2; [discriminate|]. auto. Qed.

Lemma between_spec lo x hi : between lo x hi = true -> lo <= x <= hi.
Proof. unfold between. intro H. apply andb_true_iff in H. lia. Qed.

Lemma grace_nonneg m : 0 <= grace m.
Proof. destruct m; simpl; unfold secs, ns_per_s; lia. Qed.

Lemma pos_pos t : 0 < t -> pos t = Some t.
Proof. intro H. unfold pos. assert ((t >? 0) = true) by lia. rewrite H0. reflexivity. Qed.

(** ** [CExec] *)

(** the driver never reports expiry information for a mechanism that has none *)
Definition wf_exec (m : mech) (exp : option Z) : Prop := expiry_mech m = false -> exp = None.

(** outside C10-F3 the state of the instance is the configuration in force,
    or (remote authorizer, non-positive rule-level value over a disabled
    prototype) a disabled state *)
Lemma exec_state_spec f m conf rule c :
  guard_F3 f m conf rule = false ->
  spec_cfg m conf rule = Some c ->
  exec_state f m conf rule = Some c \/
  (exists c', exec_state f m conf rule = Some c' /\ c' <= 0 /\ m = MRemote).
Proof.
  unfold exec_state, guard_F3, spec_cfg. intros Hg Hc.
  destruct m; try (destruct rule as [r|]; simpl in Hc; [inversion Hc; subst; left; reflexivity | subst conf; left; reflexivity]).
  (* only the remote authorizer is left *)
  destruct rule as [r|]; simpl in Hc; [inversion Hc; subst r | subst conf; left; reflexivity].
  simpl. destruct (fx3 f); simpl in *; [left; reflexivity|].
  destruct (c >? 0) eqn:Ec; [left; reflexivity|].
  right. assert (Hle : (c <=? 0) = true) by lia. rewrite Hle in Hg. simpl in Hg.
  eexists; split; [reflexivity|]. split; [|reflexivity]. unfold val in Hg.
  destruct conf; simpl in *; lia.
Qed.

Lemma store_remote_disabled f c exp now : c <= 0 -> store f MRemote (Some c) exp now = None.
Proof. intro H. simpl. unfold pos. assert ((c >? 0) = false) by lia. rewrite H0. reflexivity. Qed.

Lemma unix_secs_lower x : x - secs 1 < secs (unix x).
Proof. pose proof (unix_upper x). rewrite secs_add in H. lia. Qed.

Theorem check_sound_exec : forall f m conf rule exp now dmax o,
  0 <= dmax <= max_delay ->
  wf_exec m exp ->
  let v := check f (CExec m conf rule exp now dmax o) in
  v_corr v = true -> v_guards v = [] -> v_prop v = true.
Proof.
  intros f m conf rule exp now dmax o Hd Hwf v Hc Hg. subst v. simpl in *.
  apply guards2 in Hg as [Hg1 Hg3]. apply orb_false_iff in Hg1 as [Hg1 _].
  set (st := exec_state f m conf rule) in *.
  unfold exec_corr in Hc. fold st in Hc.
  apply andb_true_iff in Hc as [Hc Htok]. apply andb_true_iff in Hc as [Hlook Hset].
  unfold exec_prop. apply andb_true_iff. split.
  - (* zero disables *)
    destruct (cfg_zero (spec_cfg m conf rule) && negb (mech_eqb m MJwtFin)) eqn:Ez; [|reflexivity].
    apply andb_true_iff in Ez as [Ez Hm].
    destruct (spec_cfg m conf rule) as [c|] eqn:Ecfg; [|discriminate]. simpl in Ez.
    assert (c = 0) by lia. subst c.
    assert (Hm' : m <> MJwtFin) by (intro; subst m; discriminate).
    destruct (zero_disables f m conf rule Hm' Ecfg Hg3) as [Hl Hst]. fold (exec_state f m conf rule) in Hl, Hst. fold st in Hl, Hst.
    rewrite Hl in Hlook. destruct (eo_lookup o); [discriminate|]. simpl.
    destruct (eo_set o) as [t|]; [|reflexivity].
    apply andb_true_iff in Hset as [_ Hset]. rewrite Hst in Hset. discriminate.
  - destruct (eo_set o) as [t|] eqn:Et; [|reflexivity].
    apply andb_true_iff in Hset as [Hpos Hset].
    destruct (store f m st exp now) as [hi|] eqn:Ehi; [|discriminate].
    assert (Hhi : t <= hi) by lia. assert (Htp : 0 < t) by lia.
    apply andb_true_iff. split.
    + unfold stored_ok. apply andb_true_iff; split; [apply andb_true_iff; split|].
      * lia.
      * destruct (spec_cfg m conf rule) as [c|] eqn:Ecfg; simpl; [|reflexivity].
        destruct (exec_state_spec f m conf rule c Hg3 Ecfg) as [Hst|(c' & Hst & Hle & Hm)]; fold st in Hst.
        -- rewrite Hst in Ehi. pose proof (config_only_shortens _ _ _ _ _ _ Ehi). lia.
        -- subst m. rewrite Hst in Ehi. rewrite store_remote_disabled in Ehi by exact Hle. discriminate.
      * destruct exp as [e|]; simpl; [|reflexivity].
        destruct (expiry_mech m) eqn:Em; [|unfold wf_exec in Hwf; rewrite Em in Hwf; specialize (Hwf eq_refl); discriminate].
        destruct (ttl_within_lifetime f m st e now dmax hi Em Hg1 Ehi Hd) as [_ Hlt].
        unfold limit. pose proof (grace_nonneg m). lia.
    + destruct m; try reflexivity. destruct (eo_tokexp o) as [te|] eqn:Ete; [|reflexivity].
      assert (Hte : unix (now + val st) <= te) by lia.
      simpl in Ehi. destruct (val st >? secs 5) eqn:Ev; [|discriminate]. inversion Ehi; subst hi.
      unfold ttl_jwt_finalizer in Hhi.
      pose proof (unix_secs_lower (now + val st)).
      pose proof (secs_mono _ _ Hte). unfold max_delay in Hd.
      change (secs 5) with 5000000000 in *. change (secs 4) with 4000000000 in *. change (secs 1) with 1000000000 in *. lia.
Qed.

(** ** [CHttp] *)

(** what the driver guarantees for an http case: a non-negative Age value, bracket width and body delay *)
Definition wf_http (h : hvals) (now dmax bdelay : Z) : Prop :=
  0 <= hv_age h /\ 0 <= dmax /\ 0 <= bdelay.

Theorem check_sound_http : forall f b cachable h dflt now dmax bdelay tget o_nsets o_set o_hit,
  wf_http h now dmax bdelay ->
  let v := check f (CHttp b cachable h dflt now dmax bdelay tget o_nsets o_set o_hit) in
  v_corr v = true -> v_guards v = [] -> v_prop v = true.
Proof.
  intros f b cachable h dflt now dmax bdelay tget o_nsets o_set o_hit (Hage & Hd & Hbd) v Hc Hg. subst v. simpl in *.
  apply guards2 in Hg as [Hg2 Hg4].
  assert (Hf2 : fx2 f = true) by (destruct (fx2 f); [reflexivity | discriminate]).
  assert (Hf4 : fx4 f = true) by (destruct (fx4 f); [reflexivity | discriminate]).
  unfold http_corr in Hc. apply andb_true_iff in Hc as [_ Hc]. unfold http_prop.
  destruct o_set as [t|].
  - apply andb_true_iff in Hc as [Hc Hhit]. apply andb_true_iff in Hc as [Hpos Hc].
    destruct (http_store_hdr f cachable h dflt now (now + bdelay)) as [hi|] eqn:Ehi; [|discriminate].
    destruct (http_hdr_within_rfc_at_set f cachable h dflt now (now + bdelay) hi Hf2 Hf4 ltac:(lia) Hage Ehi) as (l & Hl & Hp & Hle).
    rewrite Hl. assert (E1 : (0 <? t) = true) by lia. assert (E2 : (t <=? l - bdelay) = true) by lia. rewrite E1, E2. simpl.
    destruct o_hit; [|reflexivity]. simpl in Hhit.
    (* served from cache: the entry set with ttl [t] is still live at [tget] *)
    unfold cget, cset in Hhit. destruct b; simpl in Hhit.
    + assert (E3 : (t =? -2) = false) by lia. rewrite E3 in Hhit. simpl in Hhit.
      assert (E4 : (t >? 0) = true) by lia. rewrite E4 in Hhit. unfold live in Hhit. simpl in Hhit.
      destruct (tget <=? t) eqn:E5; [lia | discriminate].
    + destruct (millis t <=? 0) eqn:Em; simpl in Hhit; [discriminate|].
      unfold live in Hhit. simpl in Hhit.
      destruct (tget <? msecs (millis t)) eqn:E5; [|discriminate].
      pose proof (millis_le t ltac:(lia)). lia.
  - destruct o_hit; [discriminate|]. destruct (rfc_remaining h dflt now); reflexivity.
Qed.

(** ** [CCache] *)

Section CacheSound.
  Variable b : backend.

  (** every entry of the model cache was put there by the last successful Set of
      its key, and, if that Set carried a positive ttl, expires within it *)
  Definition cinv (c : cache Z) (seen : list cop) : Prop :=
    forall k e, find k c = Some e ->
      exists ts ttl, last_set k seen = Some (ts, en_val e, ttl) /\
        (0 < ttl -> exists x, en_exp e = Some x /\ x <= ts + ttl).

  Lemma find_key k (c : cache Z) e : find k c = Some e -> en_key e = k.
  Proof.
    induction c as [|x r IH]; simpl; [discriminate|].
    destruct (en_key x =? k) eqn:E; intro H; [inversion H; subst; lia | apply IH; exact H].
  Qed.

  Lemma find_remove_same k (c : cache Z) : find k (remove k c) = None.
  Proof.
    induction c as [|x r IH]; simpl; [reflexivity|].
    destruct (en_key x =? k) eqn:E; simpl; [exact IH|]. rewrite E. exact IH.
  Qed.

  Lemma find_remove_other k k' (c : cache Z) : k' <> k -> find k' (remove k c) = find k' c.
  Proof.
    intro Hne. induction c as [|x r IH]; simpl; [reflexivity|].
    destruct (en_key x =? k) eqn:E; simpl.
    - assert ((en_key x =? k') = false) by lia. rewrite H. exact IH.
    - destruct (en_key x =? k'); [reflexivity | exact IH].
  Qed.

  Lemma cinv_get c seen t k r : cinv c seen -> cinv c (OGet t k r :: seen).
  Proof. intros H k' e He. simpl. apply H. exact He. Qed.

  Lemma cinv_set_failed c seen t k v ttl : cinv c seen -> cinv c (OSet t k v ttl false :: seen).
  Proof. intros H k' e He. simpl. apply H. exact He. Qed.

  (** a new entry for key [k] replacing whatever was there *)
  Lemma cinv_replace c seen t k v ttl e :
    cinv c seen -> en_key e = k -> en_val e = v ->
    (0 < ttl -> exists x, en_exp e = Some x /\ x <= t + ttl) ->
    cinv (e :: remove k c) (OSet t k v ttl true :: seen).
  Proof.
    intros H Hk Hv Hx k' e' He'. simpl in He'. simpl.
    destruct (Z.eq_dec k' k) as [->|Hne].
    - rewrite Hk in He'. rewrite Z.eqb_refl in He'. inversion He'; subst e'.
      rewrite Z.eqb_refl. exists t, ttl. rewrite Hv. split; [reflexivity | exact Hx].
    - assert (E1 : (en_key e =? k') = false) by lia. rewrite E1 in He'.
      rewrite find_remove_other in He' by exact Hne.
      assert (E2 : (k =? k') = false) by lia. rewrite E2. apply H. exact He'.
  Qed.

  Lemma cinv_cset c seen t k v ttl :
    cinv c seen ->
    let ok := match b with Mem => true | Redis => 0 <? millis ttl end in
    cinv (cset b t k v ttl c) (OSet t k v ttl ok :: seen).
  Proof.
    intros H ok. subst ok. unfold cset. destruct b.
    - destruct (ttl =? -2) eqn:E2.
      + assert (ttl = -2) by lia. subst ttl.
        destruct (find k c) as [e0|]; [apply cinv_replace | ]; try reflexivity; try exact H; try (intro; lia).
        (* key absent: the entry is pushed in front without removing anything *)
        intros k' e' He'. simpl in He'. simpl.
        destruct (Z.eq_dec k' k) as [->|Hne].
        * rewrite Z.eqb_refl in He'. inversion He'; subst e'. simpl. rewrite Z.eqb_refl.
          exists t, (-2). split; [reflexivity | intro; lia].
        * assert (E1 : (k =? k') = false) by lia. rewrite E1 in He'. rewrite E1. apply H. exact He'.
      + apply cinv_replace; try reflexivity; [exact H|]. simpl. intro Hp.
        assert ((ttl >? 0) = true) by lia. rewrite H0. eexists; split; [reflexivity | lia].
    - destruct (millis ttl <=? 0) eqn:Ep.
      + assert ((0 <? millis ttl) = false) by lia. rewrite H0. apply cinv_set_failed. exact H.
      + assert ((0 <? millis ttl) = true) by lia. rewrite H0.
        apply cinv_replace; try reflexivity; [exact H|]. simpl. intro Hp.
        eexists; split; [reflexivity|]. pose proof (millis_le ttl ltac:(lia)). lia.
  Qed.

  Lemma cache_sound_gen : forall ops c seen,
    cinv c seen -> cache_corr b c ops = true -> cache_prop seen ops = true.
  Proof.
    induction ops as [|op r IH]; intros c seen Hinv Hc; [reflexivity|].
    destruct op as [t k v ttl ok | t k o]; simpl in Hc.
    - apply andb_true_iff in Hc as [Hok Hc]. apply eqb_prop in Hok. subst ok.
      simpl. eapply IH; [|exact Hc]. apply cinv_cset. exact Hinv.
    - destruct o as [v|].
      2:{ simpl. eapply IH; [apply cinv_get; exact Hinv | exact Hc]. }
      apply andb_true_iff in Hc as [Hget Hc].
      assert (Hrest : cache_prop (OGet t k (Some v) :: seen) r = true) by (eapply IH; [apply cinv_get; exact Hinv | exact Hc]).
      simpl. rewrite Hrest, andb_true_r.
      unfold zopt_eqb, option_eqb in Hget. unfold cget in Hget.
      destruct (find k c) as [e|] eqn:Ef; [|discriminate].
      destruct (live b t e) eqn:El; [|discriminate].
      assert (v = en_val e) by lia. subst v.
      destruct (Hinv k e Ef) as (ts & ttl & Hls & Hx). rewrite Hls.
      rewrite Z.eqb_refl. simpl.
      destruct (0 <? ttl) eqn:Ep; [|reflexivity].
      destruct (Hx ltac:(lia)) as (x & Hex & Hxle). unfold live in El. rewrite Hex in El.
      destruct b; lia.
  Qed.
End CacheSound.

Theorem check_sound_cache : forall f b ops,
  let v := check f (CCache b ops) in
  v_corr v = true -> v_guards v = [] -> v_prop v = true.
Proof.
  intros f b ops v Hc _. subst v. simpl in *.
  eapply cache_sound_gen; [|exact Hc]. intros k e He. discriminate.
Qed.

(** "a configured TTL can only shorten": the ttl in force for a rule (rule-level
    value, else the prototype's) bounds whatever an instance created for that
    rule hands to the cache *)
Theorem rule_level_ttl_bounds : forall f m conf rule c exp now ttl,
  fx3 f = true ->
  spec_cfg m conf rule = Some c ->
  store f m (withconfig_ttl f m (create_ttl m conf) rule) exp now = Some ttl ->
  ttl <= c.
Proof.
  intros f m conf rule c exp now ttl Hf Hc Hs.
  destruct (exec_state_spec f m conf rule c (guard_F3_fixed f m conf rule Hf) Hc) as [Hst|(c' & Hst & Hle & Hm)];
    unfold exec_state in Hst; rewrite Hst in Hs.
  - eapply config_only_shortens; exact Hs.
  - subst m. rewrite store_remote_disabled in Hs by exact Hle. discriminate.
Qed.
