(** C11 — specification vocabulary: when two requests are "identical", when a
    key derivation is free of iteration-order effects, and the guards of the
    recorded findings (boolean, on the inputs of a history).  No proofs here, so
    that the evaluator still builds when a proof breaks. *)
From HV Require Export Base.Prelude C11.Model.
Local Open Scope string_scope.
Local Open Scope list_scope.

(* ------------------------------------------------------------------ structural equality *)

Definition piece_eqb (a b : piece) : bool :=
  match a, b with
  | PLit x, PLit y | PValue x, PValue y | POutput x, POutput y | PReqHeader x, PReqHeader y => String.eqb x y
  | PSubjectID, PSubjectID | PAuthData, PAuthData => true
  | _, _ => false
  end.

Definition tpl_eqb : tpl -> tpl -> bool := list_eqb piece_eqb.

Definition kt_eqb (a b : string * tpl) : bool := String.eqb (fst a) (fst b) && tpl_eqb (snd a) (snd b).

Definition kv_eqb (a b : string * string) : bool := String.eqb (fst a) (fst b) && String.eqb (snd a) (snd b).

Definition alist_eqb : alist -> alist -> bool := list_eqb kv_eqb.

Definition strs_eqb : list string -> list string -> bool := list_eqb String.eqb.

Definition auth_eqb (a b : auth) : bool :=
  match a, b with
  | ANone, ANone => true
  | AApiKey i n v, AApiKey i' n' v' => String.eqb i i' && String.eqb n n' && String.eqb v v'
  | ABasic u p, ABasic u' p' => String.eqb u u' && String.eqb p p'
  | AClientCred u i x sc, AClientCred u' i' x' sc' =>
    String.eqb u u' && String.eqb i i' && String.eqb x x' && list_eqb String.eqb sc sc'
  | _, _ => false
  end.

Definition ep_eqb (a b : ep) : bool :=
  tpl_eqb (e_url a) (e_url b) && String.eqb (e_method a) (e_method b) &&
  list_eqb kt_eqb (e_headers a) (e_headers b) && auth_eqb (e_auth a) (e_auth b).

Definition kind_eqb (a b : kind) : bool :=
  match a, b with
  | KIntro, KIntro | KGen, KGen | KRemote, KRemote | KCtx, KCtx => true
  | _, _ => false
  end.

Definition expr_eqb (a b : expr) : bool :=
  match a, b with
  | ETrue, ETrue | EFalse, EFalse => true
  | EBodyEq x, EBodyEq y | EBodyNe x, EBodyNe y | EUrlEq x, EUrlEq y => String.eqb x y
  | _, _ => false
  end.

Definition inst_eqb (a b : inst) : bool :=
  kind_eqb (i_kind a) (i_kind b) && String.eqb (i_id a) (i_id b) && ep_eqb (i_ep a) (i_ep b) &&
  strs_eqb (i_fwdh a) (i_fwdh b) && strs_eqb (i_fwdc a) (i_fwdc b) && strs_eqb (i_up a) (i_up b) &&
  option_eqb tpl_eqb (i_payload a) (i_payload b) && list_eqb kt_eqb (i_values a) (i_values b) &&
  option_eqb Z.eqb (i_ttl a) (i_ttl b) && strs_eqb (i_scopes a) (i_scopes b) &&
  strs_eqb (i_aud a) (i_aud b) && Bool.eqb (i_session a) (i_session b) &&
  list_eqb expr_eqb (i_exprs a) (i_exprs b).

Definition reqdata_eqb (a b : reqdata) : bool :=
  alist_eqb (q_headers a) (q_headers b) && alist_eqb (q_cookies a) (q_cookies b) &&
  alist_eqb (q_outputs a) (q_outputs b) && String.eqb (q_sub_id a) (q_sub_id b) &&
  String.eqb (q_sub_json a) (q_sub_json b) && String.eqb (q_cred a) (q_cred b).

(** identical requests: the same mechanism instance executing the same request *)
Definition same_request (a b : step) : bool :=
  inst_eqb (st_inst a) (st_inst b) && reqdata_eqb (st_req a) (st_req b).

(* ------------------------------------------------------------------ shape of pre-images *)

Definition fld_same_shape (a b : fld) : bool :=
  match a, b with
  | FV _, FV _ => true
  | FX x, FX y => Nat.eqb (String.length x) (String.length y)
  | _, _ => false
  end.

Fixpoint same_shape (a b : list fld) : bool :=
  match a, b with
  | [], [] => true
  | x :: r, y :: t => fld_same_shape x y && same_shape r t
  | _, _ => false
  end.

(** number of positions whose byte lengths differ *)
Fixpoint len_diffs (a b : list fld) : nat :=
  match a, b with
  | x :: r, y :: t =>
    (if Nat.eqb (String.length (fbytes x)) (String.length (fbytes y)) then 0 else 1) + len_diffs r t
  | _, _ => 0
  end.

(** C11-F4: the writes carry no delimiters, so two pre-images can only be told
    apart field by field when they have the same sequence of writes and at most
    one write differs in length *)
Definition guard_shift (a b : list fld) : bool :=
  negb (same_shape a b) || Nat.leb 2 (len_diffs a b).

(** C11-F4, exactly: two different sequences of writes that give the same
    pre-image (the defect itself; [guard_shift] is a structural necessary condition for it) *)
Definition fld_eqb (a b : fld) : bool :=
  match a, b with
  | FV x, FV y | FX x, FX y => String.eqb x y
  | _, _ => false
  end.

Definition flds_eqb : list fld -> list fld -> bool := list_eqb fld_eqb.

Definition collide (a b : list fld) : bool := String.eqb (cat a) (cat b) && negb (flds_eqb a b).

(* ------------------------------------------------------------------ guards of the findings *)

(** the key of this instance does not depend on map iteration order *)
Definition order_free (i : inst) : bool :=
  Nat.leb (length (e_headers (eff_ep i))) 1 && Nat.leb (length (i_values i)) 1.

Fixpoint exists_pair {A} (f : A -> A -> bool) (l : list A) : bool :=
  match l with
  | [] => false
  | x :: r => existsb (fun y => f x y || f y x) r || exists_pair f r
  end.

(** does step number [k] have an identical earlier step *)
Fixpoint repeated_from (earlier : list step) (l : list step) (p : step -> bool) : bool :=
  match l with
  | [] => false
  | x :: r => (p x && existsb (fun y => same_request y x) earlier) || repeated_from (earlier ++ [x]) r p
  end.

(** C11-F1: a key that depends on iteration order is compared with itself:
    an identical request follows, or the repetitions look at it *)
Definition order_dependent (s : step) : bool := enabled (st_inst s) && negb (order_free (st_inst s)).

Definition g_F1 (steps : list step) (rep_at : option nat) : bool :=
  repeated_from [] steps order_dependent ||
  match rep_at with
  | Some k => match nth_error steps k with Some s => order_dependent s | None => false end
  | None => false
  end.

Definition both (p : step -> bool) (a b : step) : bool := p a && p b.

(** the two look-ups use the same key (a finding about what the key lacks shows only then) *)
Definition step_key (fx : fixes) (H : string -> string) (s : step) : option string :=
  cache_key fx H (st_ho s) (st_vo s) (st_inst s) (st_req s).

Definition same_key (fx : fixes) (H : string -> string) (a b : step) : bool :=
  match step_key fx H a, step_key fx H b with
  | Some x, Some y => String.eqb x y
  | _, _ => false
  end.

Definition keyed (fx : fixes) (H : string -> string) (p : step -> step -> bool) (a b : step) : bool :=
  same_key fx H a b && p a b.

Definition is_kind (k : kind) (s : step) : bool := kind_eqb (i_kind (st_inst s)) k && enabled (st_inst s).

(** C11-F2: the same token at two introspection instances of one endpoint whose scope or audience assertions differ *)
Definition p_F2 (a b : step) : bool :=
  both (is_kind KIntro) a b && String.eqb (q_cred (st_req a)) (q_cred (st_req b)) &&
  ep_eqb (eff_ep (st_inst a)) (eff_ep (st_inst b)) &&
  negb (strs_eqb (i_scopes (st_inst a)) (i_scopes (st_inst b)) && strs_eqb (i_aud (st_inst a)) (i_aud (st_inst b))).

Definition g_F2 (fx : fixes) (H : string -> string) (steps : list step) : bool := exists_pair (keyed fx H p_F2) steps.

(** C11-F10: the same session value at two generic authenticators on one endpoint of which only one
    asserts the session lifespan (the key has no mechanism id, a hit returns before the assertion) *)
Definition p_F10 (a b : step) : bool :=
  both (is_kind KGen) a b && String.eqb (q_cred (st_req a)) (q_cred (st_req b)) &&
  ep_eqb (eff_ep (st_inst a)) (eff_ep (st_inst b)) &&
  negb (Bool.eqb (i_session (st_inst a)) (i_session (st_inst b))).

Definition g_F10 (fx : fixes) (H : string -> string) (steps : list step) : bool := exists_pair (keyed fx H p_F10) steps.

Definition rendered_eqb (a b : option (alist * string)) : bool :=
  match a, b with
  | Some (v, p), Some (v', p') => alist_eqb v v' && String.eqb p p'
  | _, _ => false
  end.

(** C11-F3: the same subject, payload and values at two remote-authorizer instances whose expressions differ *)
Definition p_F3 (a b : step) : bool :=
  both (is_kind KRemote) a b &&
  rendered_eqb (rendered (st_inst a) (st_req a)) (rendered (st_inst b) (st_req b)) &&
  String.eqb (q_sub_json (st_req a)) (q_sub_json (st_req b)) &&
  negb (list_eqb expr_eqb (i_exprs (st_inst a)) (i_exprs (st_inst b))).

Definition g_F3 (fx : fixes) (H : string -> string) (steps : list step) : bool := exists_pair (keyed fx H p_F3) steps.

Definition opt_fields (fx : fixes) (H : string -> string) (s : step) : list fld :=
  if enabled (st_inst s) then
    match key_fields fx H (st_ho s) (st_vo s) (st_inst s) (st_req s) with Some f => f | None => [] end
  else [].

Definition auth_pre (a : auth) : list fld :=
  match a with
  | ANone => []
  | AApiKey i n v => [FV i; FV n; FV v]
  | ABasic u p => [FV u; FV p]
  | AClientCred url id secret scopes => [FV id; FV secret; FV url] ++ map FV scopes
  end.

(** two different strategies (or one strategy with different settings) whose hashes have the same pre-image *)
Definition auth_collide (a b : auth) : bool :=
  String.eqb (cat (auth_pre a)) (cat (auth_pre b)) && negb (auth_eqb a b).

Definition forwards (s : step) : bool :=
  match i_kind (st_inst s) with
  | KCtx | KGen => enabled (st_inst s)
  | _ => false
  end.

(** C11-F4: two look-ups whose pre-images (of the key or, for different endpoints, of the
    endpoint hash or of the authentication strategy's hash) are equal although their writes differ *)
Definition p_F4k (fx : fixes) (H : string -> string) (a b : step) : bool :=
  both (fun s => enabled (st_inst s)) a b &&
  (collide (opt_fields fx H a) (opt_fields fx H b) ||
   (negb (ep_eqb (eff_ep (st_inst a)) (eff_ep (st_inst b))) &&
    (collide (ep_fields fx H (st_ho a) (eff_ep (st_inst a))) (ep_fields fx H (st_ho b) (eff_ep (st_inst b))) ||
     auth_collide (e_auth (eff_ep (st_inst a))) (e_auth (eff_ep (st_inst b)))))).

(** … and, with fixes/C11-F6.diff, of the two digests over the forwarded names and values *)
Definition p_F4_fwd (fx : fixes) (a b : step) : bool :=
  both forwards a b && fx6 fx &&
  (collide (kv_fields (fwd_pairs (i_fwdh (st_inst a)) (q_headers (st_req a))))
           (kv_fields (fwd_pairs (i_fwdh (st_inst b)) (q_headers (st_req b)))) ||
   collide (kv_fields (fwd_pairs (i_fwdc (st_inst a)) (q_cookies (st_req a))))
           (kv_fields (fwd_pairs (i_fwdc (st_inst b)) (q_cookies (st_req b))))).

Definition p_F4 (fx : fixes) (H : string -> string) (a b : step) : bool := p_F4k fx H a b || p_F4_fwd fx a b.

Definition g_F4 (fx : fixes) (H : string -> string) (steps : list step) : bool := exists_pair (p_F4 fx H) steps.

(** C11-F6: forwarded header / cookie VALUES differ between two look-ups of a
    generic contextualizer or authenticator (only the names are in the key of the
    contextualizer; the authenticator's key has neither names nor values, nor its
    payload template) *)
Definition fwd_eqb (a b : step) : bool :=
  alist_eqb (fwd (i_fwdh (st_inst a)) (q_headers (st_req a))) (fwd (i_fwdh (st_inst b)) (q_headers (st_req b))) &&
  alist_eqb (fwd (i_fwdc (st_inst a)) (q_cookies (st_req a))) (fwd (i_fwdc (st_inst b)) (q_cookies (st_req b))).

Definition p_F6 (a b : step) : bool :=
  both forwards a b &&
  negb (fwd_eqb a b &&
        match i_kind (st_inst a) with
        | KGen => option_eqb tpl_eqb (i_payload (st_inst a)) (i_payload (st_inst b))
        | _ => true
        end).

Definition g_F6 (fx : fixes) (H : string -> string) (steps : list step) : bool := exists_pair (keyed fx H p_F6) steps.

Definition ep_uses_outputs (e : ep) : bool :=
  uses_outputs (e_url e) || existsb (fun kt => uses_outputs (snd kt)) (e_headers e).

Definition templated (s : step) : bool :=
  match i_kind (st_inst s) with
  | KRemote | KCtx => enabled (st_inst s) && ep_uses_outputs (i_ep (st_inst s))
  | _ => false
  end.

(** C11-F7: the endpoint's URL or header templates read `.Outputs`, which is not
    in the key, and the outputs differ between two look-ups *)
Definition p_F7 (a b : step) : bool :=
  both templated a b && negb (alist_eqb (q_outputs (st_req a)) (q_outputs (st_req b))).

Definition g_F7 (fx : fixes) (H : string -> string) (steps : list step) : bool := exists_pair (keyed fx H p_F7) steps.

(* ------------------------------------------------------------------ well-formed inputs *)

(** maps are represented by association lists sorted strictly by key *)
Fixpoint sortedb {A} (l : list (string * A)) : bool :=
  match l with
  | [] => true
  | (k1, _) :: r => match r with
                    | [] => true
                    | (k2, _) :: _ => String.ltb k1 k2 && sortedb r
                    end
  end.

Fixpoint no_char (c : ascii) (s : string) : bool :=
  match s with
  | EmptyString => true
  | String x r => negb (Ascii.eqb x c) && no_char c r
  end.

(** a template piece whose Go text can be read back: literals are not empty and
    contain no brace, names contain neither a blank nor a quote *)
Definition name_ok (n : string) : bool := no_char " " n && no_char """" n.

Definition wf_pieceb (p : piece) : bool :=
  match p with
  | PLit s => negb (String.eqb s "") && no_char "{" s
  | PValue n | POutput n | PReqHeader n => name_ok n
  | PSubjectID | PAuthData => true
  end.

Fixpoint no_adjacent_lits (t : tpl) : bool :=
  match t with
  | [] => true
  | p :: r => match p, r with
              | PLit _, PLit _ :: _ => false
              | _, _ => no_adjacent_lits r
              end
  end.

Definition wf_tplb (t : tpl) : bool := forallb wf_pieceb t && no_adjacent_lits t.

Definition wf_instb (i : inst) : bool :=
  let e := eff_ep i in
  sortedb (e_headers e) && sortedb (i_values i) && wf_tplb (e_url e) &&
  forallb (fun kt => wf_tplb (snd kt)) (e_headers e) &&
  match i_payload i with Some t => wf_tplb t | None => true end.

(* ------------------------------------------------------------------ what a key is made of *)

(** the components a cache key is derived from: the mechanism kind, the
    endpoint (url, method, headers, authentication strategy), the strings
    written (credential; or id, forwarded names, rendered payload, ttl bytes,
    the subject's JSON) and the rendered values *)
Record comps := { kc_kind : kind; kc_ep : ep; kc_strs : list string; kc_vals : alist }.

Definition components (s : step) : option comps :=
  let i := st_inst s in
  let q := st_req s in
  match i_kind i with
  | KIntro => Some {| kc_kind := KIntro; kc_ep := eff_ep i; kc_strs := [q_cred q; ttl_hash (i_ttl i)]; kc_vals := [] |}
  | KGen => Some {| kc_kind := KGen; kc_ep := eff_ep i; kc_strs := [q_cred q; ttl_hash (Some (ttl_val i))]; kc_vals := [] |}
  | KRemote =>
    match rendered i q with
    | None => None
    | Some (vals, payload) =>
      Some {| kc_kind := KRemote; kc_ep := eff_ep i;
              kc_strs := [i_id i; join "," (i_up i); payload; le64 (ttl_val i); q_sub_json q]; kc_vals := vals |}
    end
  | KCtx =>
    match rendered i q with
    | None => None
    | Some (vals, payload) =>
      Some {| kc_kind := KCtx; kc_ep := eff_ep i;
              kc_strs := [i_id i; join "," (i_fwdh i); join "," (i_fwdc i); payload; le64 (ttl_val i); q_sub_json q];
              kc_vals := vals |}
    end
  end.
