(** C11 — guards of the findings for the client-credentials, jwt-finalizer, RFC 7234 and jwt key caches
    (F4 in each of them, F5, F8, F9, F11) *)
From HV Require Export Base.Prelude C11.Model C11.Spec C11.Model2.
Local Open Scope string_scope.
Local Open Scope list_scope.

Definition cc_eqb (a b : cc_cfg) : bool :=
  String.eqb (cc_url a) (cc_url b) && String.eqb (cc_id a) (cc_id b) && String.eqb (cc_secret a) (cc_secret b) &&
  strs_eqb (cc_scopes a) (cc_scopes b) && option_eqb Z.eqb (cc_ttl a) (cc_ttl b) &&
  Bool.eqb (cc_body_auth a) (cc_body_auth b).

(** C11-F4 for client credentials: id | secret | url | scopes are written without delimiters *)
Definition p_cc_F4 (a b : cc_cfg) : bool :=
  cc_enabled a && cc_enabled b && collide (cc_fields a) (cc_fields b).

Definition g_cc_F4 (h : list cc_cfg) : bool := exists_pair p_cc_F4 h.

(** C11-F5: a reload installs a new key under a key id that was in use before
    (tokens signed with the old key of that id may still be cached).
    [seen]: the key ids used so far. *)
Fixpoint g_F5_from (kid_conf : option string) (seen : list string) (s : signer) (h : list jstep) : bool :=
  match h with
  | [] => false
  | JExec _ _ :: r => g_F5_from kid_conf seen s r
  | JReload kid th :: r =>
    let s' := reload kid_conf s kid th in
    (negb (Nat.eqb (sg_gen s') (sg_gen s)) && str_in (sg_kid s') seen) || g_F5_from kid_conf (sg_kid s' :: seen) s' r
  end.

Definition g_F5 (kid_conf : option string) (s : signer) (h : list jstep) : bool :=
  g_F5_from kid_conf [sg_kid s] s h.

Definition jf_cfg_eqb (a b : jf_cfg) : bool :=
  option_eqb String.eqb (jf_key_id a) (jf_key_id b) && String.eqb (jf_iss a) (jf_iss b) &&
  option_eqb tpl_eqb (jf_claims a) (jf_claims b) && Z.eqb (jf_ttl a) (jf_ttl b).

Definition jreq_eqb (a b : jreq) : bool :=
  String.eqb (j_sub_id a) (j_sub_id b) && String.eqb (j_sub_json a) (j_sub_json b) &&
  alist_eqb (j_outputs a) (j_outputs b) && String.eqb (j_outputs_json a) (j_outputs_json b).

(** the executions of a history with the signer in use at that moment *)
Fixpoint timeline (kc : option string) (s : signer) (h : list jstep) : list (signer * jf_cfg * jreq) :=
  match h with
  | [] => []
  | JExec c q :: r => (s, c, q) :: timeline kc s r
  | JReload kid th :: r => timeline kc (reload kc s kid th) r
  end.

(** C11-F4 for the finalizer: the writes of the key or of the signer's hash may be shifted *)
Definition p_jf_F4 (fx5 : bool) (H : string -> string) (x y : signer * jf_cfg * jreq) : bool :=
  let '(s1, c1, q1) := x in
  let '(s2, c2, q2) := y in
  collide (jf_fields fx5 H s1 c1 q1) (jf_fields fx5 H s2 c2 q2) ||
  collide (signer_fields fx5 s1 c1) (signer_fields fx5 s2 c2).

Definition g_jf_F4 (fx5 : bool) (H : string -> string) (kc : option string) (s : signer) (h : list jstep) : bool :=
  exists_pair (p_jf_F4 fx5 H) (timeline kc s h).

Definition hc_same_key (a b : hc_cfg * hc_req) : bool := flds_eqb (hc_fields (fst a)) (hc_fields (fst b)).

(** C11-F8 (code before 12fdf68): the RFC 7234 cache ignores `Vary`: a stored response is reused for a
    request to the same url, method and Authorization whose Vary-selected headers differ *)
Definition p_F8 (fx8 : bool) (w : hc_world) (a b : hc_cfg * hc_req) : bool :=
  hc_stores fx8 w (fst a) && hc_same_key a b &&
  negb (String.eqb (hc_vary_part w (fst a) (snd a)) (hc_vary_part w (fst b) (snd b))).

Definition g_F8 (fx8 : bool) (w : hc_world) (h : list (hc_cfg * hc_req)) : bool := exists_pair (p_F8 fx8 w) h.

(** C11-F9 (code before 12fdf68): POST requests are answered from the cache, whatever their body *)
Definition p_F9 (fx8 : bool) (w : hc_world) (a b : hc_cfg * hc_req) : bool :=
  hc_stores fx8 w (fst a) && hc_is_post (fst a) && hc_same_key a b &&
  negb (String.eqb (hq_body (snd a)) (hq_body (snd b))).

Definition g_F9 (fx8 : bool) (w : hc_world) (h : list (hc_cfg * hc_req)) : bool := exists_pair (p_F9 fx8 w) h.

(** C11-F4 for the RFC 7234 cache: "RFC 7234" | url | method | Authorization *)
Definition g_hc_F4 (h : list (hc_cfg * hc_req)) : bool :=
  exists_pair (fun a b => collide (hc_fields (fst a)) (hc_fields (fst b))) h.

Definition hc_cfg_eqb (a b : hc_cfg) : bool :=
  String.eqb (hc_url a) (hc_url b) && String.eqb (hc_method a) (hc_method b) && String.eqb (hc_auth a) (hc_auth b).

Definition hc_req_eqb (a b : hc_req) : bool :=
  alist_eqb (hq_headers a) (hq_headers b) && String.eqb (hq_body a) (hq_body b).

(** C11-F4 for the jwt authenticator's key cache: endpoint hash | rendered url | key id *)
Definition p_jk_F4 (H : string -> string) (a b : jk_cfg * jtok) : bool :=
  jk_enabled (fst a) && jk_enabled (fst b) &&
  (collide (jk_fields H (fst a) (snd a)) (jk_fields H (fst b) (snd b)) ||
   collide (jk_ep_fields (fst a)) (jk_ep_fields (fst b))).

Definition g_jk_F4 (H : string -> string) (h : list (jk_cfg * jtok)) : bool := exists_pair (p_jk_F4 H) h.

Definition jk_cfg_eqb (a b : jk_cfg) : bool :=
  String.eqb (jurl_text (jk_url a)) (jurl_text (jk_url b)) && alist_eqb (jk_headers a) (jk_headers b) &&
  option_eqb Z.eqb (jk_ttl a) (jk_ttl b) && Bool.eqb (jk_validate a) (jk_validate b).

(** C11-F11 (= C05-F4): two jwt authenticators on one JWKS endpoint of which only one validates the
    JWK's certificate chain look the same key up (the key has no mechanism id, a hit skips validateJWK) *)
Definition p_F11 (H : string -> string) (a b : jk_cfg * jtok) : bool :=
  jk_enabled (fst a) && jk_enabled (fst b) &&
  flds_eqb (jk_fields H (fst a) (snd a)) (jk_fields H (fst b) (snd b)) &&
  negb (Bool.eqb (jk_validate (fst a)) (jk_validate (fst b))).

Definition g_F11 (H : string -> string) (h : list (jk_cfg * jtok)) : bool := exists_pair (p_F11 H) h.

Definition jtok_eqb (a b : jtok) : bool :=
  String.eqb (t_iss a) (t_iss b) && String.eqb (t_kid a) (t_kid b) && String.eqb (t_signer a) (t_signer b) &&
  String.eqb (t_sub a) (t_sub b).
