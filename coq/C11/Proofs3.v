(** C11 — proofs, part 3: the token caches of the client-credentials strategy and
    of the jwt finalizer as instances of the memo-table machine. *)
From Coq Require Import Permutation.
From HV Require Import Base.Prelude C11.Model C11.Spec C11.Model2 C11.Spec2 C11.Proofs C11.Proofs2.
Local Open Scope string_scope.
Local Open Scope list_scope.

(* ------------------------------------------------------------------ client credentials *)

Definition cc_areq (H : string -> string) (c : cc_cfg) : areq :=
  {| a_key := cc_key H c; a_fresh := (OAllow (cc_result c), 1); a_store := true; a_recheck := OAllow |}.

Lemma cc_exec_aexec H cch c : cc_exec H cch c = aexec cch (cc_areq H c).
Proof. unfold cc_exec, aexec, cc_areq. simpl. destruct (cc_key H c); reflexivity. Qed.

Lemma cc_run_arun H : forall h cch, cc_run H cch h = arun cch (map (cc_areq H) h).
Proof.
  induction h as [|c h IH]; intro cch; simpl; [reflexivity|].
  rewrite cc_exec_aexec. destruct (aexec cch (cc_areq H c)) as [x c']. now rewrite IH.
Qed.

Lemma map_FV_inj : forall a b : list string, map FV a = map FV b -> a = b.
Proof.
  induction a as [|x a IH]; intros [|y b] E; simpl in E; try discriminate; auto.
  injection E as -> E. now rewrite (IH b E).
Qed.

Lemma map_FV_tail_inj : forall (a b : list string) x y, map FV a ++ [FX x] = map FV b ++ [FX y] -> a = b.
Proof.
  induction a as [|u a IH]; intros [|v b] x y E; simpl in E; try discriminate; auto.
  injection E as -> E. now rewrite (IH b x y E).
Qed.

Lemma cc_key_inj H a b k :
  injective H -> cc_key H a = Some k -> cc_key H b = Some k -> collide (cc_fields a) (cc_fields b) = false ->
  cc_result a = cc_result b.
Proof.
  intros Hinj Ka Kb G. unfold cc_key in Ka, Kb.
  destruct (cc_enabled a); [|discriminate]. destruct (cc_enabled b); [|discriminate].
  injection Ka as <-. injection Kb as E. apply hex_inj in E. apply Hinj in E. symmetry in E.
  apply (collide_inj _ _ G) in E. unfold cc_fields in E. simpl in E.
  remember (cc_ttl_bytes (cc_ttl a)) as ta. remember (cc_ttl_bytes (cc_ttl b)) as tb.
  injection E as Ei Es Eu Esc. apply map_FV_tail_inj in Esc.
  unfold cc_result, cc_token. now rewrite Ei, Es, Eu, Esc.
Qed.

(** Client credentials: for a collision-free SHA-256 and every sequence of
    configurations whose pre-images cannot be shifted against each other, every
    token served with the cache is the token a fresh request would obtain. *)
Theorem cc_cache_transparent : forall H h,
  injective H -> g_cc_F4 h = false ->
  map sr_out (cc_run H [] h) = map (fun c => OAllow (cc_result c)) h.
Proof.
  intros H h Hinj G. rewrite cc_run_arun.
  rewrite cache_transparent_abstract.
  - rewrite map_map. reflexivity.
  - intros a b k r Ia Ib Ka Kb _ Fa.
    apply in_map_iff in Ia as (ca & <- & Ia). apply in_map_iff in Ib as (cb & <- & Ib).
    simpl in *. injection Fa as <-.
    destruct (exists_pair_false _ h ca cb G Ia Ib) as [->|[P _]]; [reflexivity|].
    unfold p_cc_F4 in P. unfold cc_key in Ka, Kb.
    destruct (cc_enabled ca) eqn:Ea; [|discriminate]. destruct (cc_enabled cb) eqn:Eb; [|discriminate].
    simpl in P. f_equal. eapply (cc_key_inj H ca cb k); eauto; unfold cc_key; now rewrite ?Ea, ?Eb.
Qed.

Definition w_cc (scopes : list string) : cc_cfg :=
  {| cc_url := "http://idp/t/a"; cc_id := "cid"; cc_secret := "sec"; cc_scopes := scopes; cc_ttl := None;
     cc_body_auth := false |}.

(** C11-F4 for client credentials: scopes [ab c] and [a bc] share the key; the
    second client is handed the token issued for the first one's scope *)
Theorem cc_F4_refuted :
  exists a b, g_cc_F4 [a; b] = true /\
    forall H, map sr_out (cc_run H [] [a; b]) <> map (fun c => OAllow (cc_result c)) [a; b].
Proof.
  exists (w_cc ["ab"; "c"]), (w_cc ["a"; "bc"]). split; [reflexivity|].
  intros H E. rewrite cc_run_arun in E.
  eapply (incompatible_not_transparent (cc_areq H (w_cc ["ab"; "c"])) (cc_areq H (w_cc ["a"; "bc"]))
            _ (cc_result (w_cc ["ab"; "c"]))); try reflexivity.
  - simpl. discriminate.
  - simpl in E. simpl. exact E.
Qed.

(* ------------------------------------------------------------------ jwt finalizer *)

Definition jf_areq (fx5 : bool) (H : string -> string) (x : signer * jf_cfg * jreq) : areq :=
  let '(s, c, q) := x in
  {| a_key := Some (jf_key fx5 H s c q); a_fresh := (jf_fresh s c q, 0); a_store := jf_stores c; a_recheck := OAllow |}.

Lemma jf_exec_aexec fx5 H s cch c q : jf_exec fx5 H s cch c q = aexec cch (jf_areq fx5 H (s, c, q)).
Proof. unfold jf_exec, aexec, jf_areq. simpl. destruct (lookup _ cch); reflexivity. Qed.

Lemma jrun_arun fx5 H kc : forall h s cch,
  map fst (jrun fx5 H kc s cch h) = arun cch (map (jf_areq fx5 H) (timeline kc s h)) /\
  map snd (jrun fx5 H kc s cch h) = map (fun a => fst (a_fresh a)) (map (jf_areq fx5 H) (timeline kc s h)).
Proof.
  induction h as [|[c q|kid th] h IH]; intros s cch.
  - simpl; auto.
  - cbn [jrun timeline map arun]. rewrite jf_exec_aexec.
    destruct (aexec cch (jf_areq fx5 H (s, c, q))) as [x c'] eqn:X.
    destruct (IH s c') as [E1 E2]. cbn [map fst snd]. rewrite E1, E2. split; reflexivity.
  - cbn [jrun timeline]. apply IH.
Qed.

(** outside the guard of C11-F5 a key id is never reused for a new key: two
    moments of the history with the same key id have the same key *)
Lemma timeline_kids kc : forall h seen s,
  g_F5_from kc seen s h = false -> In (sg_kid s) seen ->
  (forall x, In x (timeline kc s h) -> fst (fst x) = s \/ ~ In (sg_kid (fst (fst x))) seen) /\
  (forall x y, In x (timeline kc s h) -> In y (timeline kc s h) ->
     sg_kid (fst (fst x)) = sg_kid (fst (fst y)) -> fst (fst x) = fst (fst y)).
Proof.
  induction h as [|[c q|kid th] h IH]; intros seen s G Is; simpl in *.
  - split; intros; contradiction.
  - destruct (IH seen s G Is) as [A B]. split.
    + intros x [<-|I]; [left; reflexivity | now apply A].
    + intros x y [<-|Ix] [<-|Iy] E; simpl in *; auto.
      * destruct (A y Iy) as [->|N]; auto. exfalso. apply N. now rewrite <- E.
      * destruct (A x Ix) as [->|N]; auto. exfalso. apply N. now rewrite E.
  - apply orb_false_iff in G as [G1 G2].
    destruct (Nat.eqb_spec (sg_gen (reload kc s kid th)) (sg_gen s)) as [Eg|Ng].
    + (* the reload failed: the signer is unchanged *)
      assert (Es : reload kc s kid th = s).
      { unfold reload in *. destruct kc as [k|]; [destruct (String.eqb k kid)|]; simpl in Eg; auto; lia. }
      rewrite Es in *. destruct (IH (sg_kid s :: seen) s G2 (or_introl eq_refl)) as [A B]. split; auto.
      intros x I. destruct (A x I) as [E|N]; auto. right. intro J. apply N. now right.
    + simpl in G1. unfold str_in in G1.
      assert (Nk : ~ In (sg_kid (reload kc s kid th)) seen).
      { intro J. assert (T : existsb (String.eqb (sg_kid (reload kc s kid th))) seen = true).
        { apply existsb_exists. exists (sg_kid (reload kc s kid th)). split; auto. apply String.eqb_refl. }
        congruence. }
      destruct (IH (sg_kid (reload kc s kid th) :: seen) (reload kc s kid th) G2 (or_introl eq_refl)) as [A B].
      split; auto. intros x I. right. destruct (A x I) as [->|N]; auto. intro J. apply N. now right.
Qed.

(** what the JSON and template texts that enter the key stand for *)
Definition jf_faithful (x y : signer * jf_cfg * jreq) : Prop :=
  let '(_, c1, q1) := x in
  let '(_, c2, q2) := y in
  (option_map tpl_text (jf_claims c1) = option_map tpl_text (jf_claims c2) -> jf_claims c1 = jf_claims c2) /\
  (j_sub_json q1 = j_sub_json q2 -> j_sub_id q1 = j_sub_id q2) /\
  (j_outputs_json q1 = j_outputs_json q2 -> j_outputs q1 = j_outputs q2).

(** distinct keys have distinct thumbprints *)
Definition thumbs_faithful (tl : list (signer * jf_cfg * jreq)) : Prop :=
  forall x y, In x tl -> In y tl -> sg_thumb (fst (fst x)) = sg_thumb (fst (fst y)) -> fst (fst x) = fst (fst y).

Local Opaque le64.

Lemma jf_key_inj fx5 H s1 c1 q1 s2 c2 q2 :
  injective H -> jf_key fx5 H s1 c1 q1 = jf_key fx5 H s2 c2 q2 ->
  p_jf_F4 fx5 H (s1, c1, q1) (s2, c2, q2) = false -> jf_faithful (s1, c1, q1) (s2, c2, q2) ->
  sg_kid s1 = sg_kid s2 /\ (fx5 = true -> sg_thumb s1 = sg_thumb s2) /\ jf_iss c1 = jf_iss c2 /\
  jf_claims c1 = jf_claims c2 /\ j_sub_id q1 = j_sub_id q2 /\ j_outputs q1 = j_outputs q2.
Proof.
  intros Hinj E G (Fc & Fs & Fo). unfold jf_key in E. apply hex_inj in E. apply Hinj in E.
  unfold p_jf_F4 in G. apply orb_false_iff in G as [G1 G2].
  apply (collide_inj _ _ G1) in E. unfold jf_fields in E.
  remember (le64 (jf_ttl c1)) as t1. remember (le64 (jf_ttl c2)) as t2.
  simpl in E. injection E as Esg E.
  apply Hinj in Esg. apply (collide_inj _ _ G2) in Esg. unfold signer_fields in Esg.
  assert (Ek : sg_kid s1 = sg_kid s2 /\ jf_iss c1 = jf_iss c2 /\ (fx5 = true -> sg_thumb s1 = sg_thumb s2)).
  { destruct fx5; simpl in Esg; injection Esg; intros; subst; splits; auto; discriminate. }
  destruct Ek as (Ekid & Eiss & Eth).
  assert (Ecl : option_map tpl_text (jf_claims c1) = option_map tpl_text (jf_claims c2) /\
                j_sub_json q1 = j_sub_json q2 /\ j_outputs_json q1 = j_outputs_json q2).
  { destruct (jf_claims c1), (jf_claims c2); simpl in E; injection E; intros; subst;
      repeat match goal with X : H _ = H _ |- _ => apply Hinj in X end; splits; simpl; congruence. }
  destruct Ecl as (Ec & Ej & Eo). splits; auto.
Qed.

(** jwt finalizer: for a collision-free SHA-256 and every history of executions
    and key-store reloads, every token served with the cache is a token a fresh
    evaluation would issue at that moment (same subject, claims, issuer, key id
    and key) — provided the signer's hash covers the key ([fx5], the repair), or
    no reload puts a new key under a key id used before (guard of C11-F5) — and
    no two pre-images can be shifted against each other. *)
Theorem jf_cache_transparent : forall fx5 H kc s h,
  injective H ->
  (fx5 = true /\ thumbs_faithful (timeline kc s h)) \/ g_F5 kc s h = false ->
  (forall x y, In x (timeline kc s h) -> In y (timeline kc s h) -> p_jf_F4 fx5 H x y = false /\ jf_faithful x y) ->
  map (fun m => sr_out (fst m)) (jrun fx5 H kc s [] h) = map snd (jrun fx5 H kc s [] h).
Proof.
  intros fx5 H kc s h Hinj G5 Pw.
  destruct (jrun_arun fx5 H kc h s []) as [E1 E2].
  rewrite <- map_map, E1, E2. apply cache_transparent_abstract.
  intros a b k r Ia Ib Ka Kb _ Fa.
  apply in_map_iff in Ia as ([[s1 c1] q1] & <- & Ia). apply in_map_iff in Ib as ([[s2 c2] q2] & <- & Ib).
  simpl in *. injection Ka as Ka. injection Kb as Kb.
  destruct (Pw _ _ Ia Ib) as [P F].
  destruct (jf_key_inj fx5 H s1 c1 q1 s2 c2 q2 Hinj) as (Ek & Eth & Ei & Ec & Es & Eo); auto; [congruence|].
  assert (Esg : s1 = s2).
  { destruct G5 as [[F5 Th]|G5].
    - apply (Th _ _ Ia Ib). simpl. now apply Eth.
    - destruct (timeline_kids kc h [sg_kid s] s G5 (or_introl eq_refl)) as [_ Kids].
      apply (Kids _ _ Ia Ib Ek). }
  subst s2. rewrite <- Fa. unfold jf_fresh, jf_claims_text. now rewrite Ei, Ec, Es, Eo.
Qed.

Definition w_jf : jf_cfg :=
  {| jf_key_id := Some "k1"; jf_iss := "heimdall"; jf_claims := None; jf_ttl := five_min |}.

Definition w_jreq : jreq :=
  {| j_sub_id := "alice"; j_sub_json := "{""ID"":""alice"",""Attributes"":{}}"; j_outputs := []; j_outputs_json := "{}" |}.

(** C11-F5 (the code before d9caf75): after a reload that keeps the key id the cached token
    (signed with the old key) is served, a fresh evaluation signs with the new key *)
Theorem F5_refuted :
  exists kc s h, g_F5 kc s h = true /\
    forall H, map (fun m => sr_out (fst m)) (jrun false H kc s [] h) <> map snd (jrun false H kc s [] h).
Proof.
  exists (Some "k1"), {| sg_kid := "k1"; sg_gen := 0; sg_thumb := "t0" |},
         [JExec w_jf w_jreq; JReload "k1" "t1"; JExec w_jf w_jreq].
  split; [reflexivity|]. intros H E.
  cbn [jrun] in E. unfold jf_exec in E. simpl lookup in E. cbv iota in E.
  unfold jf_stores in E. simpl in E. rewrite String.eqb_refl in E. simpl in E. discriminate.
Qed.

(* ------------------------------------------------------------------ RFC 7234 cache of an endpoint *)

Definition hc_areq (fx8 : bool) (H : string -> string) (w : hc_world) (x : hc_cfg * hc_req) : areq :=
  {| a_key := if hc_looks_up fx8 (fst x) then Some (hc_key H (fst x)) else None;
     a_fresh := (OAllow (hc_result w (fst x) (snd x)), 1); a_store := hc_stores fx8 w (fst x); a_recheck := OAllow |}.

Lemma hc_exec_aexec fx8 H w cch c q : hc_exec fx8 H w cch c q = aexec cch (hc_areq fx8 H w (c, q)).
Proof.
  unfold hc_exec, aexec, hc_areq. simpl. destruct (hc_looks_up fx8 c); simpl; [|reflexivity].
  destruct (lookup _ cch); reflexivity.
Qed.

Lemma hc_run_arun fx8 H w : forall h cch, hc_run fx8 H w cch h = arun cch (map (hc_areq fx8 H w) h).
Proof.
  induction h as [|[c q] h IH]; intro cch; simpl; [reflexivity|].
  rewrite hc_exec_aexec. destruct (aexec cch (hc_areq fx8 H w (c, q))) as [y c']. now rewrite IH.
Qed.

Lemma hc_fields_cfg a b : hc_fields a = hc_fields b -> a = b.
Proof.
  destruct a as [u m x], b as [u' m' x']. unfold hc_fields. simpl.
  destruct (String.eqb_spec x ""), (String.eqb_spec x' ""); simpl; intro E; injection E; intros; subst; try reflexivity;
    try discriminate; congruence.
Qed.

(** RFC 7234 cache: for a collision-free SHA-256 and every history of requests to any endpoints, outside the
    guards of C11-F4 (url | method | Authorization shifted), C11-F8 (requests that differ in a header the server
    lists in Vary) and C11-F9 (POST requests with different bodies) every response served from the cache is the
    one a fresh request would get *)
Theorem hc_cache_transparent : forall fx8 H w h,
  injective H -> g_hc_F4 h = false -> g_F8 fx8 w h = false -> g_F9 fx8 w h = false ->
  map sr_out (hc_run fx8 H w [] h) = map (fun x => OAllow (hc_result w (fst x) (snd x))) h.
Proof.
  intros fx8 H w h Hinj G4 G8 G9. rewrite hc_run_arun.
  rewrite cache_transparent_abstract; [now rewrite map_map|].
  intros a b k r Ia Ib Ka Kb Sa Fa.
  apply in_map_iff in Ia as ([c0 q0] & <- & Ia). apply in_map_iff in Ib as ([c1 q1] & <- & Ib).
  simpl in *. destruct (hc_looks_up fx8 c0); [|discriminate]. destruct (hc_looks_up fx8 c1); [|discriminate].
  injection Ka as Ka. injection Kb as Kb. injection Fa as <-.
  assert (Ec : c0 = c1).
  { apply hc_fields_cfg.
    destruct (exists_pair_false _ h (c0, q0) (c1, q1) G4 Ia Ib) as [E|[P _]]; [now injection E as -> _|].
    simpl in P. apply (collide_inj _ _ P). apply Hinj. apply hex_inj. unfold hc_key in *. congruence. }
  subst c1.
  destruct (exists_pair_false _ h (c0, q0) (c0, q1) G8 Ia Ib) as [E|[P8 _]]; [injection E as ->; reflexivity|].
  destruct (exists_pair_false _ h (c0, q0) (c0, q1) G9 Ia Ib) as [E|[P9 _]]; [injection E as ->; reflexivity|].
  unfold p_F8, p_F9, hc_same_key in P8, P9. simpl in P8, P9.
  assert (Sk : flds_eqb (hc_fields c0) (hc_fields c0) = true) by now apply flds_eqb_eq.
  rewrite Sk, Sa in P8, P9. simpl in P8, P9.
  apply negb_false_iff in P8. apply String.eqb_eq in P8.
  unfold hc_result, hc_body. rewrite P8.
  destruct (hc_is_post c0); simpl in P9; [|reflexivity].
  apply negb_false_iff in P9. apply String.eqb_eq in P9. now rewrite P9.
Qed.

Lemma exists_pair_never {A} (f : A -> A -> bool) : (forall a b, f a b = false) -> forall l, exists_pair f l = false.
Proof.
  intros F l. induction l as [|x l IH]; [reflexivity|]. simpl. rewrite IH, orb_false_r.
  clear IH. induction l as [|y l IH]; [reflexivity|]. simpl. now rewrite !F, IH.
Qed.

(** with the repair 12fdf68 the guards of F8 and F9 never fire *)
Lemma repaired_no_guard w h : g_F8 true w h = false /\ g_F9 true w h = false.
Proof.
  split; apply exists_pair_never; intros [c q] [c' q']; unfold p_F8, p_F9, hc_stores, hc_vary_part; simpl.
  - destruct (hc_cacheable w c); simpl; auto.
    destruct (hc_vary w c) as [|v vs] eqn:V; simpl; auto.
    destruct (hc_is_post c); simpl; auto.
    destruct (hc_same_key (c, q) (c', q')) eqn:S; simpl; auto.
    unfold hc_same_key in S. simpl in S. apply flds_eqb_eq in S. apply hc_fields_cfg in S. subst c'. now rewrite V.
  - destruct (hc_cacheable w c); simpl; auto.
    destruct (hc_vary w c); simpl; auto. destruct (hc_is_post c); simpl; auto.
Qed.

(** the RFC 7234 cache as it is since 12fdf68: transparent on every history of requests to any endpoints,
    for a collision-free SHA-256 and outside the guard of C11-F4 *)
Theorem hc_cache_transparent_repaired : forall H w h,
  injective H -> g_hc_F4 h = false ->
  map sr_out (hc_run true H w [] h) = map (fun x => OAllow (hc_result w (fst x) (snd x))) h.
Proof. intros H w h Hi G. destruct (repaired_no_guard w h). now apply hc_cache_transparent. Qed.

Definition w_hc (method : string) : hc_cfg := {| hc_url := "http://ctx/h/x"; hc_method := method; hc_auth := "" |}.

(** C11-F8: the response fetched for X-User: alice — which the server declares to
    vary with X-User — is served to the request with X-User: bobby *)
Theorem F8_refuted :
  exists w a b, g_F8 false w [a; b] = true /\
    forall H, map sr_out (hc_run false H w [] [a; b]) <> map (fun x => OAllow (hc_result w (fst x) (snd x))) [a; b].
Proof.
  exists [("http://ctx/h/x", (["X-User"], true))],
         (w_hc "GET", {| hq_headers := [("X-User", "alice")]; hq_body := "" |}),
         (w_hc "GET", {| hq_headers := [("X-User", "bobby")]; hq_body := "" |}).
  split; [reflexivity|].
  intros H E. cbn [hc_run] in E. unfold hc_exec in E. simpl in E. rewrite String.eqb_refl in E. simpl in E.
  discriminate.
Qed.

(** C11-F9: a POST with the body p=bobby is answered with the stored response to the POST with the body p=alice *)
Theorem F9_refuted :
  exists w a b, g_F9 false w [a; b] = true /\ g_F8 false w [a; b] = false /\
    forall H, map sr_out (hc_run false H w [] [a; b]) <> map (fun x => OAllow (hc_result w (fst x) (snd x))) [a; b].
Proof.
  exists [("http://ctx/h/x", ([], true))],
         (w_hc "POST", {| hq_headers := []; hq_body := "p=alice" |}),
         (w_hc "POST", {| hq_headers := []; hq_body := "p=bobby" |}).
  splits; try reflexivity.
  intros H E. cbn [hc_run] in E. unfold hc_exec in E. simpl in E. rewrite String.eqb_refl in E. simpl in E.
  discriminate.
Qed.

(* ------------------------------------------------------------------ key cache of the jwt authenticator *)

Lemma jk_key_inj H c t c' t' k :
  injective H -> jk_key H c t = Some k -> jk_key H c' t' = Some k -> p_jk_F4 H (c, t) (c', t') = false ->
  jurl_render (jk_url c) (t_iss t) = jurl_render (jk_url c') (t_iss t') /\ t_kid t = t_kid t'.
Proof.
  intros Hinj K K' G. unfold jk_key in K, K'. unfold p_jk_F4 in G. simpl in G.
  destruct (jk_enabled c); [|discriminate]. destruct (jk_enabled c'); [|discriminate]. simpl in G.
  apply orb_false_iff in G as [G _].
  injection K as <-. injection K' as E. apply hex_inj in E. apply Hinj in E. symmetry in E.
  apply (collide_inj _ _ G) in E. unfold jk_fields in E.
  remember (ttl_hash (jk_ttl c)) as ta. remember (ttl_hash (jk_ttl c')) as tb.
  injection E as _ Eu Ek _. auto.
Qed.

Lemma jk_lookup_ext w c t c' t' :
  jurl_render (jk_url c) (t_iss t) = jurl_render (jk_url c') (t_iss t') -> t_kid t = t_kid t' ->
  jk_lookup w c t = jk_lookup w c' t'.
Proof. intros Eu Ek. unfold jk_lookup. now rewrite Eu, Ek. Qed.

(** cache invariant: every cached key belongs to the JWKS URL and key id it was fetched for, and
    passed the validation of the instance that fetched it *)
Definition jk_backed (H : string -> string) (w : jwks_world) (seen : list (jk_cfg * jtok)) (cch : cache) : Prop :=
  forall k r, lookup k cch = Some r ->
    exists x, In x seen /\ jk_key H (fst x) (snd x) = Some k /\
              jk_lookup w (fst x) (snd x) = JKKey (rs_sub r) (rs_active r) /\ jk_rejects (fst x) (rs_active r) = false.

Lemma p_jk_F4_self H x : p_jk_F4 H x x = false.
Proof. unfold p_jk_F4. rewrite !collide_refl. now rewrite andb_false_r. Qed.

Lemma jk_run_transparent fx11 H w : forall h seen cch,
  injective H -> g_jk_F4 H (seen ++ h) = false -> (fx11 = true \/ g_F11 H (seen ++ h) = false) ->
  jk_backed H w seen cch ->
  map sr_out (jk_run fx11 H w cch h) = map (fun x => jk_fresh w (fst x) (snd x)) h.
Proof.
  induction h as [|[c t] h IH]; intros seen cch Hinj G G11 B; [reflexivity|].
  cbn [jk_run]. unfold jk_exec.
  assert (G' : g_jk_F4 H ((seen ++ [(c, t)]) ++ h) = false) by (now rewrite <- app_assoc).
  assert (G11' : fx11 = true \/ g_F11 H ((seen ++ [(c, t)]) ++ h) = false) by (now rewrite <- app_assoc).
  assert (Keep : forall cch', (forall k0 r0, lookup k0 cch' = Some r0 -> lookup k0 cch = Some r0 \/
                   (jk_key H c t = Some k0 /\ jk_lookup w c t = JKKey (rs_sub r0) (rs_active r0) /\
                    jk_rejects c (rs_active r0) = false)) ->
                 jk_backed H w (seen ++ [(c, t)]) cch').
  { intros cch' N k0 r0 L0. destruct (N k0 r0 L0) as [L|(K0 & Lk0 & R0)].
    - destruct (B k0 r0 L) as (x & I & Kx & Lx & Rx). exists x. splits; auto. apply in_or_app; auto.
    - exists (c, t). splits; auto. apply in_or_app; right; left; reflexivity. }
  (* the cache after a fetch for (c, t) under key k *)
  assert (Fetched : forall k, jk_key H c t = Some k ->
            jk_backed H w (seen ++ [(c, t)])
              (match jk_lookup w c t with
               | JKKey o tr => if jk_rejects c tr then cch else (k, jk_key_result o tr) :: cch
               | _ => cch
               end)).
  { intros k K. apply Keep. intros k0 r0 L0. destruct (jk_lookup w c t) as [| |o tr] eqn:Lk; auto.
    destruct (jk_rejects c tr) eqn:R; auto.
    simpl in L0. destruct (String.eqb_spec k0 k) as [->|N]; auto.
    injection L0 as <-. right. simpl. auto. }
  destruct (jk_key H c t) as [k|] eqn:K.
  - destruct (lookup k cch) as [r|] eqn:L.
    + destruct (fx11 && jk_rejects c (rs_active r)) eqn:Ign.
      * (* the entry is ignored: a fetch *)
        cbn [map sr_out fst snd]. f_equal. apply (IH (seen ++ [(c, t)])); auto.
      * cbn [map sr_out fst snd]. f_equal.
        -- destruct (B k r L) as ([c' t'] & I & K' & Lk & Rk). simpl in K', Lk, Rk.
           assert (Ic' : In (c', t') (seen ++ (c, t) :: h)) by (apply in_or_app; auto).
           assert (Ic : In (c, t) (seen ++ (c, t) :: h)) by (apply in_or_app; right; left; reflexivity).
           assert (P : p_jk_F4 H (c', t') (c, t) = false).
           { destruct (exists_pair_false _ _ (c', t') (c, t) G Ic' Ic) as [E|[P _]]; auto.
             injection E as -> ->. apply p_jk_F4_self. }
           destruct (jk_key_inj H c' t' c t k Hinj K' K P) as [Eu Ek].
           unfold jk_fresh. rewrite <- (jk_lookup_ext w c' t' c t Eu Ek), Lk.
           assert (Rc : jk_rejects c (rs_active r) = false).
           { destruct G11 as [->|G11]; [exact Ign|].
             (* without the repair: the two instances validate alike, and the fetching one accepted the key *)
             assert (Ev : jk_validate c' = jk_validate c).
             { destruct (exists_pair_false _ _ (c', t') (c, t) G11 Ic' Ic) as [E|[P11 _]]; [now injection E as -> _|].
               unfold p_F11 in P11. simpl in P11. unfold jk_key in K, K'.
               destruct (jk_enabled c') eqn:E1; [|discriminate]. destruct (jk_enabled c) eqn:E2; [|discriminate].
               injection K as K. injection K' as K'. simpl in P11.
               assert (Ef : jk_fields H c' t' = jk_fields H c t).
               { unfold p_jk_F4 in P. simpl in P. rewrite E1, E2 in P. simpl in P. apply orb_false_iff in P as [P _].
                 apply (collide_inj _ _ P). apply Hinj. apply hex_inj. congruence. }
               rewrite Ef in P11. assert (T : flds_eqb (jk_fields H c t) (jk_fields H c t) = true) by now apply flds_eqb_eq.
               rewrite T in P11. simpl in P11. apply negb_false_iff in P11. now apply Bool.eqb_prop in P11. }
             unfold jk_rejects in *. now rewrite <- Ev. }
           now rewrite Rc.
        -- apply (IH (seen ++ [(c, t)])); auto; apply Keep; auto.
    + cbn [map sr_out fst snd]. f_equal. apply (IH (seen ++ [(c, t)])); auto.
  - cbn [map sr_out fst snd]. f_equal. apply (IH (seen ++ [(c, t)])); auto; apply Keep; auto.
Qed.

(** Key cache of the jwt authenticator: for a collision-free SHA-256 and every
    history of tokens at any instances — any claimed issuers, key ids and signing keys,
    templated or literal JWKS URL — in which no two pre-images collide and (unless
    repaired) no two instances that differ in validate_jwk share a key (guard of C11-F11),
    a token is verified with the cache exactly as without it: with the key published at
    the JWKS URL rendered for THIS token's issuer, validated as THIS instance demands. *)
Theorem jk_cache_transparent : forall fx11 H w h,
  injective H -> g_jk_F4 H h = false -> (fx11 = true \/ g_F11 H h = false) ->
  map sr_out (jk_run fx11 H w [] h) = map (fun x => jk_fresh w (fst x) (snd x)) h.
Proof.
  intros fx11 H w h Hinj G G11. apply (jk_run_transparent fx11 H w h [] []); auto. intros k r L. discriminate.
Qed.

Definition w_jk (validate : bool) : jk_cfg :=
  {| jk_url := JLit "http://idp/jwks"; jk_headers := [("Accept", "application/json")]; jk_ttl := None;
     jk_validate := validate |}.

Definition w_jtok : jtok := {| t_iss := "isc"; t_kid := "k1"; t_signer := "isc"; t_sub := "alice" |}.

(** C11-F11: a JWK whose certificate does not validate, cached through the authenticator with
    validate_jwk: false, is used by the one on the same JWKS endpoint that validates *)
Theorem F11_refuted :
  exists w a b, (forall H, g_F11 H [a; b] = true) /\
    forall H, map sr_out (jk_run false H w [] [a; b]) <> map (fun x => jk_fresh w (fst x) (snd x)) [a; b].
Proof.
  exists [("http://idp/jwks", [("k1", ("isc", false))])], (w_jk false, w_jtok), (w_jk true, w_jtok).
  split.
  - intro H. unfold g_F11. cbn [exists_pair existsb]. unfold p_F11. simpl.
    assert (T : forall f, flds_eqb f f = true) by (intro f; now apply flds_eqb_eq). now rewrite T.
  - intros H E. cbn [jk_run] in E. unfold jk_exec in E. simpl in E. rewrite String.eqb_refl in E. simpl in E.
    discriminate.
Qed.
