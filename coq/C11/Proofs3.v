(** C11 — proofs, part 3: the token caches of the client-credentials strategy and
    of the jwt finalizer as instances of the memo-table machine. *)
From Coq Require Import Permutation.
From HV Require Import Base.Prelude C11.Model C11.Spec C11.Model2 C11.Spec2 C11.Proofs C11.Proofs2.
Local Open Scope string_scope.
Local Open Scope list_scope.

(* ------------------------------------------------------------------ client credentials *)

Definition cc_areq (H : string -> string) (c : cc_cfg) : areq :=
  {| a_key := cc_key H c; a_fresh := (OAllow (cc_result c), 1); a_store := true; a_recheck := OAllow |}.

Lemma cc_exec_aexec H cch c : cc_exec H cch c = aexec cch (cc_areq H c).
Proof. unfold cc_exec, aexec, cc_areq. simpl. destruct (cc_key H c); reflexivity. Qed.

Lemma cc_run_arun H : forall h cch, cc_run H cch h = arun cch (map (cc_areq H) h).
Proof.
  induction h as [|c h IH]; intro cch; simpl; [reflexivity|].
  rewrite cc_exec_aexec. destruct (aexec cch (cc_areq H c)) as [x c']. now rewrite IH.
Qed.

Lemma map_FV_inj : forall a b : list string, map FV a = map FV b -> a = b.
Proof.
  induction a as [|x a IH]; intros [|y b] E; simpl in E; try discriminate; auto.
  injection E as -> E. now rewrite (IH b E).
Qed.

Lemma cc_key_inj H a b k :
  injective H -> cc_key H a = Some k -> cc_key H b = Some k -> guard_shift (cc_fields a) (cc_fields b) = false ->
  cc_result a = cc_result b.
Proof.
  intros Hinj Ka Kb G. unfold cc_key in Ka, Kb.
  destruct (cc_enabled a); [|discriminate]. destruct (cc_enabled b); [|discriminate].
  injection Ka as <-. injection Kb as E. apply hex_inj in E. apply Hinj in E. symmetry in E.
  apply (no_boundary_shift _ _ G) in E. unfold cc_fields in E. simpl in E.
  injection E as Ei Es Eu Esc. apply map_FV_inj in Esc.
  unfold cc_result, cc_token. now rewrite Ei, Es, Eu, Esc.
Qed.

(** Client credentials: for a collision-free SHA-256 and every sequence of
    configurations whose pre-images cannot be shifted against each other, every
    token served with the cache is the token a fresh request would obtain. *)
Theorem cc_cache_transparent : forall H h,
  injective H -> g_cc_F4 h = false ->
  map sr_out (cc_run H [] h) = map (fun c => OAllow (cc_result c)) h.
Proof.
  intros H h Hinj G. rewrite cc_run_arun.
  rewrite cache_transparent_abstract.
  - rewrite map_map. reflexivity.
  - intros a b k r Ia Ib Ka Kb Fa.
    apply in_map_iff in Ia as (ca & <- & Ia). apply in_map_iff in Ib as (cb & <- & Ib).
    simpl in *. injection Fa as <-.
    destruct (exists_pair_false _ h ca cb G Ia Ib) as [->|[P _]]; [reflexivity|].
    unfold p_cc_F4 in P. unfold cc_key in Ka, Kb.
    destruct (cc_enabled ca) eqn:Ea; [|discriminate]. destruct (cc_enabled cb) eqn:Eb; [|discriminate].
    simpl in P. f_equal. eapply (cc_key_inj H ca cb k); eauto; unfold cc_key; now rewrite ?Ea, ?Eb.
Qed.

Definition w_cc (scopes : list string) : cc_cfg :=
  {| cc_url := "http://idp/t/a"; cc_id := "cid"; cc_secret := "sec"; cc_scopes := scopes; cc_ttl := None;
     cc_body_auth := false |}.

(** C11-F4 for client credentials: scopes [ab c] and [a bc] share the key; the
    second client is handed the token issued for the first one's scope *)
Theorem cc_F4_refuted :
  exists a b, g_cc_F4 [a; b] = true /\
    forall H, map sr_out (cc_run H [] [a; b]) <> map (fun c => OAllow (cc_result c)) [a; b].
Proof.
  exists (w_cc ["ab"; "c"]), (w_cc ["a"; "bc"]). split; [reflexivity|].
  intros H E. rewrite cc_run_arun in E.
  apply (incompatible_not_transparent (cc_areq H (w_cc ["ab"; "c"])) (cc_areq H (w_cc ["a"; "bc"]))
           (hex (H "cidsechttp://idp/t/aabc")) (cc_result (w_cc ["ab"; "c"]))); try reflexivity.
  - simpl. discriminate.
  - simpl in E. simpl. exact E.
Qed.

(* ------------------------------------------------------------------ jwt finalizer *)

Definition jf_areq (H : string -> string) (x : signer * jf_cfg * jreq) : areq :=
  let '(s, c, q) := x in
  {| a_key := Some (jf_key H s c q); a_fresh := (jf_fresh s c q, 0); a_store := jf_stores c; a_recheck := OAllow |}.

Lemma jf_exec_aexec H s cch c q : jf_exec H s cch c q = aexec cch (jf_areq H (s, c, q)).
Proof. unfold jf_exec, aexec, jf_areq. simpl. destruct (lookup _ cch); reflexivity. Qed.

Lemma jrun_arun H kc : forall h s cch,
  map fst (jrun H kc s cch h) = arun cch (map (jf_areq H) (timeline kc s h)) /\
  map snd (jrun H kc s cch h) = map (fun a => fst (a_fresh a)) (map (jf_areq H) (timeline kc s h)).
Proof.
  induction h as [|[c q|kid] h IH]; intros s cch.
  - simpl; auto.
  - cbn [jrun timeline map arun]. rewrite jf_exec_aexec.
    destruct (aexec cch (jf_areq H (s, c, q))) as [x c'] eqn:X.
    destruct (IH s c') as [E1 E2]. cbn [map fst snd]. rewrite E1, E2. split; reflexivity.
  - cbn [jrun timeline]. apply IH.
Qed.

(** outside the guard of C11-F5 a key id is never reused for a new key: two
    moments of the history with the same key id have the same key *)
Lemma timeline_kids kc : forall h seen s,
  g_F5_from kc seen s h = false -> In (sg_kid s) seen ->
  (forall x, In x (timeline kc s h) -> fst (fst x) = s \/ ~ In (sg_kid (fst (fst x))) seen) /\
  (forall x y, In x (timeline kc s h) -> In y (timeline kc s h) ->
     sg_kid (fst (fst x)) = sg_kid (fst (fst y)) -> fst (fst x) = fst (fst y)).
Proof.
  induction h as [|[c q|kid] h IH]; intros seen s G Is; simpl in *.
  - split; intros; contradiction.
  - destruct (IH seen s G Is) as [A B]. split.
    + intros x [<-|I]; [left; reflexivity | now apply A].
    + intros x y [<-|Ix] [<-|Iy] E; simpl in *; auto.
      * destruct (A y Iy) as [->|N]; auto. exfalso. apply N. now rewrite <- E.
      * destruct (A x Ix) as [->|N]; auto. exfalso. apply N. now rewrite E.
  - apply orb_false_iff in G as [G1 G2].
    destruct (Nat.eqb_spec (sg_gen (reload kc s kid)) (sg_gen s)) as [Eg|Ng].
    + (* the reload failed: the signer is unchanged *)
      assert (Es : reload kc s kid = s).
      { unfold reload in *. destruct kc as [k|]; [destruct (String.eqb k kid)|]; simpl in Eg; auto; lia. }
      rewrite Es in *. destruct (IH (sg_kid s :: seen) s G2 (or_introl eq_refl)) as [A B]. split; auto.
      intros x I. destruct (A x I) as [E|N]; auto. right. intro J. apply N. now right.
    + simpl in G1. unfold str_in in G1.
      assert (Nk : ~ In (sg_kid (reload kc s kid)) seen).
      { intro J. assert (T : existsb (String.eqb (sg_kid (reload kc s kid))) seen = true).
        { apply existsb_exists. exists (sg_kid (reload kc s kid)). split; auto. apply String.eqb_refl. }
        congruence. }
      destruct (IH (sg_kid (reload kc s kid) :: seen) (reload kc s kid) G2 (or_introl eq_refl)) as [A B].
      split; auto. intros x I. right. destruct (A x I) as [->|N]; auto. intro J. apply N. now right.
Qed.

(** what the JSON and template texts that enter the key stand for *)
Definition jf_faithful (x y : signer * jf_cfg * jreq) : Prop :=
  let '(_, c1, q1) := x in
  let '(_, c2, q2) := y in
  (option_map tpl_text (jf_claims c1) = option_map tpl_text (jf_claims c2) -> jf_claims c1 = jf_claims c2) /\
  (j_sub_json q1 = j_sub_json q2 -> j_sub_id q1 = j_sub_id q2) /\
  (j_outputs_json q1 = j_outputs_json q2 -> j_outputs q1 = j_outputs q2).

Local Opaque le64.

Lemma jf_key_inj H s1 c1 q1 s2 c2 q2 :
  injective H -> jf_key H s1 c1 q1 = jf_key H s2 c2 q2 ->
  p_jf_F4 H (s1, c1, q1) (s2, c2, q2) = false -> jf_faithful (s1, c1, q1) (s2, c2, q2) ->
  sg_kid s1 = sg_kid s2 /\ jf_iss c1 = jf_iss c2 /\ jf_claims c1 = jf_claims c2 /\
  j_sub_id q1 = j_sub_id q2 /\ j_outputs q1 = j_outputs q2.
Proof.
  intros Hinj E G (Fc & Fs & Fo). unfold jf_key in E. apply hex_inj in E. apply Hinj in E.
  unfold p_jf_F4 in G. apply orb_false_iff in G as [G1 G2].
  apply (no_boundary_shift _ _ G1) in E. unfold jf_fields in E.
  remember (le64 (jf_ttl c1)) as t1. remember (le64 (jf_ttl c2)) as t2.
  simpl in E. injection E as Esg E.
  apply Hinj in Esg. apply (no_boundary_shift _ _ G2) in Esg. unfold signer_fields in Esg.
  injection Esg as Ekid Eiss.
  assert (Ecl : option_map tpl_text (jf_claims c1) = option_map tpl_text (jf_claims c2) /\
                j_sub_json q1 = j_sub_json q2 /\ j_outputs_json q1 = j_outputs_json q2).
  { destruct (jf_claims c1), (jf_claims c2); simpl in E; injection E; intros; subst;
      repeat match goal with X : H _ = H _ |- _ => apply Hinj in X end; splits; simpl; congruence. }
  destruct Ecl as (Ec & Ej & Eo). splits; auto.
Qed.

(** jwt finalizer: for a collision-free SHA-256 and every history of executions
    and key-store reloads in which no reload puts a new key under a key id used
    before (guard of C11-F5) and no two pre-images can be shifted against each
    other, every token served with the cache is a token a fresh evaluation
    would issue at that moment (same subject, claims, issuer, key id and key). *)
Theorem jf_cache_transparent : forall H kc s h,
  injective H -> g_F5 kc s h = false ->
  (forall x y, In x (timeline kc s h) -> In y (timeline kc s h) -> p_jf_F4 H x y = false /\ jf_faithful x y) ->
  map (fun m => sr_out (fst m)) (jrun H kc s [] h) = map snd (jrun H kc s [] h).
Proof.
  intros H kc s h Hinj G5 Pw.
  destruct (jrun_arun H kc h s []) as [E1 E2].
  rewrite <- map_map, E1, E2. apply cache_transparent_abstract.
  destruct (timeline_kids kc h [sg_kid s] s G5 (or_introl eq_refl)) as [_ Kids].
  intros a b k r Ia Ib Ka Kb Fa.
  apply in_map_iff in Ia as ([[s1 c1] q1] & <- & Ia). apply in_map_iff in Ib as ([[s2 c2] q2] & <- & Ib).
  simpl in *. injection Ka as Ka. injection Kb as Kb.
  destruct (Pw _ _ Ia Ib) as [P F].
  destruct (jf_key_inj H s1 c1 q1 s2 c2 q2 Hinj) as (Ek & Ei & Ec & Es & Eo); auto; [congruence|].
  pose proof (Kids _ _ Ia Ib Ek) as Esg. simpl in Esg. subst s2.
  rewrite <- Fa. unfold jf_fresh, jf_claims_text. now rewrite Ei, Ec, Es, Eo.
Qed.

Definition w_jf : jf_cfg :=
  {| jf_key_id := Some "k1"; jf_iss := "heimdall"; jf_claims := None; jf_ttl := five_min |}.

Definition w_jreq : jreq :=
  {| j_sub_id := "alice"; j_sub_json := "{""ID"":""alice"",""Attributes"":{}}"; j_outputs := []; j_outputs_json := "{}" |}.

(** C11-F5: after a reload that keeps the key id the cached token (signed with
    the old key) is served, a fresh evaluation signs with the new key *)
Theorem F5_refuted :
  exists kc s h, g_F5 kc s h = true /\
    forall H, map (fun m => sr_out (fst m)) (jrun H kc s [] h) <> map snd (jrun H kc s [] h).
Proof.
  exists (Some "k1"), {| sg_kid := "k1"; sg_gen := 0 |}, [JExec w_jf w_jreq; JReload "k1"; JExec w_jf w_jreq].
  split; [reflexivity|]. intros H E.
  cbn [jrun] in E. unfold jf_exec in E. simpl lookup in E. cbv iota in E.
  unfold jf_stores in E. simpl in E. rewrite String.eqb_refl in E. simpl in E. discriminate.
Qed.
