(** C11 — proofs.  Part 1: byte strings, pre-images without boundary shifting,
    iteration-order independence, the cache as a transparent memo table, hits. *)
From Coq Require Import Permutation.
From HV Require Import Base.Prelude C11.Model C11.Spec.
Local Open Scope string_scope.
Local Open Scope list_scope.

Ltac splits := repeat match goal with |- _ /\ _ => split end.

(* ------------------------------------------------------------------ strings *)

Lemma sapp_length a b : String.length (a ++ b)%string = String.length a + String.length b.
Proof. induction a; simpl; auto. Qed.

Lemma sapp_assoc a b c : ((a ++ b) ++ c = a ++ (b ++ c))%string.
Proof. induction a; simpl; congruence. Qed.

Lemma sapp_nil_r a : (a ++ "")%string = a.
Proof. induction a; simpl; congruence. Qed.

(** equal-length heads of equal concatenations are equal *)
Lemma sapp_inv_len : forall a a' b b',
  String.length a = String.length a' -> (a ++ b = a' ++ b')%string -> a = a' /\ b = b'.
Proof.
  induction a as [|c a IH]; intros [|c' a'] b b' L E; simpl in *; try discriminate.
  - auto.
  - injection E as -> E. injection L as L. destruct (IH _ _ _ L E) as [-> ->]. auto.
Qed.

Lemma sapp_inv_tail : forall a a' b, (a ++ b = a' ++ b)%string -> a = a'.
Proof.
  intros a a' b E.
  assert (L : String.length a = String.length a').
  { apply (f_equal String.length) in E. rewrite !sapp_length in E. lia. }
  apply (sapp_inv_len _ _ _ _ L E).
Qed.

Lemma cat_cons x l : cat (x :: l) = (fbytes x ++ cat l)%string.
Proof.
  unfold cat. destruct l as [|y l]; simpl.
  - now rewrite sapp_nil_r.
  - reflexivity.
Qed.

Lemma cat_nil : cat [] = "".
Proof. reflexivity. Qed.

Lemma cat_app a b : cat (a ++ b) = (cat a ++ cat b)%string.
Proof.
  induction a as [|x a IH]; simpl.
  - reflexivity.
  - rewrite !cat_cons, IH, sapp_assoc. reflexivity.
Qed.

(* ------------------------------------------------------------------ hex is injective *)

Lemma unhex_hex_char (a : ascii) :
  ascii_of_N (unhex_digit (hexdigit (N_of_ascii a / 16)) * 16 + unhex_digit (hexdigit (N_of_ascii a mod 16))) = a.
Proof. destruct a as [[] [] [] [] [] [] [] []]; reflexivity. Qed.

Lemma unhex_hex s : unhex (hex s) = s.
Proof. induction s as [|a s IH]; simpl; [reflexivity|]. rewrite unhex_hex_char, IH. reflexivity. Qed.

Lemma hex_inj a b : hex a = hex b -> a = b.
Proof. intro E. apply (f_equal unhex) in E. now rewrite !unhex_hex in E. Qed.

(* ------------------------------------------------------------------ C11-F4: no boundary shifting *)

Lemma fld_eq_of_bytes x y : fld_same_shape x y = true -> fbytes x = fbytes y -> x = y.
Proof. destruct x, y; simpl; intros S E; try discriminate; congruence. Qed.

Lemma same_shape_len0 : forall a b,
  same_shape a b = true -> len_diffs a b = 0 -> String.length (cat a) = String.length (cat b).
Proof.
  induction a as [|x a IH]; intros [|y b] S D; simpl in *; try discriminate; auto.
  apply andb_true_iff in S as [_ S].
  rewrite !cat_cons, !sapp_length.
  destruct (Nat.eqb_spec (String.length (fbytes x)) (String.length (fbytes y))) as [E|N].
  - rewrite E, (IH b S); [reflexivity | lia].
  - simpl in D. discriminate.
Qed.

(** two pre-images with the same sequence of writes in which at most one
    write differs in length are equal only if all writes are equal *)
Theorem cat_inj : forall a b,
  same_shape a b = true -> len_diffs a b <= 1 -> cat a = cat b -> a = b.
Proof.
  induction a as [|x a IH]; intros [|y b] S D E; simpl in *; try discriminate; auto.
  apply andb_true_iff in S as [Sx S].
  rewrite !cat_cons in E.
  destruct (Nat.eqb_spec (String.length (fbytes x)) (String.length (fbytes y))) as [L|N].
  - destruct (sapp_inv_len _ _ _ _ L E) as [Ex Er].
    rewrite (fld_eq_of_bytes _ _ Sx Ex). f_equal. apply IH; auto.
  - exfalso. assert (D0 : len_diffs a b = 0) by (simpl in D; lia).
    pose proof (same_shape_len0 a b S D0) as L.
    apply (f_equal String.length) in E. rewrite !sapp_length in E. lia.
Qed.

Corollary no_boundary_shift : forall a b,
  guard_shift a b = false -> cat a = cat b -> a = b.
Proof.
  intros a b G E. unfold guard_shift in G. apply orb_false_iff in G as [S D].
  apply negb_false_iff in S. apply Nat.leb_gt in D. apply cat_inj; auto. lia.
Qed.

Lemma fld_eqb_eq a b : fld_eqb a b = true <-> a = b.
Proof.
  destruct a, b; simpl; split; intro E; try discriminate; try (apply String.eqb_eq in E; congruence);
    injection E as ->; apply String.eqb_refl.
Qed.

Lemma flds_eqb_eq a b : flds_eqb a b = true <-> a = b.
Proof. apply list_eqb_spec, fld_eqb_eq. Qed.

(** outside the exact guard of C11-F4 a pre-image determines its writes *)
Lemma collide_inj a b : collide a b = false -> cat a = cat b -> a = b.
Proof.
  unfold collide. intros G E. rewrite E, String.eqb_refl in G. simpl in G.
  apply negb_false_iff in G. now apply flds_eqb_eq.
Qed.

Lemma collide_intro a b : cat a = cat b -> a <> b -> collide a b = true.
Proof.
  intros E N. unfold collide. rewrite E, String.eqb_refl. simpl. apply negb_true_iff.
  destruct (flds_eqb a b) eqn:F; auto. exfalso. apply N. now apply flds_eqb_eq.
Qed.

Lemma collide_refl a : collide a a = false.
Proof. unfold collide. rewrite String.eqb_refl. simpl. apply negb_false_iff. now apply flds_eqb_eq. Qed.

(** a collision needs a shift: the exact guard lies inside the structural one *)
Theorem collide_needs_shift a b : collide a b = true -> guard_shift a b = true.
Proof.
  intro C. destruct (guard_shift a b) eqn:G; auto. exfalso.
  unfold collide in C. apply andb_true_iff in C as [E N]. apply String.eqb_eq in E.
  apply (no_boundary_shift _ _ G) in E. subst b. apply negb_true_iff in N.
  assert (T : flds_eqb a a = true) by now apply flds_eqb_eq. congruence.
Qed.

Theorem F4_refuted :
  exists a b, collide a b = true /\ cat a = cat b /\ a <> b.
Proof.
  exists [FV "v1"; FV "1"; FV "v2"; FV "v22"], [FV "v1"; FV "1v2"; FV "v2"; FV "2"].
  splits; [reflexivity | reflexivity | discriminate].
Qed.

(* ------------------------------------------------------------------ C11-F1: iteration order *)

Lemma perm_short {A} (l l' : list A) : Permutation l l' -> length l' <= 1 -> l = l'.
Proof.
  intros P L. destruct l' as [|x [|y t]]; simpl in L; try lia.
  - apply Permutation_sym in P. now apply Permutation_nil in P.
  - apply Permutation_sym in P. now apply Permutation_length_1_inv in P.
Qed.

(** the iteration orders Go may use for the two maps of an instance *)
Definition valid_orders (i : inst) (ho vo : list string) : Prop :=
  Permutation ho (map fst (e_headers (eff_ep i))) /\ Permutation vo (map fst (i_values i)).

Theorem key_deterministic : forall fx H i q ho ho' vo vo',
  valid_orders i ho vo -> valid_orders i ho' vo' -> order_free i = true \/ fx1 fx = true ->
  cache_key fx H ho vo i q = cache_key fx H ho' vo' i q.
Proof.
  intros fx H i q ho ho' vo vo' [P1 P2] [P1' P2'] [F|F].
  2: { unfold cache_key, key_fields, key_fields0, ep_hash, ep_fields, hash_order. rewrite F. reflexivity. }
  unfold order_free in F. apply andb_true_iff in F as [F1 F2].
  apply Nat.leb_le in F1, F2.
  assert (ho = ho') as ->.
  { rewrite (perm_short _ _ P1), (perm_short _ _ P1'); auto; now rewrite map_length. }
  assert (vo = vo') as ->.
  { rewrite (perm_short _ _ P2), (perm_short _ _ P2'); auto; now rewrite map_length. }
  reflexivity.
Qed.

Definition five_min : Z := 300000000000%Z.

Definition w_gen_two_headers : inst :=
  {| i_kind := KGen; i_id := "ga";
     i_ep := {| e_url := [PLit "http://idp/g/id"]; e_method := "GET";
                e_headers := [("X-A", [PLit "1"]); ("X-B", [PLit "2"])]; e_auth := ANone |};
     i_fwdh := []; i_fwdc := []; i_up := []; i_payload := None; i_values := []; i_ttl := Some five_min;
     i_scopes := []; i_aud := []; i_session := false; i_exprs := [] |}.

Definition q_plain (cred : string) : reqdata :=
  {| q_headers := []; q_cookies := []; q_outputs := []; q_sub_id := ""; q_sub_json := ""; q_cred := cred |}.

Definition injective (H : string -> string) : Prop := forall a b, H a = H b -> a = b.

(** with two endpoint headers the two possible iteration orders give two
    different keys for the very same request (whatever SHA-256 is, as long as
    it does not collide) *)
Theorem F1_refuted :
  exists i q ho ho',
    order_free i = false /\ valid_orders i ho [] /\ valid_orders i ho' [] /\
    forall H, injective H -> cache_key fx_none H ho [] i q <> cache_key fx_none H ho' [] i q.
Proof.
  exists w_gen_two_headers, (q_plain "t.alice.r"), ["X-A"; "X-B"], ["X-B"; "X-A"].
  splits.
  - reflexivity.
  - split; simpl; [apply Permutation_refl | constructor].
  - split; simpl; [apply perm_swap | constructor].
  - intros H Hinj E. unfold cache_key in E. simpl in E.
    injection E as E. apply hex_inj in E. apply Hinj in E.
    unfold cat in E. simpl in E. apply sapp_inv_tail in E. apply Hinj in E. discriminate.
Qed.

(* ------------------------------------------------------------------ the cache is a memo table *)

(** What [exec_cached] needs to know about a step: the key it looks up and the
    answer of a fresh evaluation. *)
Record areq := { a_key : option string; a_fresh : outcome * nat; a_store : bool;
                 a_recheck : result -> outcome (* what a hit makes of the stored result *) }.

Definition aexec (c : cache) (a : areq) : sres * cache :=
  match a_key a with
  | None =>
    let '(o, n) := a_fresh a in ({| sr_key := None; sr_hit := false; sr_calls := n; sr_out := o |}, c)
  | Some k =>
    match lookup k c with
    | Some r => ({| sr_key := Some k; sr_hit := true; sr_calls := 0; sr_out := a_recheck a r |}, c)
    | None =>
      let '(o, n) := a_fresh a in
      ({| sr_key := Some k; sr_hit := false; sr_calls := n; sr_out := o |},
       match o with OAllow r => if a_store a then (k, r) :: c else c | _ => c end)
    end
  end.

Fixpoint arun (c : cache) (l : list areq) : list sres :=
  match l with
  | [] => []
  | a :: r => let '(x, c') := aexec c a in x :: arun c' r
  end.

Definition areq_of (fx : fixes) (H : string -> string) (w : world) (s : step) : areq :=
  {| a_key := cache_key fx H (st_ho s) (st_vo s) (st_inst s) (st_req s);
     a_fresh := exec_fresh w (st_inst s) (st_req s); a_store := true;
     a_recheck := recheck fx (st_inst s) |}.

Lemma exec_cached_aexec fx H w c s :
  exec_cached fx H w c (st_ho s) (st_vo s) (st_inst s) (st_req s) = aexec c (areq_of fx H w s).
Proof. reflexivity. Qed.

Lemma run_cached_arun fx H w : forall h c, run_cached fx H w c h = arun c (map (areq_of fx H w) h).
Proof.
  induction h as [|s h IH]; intro c; simpl; [reflexivity|].
  rewrite exec_cached_aexec. destruct (aexec c (areq_of fx H w s)) as [x c']. now rewrite IH.
Qed.

(** The semantic content of "a result is served from the cache only for a
    request for which a fresh evaluation would yield the same result":
    whenever two requests of the history share a key and a fresh evaluation of
    one is allowed with result [r], what the other makes of a stored [r] is what a
    fresh evaluation of it yields (without re-validation on a hit: it is allowed
    with the same result). *)
Definition compatible (l : list areq) : Prop :=
  forall a b k r, In a l -> In b l -> a_key a = Some k -> a_key b = Some k -> a_store a = true ->
                  fst (a_fresh a) = OAllow r -> a_recheck b r = fst (a_fresh b).

(** cache invariant: every entry is the fresh result of an earlier, storing request with that key *)
Definition backed (seen : list areq) (c : cache) : Prop :=
  forall k r, lookup k c = Some r ->
    exists a, In a seen /\ a_key a = Some k /\ fst (a_fresh a) = OAllow r /\ a_store a = true.

Lemma lookup_cons {A} k k' (v : A) c :
  lookup k ((k', v) :: c) = if String.eqb k k' then Some v else lookup k c.
Proof. reflexivity. Qed.

Lemma aexec_backed seen c a :
  backed seen c -> backed (seen ++ [a]) (snd (aexec c a)).
Proof.
  intros B k r L. unfold aexec in L.
  assert (Old : forall k r, lookup k c = Some r ->
            exists a0, In a0 (seen ++ [a]) /\ a_key a0 = Some k /\ fst (a_fresh a0) = OAllow r /\ a_store a0 = true).
  { intros k0 r0 L0. destruct (B k0 r0 L0) as (a0 & I & K & F & St). exists a0. splits; auto.
    apply in_or_app; auto. }
  destruct (a_key a) as [ka|] eqn:K.
  - destruct (lookup ka c) as [r0|] eqn:Lk; simpl in L; auto.
    destruct (a_fresh a) as [o n] eqn:F. simpl in L.
    destruct o as [r1| |]; simpl in L; auto.
    destruct (a_store a) eqn:Sa; simpl in L; auto.
    destruct (String.eqb_spec k ka) as [->|N]; auto.
    injection L as <-. exists a. splits; auto.
    + apply in_or_app; right; left; reflexivity.
    + now rewrite F.
  - destruct (a_fresh a) as [o n]. simpl in L. auto.
Qed.

Lemma arun_transparent : forall l seen c,
  backed seen c -> compatible (seen ++ l) ->
  map sr_out (arun c l) = map (fun a => fst (a_fresh a)) l.
Proof.
  induction l as [|a l IH]; intros seen c B C; simpl; [reflexivity|].
  pose proof (aexec_backed seen c a B) as B'.
  destruct (aexec c a) as [x c'] eqn:X. simpl in B'. simpl. f_equal.
  - unfold aexec in X. destruct (a_key a) as [k|] eqn:K.
    + destruct (lookup k c) as [r|] eqn:L.
      * injection X as <- <-. simpl.
        destruct (B k r L) as (a0 & I & K0 & F0 & S0).
        apply (C a0 a k r); auto.
        -- apply in_or_app; auto.
        -- apply in_or_app; right; left; reflexivity.
      * destruct (a_fresh a) as [o n]. injection X as <- <-. reflexivity.
    + destruct (a_fresh a) as [o n]. injection X as <- <-. reflexivity.
  - apply (IH (seen ++ [a]) c' B'). now rewrite <- app_assoc.
Qed.

(** enabling the cache changes no outcome of a compatible history *)
Theorem cache_transparent_abstract : forall l,
  compatible l -> map sr_out (arun [] l) = map (fun a => fst (a_fresh a)) l.
Proof.
  intros l C. apply (arun_transparent l [] []); auto.
  intros k r L. discriminate.
Qed.

(** and compatibility is necessary: a history of two requests that is not
    compatible shows different outcomes with and without the cache *)
Theorem incompatible_not_transparent : forall a b k r,
  a_key a = Some k -> a_key b = Some k -> a_store a = true ->
  fst (a_fresh a) = OAllow r -> a_recheck b r <> fst (a_fresh b) ->
  map sr_out (arun [] [a; b]) <> map (fun a => fst (a_fresh a)) [a; b].
Proof.
  intros a b k r Ka Kb Sa Fa Fb E.
  destruct (a_fresh a) as [o n] eqn:FA. simpl in Fa. subst o.
  assert (E1 : aexec [] a = ({| sr_key := Some k; sr_hit := false; sr_calls := n; sr_out := OAllow r |}, [(k, r)])).
  { unfold aexec. rewrite Ka, FA, Sa. reflexivity. }
  assert (E2 : aexec [(k, r)] b = ({| sr_key := Some k; sr_hit := true; sr_calls := 0; sr_out := a_recheck b r |}, [(k, r)])).
  { unfold aexec. rewrite Kb. simpl. rewrite String.eqb_refl. reflexivity. }
  cbn [arun map] in E. rewrite E1 in E. rewrite E2 in E. rewrite FA in E. simpl in E.
  injection E as E. congruence.
Qed.

(* ------------------------------------------------------------------ identical requests hit *)

Lemma lookup_some_mono c a k r :
  lookup k c = Some r -> exists r', lookup k (snd (aexec c a)) = Some r'.
Proof.
  intro L. unfold aexec. destruct (a_key a) as [ka|].
  - destruct (lookup ka c) eqn:Lk; simpl; eauto.
    destruct (a_fresh a) as [o n]. simpl. destruct o; simpl; eauto.
    destruct (a_store a); simpl; eauto.
    destruct (String.eqb k ka); eauto.
  - destruct (a_fresh a). simpl. eauto.
Qed.

Lemma stored_after c a k r :
  a_key a = Some k -> a_store a = true -> fst (a_fresh a) = OAllow r ->
  exists r', lookup k (snd (aexec c a)) = Some r'.
Proof.
  intros K St F. unfold aexec. rewrite K. destruct (lookup k c) eqn:L; simpl; eauto.
  destruct (a_fresh a) as [o n]. simpl in F. subst o. rewrite St. simpl. rewrite String.eqb_refl. eauto.
Qed.

Lemma arun_app : forall l1 l2 c,
  exists c', arun c (l1 ++ l2) = arun c l1 ++ arun c' l2 /\
             (forall k r, lookup k c = Some r -> exists r', lookup k c' = Some r') /\
             (forall a k r, In a l1 -> a_key a = Some k -> a_store a = true -> fst (a_fresh a) = OAllow r ->
                            exists r', lookup k c' = Some r').
Proof.
  induction l1 as [|a l1 IH]; intros l2 c; simpl.
  - exists c. splits; eauto. intros a k r [].
  - destruct (aexec c a) as [x c1] eqn:X.
    destruct (IH l2 c1) as (c' & E & M & S). exists c'. splits.
    + now rewrite E.
    + intros k r L. destruct (lookup_some_mono c a k r L) as [r1 L1]. rewrite X in L1. simpl in L1. eauto.
    + intros a0 k r [<-|I] K St F.
      * destruct (stored_after c a k r K St F) as [r1 L1]. rewrite X in L1. simpl in L1. eauto.
      * eauto.
Qed.

(** a request whose key was looked up by an earlier request that a fresh
    evaluation allows is answered from the cache, without a remote call *)
Theorem hit_abstract : forall l1 a l2 b k r c,
  a_key a = Some k -> a_key b = Some k -> a_store a = true -> fst (a_fresh a) = OAllow r ->
  exists x, nth_error (arun c (l1 ++ a :: l2 ++ [b])) (length l1 + S (length l2)) = Some x /\
            sr_hit x = true /\ sr_calls x = 0.
Proof.
  intros l1 a l2 b k r c Ka Kb Sa Fa.
  replace (l1 ++ a :: l2 ++ [b]) with ((l1 ++ a :: l2) ++ [b]) by (rewrite <- app_assoc; reflexivity).
  destruct (arun_app (l1 ++ a :: l2) [b] c) as (c' & E & _ & St).
  destruct (St a k r) as [r' L]; auto. { apply in_or_app; right; left; reflexivity. }
  rewrite E.
  assert (Len : length (arun c (l1 ++ a :: l2)) = length l1 + S (length l2)).
  { assert (G : forall l c0, length (arun c0 l) = length l).
    { induction l as [|y l IH]; intro c0; simpl; auto. destruct (aexec c0 y). simpl. now rewrite IH. }
    rewrite G, app_length. reflexivity. }
  rewrite nth_error_app2 by lia. rewrite Len, Nat.sub_diag.
  simpl. unfold aexec. rewrite Kb, L. simpl. eexists. splits; reflexivity.
Qed.

(* ------------------------------------------------------------------ stored entries are stable *)

(** an entry stays what it is, whatever is looked up or stored afterwards *)
Lemma aexec_lookup_stable c a k r : lookup k c = Some r -> lookup k (snd (aexec c a)) = Some r.
Proof.
  intro L. unfold aexec. destruct (a_key a) as [ka|].
  - destruct (lookup ka c) eqn:Lk; simpl; auto.
    destruct (a_fresh a) as [o n]. simpl. destruct o; simpl; auto.
    destruct (a_store a); simpl; auto.
    destruct (String.eqb k ka) eqn:E; auto.
    apply String.eqb_eq in E. subst ka. congruence.
  - destruct (a_fresh a). simpl. auto.
Qed.

Lemma arun_hit_stable : forall l2 c b k r,
  lookup k c = Some r -> a_key b = Some k ->
  nth_error (arun c (l2 ++ [b])) (length l2) =
  Some {| sr_key := Some k; sr_hit := true; sr_calls := 0; sr_out := a_recheck b r |}.
Proof.
  induction l2 as [|x l2 IH]; intros c b k r L K; simpl.
  - unfold aexec. rewrite K, L. reflexivity.
  - destruct (aexec c x) as [y c'] eqn:X. simpl. apply IH; auto.
    pose proof (aexec_lookup_stable c x k r L) as S'. now rewrite X in S'.
Qed.

(** A (anything) A: what the first allowed look-up of a key stores is what every later look-up of
    that key receives - after ANY sequence of other look-ups and stores in between *)
Theorem stored_entry_is_returned_abstract : forall c a l2 b k r,
  a_key a = Some k -> lookup k c = None -> a_store a = true -> fst (a_fresh a) = OAllow r -> a_key b = Some k ->
  nth_error (arun c (a :: l2 ++ [b])) (S (length l2)) =
  Some {| sr_key := Some k; sr_hit := true; sr_calls := 0; sr_out := a_recheck b r |}.
Proof.
  intros c a l2 b k r Ka L St F Kb. simpl. destruct (aexec c a) as [y c'] eqn:X. simpl.
  apply arun_hit_stable; auto.
  unfold aexec in X. rewrite Ka, L in X. destruct (a_fresh a) as [o n]. simpl in F. subst o.
  rewrite St in X. injection X as _ <-. simpl. now rewrite String.eqb_refl.
Qed.

(* ------------------------------------------------------------------ the same for histories of steps *)

Definition key_of (fx : fixes) (H : string -> string) (s : step) : option string :=
  cache_key fx H (st_ho s) (st_vo s) (st_inst s) (st_req s).

Lemma same_key_intro fx H a b k : key_of fx H a = Some k -> key_of fx H b = Some k -> same_key fx H a b = true.
Proof. unfold key_of, same_key, step_key. intros -> ->. apply String.eqb_refl. Qed.

Definition fresh_of (w : world) (s : step) : outcome := fst (exec_fresh w (st_inst s) (st_req s)).

(** "a result is served from the cache only for a request for which a fresh
    evaluation would yield the same result", for the look-ups of a history *)
Definition compatible_steps (fx : fixes) (H : string -> string) (w : world) (h : list step) : Prop :=
  forall a b k r, In a h -> In b h -> key_of fx H a = Some k -> key_of fx H b = Some k ->
                  fresh_of w a = OAllow r -> recheck fx (st_inst b) r = fresh_of w b.

(** the same for histories of steps of the real mechanisms' model *)
Theorem stored_entry_is_returned : forall fx H w c a l2 b k r,
  key_of fx H a = Some k -> lookup k c = None -> fst (exec_fresh w (st_inst a) (st_req a)) = OAllow r ->
  key_of fx H b = Some k ->
  nth_error (run_cached fx H w c (a :: l2 ++ [b])) (S (length l2)) =
  Some {| sr_key := Some k; sr_hit := true; sr_calls := 0; sr_out := recheck fx (st_inst b) r |}.
Proof.
  intros fx H w c a l2 b k r Ka L F Kb. rewrite run_cached_arun. simpl map. rewrite map_app. simpl map.
  rewrite <- (map_length (areq_of fx H w) l2).
  apply (stored_entry_is_returned_abstract c (areq_of fx H w a) (map (areq_of fx H w) l2) (areq_of fx H w b) k r); auto.
Qed.

Lemma compatible_steps_areq fx H w h : compatible_steps fx H w h -> compatible (map (areq_of fx H w) h).
Proof.
  intros C a b k r Ia Ib Ka Kb _ Fa.
  apply in_map_iff in Ia as (sa & <- & Ia). apply in_map_iff in Ib as (sb & <- & Ib).
  apply (C sa sb k r); auto.
Qed.

Theorem cache_transparent_steps : forall fx H w h,
  compatible_steps fx H w h ->
  map sr_out (run_cached fx H w [] h) = map fst (run_fresh w h).
Proof.
  intros fx H w h C. rewrite run_cached_arun.
  rewrite (cache_transparent_abstract _ (compatible_steps_areq fx H w h C)).
  unfold run_fresh. rewrite !map_map. reflexivity.
Qed.

Theorem not_transparent_steps : forall fx H w a b k r,
  key_of fx H a = Some k -> key_of fx H b = Some k -> fresh_of w a = OAllow r ->
  recheck fx (st_inst b) r <> fresh_of w b ->
  map sr_out (run_cached fx H w [] [a; b]) <> map fst (run_fresh w [a; b]).
Proof.
  intros fx H w a b k r Ka Kb Fa Fb. rewrite run_cached_arun.
  apply (incompatible_not_transparent (areq_of fx H w a) (areq_of fx H w b) k r); auto.
Qed.

(* ------------------------------------------------------------------ soundness of the equality tests *)

Lemma piece_eqb_eq a b : piece_eqb a b = true -> a = b.
Proof. destruct a, b; simpl; intro E; try discriminate; try reflexivity; apply String.eqb_eq in E; congruence. Qed.

Lemma list_eqb_eq {A} (eqb : A -> A -> bool) :
  (forall x y, eqb x y = true -> x = y) -> forall l1 l2, list_eqb eqb l1 l2 = true -> l1 = l2.
Proof.
  intros S l1. induction l1 as [|x r IH]; intros [|y t] E; simpl in E; try discriminate; auto.
  apply andb_true_iff in E as [E1 E2]. rewrite (S _ _ E1), (IH _ E2). reflexivity.
Qed.

Lemma option_eqb_eq {A} (eqb : A -> A -> bool) :
  (forall x y, eqb x y = true -> x = y) -> forall a b, option_eqb eqb a b = true -> a = b.
Proof. intros S [x|] [y|] E; simpl in E; try discriminate; auto. now rewrite (S _ _ E). Qed.

Lemma tpl_eqb_eq a b : tpl_eqb a b = true -> a = b.
Proof. apply list_eqb_eq, piece_eqb_eq. Qed.

Lemma kt_eqb_eq a b : kt_eqb a b = true -> a = b.
Proof.
  destruct a, b. unfold kt_eqb. simpl. intro E. apply andb_true_iff in E as [E1 E2].
  apply String.eqb_eq in E1. apply tpl_eqb_eq in E2. congruence.
Qed.

Lemma kv_eqb_eq a b : kv_eqb a b = true -> a = b.
Proof.
  destruct a, b. unfold kv_eqb. simpl. intro E. apply andb_true_iff in E as [E1 E2].
  apply String.eqb_eq in E1, E2. congruence.
Qed.

Lemma alist_eqb_eq a b : alist_eqb a b = true -> a = b.
Proof. apply list_eqb_eq, kv_eqb_eq. Qed.

Lemma strs_eqb_eq a b : strs_eqb a b = true -> a = b.
Proof. apply list_eqb_eq. intros x y E. now apply String.eqb_eq. Qed.

Lemma auth_eqb_eq a b : auth_eqb a b = true -> a = b.
Proof.
  destruct a, b; simpl; intro E; try discriminate; auto;
    repeat (apply andb_true_iff in E as [E ?]);
    repeat match goal with
           | X : String.eqb _ _ = true |- _ => apply String.eqb_eq in X
           | X : list_eqb String.eqb _ _ = true |- _ => apply strs_eqb_eq in X
           end; congruence.
Qed.

Lemma ep_eqb_eq a b : ep_eqb a b = true -> a = b.
Proof.
  destruct a, b. unfold ep_eqb. simpl. intro E.
  repeat (apply andb_true_iff in E as [E ?]).
  apply tpl_eqb_eq in E.
  match goal with X : String.eqb _ _ = true |- _ => apply String.eqb_eq in X end.
  match goal with X : list_eqb kt_eqb _ _ = true |- _ => apply (list_eqb_eq _ kt_eqb_eq) in X end.
  match goal with X : auth_eqb _ _ = true |- _ => apply auth_eqb_eq in X end.
  congruence.
Qed.

Lemma kind_eqb_eq a b : kind_eqb a b = true -> a = b.
Proof. destruct a, b; simpl; intro; try discriminate; reflexivity. Qed.

Lemma expr_eqb_eq a b : expr_eqb a b = true -> a = b.
Proof. destruct a, b; simpl; intro E; try discriminate; try reflexivity; apply String.eqb_eq in E; congruence. Qed.

Lemma inst_eqb_eq a b : inst_eqb a b = true -> a = b.
Proof.
  destruct a, b. unfold inst_eqb. simpl. intro E.
  repeat (apply andb_true_iff in E as [E ?]).
  apply kind_eqb_eq in E.
  repeat match goal with
  | X : String.eqb _ _ = true |- _ => apply String.eqb_eq in X
  | X : ep_eqb _ _ = true |- _ => apply ep_eqb_eq in X
  | X : strs_eqb _ _ = true |- _ => apply strs_eqb_eq in X
  | X : option_eqb tpl_eqb _ _ = true |- _ => apply (option_eqb_eq _ tpl_eqb_eq) in X
  | X : list_eqb kt_eqb _ _ = true |- _ => apply (list_eqb_eq _ kt_eqb_eq) in X
  | X : option_eqb Z.eqb _ _ = true |- _ => apply (option_eqb_eq Z.eqb (fun x y => proj1 (Z.eqb_eq x y))) in X
  | X : Bool.eqb _ _ = true |- _ => apply Bool.eqb_prop in X
  | X : list_eqb expr_eqb _ _ = true |- _ => apply (list_eqb_eq _ expr_eqb_eq) in X
  end.
  congruence.
Qed.

Lemma reqdata_eqb_eq a b : reqdata_eqb a b = true -> a = b.
Proof.
  destruct a, b. unfold reqdata_eqb. simpl. intro E.
  repeat (apply andb_true_iff in E as [E ?]).
  apply alist_eqb_eq in E.
  repeat match goal with
  | X : String.eqb _ _ = true |- _ => apply String.eqb_eq in X
  | X : alist_eqb _ _ = true |- _ => apply alist_eqb_eq in X
  end.
  congruence.
Qed.

Lemma same_request_eq a b :
  same_request a b = true -> st_inst a = st_inst b /\ st_req a = st_req b.
Proof.
  unfold same_request. intro E. apply andb_true_iff in E as [E1 E2].
  split; [now apply inst_eqb_eq | now apply reqdata_eqb_eq].
Qed.

(* ------------------------------------------------------------------ identical requests hit *)

(** a caching instance that a fresh evaluation allows has a key *)
Lemma allowed_has_key fx H w i q ho vo r :
  enabled i = true -> fst (exec_fresh w i q) = OAllow r -> exists k, cache_key fx H ho vo i q = Some k.
Proof.
  intros En F. unfold cache_key. rewrite En.
  unfold key_fields, key_fields0. unfold exec_fresh, mk_sent in F.
  destruct (i_kind i); try (eexists; reflexivity);
    destruct (rendered i q) as [[vals payload]|]; try (eexists; reflexivity); simpl in F; discriminate.
Qed.

Definition step_orders_valid (s : step) : Prop := valid_orders (st_inst s) (st_ho s) (st_vo s).

(** Identical requests within the TTL are answered from the cache without
    calling the remote system again, whatever order Go iterated the maps in —
    provided the key does not depend on that order (at most one endpoint header
    and one value: outside the guard of C11-F1). *)
Theorem identical_requests_hit : forall fx H w l1 a l2 b r c,
  same_request a b = true ->
  step_orders_valid a -> step_orders_valid b ->
  enabled (st_inst a) = true -> order_free (st_inst a) = true \/ fx1 fx = true ->
  fresh_of w a = OAllow r ->
  exists x, nth_error (run_cached fx H w c (l1 ++ a :: l2 ++ [b])) (length l1 + S (length l2)) = Some x /\
            sr_hit x = true /\ sr_calls x = 0.
Proof.
  intros fx H w l1 a l2 b r c Same Va Vb En Free Fa.
  destruct (same_request_eq a b Same) as [Ei Eq].
  destruct (allowed_has_key fx H w (st_inst a) (st_req a) (st_ho a) (st_vo a) r En Fa) as [k Ka].
  assert (Kb : key_of fx H b = Some k).
  { unfold key_of. rewrite <- Ka, <- Ei, <- Eq. unfold step_orders_valid in Vb. rewrite <- Ei in Vb.
    apply key_deterministic; auto. }
  rewrite run_cached_arun, map_app. simpl map. rewrite map_app. simpl map.
  destruct (hit_abstract (map (areq_of fx H w) l1) (areq_of fx H w a) (map (areq_of fx H w) l2) (areq_of fx H w b) k r c)
    as (x & N & Hx); auto.
  rewrite !map_length in N. eauto.
Qed.

(* ------------------------------------------------------------------ witnesses of the findings *)

Definition w_world : world :=
  {| t_tok := [("t.alice.r", (true, ["read"], [])); ("t.alice.rw", (true, ["read"; "write"], []));
               ("s.inactive", (false, [], []))]; t_deny := [] |}.

Definition mk_step (i : inst) (q : reqdata) (ho vo : list string) : step :=
  {| st_inst := i; st_req := q; st_ho := ho; st_vo := vo |}.

Definition w_intro (scopes : list string) : inst :=
  {| i_kind := KIntro; i_id := "in";
     i_ep := {| e_url := [PLit "http://idp/i/introspect"]; e_method := ""; e_headers := []; e_auth := ANone |};
     i_fwdh := []; i_fwdc := []; i_up := []; i_payload := None; i_values := []; i_ttl := None;
     i_scopes := scopes; i_aud := []; i_session := false; i_exprs := [] |}.

Definition intro_ho : list string := ["Accept"; "Content-Type"].

(** C11-F2: a token cached through the prototype (no scope requirement) is
    accepted by the rule-level instance that requires the scope "admin" *)
Theorem F2_refuted :
  exists w a b, (forall H, g_F2 fx_none H [a; b] = true) /\ step_orders_valid a /\ step_orders_valid b /\
    forall H, map sr_out (run_cached fx_none H w [] [a; b]) <> map fst (run_fresh w [a; b]).
Proof.
  exists w_world, (mk_step (w_intro []) (q_plain "t.alice.r") intro_ho []),
         (mk_step (w_intro ["admin"]) (q_plain "t.alice.r") intro_ho []).
  splits; try reflexivity.
  - intro H. unfold g_F2, g_F10, keyed. cbn [exists_pair existsb].
    erewrite same_key_intro by reflexivity. reflexivity.
  - split; simpl; [apply Permutation_refl | constructor].
  - split; simpl; [apply Permutation_refl | constructor].
  - intro H. eapply not_transparent_steps; try reflexivity. discriminate.
Qed.

Definition w_remote (exprs : list expr) : inst :=
  {| i_kind := KRemote; i_id := "ra";
     i_ep := {| e_url := [PLit "http://opa/r/authz"]; e_method := ""; e_headers := []; e_auth := ANone |};
     i_fwdh := []; i_fwdc := []; i_up := []; i_payload := Some [PLit "p="; PSubjectID]; i_values := [];
     i_ttl := Some five_min; i_scopes := []; i_aud := []; i_session := false; i_exprs := exprs |}.

Definition q_sub (id : string) (headers outputs : alist) : reqdata :=
  {| q_headers := headers; q_cookies := []; q_outputs := outputs; q_sub_id := id;
     q_sub_json := "{""ID"":""" ++ id ++ """,""Attributes"":{}}"; q_cred := "" |}%string.

(** C11-F3: rule-level expressions are not evaluated on a hit *)
Theorem F3_refuted :
  exists w a b, (forall H, g_F3 fx_none H [a; b] = true) /\ step_orders_valid a /\ step_orders_valid b /\
    forall H, map sr_out (run_cached fx_none H w [] [a; b]) <> map fst (run_fresh w [a; b]).
Proof.
  exists w_world, (mk_step (w_remote []) (q_sub "alice" [] []) [] []),
         (mk_step (w_remote [EFalse]) (q_sub "alice" [] []) [] []).
  splits; try reflexivity.
  - intro H. unfold g_F3, g_F6, g_F7, keyed. cbn [exists_pair existsb].
    erewrite same_key_intro by reflexivity. reflexivity.
  - split; simpl; constructor.
  - split; simpl; constructor.
  - intro H. eapply not_transparent_steps; try reflexivity. discriminate.
Qed.

Definition w_ctx_shift : inst :=
  {| i_kind := KCtx; i_id := "cv";
     i_ep := {| e_url := [PLit "http://ctx/c/ctx"]; e_method := "";
                e_headers := [("X-Val", [PValue "v1"; PLit "|"; PValue "v2"])]; e_auth := ANone |};
     i_fwdh := []; i_fwdc := []; i_up := []; i_payload := None;
     i_values := [("v1", [PReqHeader "X-V1"]); ("v2", [PReqHeader "X-V2"])];
     i_ttl := Some five_min; i_scopes := []; i_aud := []; i_session := false; i_exprs := [] |}.

(** C11-F4 on a history: two values shifted against each other share the key; the
    second request is answered with the response computed for the first *)
Theorem F4_history_refuted :
  exists w a b, (forall H, g_F4 fx_all6 H [a; b] = true) /\ step_orders_valid a /\ step_orders_valid b /\
    forall H, map sr_out (run_cached fx_all6 H w [] [a; b]) <> map fst (run_fresh w [a; b]).
Proof.
  exists w_world,
    (mk_step w_ctx_shift (q_sub "alice" [("X-V1", "1"); ("X-V2", "v22")] []) ["X-Val"] ["v1"; "v2"]),
    (mk_step w_ctx_shift (q_sub "alice" [("X-V1", "1v2"); ("X-V2", "2")] []) ["X-Val"] ["v1"; "v2"]).
  splits.
  - intro H. unfold g_F4. cbn [exists_pair existsb]. apply orb_true_iff. left. apply orb_true_iff. left.
    apply orb_true_iff. left. unfold p_F4. apply orb_true_iff. left.
    unfold p_F4k, both. apply andb_true_iff. split; [reflexivity|].
    apply orb_true_iff. left. apply collide_intro; [reflexivity|].
    unfold opt_fields. simpl. intro E. injection E. discriminate.
  - split; simpl; apply Permutation_refl.
  - split; simpl; apply Permutation_refl.
  - intro H. eapply not_transparent_steps; try reflexivity. discriminate.
Qed.

Definition w_ctx_fwd : inst :=
  {| i_kind := KCtx; i_id := "cx";
     i_ep := {| e_url := [PLit "http://ctx/c/ctx"]; e_method := ""; e_headers := []; e_auth := ANone |};
     i_fwdh := ["X-F1"]; i_fwdc := []; i_up := []; i_payload := Some [PLit "p="; PSubjectID];
     i_values := []; i_ttl := Some five_min; i_scopes := []; i_aud := []; i_session := false; i_exprs := [] |}.

(** C11-F6: the value of a forwarded header is sent to the remote system but is not in the key *)
Theorem F6_refuted :
  exists w a b, (forall H, g_F6 fx_none H [a; b] = true) /\ step_orders_valid a /\ step_orders_valid b /\
    forall H, map sr_out (run_cached fx_none H w [] [a; b]) <> map fst (run_fresh w [a; b]).
Proof.
  exists w_world, (mk_step w_ctx_fwd (q_sub "alice" [("X-F1", "one")] []) [] []),
         (mk_step w_ctx_fwd (q_sub "alice" [("X-F1", "two")] []) [] []).
  splits; try reflexivity.
  - intro H. unfold g_F3, g_F6, g_F7, keyed. cbn [exists_pair existsb].
    erewrite same_key_intro by reflexivity. reflexivity.
  - split; simpl; constructor.
  - split; simpl; constructor.
  - intro H. eapply not_transparent_steps; try reflexivity. discriminate.
Qed.

Definition w_ctx_outputs : inst :=
  {| i_kind := KCtx; i_id := "cx";
     i_ep := {| e_url := [PLit "http://ctx/c/ctx/"; POutput "foo"]; e_method := ""; e_headers := []; e_auth := ANone |};
     i_fwdh := []; i_fwdc := []; i_up := []; i_payload := Some [PLit "p="; PSubjectID];
     i_values := []; i_ttl := Some five_min; i_scopes := []; i_aud := []; i_session := false; i_exprs := [] |}.

(** C11-F7: `.Outputs` in the endpoint URL is not in the key *)
Theorem F7_refuted :
  exists w a b, (forall H, g_F7 fx_all6 H [a; b] = true) /\ step_orders_valid a /\ step_orders_valid b /\
    forall H, map sr_out (run_cached fx_all6 H w [] [a; b]) <> map fst (run_fresh w [a; b]).
Proof.
  exists w_world, (mk_step w_ctx_outputs (q_sub "alice" [] [("foo", "A")]) [] []),
         (mk_step w_ctx_outputs (q_sub "alice" [] [("foo", "B")]) [] []).
  splits; try reflexivity.
  - intro H. unfold g_F3, g_F6, g_F7, keyed. cbn [exists_pair existsb].
    erewrite same_key_intro by reflexivity. reflexivity.
  - split; simpl; constructor.
  - split; simpl; constructor.
  - intro H. eapply not_transparent_steps; try reflexivity. discriminate.
Qed.

Definition w_gen (session : bool) : inst :=
  {| i_kind := KGen; i_id := (if session then "strict" else "plain");
     i_ep := {| e_url := [PLit "http://idp/g/id"]; e_method := "GET";
                e_headers := [("X-Cred", [PAuthData])]; e_auth := ANone |};
     i_fwdh := []; i_fwdc := []; i_up := []; i_payload := None; i_values := []; i_ttl := Some five_min;
     i_scopes := []; i_aud := []; i_session := session; i_exprs := [] |}.

(** C11-F10: a session the identity endpoint reports as not active, cached through a generic authenticator
    without session_lifespan, is accepted by the one on the same endpoint that asserts the lifespan *)
Theorem F10_refuted :
  exists w a b, (forall H, g_F10 fx_pre10 H [a; b] = true) /\ step_orders_valid a /\ step_orders_valid b /\
    forall H, map sr_out (run_cached fx_pre10 H w [] [a; b]) <> map fst (run_fresh w [a; b]).
Proof.
  exists w_world, (mk_step (w_gen false) (q_plain "s.inactive") ["X-Cred"] []),
         (mk_step (w_gen true) (q_plain "s.inactive") ["X-Cred"] []).
  splits; try reflexivity.
  - intro H. unfold g_F2, g_F10, keyed. cbn [exists_pair existsb].
    erewrite same_key_intro by reflexivity. reflexivity.
  - split; simpl; [apply Permutation_refl | constructor].
  - split; simpl; [apply Permutation_refl | constructor].
  - intro H. eapply not_transparent_steps; try reflexivity. discriminate.
Qed.
