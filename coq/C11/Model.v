(** C11 — model of the cache-key derivations and of the "look up, else call the
    remote system, validate, store" logic of heimdall's caching mechanisms.  The record
    [fixes] (below) selects between the code as it is ([fx_all6], /repo 0b950ef) and the code
    before each committed repair.

    Modelled code
      endpoint/endpoint.go                                   Endpoint.Hash, CreateRequest (method default, auth, headers)
      endpoint/authstrategy/api_key.go, basic_auth.go        Hash, Apply
      mechanisms/subject/subject.go                          Subject.Hash (json.Marshal is an oracle: the JSON text is case data)
      authenticators/oauth2_introspection_authenticator.go   calculateCacheKey, getSubjectInformation (hit: Validate since deaddf0, [fx2])
      authenticators/generic_authenticator.go                calculateCacheKey, getSubjectInformation, createRequest
      authorizers/remote_authorizer.go                       calculateCacheKey, Execute (hit: verify since abe584c, [fx3]), doAuthorize
      contextualizers/generic_contextualizer.go              calculateCacheKey, Execute, createRequest
      oauth2/clientcredentials/clientcredentials.go          calculateCacheKey, Token
      finalizers/jwt_finalizer.go, jwt_signer.go             calculateCacheKey, jwtSigner.Hash, Execute
      authenticators/jwt_authenticator.go                    calculateCacheKey, getKey, validateJWK (Model2.v; literal endpoint headers only)
      httpcache/round_tripper.go                             cacheKey, RoundTrip (Model2.v; methods GET, HEAD, POST)

    Conventions
    * A cache key is [hex (H pre)] where [pre] is the byte string written into
      the SHA-256 state, reproduced byte for byte: nested digests are the raw
      32 bytes [H inner], a ttl is 8 little-endian bytes.  [H] (SHA-256) is a
      parameter; the correspondence run instantiates it with the table of
      digests the real crypto/sha256 computed on the pre-images of the case.
    * Go iterates maps in random order.  Every key computation therefore takes
      the order in which the endpoint headers ([ho]) and the rendered values
      ([vo]) were visited as an explicit argument (a list of names that has to be
      a permutation of the map's keys).
    * Templates are a small abstract syntax; [tpl_text] is the Go template text
      the harness puts into the real configuration and [render] the model of
      text/template on this fragment.
    * The remote systems of the harness are deterministic functions of what
      they receive ([sent]) and of two tables of the scenario: what the
      introspection / identity endpoint knows about a credential, and the
      request bodies the authorization / contextualization endpoint refuses. *)
From HV Require Export Base.Prelude.
Local Open Scope string_scope.
Local Open Scope list_scope.

(* ------------------------------------------------------------------ bytes *)

Definition alist := list (string * string).

Fixpoint lookup {A} (k : string) (m : list (string * A)) : option A :=
  match m with
  | [] => None
  | (k', v) :: r => if String.eqb k k' then Some v else lookup k r
  end.

Definition byte_of (z : Z) : ascii := ascii_of_N (Z.to_N (z mod 256)%Z).

(** [n] little-endian bytes of [z] (two's complement for negative [z]) *)
Fixpoint le_bytes (n : nat) (z : Z) : string :=
  match n with
  | O => ""
  | S k => String (byte_of z) (le_bytes k (z / 256)%Z)
  end.

(** binary.LittleEndian.PutUint64(buf, uint64(ttl)) *)
Definition le64 (z : Z) : string := le_bytes 8 z.

(** ttlHash (since 8647e06): the configured cache ttl as part of a key — one byte 0 if none is
    configured, else the byte 1 and the 8 little-endian bytes of the nanoseconds *)
Definition ttl_hash (t : option Z) : string :=
  match t with
  | None => String zero ""
  | Some z => String one (le64 z)
  end.

Definition hexdigit (n : N) : ascii :=
  match n with
  | 0 => "0" | 1 => "1" | 2 => "2" | 3 => "3" | 4 => "4" | 5 => "5" | 6 => "6" | 7 => "7"
  | 8 => "8" | 9 => "9" | 10 => "a" | 11 => "b" | 12 => "c" | 13 => "d" | 14 => "e" | _ => "f"
  end%N%char.

(** hex.EncodeToString *)
Fixpoint hex (s : string) : string :=
  match s with
  | "" => ""
  | String a r => let n := N_of_ascii a in
                  String (hexdigit (n / 16)) (String (hexdigit (n mod 16)) (hex r))
  end.

(** inverse of [hex] (used for the generated case files and to show that [hex] is injective) *)
Definition unhex_digit (a : ascii) : N :=
  let n := N_of_ascii a in
  if (48 <=? n)%N && (n <=? 57)%N then (n - 48)%N
  else if (97 <=? n)%N && (n <=? 102)%N then (n - 87)%N else 0%N.

Fixpoint unhex (s : string) : string :=
  match s with
  | String a (String b r) => String (ascii_of_N (unhex_digit a * 16 + unhex_digit b)) (unhex r)
  | _ => ""
  end.

Definition join (sep : string) (l : list string) : string := String.concat sep l.

Definition str_in (s : string) (l : list string) : bool := existsb (String.eqb s) l.

(* ------------------------------------------------------------------ templates *)

Inductive piece :=
| PLit (s : string)          (* literal text without "{{" *)
| PSubjectID                 (* {{ .Subject.ID }} *)
| PValue (n : string)        (* {{ .Values.n }} *)
| POutput (n : string)       (* {{ .Outputs.n }} *)
| PReqHeader (n : string)    (* {{ .Request.Header "n" }} *)
| PAuthData.                 (* {{ .AuthenticationData }} *)

Definition tpl := list piece.

Definition piece_text (p : piece) : string :=
  match p with
  | PLit s => s
  | PSubjectID => "{{ .Subject.ID }}"
  | PValue n => ("{{ .Values." ++ n ++ " }}")%string
  | POutput n => ("{{ .Outputs." ++ n ++ " }}")%string
  | PReqHeader n => ("{{ .Request.Header """ ++ n ++ """ }}")%string
  | PAuthData => "{{ .AuthenticationData }}"
  end.

Definition tpl_text (t : tpl) : string := String.concat "" (map piece_text t).

(** the data a template is executed on; [None] = the entry is not in the map
    handed to Execute, which makes a reference to one of its fields a
    rendering error *)
Record rctx := {
  rc_sub : option string;        (* .Subject.ID *)
  rc_values : option alist;      (* .Values  (a missing map key renders "<no value>") *)
  rc_outputs : option alist;     (* .Outputs (a missing map key renders "<no value>") *)
  rc_req : option alist;         (* headers of .Request *)
  rc_auth : option string }.     (* .AuthenticationData *)

Definition or_default (d : string) (o : option string) : string :=
  match o with Some v => v | None => d end.

Definition render_piece (c : rctx) (p : piece) : option string :=
  match p with
  | PLit s => Some s
  | PSubjectID => rc_sub c
  | PValue n => option_map (fun m => or_default "<no value>" (lookup n m)) (rc_values c)
  | POutput n => option_map (fun m => or_default "<no value>" (lookup n m)) (rc_outputs c)
  | PReqHeader n => option_map (fun m => or_default "" (lookup n m)) (rc_req c)
  | PAuthData => rc_auth c
  end.

Fixpoint render (c : rctx) (t : tpl) : option string :=
  match t with
  | [] => Some ""
  | p :: r => match render_piece c p, render c r with
              | Some a, Some b => Some (a ++ b)%string
              | _, _ => None
              end
  end.

Definition uses_outputs (t : tpl) : bool :=
  existsb (fun p => match p with POutput _ => true | _ => false end) t.

(* ------------------------------------------------------------------ pre-images *)

(** one [hash.Write]: a byte string of variable length (configuration text,
    rendered text, credentials) or of fixed length (a digest, a ttl) *)
Inductive fld := FV (s : string) | FX (s : string).

Definition fbytes (f : fld) : string := match f with FV s | FX s => s end.

Definition cat (l : list fld) : string := String.concat "" (map fbytes l).

Definition kv_fields (m : alist) : list fld := flat_map (fun kv => [FV (fst kv); FV (snd kv)]) m.

(** the entries of map [m] in the order [names] (the order in which `range` visited them) *)
Definition order_by {A} (names : list string) (m : list (string * A)) : list (string * A) :=
  flat_map (fun n => match lookup n m with Some v => [(n, v)] | None => [] end) names.

(* ------------------------------------------------------------------ configuration *)

Inductive auth :=
| ANone
| AApiKey (inn name value : string)   (* in: "header" | "cookie" *)
| ABasic (user password : string)
| AClientCred (url id secret : string) (scopes : list string).   (* oauth2_client_credentials, token cache off *)

Record ep := { e_url : tpl; e_method : string; e_headers : list (string * tpl); e_auth : auth }.

Inductive kind := KIntro | KGen | KRemote | KCtx.

(** expressions of the remote authorizer over the harness's authorization response *)
Inductive expr := ETrue | EFalse | EBodyEq (s : string) | EBodyNe (s : string) | EUrlEq (s : string).

(** one mechanism instance: a prototype or its rule-level reconfiguration
    (the effective values after WithConfig).
    [i_ttl]: introspection keeps the pointer ([None] = not configured, the
    expiry of the response is used); generic authenticator / remote authorizer:
    [None] = 0; contextualizer: [None] = the default of 10 s. *)
Record inst := {
  i_kind : kind; i_id : string; i_ep : ep;
  i_fwdh : list string; i_fwdc : list string;      (* forward_headers / forward_cookies *)
  i_up : list string;                              (* forward_response_headers_to_upstream *)
  i_payload : option tpl; i_values : list (string * tpl); i_ttl : option Z;
  i_scopes : list string;                          (* assertions.scopes (exact matcher) *)
  i_aud : list string;                             (* assertions.audience ([] = not asserted) *)
  i_session : bool;                                (* generic authenticator: session_lifespan {active: "active"} configured *)
  i_exprs : list expr }.

Definition ttl_val (i : inst) : Z :=
  match i_ttl i, i_kind i with
  | Some t, _ => t
  | None, KCtx => 10000000000%Z
  | None, _ => 0%Z
  end.

(** is the cache consulted at all? *)
Definition enabled (i : inst) : bool :=
  match i_kind i, i_ttl i with
  | KIntro, None => true
  | _, _ => (ttl_val i >? 0)%Z
  end.

(** newOAuth2IntrospectionAuthenticator: Content-Type and Accept are added to the
    endpoint's headers unless configured, the method defaults to POST *)
(** Go maps have no order: the association lists of the model that stand for a
    map (endpoint headers, values) are kept sorted by key; [insert_kt] keeps them so *)
Fixpoint insert_kt (k : string) (t : tpl) (hs : list (string * tpl)) : list (string * tpl) :=
  match hs with
  | [] => [(k, t)]
  | (k', t') :: r => if String.ltb k k' then (k, t) :: hs else (k', t') :: insert_kt k t r
  end.

Definition add_default (k v : string) (hs : list (string * tpl)) : list (string * tpl) :=
  match lookup k hs with Some _ => hs | None => insert_kt k [PLit v] hs end.

Definition intro_ep (e : ep) : ep :=
  {| e_url := e_url e;
     e_method := if String.eqb (e_method e) "" then "POST" else e_method e;
     e_headers := add_default "Accept" "application/json"
                    (add_default "Content-Type" "application/x-www-form-urlencoded" (e_headers e));
     e_auth := e_auth e |}.

(** the endpoint a mechanism instance works with *)
Definition eff_ep (i : inst) : ep :=
  match i_kind i with KIntro => intro_ep (i_ep i) | _ => i_ep i end.

(* ------------------------------------------------------------------ requests *)

(** what a request brings: headers, cookies, the pipeline's outputs so far,
    the subject (its id and the JSON text json.Marshal produces for it) and,
    for authenticators, the presented credential (token / session value) *)
Record reqdata := {
  q_headers : alist; q_cookies : alist; q_outputs : alist;
  q_sub_id : string; q_sub_json : string; q_cred : string }.

(** what the remote system receives *)
Record sent := {
  s_url : string; s_method : string;
  s_headers : alist;      (* the X-… headers *)
  s_cookies : alist;
  s_auth : string;        (* "basic:user:password" or "" *)
  s_body : string }.

(** [rs_aud]: audience of an introspected token; [rs_active]: the `active` flag of a session *)
Record result := { rs_sent : sent; rs_sub : string; rs_scopes : list string; rs_aud : list string; rs_active : bool }.

Inductive outcome := OAllow (r : result) | ODeny | OErr.

(* ------------------------------------------------------------------ what is sent *)

Definition is_x_header (n : string) : bool := prefix "X-" n.

Definition nonempty (kv : string * string) : bool := negb (String.eqb (snd kv) "").

(** header names are case-insensitive: a configured name may be spelled in any case (the spellings the
    harness uses are listed; cookie names are not affected), requests and what is sent or handed on carry
    the canonical MIME name *)
Definition canon_name (n : string) : string :=
  if str_in n ["X-Up"; "x-up"; "X-UP"; "x-Up"] then "X-Up"
  else if str_in n ["X-Up2"; "x-up2"; "X-UP2"; "x-uP2"] then "X-Up2"
  else if str_in n ["X-F1"; "x-f1"; "X-f1"] then "X-F1"
  else if str_in n ["X-F2"; "x-f2"; "x-F2"] then "X-F2" else n.

(** the configured names (as spelled) with the values the request has for them ("" if absent) *)
Definition fwd_pairs (names : list string) (m : alist) : alist :=
  map (fun n => (n, or_default "" (lookup (canon_name n) m))) names.

(** what is forwarded: the (canonical) names with a non-empty value *)
Definition fwd (names : list string) (m : alist) : alist :=
  filter nonempty (map (fun kv => (canon_name (fst kv), snd kv)) (fwd_pairs names m)).

(** http.Header.Set: replace an existing entry of that name, else append *)
Fixpoint hset (k v : string) (m : alist) : alist :=
  match m with
  | [] => [(k, v)]
  | (k', v') :: r => if String.eqb k k' then (k, v) :: r else (k', v') :: hset k v r
  end.

Fixpoint render_headers (c : rctx) (hs : list (string * tpl)) (acc : alist) : option alist :=
  match hs with
  | [] => Some acc
  | (k, t) :: r => match render c t with
                   | Some v => render_headers c r (hset k v acc)
                   | None => None
                   end
  end.

Fixpoint render_values (c : rctx) (vs : list (string * tpl)) : option alist :=
  match vs with
  | [] => Some []
  | (k, t) :: r => match render c t, render_values c r with
                   | Some v, Some m => Some ((k, v) :: m)
                   | _, _ => None
                   end
  end.

Definition auth_headers (a : auth) : alist :=
  match a with AApiKey "header" n v => [(n, v)] | _ => [] end.
Definition auth_cookies (a : auth) : alist :=
  match a with AApiKey "cookie" n v => [(n, v)] | _ => [] end.
(** the access token the harness's token endpoint issues to a client: a function of the
    client it authenticated, the scope it was asked for and the URL it was asked at *)
Definition cc_token_text (url id secret : string) (scopes : list string) : string :=
  ("tok:" ++ id ++ ":" ++ secret ++ ":" ++ join " " scopes ++ ":" ++ url)%string.

(** the Authorization header as the echo server reports it *)
Definition auth_basic (a : auth) : string :=
  match a with
  | ABasic u p => ("basic:" ++ u ++ ":" ++ p)%string
  | AClientCred url id secret scopes => ("Bearer " ++ cc_token_text url id secret scopes)%string
  | _ => ""
  end.

Definition method_of (e : ep) : string := if String.eqb (e_method e) "" then "POST" else e_method e.

(** the rendered values and payload of the remote authorizer / contextualizer
    (renderTemplates); [None] = rendering error *)
Definition rendered (i : inst) (q : reqdata) : option (alist * string) :=
  let c0 := {| rc_sub := Some (q_sub_id q); rc_values := None; rc_outputs := Some (q_outputs q);
               rc_req := Some (q_headers q); rc_auth := None |} in
  match render_values c0 (i_values i) with
  | None => None
  | Some vals =>
    let c1 := {| rc_sub := Some (q_sub_id q); rc_values := Some vals; rc_outputs := Some (q_outputs q);
                 rc_req := Some (q_headers q); rc_auth := None |} in
    match i_payload i with
    | None => Some (vals, "")
    | Some t => match render c1 t with Some p => Some (vals, p) | None => None end
    end
  end.

Definition mk_request (c : rctx) (i : inst) (q : reqdata) (body : string) (with_fwd : bool) : option sent :=
  let e := eff_ep i in
  match render c (e_url e), render_headers c (e_headers e) (auth_headers (e_auth e)) with
  | Some u, Some hs =>
    Some {| s_url := u; s_method := method_of e;
            s_headers := filter (fun kv => is_x_header (fst kv))
                           (hs ++ (if with_fwd then fwd (i_fwdh i) (q_headers q) else []));
            s_cookies := auth_cookies (e_auth e) ++ (if with_fwd then fwd (i_fwdc i) (q_cookies q) else []);
            s_auth := auth_basic (e_auth e); s_body := body |}
  | _, _ => None
  end.

(** the request a fresh evaluation sends; [None] = an error before anything is sent *)
Definition mk_sent (i : inst) (q : reqdata) : option sent :=
  match i_kind i with
  | KRemote | KCtx =>
    match rendered i q with
    | None => None
    | Some (vals, payload) =>
      mk_request {| rc_sub := Some (q_sub_id q); rc_values := Some vals; rc_outputs := Some (q_outputs q);
                    rc_req := None; rc_auth := None |} i q payload
                 (match i_kind i with KCtx => true | _ => false end)
    end
  | KGen =>
    let c := {| rc_sub := None; rc_values := None; rc_outputs := None; rc_req := None;
                rc_auth := Some (q_cred q) |} in
    match (match i_payload i with None => Some "" | Some t => render c t end) with
    | None => None
    | Some body => mk_request c i q body true
    end
  | KIntro =>
    (* the token is not a JWT: the endpoint's RenderFunc returns template texts unchanged *)
    let e := eff_ep i in
    Some {| s_url := tpl_text (e_url e); s_method := method_of e;
            s_headers := filter (fun kv => is_x_header (fst kv))
                           (fold_left (fun acc kt => hset (fst kt) (tpl_text (snd kt)) acc)
                                      (e_headers e) (auth_headers (e_auth e)));
            s_cookies := auth_cookies (e_auth e); s_auth := auth_basic (e_auth e);
            s_body := ("token=" ++ q_cred q ++ "&token_type_hint=access_token")%string |}
  end.

(* ------------------------------------------------------------------ the remote systems of the harness *)

(** [t_tok]: credential text -> (active, scopes, audience) as known to the introspection /
    identity endpoints; [t_deny]: request bodies the authorization /
    contextualization endpoints refuse *)
Record world := { t_tok : list (string * (bool * list string * list string)); t_deny : list string }.

Definition cred_info (w : world) (c : string) : option (bool * list string * list string) := lookup c (t_tok w).

(** the credential the identity endpoint of the generic authenticator looks at *)
Definition gen_cred (s : sent) : string := or_default "nobody" (lookup "X-Cred" (s_headers s)).

Inductive answer := Refused | Answer (r : result).

Definition remote_answer (w : world) (k : kind) (cred : string) (s : sent) : answer :=
  match k with
  | KIntro =>
    (* the introspection endpoint: unknown and inactive tokens are reported as not active *)
    match cred_info w cred with
    | Some (true, sc, aud) => Answer {| rs_sent := s; rs_sub := cred; rs_scopes := sc; rs_aud := aud; rs_active := true |}
    | _ => Refused
    end
  | KGen =>
    (* the identity endpoint: 401 for an unknown session, else the session with its `active` flag *)
    let c := gen_cred s in
    match cred_info w c with
    | Some (act, _, _) => Answer {| rs_sent := s; rs_sub := c; rs_scopes := []; rs_aud := []; rs_active := act |}
    | None => Refused
    end
  | KRemote | KCtx =>
    if str_in (s_body s) (t_deny w) then Refused
    else Answer {| rs_sent := s; rs_sub := ""; rs_scopes := []; rs_aud := []; rs_active := true |}
  end.

(** how the mechanism reports a refusal: inactive token -> authentication
    error, 403 -> authorization error; 401 / 500 for the two generic ones ->
    communication error *)
Definition refusal (k : kind) : outcome :=
  match k with KIntro | KRemote => ODeny | KGen | KCtx => OErr end.

Definition eval_expr (r : result) (e : expr) : bool :=
  match e with
  | ETrue => true
  | EFalse => false
  | EBodyEq s => String.eqb (s_body (rs_sent r)) s
  | EBodyNe s => negb (String.eqb (s_body (rs_sent r)) s)
  | EUrlEq s => String.eqb (s_url (rs_sent r)) s
  end.

(** the rule-level policy applied to a response: assertions of the
    introspection authenticator, expressions of the remote authorizer *)
Definition policy_ok (i : inst) (r : result) : bool :=
  match i_kind i with
  | KIntro => forallb (fun s => str_in s (rs_scopes r)) (i_scopes i) &&
              (is_nil (i_aud i) || existsb (fun a => str_in a (rs_aud r)) (i_aud i))
  | KGen => negb (i_session i) || rs_active r
  | KRemote => forallb (eval_expr r) (i_exprs i)
  | KCtx => true
  end.

(** the remote authorizer hands the response headers named in
    forward_response_headers_to_upstream on to the upstream service — from a
    cached response as from a fresh one.  The harness's authorization endpoint
    sets X-Up and X-Up2 from the request body. *)
Definition response_header (n : string) (s : sent) : string :=
  if String.eqb (canon_name n) "X-Up" then ("u1:" ++ s_body s)%string
  else if String.eqb (canon_name n) "X-Up2" then ("u2:" ++ s_body s)%string else "".

Definition upstream_of (i : inst) (o : outcome) : alist :=
  match i_kind i, o with
  | KRemote, OAllow r => filter nonempty (map (fun n => (canon_name n, response_header n (rs_sent r))) (i_up i))
  | _, _ => []
  end.

(** a fresh evaluation (no cache) and whether the remote system is called *)
Definition exec_fresh (w : world) (i : inst) (q : reqdata) : outcome * nat :=
  match mk_sent i q with
  | None => (OErr, 0)
  | Some s =>
    match remote_answer w (i_kind i) (q_cred q) s with
    | Refused => (refusal (i_kind i), 1)
    | Answer r => (if policy_ok i r then OAllow r else ODeny, 1)
    end
  end.

(* ------------------------------------------------------------------ keys *)

(** five committed repairs; [false] = the code before the commit, [true] = since the commit
    (F1 9b4883e, F2 deaddf0, F3 abe584c, F10 abc25e7, F6 0b950ef):
    [fx1] maps are hashed in the order of their keys, [fx2] a cached introspection response is validated
    under the assertions in force, [fx3] the remote authorizer verifies its expressions on a hit,
    [fx10] the generic authenticator asserts the session lifespan of a cached response (fixes/C11-F10.diff),
    [fx6] the keys of the generic contextualizer and the generic authenticator cover the forwarded headers
    and cookies with their values, the authenticator's also its payload template (fixes/C11-F6.diff) *)
Record fixes := { fx1 : bool; fx2 : bool; fx3 : bool; fx10 : bool; fx6 : bool }.
Definition fx_none : fixes := {| fx1 := false; fx2 := false; fx3 := false; fx10 := false; fx6 := false |}.
(** the tree before 0b950ef (F1, F2, F3, F10 repaired, F6 open) *)
Definition fx_all : fixes := {| fx1 := true; fx2 := true; fx3 := true; fx10 := true; fx6 := false |}.
(** the tree as it is (/repo 0b950ef) *)
Definition fx_all6 : fixes := {| fx1 := true; fx2 := true; fx3 := true; fx10 := true; fx6 := true |}.
(** the tree before abc25e7 (F1, F2, F3 repaired, F10 and F6 open) *)
Definition fx_pre10 : fixes := {| fx1 := true; fx2 := true; fx3 := true; fx10 := false; fx6 := false |}.

Section Keys.
  Variable fx : fixes.
  Variable H : string -> string.   (* SHA-256 *)

  (** the order in which a map (a sorted association list in the model) is hashed:
      as iterated ([observed]) or, after the repair, by key *)
  Definition hash_order {A} (observed : list string) (m : list (string * A)) : list string :=
    if fx1 fx then map fst m else observed.

  Definition digest (l : list fld) : string := H (cat l).

  Definition auth_fields (a : auth) : list fld :=
    match a with
    | ANone => []
    | AApiKey i n v => [FX (digest [FV i; FV n; FV v])]
    | ABasic u p => [FX (digest [FV u; FV p])]
    | AClientCred url id secret scopes =>
      (* id, secret, url and strings.Join(scopes, ""): the same bytes as one write per scope *)
      [FX (digest ([FV id; FV secret; FV url] ++ map FV scopes))]
    end.

  (** Endpoint.Hash: url, method, the headers in iteration order, the strategy's hash *)
  Definition ep_fields (ho : list string) (e : ep) : list fld :=
    [FV (tpl_text (e_url e)); FV (e_method e)]
    ++ kv_fields (map (fun kt => (fst kt, tpl_text (snd kt))) (order_by (hash_order ho (e_headers e)) (e_headers e)))
    ++ auth_fields (e_auth e).

  Definition ep_hash (ho : list string) (e : ep) : string := digest (ep_fields ho e).

  (** Subject.Hash *)
  Definition sub_hash (q : reqdata) : string := digest [FV (q_sub_json q)].

  (** the writes of calculateCacheKey, [None] when rendering fails before the key is computed *)
  Definition key_fields0 (ho vo : list string) (i : inst) (q : reqdata) : option (list fld) :=
    match i_kind i with
    | KIntro => Some [FX (ep_hash ho (eff_ep i)); FV (tpl_text (e_url (i_ep i))); FV (q_cred q); FX (ttl_hash (i_ttl i))]
    | KGen => Some [FX (ep_hash ho (eff_ep i)); FV (q_cred q); FX (ttl_hash (Some (ttl_val i)))]
    | KRemote =>
      match rendered i q with
      | None => None
      | Some (vals, payload) =>
        Some ([FX (ep_hash ho (eff_ep i)); FV (i_id i); FV (join "," (i_up i)); FV payload;
               FX (le64 (ttl_val i)); FX (sub_hash q)] ++ kv_fields (order_by (hash_order vo vals) vals))
      end
    | KCtx =>
      match rendered i q with
      | None => None
      | Some (vals, payload) =>
        Some ([FX (ep_hash ho (eff_ep i)); FV (i_id i); FV (join "," (i_fwdh i)); FV (join "," (i_fwdc i));
               FV payload; FX (le64 (ttl_val i)); FX (sub_hash q)] ++ kv_fields (order_by (hash_order vo vals) vals))
      end
    end.

  (** forwardedHash: the names and the values the request has for them, one digest for the headers, one for the cookies *)
  Definition fwd_fields (i : inst) (q : reqdata) : list fld :=
    [FX (digest (kv_fields (fwd_pairs (i_fwdh i) (q_headers q))));
     FX (digest (kv_fields (fwd_pairs (i_fwdc i) (q_cookies q))))].

  (** what fixes/C11-F6.diff appends to the two keys: the forwarded headers and cookies; the generic
      authenticator's payload template (template.Hash = the digest of its text) if there is one *)
  Definition extra_fields (i : inst) (q : reqdata) : list fld :=
    if fx6 fx then
      match i_kind i with
      | KCtx => fwd_fields i q
      | KGen => fwd_fields i q ++ match i_payload i with Some t => [FX (digest [FV (tpl_text t)])] | None => [] end
      | _ => []
      end
    else [].

  Definition key_fields (ho vo : list string) (i : inst) (q : reqdata) : option (list fld) :=
    option_map (fun f => f ++ extra_fields i q) (key_fields0 ho vo i q).

  Definition cache_key (ho vo : list string) (i : inst) (q : reqdata) : option string :=
    if enabled i then option_map (fun f => hex (digest f)) (key_fields ho vo i q) else None.

  (* ---------------------------------------------------------------- execution with a cache *)

  Definition cache := list (string * result).

  (** one Execute against the shared cache.  Returns the key looked up (if any),
      whether it was a hit, the number of calls to the remote system, the
      outcome and the cache afterwards.  A hit returns the stored response
      without applying the instance's policy (unless repaired, see [recheck]). *)
  Record sres := { sr_key : option string; sr_hit : bool; sr_calls : nat; sr_out : outcome }.

  (** what a hit returns: the stored response; after the repairs of F2 / F3 only if it
      satisfies the policy of the instance at hand *)
  Definition recheck (i : inst) (r : result) : outcome :=
    let checked := match i_kind i with KIntro => fx2 fx | KRemote => fx3 fx | KGen => fx10 fx | KCtx => false end in
    if checked && negb (policy_ok i r) then ODeny else OAllow r.

  Definition exec_cached (w : world) (c : cache) (ho vo : list string) (i : inst) (q : reqdata) : sres * cache :=
    match cache_key ho vo i q with
    | None =>
      let '(o, n) := exec_fresh w i q in ({| sr_key := None; sr_hit := false; sr_calls := n; sr_out := o |}, c)
    | Some k =>
      match lookup k c with
      | Some r => ({| sr_key := Some k; sr_hit := true; sr_calls := 0; sr_out := recheck i r |}, c)
      | None =>
        let '(o, n) := exec_fresh w i q in
        ({| sr_key := Some k; sr_hit := false; sr_calls := n; sr_out := o |},
         match o with OAllow r => (k, r) :: c | _ => c end)
      end
    end.

  (** a step of a history: which instance executes which request, and the
      iteration orders Go happened to use for the endpoint headers and the values *)
  Record step := { st_inst : inst; st_req : reqdata; st_ho : list string; st_vo : list string }.

  Fixpoint run_cached (w : world) (c : cache) (h : list step) : list sres :=
    match h with
    | [] => []
    | s :: r => let '(x, c') := exec_cached w c (st_ho s) (st_vo s) (st_inst s) (st_req s) in
                x :: run_cached w c' r
    end.

  Definition run_fresh (w : world) (h : list step) : list (outcome * nat) :=
    map (fun s => exec_fresh w (st_inst s) (st_req s)) h.

End Keys.

(** the remote authorizer and the contextualizer look the key up only after the
    templates rendered; the model above returns the fresh evaluation's error in
    that case, which is what the code does (renderTemplates fails first). *)
