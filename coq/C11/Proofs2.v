(** C11 — proofs, part 2: keys are injective on their components (outside the
    boundary-shift guard and for a collision-free SHA-256), the components
    determine what a fresh evaluation does (outside the guards of C11-F2, F3, F6,
    F7), hence the cache is transparent on every history on which no guard fires. *)
From Coq Require Import Permutation OrderedTypeEx.
From HV Require Import Base.Prelude C11.Model C11.Spec C11.Proofs.
Local Open Scope string_scope.
Local Open Scope list_scope.

(* ------------------------------------------------------------------ order on strings *)

Definition slt (a b : string) : Prop := String.ltb a b = true.

Lemma slt_lt a b : slt a b <-> String_as_OT.lt a b.
Proof.
  unfold slt, String.ltb. rewrite <- String_as_OT.cmp_lt. unfold String_as_OT.cmp.
  destruct (String.compare a b); split; intro E; try discriminate; reflexivity.
Qed.

Lemma slt_trans a b c : slt a b -> slt b c -> slt a c.
Proof. rewrite !slt_lt. apply String_as_OT.lt_trans. Qed.

Lemma slt_irrefl a : ~ slt a a.
Proof. rewrite slt_lt. intro L. apply (String_as_OT.lt_not_eq _ _ L). reflexivity. Qed.

(* ------------------------------------------------------------------ sorted association lists *)

Lemma sortedb_tail {A} (x : string * A) l : sortedb (x :: l) = true -> sortedb l = true.
Proof.
  destruct x as [k v]. simpl. destruct l as [|[k2 v2] r]; auto.
  intro E. apply andb_true_iff in E as [_ E]. exact E.
Qed.

Lemma sortedb_head_lt {A} (k : string) (v : A) l :
  sortedb ((k, v) :: l) = true -> forall y, In y l -> slt k (fst y).
Proof.
  revert k v. induction l as [|[k2 v2] r IH]; intros k v S y I; [destruct I|].
  simpl in S. apply andb_true_iff in S as [L S].
  destruct I as [<-|I]; [exact L|].
  apply (slt_trans _ k2); [exact L|]. apply (IH k2 v2 S y I).
Qed.

(** a map has one sorted representation *)
Lemma sorted_unique {A} : forall l1 l2 : list (string * A),
  sortedb l1 = true -> sortedb l2 = true -> (forall x, In x l1 <-> In x l2) -> l1 = l2.
Proof.
  induction l1 as [|[k1 v1] r1 IH]; intros [|[k2 v2] r2] S1 S2 E.
  - reflexivity.
  - exfalso. apply (proj2 (E (k2, v2))). left; reflexivity.
  - exfalso. apply (proj1 (E (k1, v1))). left; reflexivity.
  - assert (Hd : (k1, v1) = (k2, v2)).
    { destruct (proj1 (E (k1, v1)) (or_introl eq_refl)) as [X|X]; [now symmetry|].
      destruct (proj2 (E (k2, v2)) (or_introl eq_refl)) as [Y|Y]; [exact Y|].
      exfalso. pose proof (sortedb_head_lt k2 v2 r2 S2 _ X) as L1.
      pose proof (sortedb_head_lt k1 v1 r1 S1 _ Y) as L2. simpl in L1, L2.
      apply (slt_irrefl k1). now apply (slt_trans _ k2). }
    injection Hd as -> ->. f_equal.
    apply IH; [now apply sortedb_tail in S1 | now apply sortedb_tail in S2 |].
    intro x. split; intro I.
    + destruct (proj1 (E x) (or_intror I)) as [X|X]; [|exact X].
      exfalso. subst x. pose proof (sortedb_head_lt k2 v2 r1 S1 _ I) as L. simpl in L. now apply slt_irrefl in L.
    + destruct (proj2 (E x) (or_intror I)) as [X|X]; [|exact X].
      exfalso. subst x. pose proof (sortedb_head_lt k2 v2 r2 S2 _ I) as L. simpl in L. now apply slt_irrefl in L.
Qed.

Lemma sorted_perm_eq {A} (l1 l2 : list (string * A)) :
  sortedb l1 = true -> sortedb l2 = true -> Permutation l1 l2 -> l1 = l2.
Proof.
  intros S1 S2 P. apply sorted_unique; auto. intro x. split; intro I.
  - now apply (Permutation_in _ P).
  - now apply (Permutation_in _ (Permutation_sym P)).
Qed.

Lemma sortedb_map_snd {A B} (f : A -> B) (l : list (string * A)) :
  sortedb (map (fun kv => (fst kv, f (snd kv))) l) = sortedb l.
Proof.
  induction l as [|[k v] r IH]; [reflexivity|].
  simpl. destruct r as [|[k2 v2] r2]; [reflexivity|]. simpl in *. now rewrite IH.
Qed.

Lemma sorted_lookup_head {A} k (v : A) l n :
  sortedb ((k, v) :: l) = true -> In n (map fst l) -> String.eqb n k = false.
Proof.
  intros S I. apply in_map_iff in I as (y & <- & I).
  pose proof (sortedb_head_lt k v l S y I) as L.
  apply String.eqb_neq. intro E. rewrite E in L. now apply slt_irrefl in L.
Qed.

(** iterating a sorted map in the order of its own keys visits its entries in order *)
Lemma order_by_self {A} : forall l : list (string * A),
  sortedb l = true -> order_by (map fst l) l = l.
Proof.
  intros l S. unfold order_by.
  assert (G : forall (pre l : list (string * A)), sortedb (pre ++ l) = true ->
            (forall n, In n (map fst l) -> lookup n (pre ++ l) = lookup n l) ->
            flat_map (fun n => match lookup n (pre ++ l) with Some v => [(n, v)] | None => [] end) (map fst l) = l).
  { clear. intros pre l. revert pre. induction l as [|[k v] r IH]; intros pre S Lk; [reflexivity|].
    simpl. rewrite (Lk k (or_introl eq_refl)). simpl. rewrite String.eqb_refl. simpl. f_equal.
    replace (pre ++ (k, v) :: r) with ((pre ++ [(k, v)]) ++ r) by (rewrite <- app_assoc; reflexivity).
    apply IH.
    - rewrite <- app_assoc. exact S.
    - intros n I. rewrite <- app_assoc. simpl. rewrite (Lk n (or_intror I)). simpl.
      assert (Sr : sortedb ((k, v) :: r) = true).
      { clear - S. induction pre as [|x pre IHp]; [exact S|]. apply IHp. now apply sortedb_tail in S. }
      now rewrite (sorted_lookup_head k v r n Sr I). }
  apply (G [] l S). reflexivity.
Qed.

Lemma order_by_perm {A} (names : list string) (l : list (string * A)) :
  sortedb l = true -> Permutation names (map fst l) -> Permutation (order_by names l) l.
Proof.
  intros S P. rewrite <- (order_by_self l S) at 2. unfold order_by.
  apply Permutation_flat_map. exact P.
Qed.

Lemma map_order_by {A B} (f : A -> B) names (l : list (string * A)) :
  map (fun kv => (fst kv, f (snd kv))) (order_by names l) = order_by names (map (fun kv => (fst kv, f (snd kv))) l).
Proof.
  unfold order_by. induction names as [|n r IH]; [reflexivity|].
  simpl. rewrite map_app, IH. f_equal.
  assert (L : lookup n (map (fun kv => (fst kv, f (snd kv))) l) = option_map f (lookup n l)).
  { clear. induction l as [|[k v] t IHl]; [reflexivity|]. simpl. destruct (String.eqb n k); auto. }
  rewrite L. destruct (lookup n l); reflexivity.
Qed.

(* ------------------------------------------------------------------ the text of a well-formed template determines it *)

Lemma tpl_text_cons p t : tpl_text (p :: t) = (piece_text p ++ tpl_text t)%string.
Proof.
  unfold tpl_text. destruct t as [|q t]; simpl.
  - now rewrite sapp_nil_r.
  - reflexivity.
Qed.

Lemma split_char c : forall a a' b b',
  no_char c a = true -> no_char c a' = true ->
  (a ++ String c b = a' ++ String c b')%string -> a = a' /\ b = b'.
Proof.
  induction a as [|x a IH]; intros [|y a'] b b' N N' E; simpl in *.
  - injection E as ->. auto.
  - injection E as <- _. apply andb_true_iff in N' as [N' _]. now rewrite Ascii.eqb_refl in N'.
  - injection E as -> _. apply andb_true_iff in N as [N _]. now rewrite Ascii.eqb_refl in N.
  - injection E as -> E. apply andb_true_iff in N as [_ N]. apply andb_true_iff in N' as [_ N'].
    destruct (IH _ _ _ N N' E) as [-> ->]. auto.
Qed.

(** a text that is empty or starts with a brace *)
Definition brace_or_empty (s : string) : Prop := s = "" \/ exists r, s = String "{" r.

Lemma split_brace : forall a a' t t',
  no_char "{" a = true -> no_char "{" a' = true -> brace_or_empty t -> brace_or_empty t' ->
  (a ++ t = a' ++ t')%string -> a = a' /\ t = t'.
Proof.
  induction a as [|x a IH]; intros [|y a'] t t' N N' B B' E; simpl in *.
  - auto.
  - exfalso. apply andb_true_iff in N' as [N' _]. destruct B as [->|[r ->]]; [discriminate|].
    injection E as <- _. now rewrite Ascii.eqb_refl in N'.
  - exfalso. apply andb_true_iff in N as [N _]. destruct B' as [->|[r ->]]; [discriminate|].
    injection E as -> _. now rewrite Ascii.eqb_refl in N.
  - injection E as -> E. apply andb_true_iff in N as [_ N]. apply andb_true_iff in N' as [_ N'].
    destruct (IH _ _ _ N N' B B' E) as [-> ->]. auto.
Qed.

Definition is_lit (p : piece) : bool := match p with PLit _ => true | _ => false end.

Lemma nonlit_text_brace p : is_lit p = false -> exists r, piece_text p = String "{" r.
Proof. destruct p; simpl; intro E; try discriminate; eexists; reflexivity. Qed.

Lemma text_brace_or_empty t :
  match t with p :: _ => is_lit p = false | [] => True end -> brace_or_empty (tpl_text t).
Proof.
  destruct t as [|p t]; intro E; [left; reflexivity|].
  right. destruct (nonlit_text_brace p E) as [r R]. rewrite tpl_text_cons, R. simpl. eauto.
Qed.

Lemma wf_tplb_cons p t : wf_tplb (p :: t) = true ->
  wf_pieceb p = true /\ wf_tplb t = true /\
  (is_lit p = true -> match t with q :: _ => is_lit q = false | [] => True end).
Proof.
  unfold wf_tplb. simpl. intro E. apply andb_true_iff in E as [E1 E2]. apply andb_true_iff in E1 as [Ep Et].
  splits; auto.
  - apply andb_true_iff. split; auto. destruct p; try exact E2; destruct t as [|[] t]; try exact E2; try discriminate.
  - intro L. destruct p; try discriminate. destruct t as [|[] t]; simpl; auto; discriminate.
Qed.

Lemma name_split n n' b b' c :
  no_char c n = true -> no_char c n' = true ->
  (n ++ String c b = n' ++ String c b')%string -> n = n' /\ b = b'.
Proof. apply split_char. Qed.

Lemma name_ok_blank n : name_ok n = true -> no_char " " n = true.
Proof. unfold name_ok. intro E. now apply andb_true_iff in E as [E _]. Qed.

Lemma name_ok_quote n : name_ok n = true -> no_char """" n = true.
Proof. unfold name_ok. intro E. now apply andb_true_iff in E as [_ E]. Qed.

Theorem tpl_text_inj : forall t1 t2,
  wf_tplb t1 = true -> wf_tplb t2 = true -> tpl_text t1 = tpl_text t2 -> t1 = t2.
Proof.
  induction t1 as [|p1 r1 IH]; intros [|p2 r2] W1 W2 E.
  - reflexivity.
  - exfalso. apply wf_tplb_cons in W2 as (Wp & _ & _). rewrite tpl_text_cons in E.
    destruct p2; simpl in *; try discriminate.
    destruct s; [discriminate | discriminate].
  - exfalso. apply wf_tplb_cons in W1 as (Wp & _ & _). rewrite tpl_text_cons in E.
    destruct p1; simpl in *; try discriminate.
    destruct s; [discriminate | discriminate].
  - apply wf_tplb_cons in W1 as (Wp1 & Wr1 & A1). apply wf_tplb_cons in W2 as (Wp2 & Wr2 & A2).
    rewrite !tpl_text_cons in E.
    destruct p1 as [s1| |n1|n1|n1|], p2 as [s2| |n2|n2|n2|]; simpl in Wp1, Wp2, E.
    (* two different actions differ in the character behind "{{ ." *)
    all: try discriminate.
    (* a literal against an action: the literal starts with a character that is not a brace *)
    all: try (exfalso; apply andb_true_iff in Wp1 as [Ne1 Nb1]; destruct s1 as [|x s1]; [discriminate Ne1|];
              simpl in E, Nb1; injection E as -> _; apply andb_true_iff in Nb1 as [Nb1 _]; discriminate Nb1).
    all: try (exfalso; apply andb_true_iff in Wp2 as [Ne2 Nb2]; destruct s2 as [|x s2]; [discriminate Ne2|];
              simpl in E, Nb2; injection E as <- _; apply andb_true_iff in Nb2 as [Nb2 _]; discriminate Nb2).
    + (* two literals *)
      apply andb_true_iff in Wp1 as [Ne1 Nb1]. apply andb_true_iff in Wp2 as [Ne2 Nb2].
      destruct (split_brace s1 s2 (tpl_text r1) (tpl_text r2) Nb1 Nb2) as [-> Er]; auto.
      * apply text_brace_or_empty. now apply A1.
      * apply text_brace_or_empty. now apply A2.
      * rewrite (IH r2 Wr1 Wr2 Er). reflexivity.
    + injection E as E. now rewrite (IH r2 Wr1 Wr2 E).
    + injection E as E. rewrite !sapp_assoc in E. simpl in E.
      destruct (split_char " " n1 n2 _ _ (name_ok_blank _ Wp1) (name_ok_blank _ Wp2) E) as [-> E'].
      injection E' as E'. now rewrite (IH r2 Wr1 Wr2 E').
    + injection E as E. rewrite !sapp_assoc in E. simpl in E.
      destruct (split_char " " n1 n2 _ _ (name_ok_blank _ Wp1) (name_ok_blank _ Wp2) E) as [-> E'].
      injection E' as E'. now rewrite (IH r2 Wr1 Wr2 E').
    + injection E as E. rewrite !sapp_assoc in E. simpl in E.
      destruct (split_char """" n1 n2 _ _ (name_ok_quote _ Wp1) (name_ok_quote _ Wp2) E) as [-> E'].
      injection E' as E'. now rewrite (IH r2 Wr1 Wr2 E').
    + injection E as E. now rewrite (IH r2 Wr1 Wr2 E).
Qed.

(* ------------------------------------------------------------------ reading field lists back *)

Lemma kv_fields_inj : forall a b : alist, kv_fields a = kv_fields b -> a = b.
Proof.
  induction a as [|[k v] a IH]; intros [|[k' v'] b] E; simpl in E; try discriminate; auto.
  injection E as -> -> E. now rewrite (IH b E).
Qed.

Lemma kv_fields_length (m : alist) : length (kv_fields m) = 2 * length m.
Proof. induction m as [|[k v] m IH]; simpl; [reflexivity|]. rewrite IH. lia. Qed.

(** a digest list is empty or one fixed-length write *)
Definition digest_tail (x : list fld) : Prop := x = [] \/ exists d, x = [FX d].

Lemma kv_tail_split : forall (m1 m2 : alist) x1 x2,
  digest_tail x1 -> digest_tail x2 ->
  kv_fields m1 ++ x1 = kv_fields m2 ++ x2 -> m1 = m2 /\ x1 = x2.
Proof.
  induction m1 as [|[k v] m1 IH]; intros [|[k' v'] m2] x1 x2 T1 T2 E; simpl in E.
  - auto.
  - exfalso. destruct T1 as [->|[d ->]]; discriminate.
  - exfalso. destruct T2 as [->|[d ->]]; discriminate.
  - injection E as -> -> E. destruct (IH m2 x1 x2 T1 T2 E) as [-> ->]. auto.
Qed.

Lemma auth_fields_tail H a : digest_tail (auth_fields H a).
Proof. destruct a; simpl; [left; reflexivity | right; eauto ..]. Qed.

Lemma auth_fields_inj H a b :
  injective H -> auth_collide a b = false ->
  auth_fields H a = auth_fields H b -> a = b.
Proof.
  intros Hinj G E.
  assert (C : cat (auth_pre a) = cat (auth_pre b)).
  { destruct a, b; simpl in *; try discriminate; auto; injection E as E; now apply Hinj in E. }
  unfold auth_collide in G. rewrite C, String.eqb_refl in G. simpl in G.
  apply negb_false_iff in G. now apply auth_eqb_eq.
Qed.

Definition texts (hs : list (string * tpl)) : alist := map (fun kt => (fst kt, tpl_text (snd kt))) hs.

Lemma texts_inj : forall h1 h2,
  forallb (fun kt => wf_tplb (snd kt)) h1 = true -> forallb (fun kt => wf_tplb (snd kt)) h2 = true ->
  texts h1 = texts h2 -> h1 = h2.
Proof.
  induction h1 as [|[k t] h1 IH]; intros [|[k' t'] h2] W1 W2 E; simpl in *; try discriminate; auto.
  apply andb_true_iff in W1 as [Wt W1]. apply andb_true_iff in W2 as [Wt' W2].
  injection E as -> Et E. rewrite (tpl_text_inj t t' Wt Wt' Et), (IH h2 W1 W2 E). reflexivity.
Qed.

(** the writes of Endpoint.Hash *)
Lemma ep_fields_eq fx H ho e :
  ep_fields fx H ho e = [FV (tpl_text (e_url e)); FV (e_method e)]
                        ++ kv_fields (texts (order_by (hash_order fx ho (e_headers e)) (e_headers e)))
                        ++ auth_fields H (e_auth e).
Proof. reflexivity. Qed.

(** hashed by key or as iterated, the order is a permutation of the map's keys *)
Lemma hash_order_perm {A} fx ho (m : list (string * A)) :
  Permutation ho (map fst m) -> Permutation (hash_order fx ho m) (map fst m).
Proof. intro P. unfold hash_order. destruct (fx1 fx); [apply Permutation_refl | exact P]. Qed.

Definition wf_ep (e : ep) : Prop :=
  sortedb (e_headers e) = true /\ wf_tplb (e_url e) = true /\ forallb (fun kt => wf_tplb (snd kt)) (e_headers e) = true.

Lemma wf_inst_ep i : wf_instb i = true -> wf_ep (eff_ep i) /\ sortedb (i_values i) = true.
Proof.
  unfold wf_instb, wf_ep. intro W. repeat (apply andb_true_iff in W as [W ?]). splits; auto.
Qed.

(** Endpoint.Hash is injective on well-formed endpoints, whatever the iteration
    orders, if SHA-256 does not collide and no write is shifted *)
Lemma ep_fields_inj fx H ho1 ho2 e1 e2 :
  injective H -> wf_ep e1 -> wf_ep e2 ->
  Permutation ho1 (map fst (e_headers e1)) -> Permutation ho2 (map fst (e_headers e2)) ->
  auth_collide (e_auth e1) (e_auth e2) = false ->
  ep_fields fx H ho1 e1 = ep_fields fx H ho2 e2 -> e1 = e2.
Proof.
  intros Hinj (S1 & U1 & W1) (S2 & U2 & W2) P1 P2 Ga E.
  apply (hash_order_perm fx) in P1. apply (hash_order_perm fx) in P2.
  rewrite !ep_fields_eq in E. simpl in E. injection E as Eu Em E.
  destruct (kv_tail_split _ _ _ _ (auth_fields_tail H _) (auth_fields_tail H _) E) as [Et Ea].
  apply (auth_fields_inj H _ _ Hinj Ga) in Ea.
  apply (tpl_text_inj _ _ U1 U2) in Eu.
  assert (Eh : e_headers e1 = e_headers e2).
  { apply texts_inj; auto. apply sorted_perm_eq.
    - unfold texts. now rewrite sortedb_map_snd.
    - unfold texts. now rewrite sortedb_map_snd.
    - apply Permutation_trans with (texts (order_by (hash_order fx ho1 (e_headers e1)) (e_headers e1))).
      + apply Permutation_sym. unfold texts. apply Permutation_map. now apply order_by_perm.
      + rewrite Et. unfold texts. apply Permutation_map. now apply order_by_perm. }
  destruct e1, e2. simpl in *. congruence.
Qed.

(* ------------------------------------------------------------------ keys are injective on their components *)

Lemma key_of_some fx H s k :
  key_of fx H s = Some k ->
  enabled (st_inst s) = true /\
  exists f, key_fields fx H (st_ho s) (st_vo s) (st_inst s) (st_req s) = Some f /\ k = hex (H (cat f)).
Proof.
  unfold key_of, cache_key. destruct (enabled (st_inst s)); [|discriminate].
  destruct (key_fields fx H (st_ho s) (st_vo s) (st_inst s) (st_req s)) as [f|]; [|discriminate].
  simpl. intro E. injection E as <-. split; auto. exists f. split; reflexivity.
Qed.

Lemma render_values_names c : forall vs m, render_values c vs = Some m -> map fst m = map fst vs.
Proof.
  induction vs as [|[k t] vs IH]; intros m E; simpl in E.
  - injection E as <-. reflexivity.
  - destruct (render c t); [|discriminate]. destruct (render_values c vs) as [m'|]; [|discriminate].
    injection E as <-. simpl. now rewrite (IH m' eq_refl).
Qed.

Lemma rendered_names i q vals payload : rendered i q = Some (vals, payload) -> map fst vals = map fst (i_values i).
Proof.
  unfold rendered. destruct (render_values _ (i_values i)) as [m|] eqn:R; [|discriminate].
  destruct (i_payload i) as [t|].
  - destruct (render _ t); [|discriminate]. intro E. injection E as <- _. eapply render_values_names; eauto.
  - intro E. injection E as <- _. eapply render_values_names; eauto.
Qed.

Lemma sortedb_same_keys {A B} : forall (l1 : list (string * A)) (l2 : list (string * B)),
  map fst l1 = map fst l2 -> sortedb l1 = sortedb l2.
Proof.
  induction l1 as [|[k v] r IH]; intros [|[k' v'] r'] E; simpl in E; try discriminate; auto.
  injection E as -> E. simpl. destruct r as [|[k2 v2] r2], r' as [|[k2' v2'] r2']; simpl in E; try discriminate; auto.
  injection E as -> E2. f_equal. apply IH. simpl. now rewrite E2.
Qed.

Lemma cat_single s : cat [FV s] = s.
Proof. reflexivity. Qed.

(** the orders of one look-up are permutations of its maps *)
Definition orders_valid (s : step) : Prop := valid_orders (st_inst s) (st_ho s) (st_vo s).

Lemma ordered_values_eq fx i1 q1 vo1 v1 p1 i2 q2 vo2 v2 p2 :
  wf_instb i1 = true -> wf_instb i2 = true ->
  Permutation vo1 (map fst (i_values i1)) -> Permutation vo2 (map fst (i_values i2)) ->
  rendered i1 q1 = Some (v1, p1) -> rendered i2 q2 = Some (v2, p2) ->
  kv_fields (order_by (hash_order fx vo1 v1) v1) = kv_fields (order_by (hash_order fx vo2 v2) v2) -> v1 = v2.
Proof.
  intros W1 W2 P1 P2 R1 R2 E. apply kv_fields_inj in E.
  destruct (wf_inst_ep i1 W1) as [_ S1]. destruct (wf_inst_ep i2 W2) as [_ S2].
  pose proof (rendered_names _ _ _ _ R1) as N1. pose proof (rendered_names _ _ _ _ R2) as N2.
  rewrite <- (sortedb_same_keys v1 (i_values i1) N1) in S1.
  rewrite <- (sortedb_same_keys v2 (i_values i2) N2) in S2.
  rewrite <- N1 in P1. rewrite <- N2 in P2.
  apply (hash_order_perm fx) in P1. apply (hash_order_perm fx) in P2.
  apply sorted_perm_eq; auto.
  apply Permutation_trans with (order_by (hash_order fx vo1 v1) v1).
  - apply Permutation_sym. now apply order_by_perm.
  - rewrite E. now apply order_by_perm.
Qed.

(** the endpoint hashes of two well-formed instances agree only if the endpoints do *)
Lemma ep_hash_inj fx H a b :
  injective H -> wf_instb (st_inst a) = true -> wf_instb (st_inst b) = true ->
  orders_valid a -> orders_valid b ->
  (negb (ep_eqb (eff_ep (st_inst a)) (eff_ep (st_inst b))) &&
   (collide (ep_fields fx H (st_ho a) (eff_ep (st_inst a))) (ep_fields fx H (st_ho b) (eff_ep (st_inst b))) ||
    auth_collide (e_auth (eff_ep (st_inst a))) (e_auth (eff_ep (st_inst b))))) = false ->
  ep_hash fx H (st_ho a) (eff_ep (st_inst a)) = ep_hash fx H (st_ho b) (eff_ep (st_inst b)) ->
  eff_ep (st_inst a) = eff_ep (st_inst b).
Proof.
  intros Hinj Wa Wb [Pa _] [Pb _] G E.
  apply andb_false_iff in G as [G|G].
  - apply negb_false_iff in G. now apply ep_eqb_eq.
  - apply orb_false_iff in G as [Ge Ga]. unfold ep_hash, digest in E. apply Hinj in E.
    apply (collide_inj _ _ Ge) in E.
    destruct (wf_inst_ep _ Wa) as [Wea _]. destruct (wf_inst_ep _ Wb) as [Web _].
    eapply ep_fields_inj; eauto.
Qed.

Lemma wf_inst_payload i t : wf_instb i = true -> i_payload i = Some t -> wf_tplb t = true.
Proof.
  unfold wf_instb. intros W P. apply andb_true_iff in W as [_ W]. now rewrite P in W.
Qed.

Lemma key_fields_length fx H ho vo i q f :
  key_fields0 fx H ho vo i q = Some f ->
  match i_kind i with
  | KIntro => length f = 4
  | KGen => length f = 3
  | KRemote => exists n, length f = 6 + 2 * n
  | KCtx => exists n, length f = 7 + 2 * n
  end.
Proof.
  unfold key_fields0. destruct (i_kind i).
  - intro E. injection E as <-. reflexivity.
  - intro E. injection E as <-. reflexivity.
  - destruct (rendered i q) as [[vals payload]|]; [|discriminate]. intro E. injection E as <-.
    exists (length (order_by (hash_order fx vo vals) vals)). simpl. rewrite ?app_length, kv_fields_length. simpl. lia.
  - destruct (rendered i q) as [[vals payload]|]; [|discriminate]. intro E. injection E as <-.
    exists (length (order_by (hash_order fx vo vals) vals)). simpl. rewrite ?app_length, kv_fields_length. simpl. lia.
Qed.

Local Opaque le64.

(* ------------------------------------------------------------------ the fields fixes/C11-F6.diff appends *)

Lemma key_fields_split fx H ho vo i q f :
  key_fields fx H ho vo i q = Some f ->
  exists f0, key_fields0 fx H ho vo i q = Some f0 /\ f = f0 ++ extra_fields fx H i q.
Proof.
  unfold key_fields. destruct (key_fields0 fx H ho vo i q) as [f0|]; [|discriminate].
  simpl. intro E. injection E as <-. eauto.
Qed.

Lemma app_eq_len_head {A} : forall (a b x y : list A),
  length a = length b -> a ++ x = b ++ y -> a = b /\ x = y.
Proof.
  induction a as [|c a IH]; intros [|d b] x y L E; simpl in *; try discriminate; auto.
  injection E as -> E. injection L as L. destruct (IH _ _ _ L E) as [-> ->]. auto.
Qed.

Lemma app_eq_len_tail {A} (a b x y : list A) :
  length x = length y -> a ++ x = b ++ y -> a = b /\ x = y.
Proof.
  intros L E. apply app_eq_len_head; auto.
  apply (f_equal (@length A)) in E. rewrite !app_length in E. lia.
Qed.

Lemma extra_length fx H i q :
  length (extra_fields fx H i q) =
  if fx6 fx then
    match i_kind i with
    | KCtx => 2
    | KGen => match i_payload i with Some _ => 3 | None => 2 end
    | _ => 0
    end
  else 0.
Proof.
  unfold extra_fields. destruct (fx6 fx); [|reflexivity].
  destruct (i_kind i); try reflexivity. destruct (i_payload i); reflexivity.
Qed.

(** equal keys fields: the old parts are equal and the appended parts are equal *)
Lemma key_split fx H a b f0a f0b :
  key_fields0 fx H (st_ho a) (st_vo a) (st_inst a) (st_req a) = Some f0a ->
  key_fields0 fx H (st_ho b) (st_vo b) (st_inst b) (st_req b) = Some f0b ->
  f0a ++ extra_fields fx H (st_inst a) (st_req a) = f0b ++ extra_fields fx H (st_inst b) (st_req b) ->
  f0a = f0b /\ extra_fields fx H (st_inst a) (st_req a) = extra_fields fx H (st_inst b) (st_req b).
Proof.
  intros Fa Fb E.
  destruct (Nat.eq_dec (length (extra_fields fx H (st_inst a) (st_req a)))
                       (length (extra_fields fx H (st_inst b) (st_req b)))) as [L|L].
  { now apply app_eq_len_tail. }
  exfalso.
  pose proof (key_fields_length _ _ _ _ _ _ _ Fa) as La.
  pose proof (key_fields_length _ _ _ _ _ _ _ Fb) as Lb.
  pose proof (f_equal (@length fld) E) as LE. rewrite !app_length in LE.
  rewrite !extra_length in *.
  destruct (fx6 fx); [|lia].
  unfold key_fields0 in Fa, Fb.
  destruct (i_kind (st_inst a)) eqn:Ka; destruct (i_kind (st_inst b)) eqn:Kb;
    repeat match goal with X : exists _, _ |- _ => destruct X end;
    try (destruct (i_payload (st_inst a)); destruct (i_payload (st_inst b)); lia).
  - (* generic authenticator with payload against a remote authorizer without values *)
    destruct (rendered (st_inst b) (st_req b)) as [[vb pb]|]; [|discriminate].
    injection Fa as <-. injection Fb as <-. simpl in E. injection E. discriminate.
  - destruct (rendered (st_inst a) (st_req a)) as [[va pa]|]; [|discriminate].
    injection Fa as <-. injection Fb as <-. simpl in E. injection E. discriminate.
Qed.

(** Key injectivity: for a collision-free SHA-256, two look-ups of well-formed
    instances that use the same key have the same key components, unless their
    pre-images can be shifted against each other (guard of C11-F4). *)
Theorem key_injective : forall fx H a b k,
  injective H ->
  wf_instb (st_inst a) = true -> wf_instb (st_inst b) = true -> orders_valid a -> orders_valid b ->
  key_of fx H a = Some k -> key_of fx H b = Some k ->
  p_F4 fx H a b = false ->
  exists c, components a = Some c /\ components b = Some c.
Proof.
  intros fx H a b k Hinj Wa Wb Oa Ob Ka Kb G.
  destruct (key_of_some fx H a k Ka) as (Ea & fa & Fa & Ha).
  destruct (key_of_some fx H b k Kb) as (Eb & fb & Fb & Hb).
  unfold p_F4 in G. apply orb_false_iff in G as [G _].
  unfold p_F4k, both in G. rewrite Ea, Eb in G. simpl in G.
  apply orb_false_iff in G as [Gk Ge].
  unfold opt_fields in Gk. rewrite Ea, Eb, Fa, Fb in Gk.
  assert (Ef : fa = fb).
  { apply collide_inj; auto. apply Hinj. apply hex_inj. congruence. }
  subst fb.
  destruct (key_fields_split _ _ _ _ _ _ _ Fa) as (f0a & F0a & Efa).
  destruct (key_fields_split _ _ _ _ _ _ _ Fb) as (f0b & F0b & Efb).
  destruct (key_split fx H a b f0a f0b F0a F0b) as [E0 _]; [congruence|]. subst f0b.
  clear Fa Fb Efa Efb Gk Ha Hb fa. rename F0a into Fa. rename F0b into Fb. rename f0a into fa.
  pose proof (key_fields_length _ _ _ _ _ _ _ Fa) as La.
  pose proof (key_fields_length _ _ _ _ _ _ _ Fb) as Lb.
  pose proof (ep_hash_inj fx H a b Hinj Wa Wb Oa Ob Ge) as Eep.
  unfold components. unfold key_fields0 in Fa, Fb.
  destruct Oa as [_ Pva]. destruct Ob as [_ Pvb].
  destruct (i_kind (st_inst a)) eqn:Kia; destruct (i_kind (st_inst b)) eqn:Kib;
    try (exfalso; repeat match goal with X : exists _, _ |- _ => destruct X end; lia).
  - (* introspection *)
    remember (ttl_hash (i_ttl (st_inst a))) as ta eqn:Hta. remember (ttl_hash (i_ttl (st_inst b))) as tb eqn:Htb.
    injection Fa as <-. injection Fb as Ee _ Ec Et. eexists. rewrite (Eep (eq_sym Ee)), Ec, Et. split; reflexivity.
  - (* generic authenticator *)
    remember (ttl_hash (Some (ttl_val (st_inst a)))) as ta eqn:Hta.
    remember (ttl_hash (Some (ttl_val (st_inst b)))) as tb eqn:Htb.
    injection Fa as <-. injection Fb as Ee Ec Et. eexists. rewrite (Eep (eq_sym Ee)), Ec, Et. split; reflexivity.
  - (* remote authorizer *)
    destruct (rendered (st_inst a) (st_req a)) as [[va pa]|] eqn:Ra; [|discriminate].
    destruct (rendered (st_inst b) (st_req b)) as [[vb pb]|] eqn:Rb; [|discriminate].
    remember (le64 (ttl_val (st_inst a))) as ta eqn:Hta. remember (le64 (ttl_val (st_inst b))) as tb eqn:Htb.
    injection Fa as <-. injection Fb as Ee Eid Eup Ep Et Es Ev.
    apply Hinj in Es. rewrite !cat_single in Es.
    pose proof (ordered_values_eq fx _ _ _ _ _ _ _ _ _ _ Wb Wa Pvb Pva Rb Ra Ev) as Evals.
    eexists. rewrite (Eep (eq_sym Ee)), Eid, Eup, Ep, Et, Es, Evals. split; reflexivity.
  - (* generic contextualizer *)
    destruct (rendered (st_inst a) (st_req a)) as [[va pa]|] eqn:Ra; [|discriminate].
    destruct (rendered (st_inst b) (st_req b)) as [[vb pb]|] eqn:Rb; [|discriminate].
    remember (le64 (ttl_val (st_inst a))) as ta eqn:Hta. remember (le64 (ttl_val (st_inst b))) as tb eqn:Htb.
    injection Fa as <-. injection Fb as Ee Eid Efh Efc Ep Et Es Ev.
    apply Hinj in Es. rewrite !cat_single in Es.
    pose proof (ordered_values_eq fx _ _ _ _ _ _ _ _ _ _ Wb Wa Pvb Pva Rb Ra Ev) as Evals.
    eexists. rewrite (Eep (eq_sym Ee)), Eid, Efh, Efc, Ep, Et, Es, Evals. split; reflexivity.
Qed.

(* ------------------------------------------------------------------ reflexivity of the equality tests *)

Lemma list_eqb_refl {A} (eqb : A -> A -> bool) : (forall x, eqb x x = true) -> forall l, list_eqb eqb l l = true.
Proof. intros R l. induction l as [|x l IH]; simpl; auto. now rewrite R, IH. Qed.

Lemma piece_eqb_refl p : piece_eqb p p = true.
Proof. destruct p; simpl; auto; apply String.eqb_refl. Qed.

Lemma tpl_eqb_refl t : tpl_eqb t t = true.
Proof. apply list_eqb_refl, piece_eqb_refl. Qed.

Lemma kt_eqb_refl x : kt_eqb x x = true.
Proof. unfold kt_eqb. now rewrite String.eqb_refl, tpl_eqb_refl. Qed.

Lemma kv_eqb_refl x : kv_eqb x x = true.
Proof. unfold kv_eqb. now rewrite !String.eqb_refl. Qed.

Lemma option_eqb_refl {A} (eqb : A -> A -> bool) : (forall x, eqb x x = true) -> forall o, option_eqb eqb o o = true.
Proof. intros R [x|]; simpl; auto. Qed.

Lemma alist_eqb_refl m : alist_eqb m m = true.
Proof. apply list_eqb_refl, kv_eqb_refl. Qed.

Lemma auth_eqb_refl a : auth_eqb a a = true.
Proof.
  destruct a; simpl; auto; rewrite ?String.eqb_refl; simpl; auto.
  apply list_eqb_refl. apply String.eqb_refl.
Qed.

Lemma strs_eqb_refl' l : strs_eqb l l = true.
Proof. apply list_eqb_refl. apply String.eqb_refl. Qed.

Lemma expr_eqb_eq_refl x : expr_eqb x x = true.
Proof. destruct x; simpl; auto; apply String.eqb_refl. Qed.

Lemma ep_eqb_refl e : ep_eqb e e = true.
Proof. unfold ep_eqb. now rewrite tpl_eqb_refl, String.eqb_refl, (list_eqb_refl _ kt_eqb_refl), auth_eqb_refl. Qed.

(* ------------------------------------------------------------------ the components determine the fresh evaluation *)

(** two template contexts that agree except, possibly, on the outputs *)
Definition ctx_agree (c c' : rctx) : Prop :=
  rc_sub c = rc_sub c' /\ rc_values c = rc_values c' /\ rc_req c = rc_req c' /\ rc_auth c = rc_auth c'.

Lemma render_ext c c' t :
  ctx_agree c c' -> (uses_outputs t = false \/ rc_outputs c = rc_outputs c') -> render c t = render c' t.
Proof.
  intros (Es & Ev & Er & Ea) O. induction t as [|p t IH]; [reflexivity|].
  simpl. assert (Ep : render_piece c p = render_piece c' p).
  { destruct p; simpl; try congruence.
    destruct O as [O|O]; [simpl in O; discriminate | now rewrite O]. }
  rewrite Ep, IH; auto.
  destruct O as [O|O]; auto. left. simpl in O. now apply orb_false_iff in O as [_ O].
Qed.

Lemma render_headers_ext c c' : forall hs acc,
  ctx_agree c c' ->
  (existsb (fun kt => uses_outputs (snd kt)) hs = false \/ rc_outputs c = rc_outputs c') ->
  render_headers c hs acc = render_headers c' hs acc.
Proof.
  induction hs as [|[k t] hs IH]; intros acc A O; [reflexivity|].
  simpl. rewrite (render_ext c c' t A).
  - destruct (render c' t); auto. apply IH; auto.
    destruct O as [O|O]; auto. left. simpl in O. now apply orb_false_iff in O as [_ O].
  - destruct O as [O|O]; auto. left. simpl in O. now apply orb_false_iff in O as [O _].
Qed.

Lemma mk_request_ext c c' i i' q q' body wf :
  eff_ep i = eff_ep i' -> ctx_agree c c' ->
  (ep_uses_outputs (eff_ep i) = false \/ rc_outputs c = rc_outputs c') ->
  (wf = true -> fwd (i_fwdh i) (q_headers q) = fwd (i_fwdh i') (q_headers q') /\
                fwd (i_fwdc i) (q_cookies q) = fwd (i_fwdc i') (q_cookies q')) ->
  mk_request c i q body wf = mk_request c' i' q' body wf.
Proof.
  intros Ee A O F. unfold mk_request. rewrite <- Ee.
  assert (Ou : uses_outputs (e_url (eff_ep i)) = false \/ rc_outputs c = rc_outputs c').
  { destruct O as [O|O]; auto. left. unfold ep_uses_outputs in O. now apply orb_false_iff in O as [O _]. }
  assert (Oh : existsb (fun kt => uses_outputs (snd kt)) (e_headers (eff_ep i)) = false \/ rc_outputs c = rc_outputs c').
  { destruct O as [O|O]; auto. left. unfold ep_uses_outputs in O. now apply orb_false_iff in O as [_ O]. }
  rewrite (render_ext c c' _ A Ou), (render_headers_ext c c' _ _ A Oh).
  destruct wf; [destruct (F eq_refl) as [-> ->]|]; reflexivity.
Qed.

Lemma eff_ep_templated i : (i_kind i = KRemote \/ i_kind i = KCtx \/ i_kind i = KGen) -> eff_ep i = i_ep i.
Proof. unfold eff_ep. intros [->|[->| ->]]; reflexivity. Qed.

(** what "the subject's JSON determines the subject" means for two requests *)
Definition json_faithful (a b : step) : Prop :=
  q_sub_json (st_req a) = q_sub_json (st_req b) -> q_sub_id (st_req a) = q_sub_id (st_req b).

Lemma components_kind s c : components s = Some c -> kc_kind c = i_kind (st_inst s).
Proof.
  unfold components. destruct (i_kind (st_inst s)) eqn:K.
  - intro E. now injection E as <-.
  - intro E. now injection E as <-.
  - destruct (rendered (st_inst s) (st_req s)) as [[v p]|]; [|discriminate]. intro E. now injection E as <-.
  - destruct (rendered (st_inst s) (st_req s)) as [[v p]|]; [|discriminate]. intro E. now injection E as <-.
Qed.

(** what the remote system answers to the request a fresh evaluation sends *)
Definition answer_of (w : world) (s : step) : option answer :=
  option_map (remote_answer w (i_kind (st_inst s)) (q_cred (st_req s))) (mk_sent (st_inst s) (st_req s)).

Lemma exec_fresh_answer w s :
  exec_fresh w (st_inst s) (st_req s) =
  match answer_of w s with
  | None => (OErr, 0)
  | Some Refused => (refusal (i_kind (st_inst s)), 1)
  | Some (Answer r) => (if policy_ok (st_inst s) r then OAllow r else ODeny, 1)
  end.
Proof.
  unfold exec_fresh, answer_of. destruct (mk_sent _ _); simpl; [destruct (remote_answer _ _ _ _)|]; reflexivity.
Qed.

(** Two look-ups with the same key components send the same request to the
    remote system and get the same answer, outside the guards of C11-F6
    (forwarded values, generic authenticator's payload) and F7 (outputs in
    endpoint templates). *)
Theorem components_determine_answer : forall w a b c,
  components a = Some c -> components b = Some c ->
  enabled (st_inst a) = true -> enabled (st_inst b) = true ->
  json_faithful a b ->
  p_F6 a b = false -> p_F7 a b = false ->
  answer_of w a = answer_of w b.
Proof.
  intros w a b c Ca Cb Ea Eb J G6 G7.
  pose proof (components_kind a c Ca) as Ka. pose proof (components_kind b c Cb) as Kb.
  assert (Kab : i_kind (st_inst b) = i_kind (st_inst a)) by congruence. clear Ka Kb.
  unfold components in Ca, Cb. unfold answer_of, mk_sent.
  destruct (i_kind (st_inst a)) eqn:Kia; rewrite Kab in *.
  - (* introspection *)
    injection Ca as <-. injection Cb as Ee Ec. now rewrite Ee, Ec.
  - (* generic authenticator *)
    injection Ca as <-. injection Cb as Ee Ec.
    unfold p_F6, both, forwards in G6. rewrite Kia, Kab, Ea, Eb in G6. simpl in G6.
    apply negb_false_iff in G6. apply andb_true_iff in G6 as [Gf Gp].
    unfold fwd_eqb in Gf. apply andb_true_iff in Gf as [Gh Gc].
    apply alist_eqb_eq in Gh, Gc. apply (option_eqb_eq _ tpl_eqb_eq) in Gp.
    rewrite <- Gp, Ec.
    set (c := {| rc_sub := None; rc_values := None; rc_outputs := None; rc_req := None;
                 rc_auth := Some (q_cred (st_req a)) |}).
    destruct (match i_payload (st_inst a) with Some t => render c t | None => Some "" end) as [body|]; [|reflexivity].
    rewrite (mk_request_ext c c (st_inst a) (st_inst b) (st_req a) (st_req b) body true (eq_sym Ee)); auto;
      try (repeat split; fail); try (right; reflexivity).
  - (* remote authorizer *)
    destruct (rendered (st_inst a) (st_req a)) as [[va pa]|] eqn:Ra; [|discriminate].
    destruct (rendered (st_inst b) (st_req b)) as [[vb pb]|] eqn:Rb; [|discriminate].
    remember (le64 (ttl_val (st_inst a))) as ta eqn:Hta. remember (le64 (ttl_val (st_inst b))) as tb eqn:Htb.
    injection Ca as <-. injection Cb as Ee Eid Eup Ep Et Es Ev. subst vb pb. clear Hta Htb Et.
    assert (Esub : q_sub_id (st_req a) = q_sub_id (st_req b)) by (apply J; congruence).
    assert (Eo : ep_uses_outputs (eff_ep (st_inst b)) = false \/ q_outputs (st_req b) = q_outputs (st_req a)).
    { unfold p_F7, both, templated in G7. rewrite Kia, Kab, Ea, Eb in G7. simpl in G7.
      rewrite <- (eff_ep_templated (st_inst a)), <- (eff_ep_templated (st_inst b)), <- Ee in G7; auto.
      destruct (ep_uses_outputs (eff_ep (st_inst b))); auto. simpl in G7.
      apply negb_false_iff in G7. right. symmetry. now apply alist_eqb_eq. }
    rewrite (mk_request_ext _ {| rc_sub := Some (q_sub_id (st_req b)); rc_values := Some va;
                                 rc_outputs := Some (q_outputs (st_req b)); rc_req := None; rc_auth := None |}
               (st_inst a) (st_inst b) (st_req a) (st_req b) pa false (eq_sym Ee)).
    + destruct (mk_request _ _ _ _ _) as [s|]; reflexivity.
    + repeat split; simpl; congruence.
    + rewrite <- Ee. destruct Eo as [Eo|Eo]; [left; exact Eo | right; simpl; congruence].
    + discriminate.
  - (* generic contextualizer *)
    destruct (rendered (st_inst a) (st_req a)) as [[va pa]|] eqn:Ra; [|discriminate].
    destruct (rendered (st_inst b) (st_req b)) as [[vb pb]|] eqn:Rb; [|discriminate].
    remember (le64 (ttl_val (st_inst a))) as ta eqn:Hta. remember (le64 (ttl_val (st_inst b))) as tb eqn:Htb.
    injection Ca as <-. injection Cb as Ee Eid Efh Efc Ep Et Es Ev. subst vb pb. clear Hta Htb Et.
    assert (Esub : q_sub_id (st_req a) = q_sub_id (st_req b)) by (apply J; congruence).
    assert (Eo : ep_uses_outputs (eff_ep (st_inst b)) = false \/ q_outputs (st_req b) = q_outputs (st_req a)).
    { unfold p_F7, both, templated in G7. rewrite Kia, Kab, Ea, Eb in G7. simpl in G7.
      rewrite <- (eff_ep_templated (st_inst a)), <- (eff_ep_templated (st_inst b)), <- Ee in G7; auto.
      destruct (ep_uses_outputs (eff_ep (st_inst b))); auto. simpl in G7.
      apply negb_false_iff in G7. right. symmetry. now apply alist_eqb_eq. }
    unfold p_F6, both, forwards in G6. rewrite Kia, Kab, Ea, Eb in G6. simpl in G6.
    apply negb_false_iff in G6. rewrite andb_true_r in G6.
    unfold fwd_eqb in G6. apply andb_true_iff in G6 as [Gh Gc]. apply alist_eqb_eq in Gh, Gc.
    rewrite (mk_request_ext _ {| rc_sub := Some (q_sub_id (st_req b)); rc_values := Some va;
                                 rc_outputs := Some (q_outputs (st_req b)); rc_req := None; rc_auth := None |}
               (st_inst a) (st_inst b) (st_req a) (st_req b) pa true (eq_sym Ee)).
    + destruct (mk_request _ _ _ _ _) as [s|]; reflexivity.
    + repeat split; simpl; congruence.
    + rewrite <- Ee. destruct Eo as [Eo|Eo]; [left; exact Eo | right; simpl; congruence].
    + auto.
Qed.

(** with the same components, the policies of two instances agree outside the guards of C11-F2 / F3 *)
Lemma policy_same w a b c r :
  components a = Some c -> components b = Some c ->
  enabled (st_inst a) = true -> enabled (st_inst b) = true ->
  match i_kind (st_inst a) with
  | KIntro => p_F2 a b = false
  | KRemote => p_F3 a b = false
  | KGen => p_F10 a b = false
  | KCtx => True
  end ->
  answer_of w a = Some (Answer r) ->
  policy_ok (st_inst b) r = policy_ok (st_inst a) r.
Proof.
  intros Ca Cb Ea Eb G _.
  pose proof (components_kind a c Ca) as Ka. pose proof (components_kind b c Cb) as Kb.
  assert (Kab : i_kind (st_inst b) = i_kind (st_inst a)) by congruence. clear Ka Kb.
  unfold components in Ca, Cb. unfold policy_ok.
  destruct (i_kind (st_inst a)) eqn:Kia; rewrite Kab in *; try reflexivity.
  - injection Ca as <-. injection Cb as Ee Ec.
    unfold p_F2, both, is_kind in G. rewrite Kia, Kab, Ea, Eb, <- Ee, Ec, String.eqb_refl, ep_eqb_refl in G.
    simpl in G. apply negb_false_iff in G. apply andb_true_iff in G as [G1 G2].
    apply strs_eqb_eq in G1, G2. now rewrite G1, G2.
  - injection Ca as <-. injection Cb as Ee Ec.
    unfold p_F10, both, is_kind in G. rewrite Kia, Kab, Ea, Eb, <- Ee, Ec, String.eqb_refl, ep_eqb_refl in G.
    simpl in G. apply negb_false_iff in G. apply Bool.eqb_prop in G. now rewrite G.
  - destruct (rendered (st_inst a) (st_req a)) as [[va pa]|] eqn:Ra; [|discriminate].
    destruct (rendered (st_inst b) (st_req b)) as [[vb pb]|] eqn:Rb; [|discriminate].
    remember (le64 (ttl_val (st_inst a))) as ta eqn:Hta. remember (le64 (ttl_val (st_inst b))) as tb eqn:Htb.
    injection Ca as <-. injection Cb as Ee Eid Eup Ep Et Es Ev. subst vb pb. clear Hta Htb Et.
    unfold p_F3, both, is_kind in G. rewrite Kia, Kab, Ea, Eb, Ra, Rb in G. simpl in G.
    rewrite alist_eqb_refl, String.eqb_refl, <- Es, String.eqb_refl in G. simpl in G.
    apply negb_false_iff in G. apply (list_eqb_eq _ expr_eqb_eq) in G. now rewrite G.
Qed.

(* ------------------------------------------------------------------ cache transparency outside the guards *)

Lemma exists_pair_false {A} (f : A -> A -> bool) : forall l a b,
  exists_pair f l = false -> In a l -> In b l -> a = b \/ (f a b = false /\ f b a = false).
Proof.
  induction l as [|x l IH]; intros a b E Ia Ib; [destruct Ia|].
  simpl in E. apply orb_false_iff in E as [Ex El].
  assert (Hx : forall y, In y l -> f x y = false /\ f y x = false).
  { intros y Iy.
    assert (N : f x y || f y x = false).
    { destruct (f x y || f y x) eqn:F; auto.
      assert (T : existsb (fun y0 => f x y0 || f y0 x) l = true) by (apply existsb_exists; eauto).
      congruence. }
    now apply orb_false_iff in N. }
  destruct Ia as [<-|Ia], Ib as [<-|Ib].
  - left; reflexivity.
  - right. now apply Hx.
  - right. destruct (Hx a Ia). auto.
  - now apply IH.
Qed.

(** the inputs the theorems are about: maps as sorted lists, templates whose text
    can be read back, iteration orders that are permutations, and a subject JSON
    that determines the subject *)
Definition wf_history (h : list step) : Prop :=
  (forall s, In s h -> wf_instb (st_inst s) = true /\ orders_valid s) /\
  (forall a b, In a h -> In b h -> json_faithful a b).

(** with fixes/C11-F6.diff, two look-ups that share a key forward the same header and cookie values
    (and, for the generic authenticator, have the same payload template): the guard of C11-F6 cannot fire *)
Lemma fx6_no_F6 fx H a b k :
  fx6 fx = true -> injective H ->
  wf_instb (st_inst a) = true -> wf_instb (st_inst b) = true -> orders_valid a -> orders_valid b ->
  key_of fx H a = Some k -> key_of fx H b = Some k ->
  p_F4 fx H a b = false -> p_F6 a b = false.
Proof.
  intros F6 Hinj Wa Wb Oa Ob Ka Kb G.
  destruct (key_injective fx H a b k Hinj Wa Wb Oa Ob Ka Kb G) as (c & Ca & Cb).
  pose proof (components_kind a c Ca) as Kia. pose proof (components_kind b c Cb) as Kib.
  assert (Kab : i_kind (st_inst b) = i_kind (st_inst a)) by congruence. clear Kia Kib Ca Cb c.
  destruct (key_of_some fx H a k Ka) as (Ea & fa & Fa & Ha).
  destruct (key_of_some fx H b k Kb) as (Eb & fb & Fb & Hb).
  unfold p_F4 in G. apply orb_false_iff in G as [Gk Gf].
  unfold p_F4k, both in Gk. rewrite Ea, Eb in Gk. simpl in Gk. apply orb_false_iff in Gk as [Gk _].
  unfold opt_fields in Gk. rewrite Ea, Eb, Fa, Fb in Gk.
  assert (Ef : fa = fb).
  { apply collide_inj; auto. apply Hinj. apply hex_inj. congruence. }
  subst fb.
  destruct (key_fields_split _ _ _ _ _ _ _ Fa) as (f0a & F0a & Efa).
  destruct (key_fields_split _ _ _ _ _ _ _ Fb) as (f0b & F0b & Efb).
  destruct (key_split fx H a b f0a f0b F0a F0b) as [_ Ex]; [congruence|].
  unfold p_F6. destruct (both forwards a b) eqn:BF; [|reflexivity]. simpl. apply negb_false_iff.
  unfold p_F4_fwd in Gf. rewrite BF, F6 in Gf. simpl in Gf. apply orb_false_iff in Gf as [Gh Gc].
  unfold extra_fields in Ex. rewrite F6, Kab in Ex.
  assert (FW : fwd_fields H (st_inst a) (st_req a) = fwd_fields H (st_inst b) (st_req b) -> fwd_eqb a b = true).
  { unfold fwd_fields, digest. intro E. injection E as Eh Ec. apply Hinj in Eh, Ec.
    apply (collide_inj _ _ Gh) in Eh. apply (collide_inj _ _ Gc) in Ec. apply kv_fields_inj in Eh, Ec.
    unfold fwd_eqb, fwd. rewrite Eh, Ec, !alist_eqb_refl. reflexivity. }
  unfold both, forwards in BF. rewrite Kab in BF.
  destruct (i_kind (st_inst a)) eqn:Kk; try discriminate BF.
  - (* generic authenticator *)
    destruct (i_payload (st_inst a)) as [ta|] eqn:Pa; destruct (i_payload (st_inst b)) as [tb|] eqn:Pb.
    + apply app_eq_len_tail in Ex as [Ew Ep]; [|reflexivity]. rewrite (FW Ew). simpl.
      injection Ep as Ep. unfold digest in Ep. apply Hinj in Ep. rewrite !cat_single in Ep.
      apply tpl_text_inj in Ep; [| exact (wf_inst_payload _ _ Wa Pa) | exact (wf_inst_payload _ _ Wb Pb)].
      subst tb. apply tpl_eqb_refl.
    + apply (f_equal (@length fld)) in Ex. discriminate Ex.
    + apply (f_equal (@length fld)) in Ex. discriminate Ex.
    + rewrite !app_nil_r in Ex. rewrite (FW Ex). reflexivity.
  - (* generic contextualizer *)
    rewrite (FW Ex). reflexivity.
Qed.

Lemma pair_guards_compatible fx H w a b k r :
  injective H ->
  wf_instb (st_inst a) = true -> wf_instb (st_inst b) = true -> orders_valid a -> orders_valid b ->
  json_faithful a b ->
  (fx2 fx = true \/ p_F2 a b = false) -> (fx3 fx = true \/ p_F3 a b = false) ->
  (fx10 fx = true \/ p_F10 a b = false) ->
  p_F4 fx H a b = false -> (fx6 fx = true \/ p_F6 a b = false) -> p_F7 a b = false ->
  key_of fx H a = Some k -> key_of fx H b = Some k -> fresh_of w a = OAllow r ->
  recheck fx (st_inst b) r = fresh_of w b.
Proof.
  intros Hinj Wa Wb Oa Ob J G2 G3 G10 G4 G6' G7 Ka Kb Fa.
  assert (G6 : p_F6 a b = false).
  { destruct G6' as [F6|G6]; auto. eapply fx6_no_F6; eauto. }
  destruct (key_injective fx H a b k Hinj Wa Wb Oa Ob Ka Kb G4) as (c & Ca & Cb).
  destruct (key_of_some fx H a k Ka) as (Ea & _). destruct (key_of_some fx H b k Kb) as (Eb & _).
  pose proof (components_determine_answer w a b c Ca Cb Ea Eb J G6 G7) as EA.
  unfold fresh_of in *. rewrite exec_fresh_answer in Fa. rewrite exec_fresh_answer. rewrite <- EA.
  destruct (answer_of w a) as [[|r0]|] eqn:An; simpl in Fa.
  - destruct (i_kind (st_inst a)); discriminate.
  - destruct (policy_ok (st_inst a) r0) eqn:Pa; [|discriminate]. injection Fa as ->. simpl.
    pose proof (components_kind a c Ca) as Kia. pose proof (components_kind b c Cb) as Kib.
    assert (Kab : i_kind (st_inst b) = i_kind (st_inst a)) by congruence.
    unfold recheck. rewrite Kab.
    destruct (i_kind (st_inst a)) eqn:Kk.
    + destruct G2 as [G2|G2].
      * rewrite G2. simpl. now destruct (policy_ok (st_inst b) r).
      * rewrite (policy_same w a b c r Ca Cb Ea Eb); [| rewrite Kk; exact G2 | exact An].
        rewrite Pa. now rewrite andb_false_r.
    + destruct G10 as [G10|G10].
      * rewrite G10. simpl. now destruct (policy_ok (st_inst b) r).
      * rewrite (policy_same w a b c r Ca Cb Ea Eb); [| rewrite Kk; exact G10 | exact An].
        rewrite Pa. now rewrite andb_false_r.
    + destruct G3 as [G3|G3].
      * rewrite G3. simpl. now destruct (policy_ok (st_inst b) r).
      * rewrite (policy_same w a b c r Ca Cb Ea Eb); [| rewrite Kk; exact G3 | exact An].
        rewrite Pa. now rewrite andb_false_r.
    + rewrite (policy_same w a b c r Ca Cb Ea Eb); [| now rewrite Kk | exact An]. now rewrite Pa.
  - discriminate.
Qed.

(** Cache transparency: for a collision-free SHA-256 and every history of
    look-ups (any mechanism instances, requests and iteration orders) on which
    none of the guards of C11-F2, F3, F4, F6, F7 fires, every outcome with the
    cache equals the outcome of a fresh evaluation.  With the repair of F2 (F3)
    the guard of F2 (F3) is not needed. *)
Theorem cache_transparent : forall fx H w h,
  injective H -> wf_history h ->
  (fx2 fx = true \/ g_F2 fx H h = false) -> (fx3 fx = true \/ g_F3 fx H h = false) ->
  (fx10 fx = true \/ g_F10 fx H h = false) ->
  g_F4 fx H h = false -> (fx6 fx = true \/ g_F6 fx H h = false) -> g_F7 fx H h = false ->
  map sr_out (run_cached fx H w [] h) = map fst (run_fresh w h).
Proof.
  intros fx H w h Hinj [Wf Js] G2 G3 G10 G4 G6 G7. apply cache_transparent_steps.
  intros a b k r Ia Ib Ka Kb Fa.
  destruct (Wf a Ia) as [Wa Oa]. destruct (Wf b Ib) as [Wb Ob].
  assert (Self : forall s, In s h -> key_of fx H s = Some k -> fresh_of w s = OAllow r ->
                           recheck fx (st_inst s) r = fresh_of w s).
  { intros s Is Ks Fs. rewrite Fs. unfold recheck.
    unfold fresh_of in Fs. rewrite exec_fresh_answer in Fs.
    destruct (answer_of w s) as [[|r0]|]; simpl in Fs; try discriminate.
    - destruct (i_kind (st_inst s)); discriminate.
    - destruct (policy_ok (st_inst s) r0) eqn:P; [|discriminate]. injection Fs as ->.
      rewrite P. now rewrite andb_false_r. }
  destruct (exists_pair_false _ h a b G4 Ia Ib) as [->|[P4 _]]; [now apply Self|].
  pose proof (same_key_intro fx H a b k Ka Kb) as SK.
  destruct (exists_pair_false _ h a b G7 Ia Ib) as [->|[P7 _]]; [now apply Self|].
  unfold keyed in P7. rewrite SK in P7. simpl in P7.
  assert (P6 : fx6 fx = true \/ p_F6 a b = false).
  { destruct G6 as [G6|G6]; auto. destruct (exists_pair_false _ h a b G6 Ia Ib) as [E|[P6 _]].
    - subst b. right. unfold p_F6, fwd_eqb. rewrite !alist_eqb_refl. simpl.
      destruct (i_kind (st_inst a)); rewrite ?andb_false_r; auto.
      rewrite (option_eqb_refl _ tpl_eqb_refl). now rewrite andb_false_r.
    - right. unfold keyed in P6. now rewrite SK in P6. }
  assert (P2 : fx2 fx = true \/ p_F2 a b = false).
  { destruct G2 as [G2|G2]; auto. destruct (exists_pair_false _ h a b G2 Ia Ib) as [->|[P2 _]].
    - right. unfold p_F2. now rewrite !strs_eqb_refl', andb_false_r.
    - right. unfold keyed in P2. now rewrite SK in P2. }
  assert (P3 : fx3 fx = true \/ p_F3 a b = false).
  { destruct G3 as [G3|G3]; auto. destruct (exists_pair_false _ h a b G3 Ia Ib) as [->|[P3 _]].
    - right. unfold p_F3. now rewrite (list_eqb_refl _ expr_eqb_eq_refl), andb_false_r.
    - right. unfold keyed in P3. now rewrite SK in P3. }
  assert (P10 : fx10 fx = true \/ p_F10 a b = false).
  { destruct G10 as [G10|G10]; auto. destruct (exists_pair_false _ h a b G10 Ia Ib) as [->|[P10 _]].
    - right. unfold p_F10. destruct (i_session (st_inst b)); simpl; now rewrite andb_false_r.
    - right. unfold keyed in P10. now rewrite SK in P10. }
  eapply (pair_guards_compatible fx H w a b k r); eauto.
Qed.

(** the same for the tree with the three repairs *)
Corollary cache_transparent_repaired : forall H w h,
  injective H -> wf_history h ->
  g_F4 fx_all H h = false -> g_F6 fx_all H h = false -> g_F7 fx_all H h = false ->
  map sr_out (run_cached fx_all H w [] h) = map fst (run_fresh w h).
Proof. intros H w h Hi W G4 G6 G7. apply cache_transparent; auto. Qed.

(** … and with fixes/C11-F6.diff: no guard of C11-F6 any more *)
Corollary cache_transparent_repaired6 : forall H w h,
  injective H -> wf_history h ->
  g_F4 fx_all6 H h = false -> g_F7 fx_all6 H h = false ->
  map sr_out (run_cached fx_all6 H w [] h) = map fst (run_fresh w h).
Proof. intros H w h Hi W G4 G7. apply cache_transparent; auto. Qed.

(* ------------------------------------------------------------------ the hypotheses are satisfiable *)

(** the structural over-approximation of the guard of C11-F4 (computable without knowing SHA-256) *)
Definition p_F4k_shift (fx : fixes) (H : string -> string) (a b : step) : bool :=
  both (fun s => enabled (st_inst s)) a b &&
  (guard_shift (opt_fields fx H a) (opt_fields fx H b) ||
   (negb (ep_eqb (eff_ep (st_inst a)) (eff_ep (st_inst b))) &&
    (guard_shift (ep_fields fx H (st_ho a) (eff_ep (st_inst a))) (ep_fields fx H (st_ho b) (eff_ep (st_inst b))) ||
     auth_collide (e_auth (eff_ep (st_inst a))) (e_auth (eff_ep (st_inst b)))))).

Lemma collide_le_shift a b : collide a b = true -> guard_shift a b = true.
Proof. apply collide_needs_shift. Qed.

Lemma p_F4k_in_shift fx H a b : p_F4k fx H a b = true -> p_F4k_shift fx H a b = true.
Proof.
  unfold p_F4k, p_F4k_shift. intro P. apply andb_true_iff in P as [B P]. rewrite B. simpl.
  apply orb_true_iff in P as [P|P].
  - now rewrite (collide_le_shift _ _ P).
  - apply andb_true_iff in P as [N P]. rewrite N. simpl. apply orb_true_iff in P as [P|P].
    + rewrite (collide_le_shift _ _ P). now rewrite ?orb_true_r.
    + rewrite P. now rewrite ?orb_true_r.
Qed.

Definition p_F4_shift (fx : fixes) (H : string -> string) (a b : step) : bool := p_F4k_shift fx H a b || p_F4_fwd fx a b.

Lemma p_F4_in_shift fx H a b : p_F4 fx H a b = true -> p_F4_shift fx H a b = true.
Proof.
  unfold p_F4, p_F4_shift. intro P. apply orb_true_iff in P as [P|P].
  - now rewrite (p_F4k_in_shift _ _ _ _ P).
  - rewrite P. now rewrite orb_true_r.
Qed.

Lemma exists_pair_mono {A} (f g : A -> A -> bool) :
  (forall a b, f a b = true -> g a b = true) -> forall l, exists_pair g l = false -> exists_pair f l = false.
Proof.
  intros M l. induction l as [|x l IH]; [reflexivity|]. simpl. intro E.
  apply orb_false_iff in E as [E1 E2]. rewrite (IH E2), orb_false_r.
  clear IH E2. induction l as [|y l IH]; [reflexivity|]. simpl in *.
  apply orb_false_iff in E1 as [Ey El]. apply orb_false_iff in Ey as [E3 E4].
  rewrite (IH El), orb_false_r.
  destruct (f x y) eqn:F1; [rewrite (M _ _ F1) in E3; discriminate|].
  destruct (f y x) eqn:F2; [rewrite (M _ _ F2) in E4; discriminate|]. reflexivity.
Qed.


Definition w_ok : inst :=
  {| i_kind := KRemote; i_id := "ok";
     i_ep := {| e_url := [PLit "http://opa/r/authz"]; e_method := "";
                e_headers := [("X-A", [PValue "v1"])]; e_auth := ANone |};
     i_fwdh := []; i_fwdc := []; i_up := []; i_payload := Some [PLit "p="; PSubjectID; PLit "|"; PValue "v1"];
     i_values := [("v1", [PReqHeader "X-V1"])]; i_ttl := Some five_min; i_scopes := []; i_aud := []; i_session := false; i_exprs := [] |}.

Definition ok_history : list step :=
  [mk_step w_ok (q_sub "alice" [("X-V1", "h1")] []) ["X-A"] ["v1"];
   mk_step w_ok (q_sub "bobby" [("X-V1", "h1")] []) ["X-A"] ["v1"];
   mk_step w_ok (q_sub "alice" [("X-V1", "h1")] []) ["X-A"] ["v1"];
   mk_step w_ok (q_sub "alice" [("X-V1", "h2")] []) ["X-A"] ["v1"]].

(** a history with four look-ups of a remote authorizer (two subjects, two
    values, one repeated request) satisfies all hypotheses of [cache_transparent]
    and of [identical_requests_hit] (its third request repeats the first) *)
Theorem nonvacuous :
  wf_history ok_history /\
  g_F1 ok_history (Some 0) = false /\
  (forall fx H, g_F2 fx H ok_history = false /\ g_F3 fx H ok_history = false /\ g_F10 fx H ok_history = false /\
                g_F6 fx H ok_history = false /\ g_F7 fx H ok_history = false) /\
  (forall fx H, (forall x, String.length (H x) = 32) -> g_F4 fx H ok_history = false) /\
  (exists a b, nth_error ok_history 0 = Some a /\ nth_error ok_history 2 = Some b /\ same_request a b = true /\
               enabled (st_inst a) = true /\ order_free (st_inst a) = true /\
               exists r, fresh_of w_world a = OAllow r).
Proof.
  splits; try reflexivity.
  - split.
    + intros s I. split.
      * repeat (destruct I as [<-|I]; [reflexivity|]). destruct I.
      * repeat (destruct I as [<-|I]; [split; simpl; apply Permutation_refl|]). destruct I.
    + intros a b Ia Ib.
      repeat (destruct Ia as [<-|Ia]; [repeat (destruct Ib as [<-|Ib]; [intro E; try reflexivity; discriminate E|]); destruct Ib|]).
      destruct Ia.
  - intros fx H.
    assert (KL : forall p a b, keyed fx H p a b = true -> p a b = true).
    { unfold keyed. intros p a b E. now apply andb_true_iff in E as [_ E]. }
    splits; [apply (exists_pair_mono _ p_F2) | apply (exists_pair_mono _ p_F3) | apply (exists_pair_mono _ p_F10)
            | apply (exists_pair_mono _ p_F6) | apply (exists_pair_mono _ p_F7)]; try apply KL; reflexivity.
  - intros fx H L. unfold g_F4. apply (exists_pair_mono _ (p_F4_shift fx H)); [apply p_F4_in_shift|].
    destruct fx as [[] f2 f3 f10 []]; cbv -[String.length Nat.eqb Nat.leb negb orb andb]; rewrite !L; reflexivity.
  - do 2 eexists. splits; try reflexivity. eexists. reflexivity.
Qed.

Lemma collide_heads x y ra rb :
  String.length x = String.length y -> x <> y -> collide (FX x :: ra) (FX y :: rb) = false.
Proof.
  intros L N. unfold collide.
  destruct (String.eqb_spec (cat (FX x :: ra)) (cat (FX y :: rb))) as [E|]; [|reflexivity].
  rewrite !cat_cons in E. simpl fbytes in E. destruct (sapp_inv_len _ _ _ _ L E). contradiction.
Qed.

Lemma p_F4_false_by_shift fx H a b : p_F4k_shift fx H a b = false -> p_F4k fx H a b = false.
Proof.
  intro S. destruct (p_F4k fx H a b) eqn:P; [|reflexivity]. apply p_F4k_in_shift in P. congruence.
Qed.

(** two look-ups at endpoints whose hashed bytes differ do not collide (SHA-256 without collisions) *)
Lemma p_F4_false_cross fx H a b :
  injective H -> (forall x, String.length (H x) = 32) ->
  String.eqb (cat (ep_fields fx H (st_ho a) (eff_ep (st_inst a)))) (cat (ep_fields fx H (st_ho b) (eff_ep (st_inst b)))) = false ->
  auth_collide (e_auth (eff_ep (st_inst a))) (e_auth (eff_ep (st_inst b))) = false ->
  (exists ra, opt_fields fx H a = FX (ep_hash fx H (st_ho a) (eff_ep (st_inst a))) :: ra) ->
  (exists rb, opt_fields fx H b = FX (ep_hash fx H (st_ho b) (eff_ep (st_inst b))) :: rb) ->
  p_F4k fx H a b = false.
Proof.
  intros I L E A [ra Ra] [rb Rb]. unfold p_F4k. rewrite Ra, Rb, A.
  rewrite collide_heads.
  - unfold collide at 1. rewrite E. simpl. now rewrite !andb_false_r.
  - unfold ep_hash, digest. now rewrite !L.
  - unfold ep_hash, digest. intro X. apply I in X. rewrite X, String.eqb_refl in E. discriminate.
Qed.

Lemma eqb_app_prefix p x y : String.eqb (p ++ x) (p ++ y) = String.eqb x y.
Proof. induction p as [|c p IH]; simpl; [reflexivity|]. now rewrite Ascii.eqb_refl. Qed.

(** two look-ups at one endpoint whose remaining writes differ byte-wise do not collide *)
Lemma p_F4_false_same_ep fx H a b e ra rb :
  opt_fields fx H a = FX e :: ra -> opt_fields fx H b = FX e :: rb ->
  String.eqb (cat ra) (cat rb) = false ->
  ep_eqb (eff_ep (st_inst a)) (eff_ep (st_inst b)) = true ->
  p_F4k fx H a b = false.
Proof.
  intros Ra Rb E P. unfold p_F4k. rewrite Ra, Rb, P. unfold collide at 1.
  rewrite !cat_cons, eqb_app_prefix, E. simpl. now rewrite andb_false_r.
Qed.

Lemma exists_pair_intro_false {A} (f : A -> A -> bool) : forall l,
  (forall a b, In a l -> In b l -> f a b = false) -> exists_pair f l = false.
Proof.
  induction l as [|x l IH]; intro F; [reflexivity|]. simpl. apply orb_false_iff. split.
  - destruct (existsb (fun y => f x y || f y x) l) eqn:E; [|reflexivity].
    apply existsb_exists in E as [y [Iy E]].
    assert (F1 : f x y = false) by (apply F; simpl; auto).
    assert (F2 : f y x = false) by (apply F; simpl; auto).
    rewrite F1, F2 in E. discriminate.
  - apply IH. intros a b Ia Ib. apply F; simpl; auto.
Qed.

(** the same for a history that mixes three kinds of mechanisms on one cache
    (remote authorizer, introspection with a scope requirement, generic
    authenticator asserting the session lifespan), with subjects, tokens and
    header values of different lengths; its fifth request repeats the second.
    (An introspection endpoint always has two headers, so the repeated key is
    deterministic only with the repaired, sorted order — [g_F1] is not among
    the hypotheses of [cache_transparent] and is not claimed here.) *)
Definition mixed_history : list step :=
  [mk_step w_ok (q_sub "alice" [("X-V1", "h1")] []) ["X-A"] ["v1"];
   mk_step (w_intro ["read"]) (q_plain "t.alice.r") intro_ho [];
   mk_step (w_gen true) (q_plain "t.alice.rw") ["X-Cred"] [];
   mk_step w_ok (q_sub "carolyn" [("X-V1", "h22")] []) ["X-A"] ["v1"];
   mk_step (w_intro ["read"]) (q_plain "t.alice.r") intro_ho [];
   mk_step w_ok (q_sub "alice" [("X-V1", "h1")] []) ["X-A"] ["v1"]].

Theorem nonvacuous_mixed :
  wf_history mixed_history /\
  (forall fx H, g_F2 fx H mixed_history = false /\ g_F3 fx H mixed_history = false /\ g_F10 fx H mixed_history = false /\
                g_F6 fx H mixed_history = false /\ g_F7 fx H mixed_history = false) /\
  (forall fx H, injective H -> (forall x, String.length (H x) = 32) -> g_F4 fx H mixed_history = false) /\
  (exists a b, nth_error mixed_history 1 = Some a /\ nth_error mixed_history 4 = Some b /\ same_request a b = true /\
               enabled (st_inst a) = true /\ i_kind (st_inst a) = KIntro /\
               exists r, fresh_of w_world a = OAllow r) /\
  (exists c r, nth_error mixed_history 2 = Some c /\ i_kind (st_inst c) = KGen /\ fresh_of w_world c = OAllow r).
Proof.
  splits; try reflexivity.
  - split.
    + intros s I. split.
      * repeat (destruct I as [<-|I]; [reflexivity|]). destruct I.
      * repeat (destruct I as [<-|I]; [split; simpl; apply Permutation_refl|]). destruct I.
    + intros a b Ia Ib.
      repeat (destruct Ia as [<-|Ia]; [repeat (destruct Ib as [<-|Ib]; [intro E; try reflexivity; discriminate E|]); destruct Ib|]).
      destruct Ia.
  - intros fx H.
    assert (KL : forall p a b, keyed fx H p a b = true -> p a b = true).
    { unfold keyed. intros p a b E. now apply andb_true_iff in E as [_ E]. }
    splits; [apply (exists_pair_mono _ p_F2) | apply (exists_pair_mono _ p_F3) | apply (exists_pair_mono _ p_F10)
            | apply (exists_pair_mono _ p_F6) | apply (exists_pair_mono _ p_F7)]; try apply KL; reflexivity.
  - intros fx H I L. unfold g_F4. apply exists_pair_intro_false. intros a b Ia Ib.
    destruct fx as [f1 f2 f3 f10 f6].
    repeat (destruct Ia as [<-|Ia]; [repeat (destruct Ib as [<-|Ib]; [
      unfold p_F4; apply orb_false_iff; split;
      [ first [ apply p_F4_false_cross; [exact I|exact L|destruct f1; reflexivity|reflexivity|eexists; reflexivity|eexists; reflexivity]
              | eapply p_F4_false_same_ep; [reflexivity|reflexivity|destruct f1, f6; lazy; reflexivity|reflexivity]
              | apply p_F4_false_by_shift; destruct f1, f6; cbv -[String.length Nat.eqb Nat.leb negb orb andb]; rewrite !L; reflexivity ]
      | first [ reflexivity | destruct f6; reflexivity ] ]
      |]); destruct Ib|]).
    destruct Ia.
  - do 2 eexists. splits; try reflexivity. eexists. reflexivity.
  - do 2 eexists. splits; reflexivity.
Qed.

