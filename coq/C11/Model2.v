(** C11 — model, part 2: the four caches that are not keyed by a request to an
    endpoint of a pipeline mechanism.

      oauth2/clientcredentials/clientcredentials.go   calculateCacheKey, Token
      finalizers/jwt_finalizer.go, jwt_signer.go      calculateCacheKey, jwtSigner.Hash, Execute, OnChanged (reload)
      httpcache/round_tripper.go                      cacheKey, RoundTrip (RFC 7234 cache; methods GET, HEAD, POST)
      authenticators/jwt_authenticator.go             calculateCacheKey, getKey, validateJWK (key cache; literal JWKS endpoint headers)

    All are instances of the memo-table machine of Proofs.v ([aexec]): a step
    is the key it looks up and the result of a fresh evaluation at that moment. *)
From HV Require Export Base.Prelude C11.Model.
Local Open Scope string_scope.
Local Open Scope list_scope.

(* ------------------------------------------------------------------ client credentials *)

Record cc_cfg := { cc_url : string; cc_id : string; cc_secret : string; cc_scopes : list string;
                   cc_ttl : option Z; cc_body_auth : bool }.

(** the code writes id, secret, url and strings.Join(scopes, ""): the same bytes as one write per scope *)
(** since 8647e06 nine more bytes: flag and ttl (zeros if no ttl is configured) *)
Definition cc_ttl_bytes (t : option Z) : string :=
  match t with None => String zero (le64 0) | Some z => String one (le64 z) end.

Definition cc_fields (c : cc_cfg) : list fld :=
  [FV (cc_id c); FV (cc_secret c); FV (cc_url c)] ++ map FV (cc_scopes c) ++ [FX (cc_ttl_bytes (cc_ttl c))].

Definition cc_enabled (c : cc_cfg) : bool :=
  match cc_ttl c with None => true | Some t => (t >? 0)%Z end.

Definition cc_key (H : string -> string) (c : cc_cfg) : option string :=
  if cc_enabled c then Some (hex (H (cat (cc_fields c)))) else None.

(** the access token the harness's token endpoint issues: a function of the
    client it authenticated, the scope it was asked for and the URL it was asked at *)
Definition cc_token (c : cc_cfg) : string :=
  ("tok:" ++ cc_id c ++ ":" ++ cc_secret c ++ ":" ++ join " " (cc_scopes c) ++ ":" ++ cc_url c)%string.

Definition cc_result (c : cc_cfg) : result :=
  {| rs_sent := {| s_url := cc_url c; s_method := "POST"; s_headers := []; s_cookies := []; s_auth := "";
                   s_body := join " " (cc_scopes c) |};
     rs_sub := cc_token c; rs_scopes := []; rs_aud := []; rs_active := true |}.

(* ------------------------------------------------------------------ jwt finalizer *)

(** the signer: the key id in use, the generation of the key behind it (every
    successful reload of the key store installs a new key) and the RFC 7638
    thumbprint of that key (an oracle: case data) *)
Record signer := { sg_kid : string; sg_gen : nat; sg_thumb : string }.

(** [jf_key_id]: `signer.key_id` of the configuration ([None]: first entry of the key store) *)
Record jf_cfg := { jf_key_id : option string; jf_iss : string; jf_claims : option tpl; jf_ttl : Z }.

Record jreq := { j_sub_id : string; j_sub_json : string; j_outputs : alist; j_outputs_json : string }.

Inductive jstep :=
| JExec (c : jf_cfg) (q : jreq)
| JReload (kid thumb : string). (* the key store file now holds one new key with this id and thumbprint *)

(** jwtSigner.load: a configured key_id that is not in the new key store makes the reload fail *)
Definition reload (c_key_id : option string) (s : signer) (kid thumb : string) : signer :=
  match c_key_id with
  | Some k => if String.eqb k kid then {| sg_kid := kid; sg_gen := S (sg_gen s); sg_thumb := thumb |} else s
  | None => {| sg_kid := kid; sg_gen := S (sg_gen s); sg_thumb := thumb |}
  end.

Definition jf_alg : string := "ES256".

Section FinKeys.
  (** [fx5]: the signer's hash covers the key itself (its thumbprint): repair d9caf75 of C11-F5 / C16-F1 *)
  Variable fx5 : bool.
  Variable H : string -> string.

  Definition signer_fields (s : signer) (c : jf_cfg) : list fld :=
    [FV (sg_kid s); FV jf_alg; FV (jf_iss c)] ++ (if fx5 then [FX (sg_thumb s)] else []).

  Definition jf_fields (s : signer) (c : jf_cfg) (q : jreq) : list fld :=
    [FX (H (cat (signer_fields s c)))]
    ++ match jf_claims c with Some t => [FX (H (tpl_text t))] | None => [] end
    ++ [FX (le64 (jf_ttl c)); FX (H (j_sub_json q)); FV (j_outputs_json q)].

  Definition jf_key (s : signer) (c : jf_cfg) (q : jreq) : string := hex (H (cat (jf_fields s c q))).
End FinKeys.

(** what a verifier sees of a token: subject, rendered custom claims, issuer,
    key id and which key signed it *)
Record jtoken := { jt_sub : string; jt_claims : string; jt_iss : string; jt_kid : string; jt_gen : nat }.

(** tokens are stored in the same cache type as the other results *)
Definition enc_jtoken (t : jtoken) : result :=
  {| rs_sent := {| s_url := jt_iss t; s_method := jt_kid t; s_headers := []; s_cookies := [];
                   s_auth := String.concat "" (repeat "g" (jt_gen t)); s_body := jt_claims t |};
     rs_sub := jt_sub t; rs_scopes := []; rs_aud := []; rs_active := true |}.

(** [None]: the claims template failed to render *)
Definition jf_claims_text (c : jf_cfg) (q : jreq) : option string :=
  match jf_claims c with
  | None => Some ""
  | Some t => render {| rc_sub := Some (j_sub_id q); rc_values := None; rc_outputs := Some (j_outputs q);
                        rc_req := None; rc_auth := None |} t
  end.

Definition jf_fresh (s : signer) (c : jf_cfg) (q : jreq) : outcome :=
  match jf_claims_text c q with
  | None => OErr
  | Some cl => OAllow (enc_jtoken {| jt_sub := j_sub_id q; jt_claims := cl; jt_iss := jf_iss c;
                                     jt_kid := sg_kid s; jt_gen := sg_gen s |})
  end.

Definition jf_stores (c : jf_cfg) : bool := (jf_ttl c >? 5000000000)%Z.

(** Execute: the key is always looked up; a generated token is stored when ttl > 5 s *)
Definition jf_exec (fx5 : bool) (H : string -> string) (s : signer) (cch : cache) (c : jf_cfg) (q : jreq) : sres * cache :=
  let k := jf_key fx5 H s c q in
  match lookup k cch with
  | Some r => ({| sr_key := Some k; sr_hit := true; sr_calls := 0; sr_out := OAllow r |}, cch)
  | None =>
    let o := jf_fresh s c q in
    ({| sr_key := Some k; sr_hit := false; sr_calls := 0; sr_out := o |},
     match o with OAllow r => if jf_stores c then (k, r) :: cch else cch | _ => cch end)
  end.

(** a history of executions and key-store reloads of one signer ([kid_conf] is its configured key_id) *)
Fixpoint jrun (fx5 : bool) (H : string -> string) (kid_conf : option string) (s : signer) (cch : cache) (h : list jstep)
  : list (sres * outcome) :=
  match h with
  | [] => []
  | JExec c q :: r => let '(x, cch') := jf_exec fx5 H s cch c q in (x, jf_fresh s c q) :: jrun fx5 H kid_conf s cch' r
  | JReload kid th :: r => jrun fx5 H kid_conf (reload kid_conf s kid th) cch r
  end.

(** client credentials: Token() *)
Definition cc_exec (H : string -> string) (cch : cache) (c : cc_cfg) : sres * cache :=
  match cc_key H c with
  | None => ({| sr_key := None; sr_hit := false; sr_calls := 1; sr_out := OAllow (cc_result c) |}, cch)
  | Some k =>
    match lookup k cch with
    | Some r => ({| sr_key := Some k; sr_hit := true; sr_calls := 0; sr_out := OAllow r |}, cch)
    | None => ({| sr_key := Some k; sr_hit := false; sr_calls := 1; sr_out := OAllow (cc_result c) |},
               (k, cc_result c) :: cch)
    end
  end.

Fixpoint cc_run (H : string -> string) (cch : cache) (h : list cc_cfg) : list sres :=
  match h with
  | [] => []
  | c :: r => let '(x, cch') := cc_exec H cch c in x :: cc_run H cch' r
  end.

(* ------------------------------------------------------------------ RFC 7234 cache of an endpoint (httpcache.RoundTripper) *)

(** Endpoints with `http_cache.enabled`: url, method and the Authorization header
    their strategy sets ("" = none).  [hc_world]: what the harness's server does
    at a url — the request header names it lists in `Vary`, and whether its
    response carries freshness information and no no-store (the RFC 7234 parser
    is an oracle; it accepts responses to GET and to POST).  The server is
    honest: its response is made of exactly the Vary-listed request headers, the
    Authorization header and, for POST, the request body. *)
Record hc_cfg := { hc_url : string; hc_method : string; hc_auth : string }.

Definition hc_world := list (string * (list string * bool)).

Record hc_req := { hq_headers : alist; hq_body : string }.

Definition hc_site (w : hc_world) (c : hc_cfg) : list string * bool :=
  match lookup (hc_url c) w with Some x => x | None => ([], false) end.

Definition hc_vary (w : hc_world) (c : hc_cfg) : list string := fst (hc_site w c).
Definition hc_cacheable (w : hc_world) (c : hc_cfg) : bool := snd (hc_site w c).

(** cacheKey: "RFC 7234", url, method and the trimmed Authorization value if there is one *)
Definition hc_fields (c : hc_cfg) : list fld :=
  [FV "RFC 7234"; FV (hc_url c); FV (hc_method c)] ++ (if String.eqb (hc_auth c) "" then [] else [FV (hc_auth c)]).

Definition hc_key (H : string -> string) (c : hc_cfg) : string := hex (H (cat (hc_fields c))).

Definition hc_vary_part (w : hc_world) (c : hc_cfg) (q : hc_req) : string :=
  match hc_vary w c with
  | [] => "static"
  | v => join "|" (map (fun n => or_default "" (lookup n (hq_headers q))) v)
  end.

Definition hc_is_post (c : hc_cfg) : bool := String.eqb (hc_method c) "POST".

Definition hc_body (w : hc_world) (c : hc_cfg) (q : hc_req) : string :=
  (hc_vary_part w c q ++ "@" ++ hc_auth c ++ (if hc_is_post c then "#" ++ hq_body q else ""))%string.

(** [fx8]: repair 12fdf68 — responses that carry a Vary header and responses to requests other
    than GET/HEAD are not stored, and only GET/HEAD requests are looked up *)
Definition hc_stores (fx8 : bool) (w : hc_world) (c : hc_cfg) : bool :=
  hc_cacheable w c && negb (fx8 && (negb (is_nil (hc_vary w c)) || hc_is_post c)).

Definition hc_looks_up (fx8 : bool) (c : hc_cfg) : bool := negb (fx8 && hc_is_post c).

Definition hc_result (w : hc_world) (c : hc_cfg) (q : hc_req) : result :=
  {| rs_sent := {| s_url := hc_url c; s_method := hc_method c; s_headers := []; s_cookies := []; s_auth := "";
                   s_body := hc_body w c q |};
     rs_sub := ""; rs_scopes := []; rs_aud := []; rs_active := true |}.

(** RoundTrip: the key is looked up; a response is stored when cacheable *)
Definition hc_exec (fx8 : bool) (H : string -> string) (w : hc_world) (cch : cache) (c : hc_cfg) (q : hc_req)
  : sres * cache :=
  let k := hc_key H c in
  if negb (hc_looks_up fx8 c)
  then ({| sr_key := None; sr_hit := false; sr_calls := 1; sr_out := OAllow (hc_result w c q) |}, cch)
  else
  match lookup k cch with
  | Some r => ({| sr_key := Some k; sr_hit := true; sr_calls := 0; sr_out := OAllow r |}, cch)
  | None => ({| sr_key := Some k; sr_hit := false; sr_calls := 1; sr_out := OAllow (hc_result w c q) |},
             if hc_stores fx8 w c then (k, hc_result w c q) :: cch else cch)
  end.

Fixpoint hc_run (fx8 : bool) (H : string -> string) (w : hc_world) (cch : cache) (h : list (hc_cfg * hc_req))
  : list sres :=
  match h with
  | [] => []
  | (c, q) :: r => let '(y, cch') := hc_exec fx8 H w cch c q in y :: hc_run fx8 H w cch' r
  end.

(* ------------------------------------------------------------------ key cache of the jwt authenticator *)

(** `jwks_endpoint.url`: a literal, or a template around `{{ .TokenIssuer }}`
    (rendered from the UNVERIFIED `iss` claim of the presented token) *)
Inductive jurl := JLit (s : string) | JTpl (pre suf : string).

Definition jurl_text (u : jurl) : string :=
  match u with JLit s => s | JTpl p s => (p ++ "{{ .TokenIssuer }}" ++ s)%string end.

Definition jurl_render (u : jurl) (iss : string) : string :=
  match u with JLit s => s | JTpl p s => (p ++ iss ++ s)%string end.

(** [jk_headers]: the endpoint's literal headers, sorted, including the default Accept;
    [jk_validate]: `validate_jwk` (default true): the certificate chain of a fetched JWK is validated *)
Record jk_cfg := { jk_url : jurl; jk_headers : alist; jk_ttl : option Z; jk_validate : bool }.

(** a presented token: claimed issuer, key id, the issuer whose key really signed it, subject *)
Record jtok := { t_iss : string; t_kid : string; t_signer : string; t_sub : string }.

(** what is published at a JWKS URL: key ids with the issuer the key belongs to and whether the
    key's certificate chain (if it has one) validates (pkix validation is an oracle) *)
Definition jwks_world := list (string * list (string * (string * bool))).

Definition jk_ep_fields (c : jk_cfg) : list fld :=
  [FV (jurl_text (jk_url c)); FV "GET"] ++ kv_fields (jk_headers c).

Definition jk_fields (H : string -> string) (c : jk_cfg) (t : jtok) : list fld :=
  [FX (H (cat (jk_ep_fields c))); FV (jurl_render (jk_url c) (t_iss t)); FV (t_kid t); FX (ttl_hash (jk_ttl c))].

Definition jk_enabled (c : jk_cfg) : bool := match jk_ttl c with None => true | Some x => (x >? 0)%Z end.

Definition jk_key (H : string -> string) (c : jk_cfg) (t : jtok) : option string :=
  if jk_enabled c then Some (hex (H (cat (jk_fields H c t)))) else None.

Inductive jk_fetch := JKNoServer | JKNoKey | JKKey (owner : string) (trusted : bool).

Definition jk_lookup (w : jwks_world) (c : jk_cfg) (t : jtok) : jk_fetch :=
  match lookup (jurl_render (jk_url c) (t_iss t)) w with
  | None => JKNoServer
  | Some ks => match lookup (t_kid t) ks with None => JKNoKey | Some (o, tr) => JKKey o tr end
  end.

Definition jk_owner_result (o : string) : result :=
  {| rs_sent := {| s_url := ""; s_method := ""; s_headers := []; s_cookies := []; s_auth := ""; s_body := "" |};
     rs_sub := o; rs_scopes := []; rs_aud := []; rs_active := true |}.

(** a cached JWK: whose key it is and whether its certificate chain validates *)
Definition jk_key_result (o : string) (trusted : bool) : result :=
  {| rs_sent := {| s_url := ""; s_method := ""; s_headers := []; s_cookies := []; s_auth := ""; s_body := "" |};
     rs_sub := o; rs_scopes := []; rs_aud := []; rs_active := trusted |}.

(** validateJWK *)
Definition jk_rejects (c : jk_cfg) (trusted : bool) : bool := jk_validate c && negb trusted.

(** signature verification with the key of [owner] *)
Definition jk_decide (owner : string) (t : jtok) : outcome :=
  if String.eqb owner (t_signer t) then OAllow (jk_owner_result (t_sub t)) else ODeny.

Definition jk_fresh (w : jwks_world) (c : jk_cfg) (t : jtok) : outcome :=
  match jk_lookup w c t with
  | JKNoServer => OErr
  | JKNoKey => ODeny
  | JKKey o tr => if jk_rejects c tr then ODeny else jk_decide o t
  end.

(** getKey + verifyTokenWithKey: a fetched key that passes validateJWK is cached whatever the signature
    verification says; a cached key is used without validateJWK ([fx11]: repair d20d7cd, validated on a hit too) *)
Definition jk_exec (fx11 : bool) (H : string -> string) (w : jwks_world) (cch : cache) (c : jk_cfg) (t : jtok) : sres * cache :=
  match jk_key H c t with
  | None => ({| sr_key := None; sr_hit := false; sr_calls := 1; sr_out := jk_fresh w c t |}, cch)
  | Some k =>
    match lookup k cch with
    | Some r =>
      if fx11 && jk_rejects c (rs_active r)
      then (* d20d7cd: the cached key does not pass this instance's validation: it is ignored and the key fetched *)
        ({| sr_key := Some k; sr_hit := true; sr_calls := 1; sr_out := jk_fresh w c t |},
         match jk_lookup w c t with
         | JKKey o tr => if jk_rejects c tr then cch else (k, jk_key_result o tr) :: cch
         | _ => cch
         end)
      else ({| sr_key := Some k; sr_hit := true; sr_calls := 0; sr_out := jk_decide (rs_sub r) t |}, cch)
    | None =>
      ({| sr_key := Some k; sr_hit := false; sr_calls := 1; sr_out := jk_fresh w c t |},
       match jk_lookup w c t with
       | JKKey o tr => if jk_rejects c tr then cch else (k, jk_key_result o tr) :: cch
       | _ => cch
       end)
    end
  end.

Fixpoint jk_run (fx11 : bool) (H : string -> string) (w : jwks_world) (cch : cache) (h : list (jk_cfg * jtok)) : list sres :=
  match h with
  | [] => []
  | (c, t) :: r => let '(x, cch') := jk_exec fx11 H w cch c t in x :: jk_run fx11 H w cch' r
  end.
