(** C15/MainProof — the path under `allow_encoded_slashes: on` outside C15-F3, and
    the single statement: for every request, pipeline and rule on which none of
    the open findings shows, what the (repaired) model forwards satisfies the
    whole specification [spec_ok]. *)
From HV Require Import Base.Prelude Base.GoUrl Base.GoUrlFacts C15.UrlLemmas C15.QueryLemmas C15.HeaderLemmas
                       C15.Model C15.Spec C15.Proofs.

Local Open Scope char_scope.
Local Open Scope string_scope.

(** * bytes that net/url leaves alone in a path *)

Definition plain (c : ascii) : bool := negb (should_escape MPath c).
Definition plain_or_pct (c : ascii) : bool := Ascii.eqb c "%" || plain c.

Lemma all_chars_app P a b : all_chars P (a ++ b) = all_chars P a && all_chars P b.
Proof. induction a as [|c a IH]; simpl; [reflexivity|]. rewrite IH, andb_assoc. reflexivity. Qed.

Lemma escape_plain s : all_chars plain s = true -> escape MPath s = s.
Proof.
  induction s as [|c r IH]; [reflexivity|]. simpl. intro H. apply andb_true_iff in H as [H1 H2].
  unfold plain in H1. apply negb_true_iff in H1. rewrite H1, (IH H2). reflexivity.
Qed.

Lemma hexdig_plain_b : forall c, plain (hexdig (nb c / 16)) && plain (hexdig (nb c mod 16)) = true.
Proof. by_ascii. Qed.

Lemma escape_chars p : all_chars plain_or_pct (escape MPath p) = true.
Proof.
  induction p as [|c r IH]; [reflexivity|]. simpl escape. destruct (should_escape MPath c) eqn:E.
  - unfold pct_triplet. simpl all_chars. pose proof (hexdig_plain_b c) as H. apply andb_true_iff in H as [H1 H2].
    unfold plain_or_pct. rewrite H1, H2, !orb_true_r. exact IH.
  - simpl. unfold plain_or_pct at 1. unfold plain. rewrite E. simpl. rewrite orb_true_r. exact IH.
Qed.

Lemma no_pct_plain s : all_chars plain_or_pct s = true -> mem_ascii "%" s = false -> all_chars plain s = true.
Proof.
  induction s as [|c r IH]; [reflexivity|]. simpl all_chars. intros H Hm.
  change (mem_ascii "%" (String c r)) with (Ascii.eqb "%" c || mem_ascii "%" r) in Hm.
  apply orb_false_iff in Hm as [Hm1 Hm2]. apply andb_true_iff in H as [H1 H2].
  unfold plain_or_pct in H1. rewrite Ascii.eqb_sym, Hm1 in H1. simpl in H1. rewrite H1, (IH H2 Hm2). reflexivity.
Qed.

Lemma renorm_plain s : renorm_sensitive s = false -> mem_ascii "%" s = false -> all_chars plain s = true.
Proof.
  induction s as [|c r IH]; [reflexivity|]. intros H Hm.
  change (mem_ascii "%" (String c r)) with (Ascii.eqb "%" c || mem_ascii "%" r) in Hm.
  apply orb_false_iff in Hm as [Hm1 Hm2]. simpl renorm_sensitive in H. rewrite Ascii.eqb_sym, Hm1 in H.
  apply orb_false_iff in H as [H1 H2]. simpl all_chars. unfold plain at 1. rewrite H1. simpl. apply IH; assumption.
Qed.

Lemma strip_prefix_all_chars P c s : all_chars P s = true -> all_chars P (strip_prefix c s) = true.
Proof.
  intro H. destruct (strip_prefix_suffix c s) as [p Hp]. rewrite Hp, all_chars_app in H.
  apply andb_true_iff in H as [_ H]. exact H.
Qed.

Lemma strip_prefix_no_pct c s : mem_ascii "%" s = false -> mem_ascii "%" (strip_prefix c s) = false.
Proof.
  intro H. destruct (strip_prefix_suffix c s) as [p Hp]. rewrite Hp, mem_ascii_app in H.
  apply orb_false_iff in H as [_ H]. exact H.
Qed.

(** * re-encoding a path that has no sensitive spot only decodes its slashes *)

Lemma decode_slashes_plain3 a b c r : Ascii.eqb a "%" = false ->
  decode_slashes (String a (String b (String c r))) = String a (decode_slashes (String b (String c r))).
Proof. intro H. simpl. rewrite H. reflexivity. Qed.

Lemma decode_slashes_plain a r : Ascii.eqb a "%" = false -> decode_slashes (String a r) = String a (decode_slashes r).
Proof.
  intro H. destruct r as [|b [|c r']]; try reflexivity. apply decode_slashes_plain3. exact H.
Qed.

Lemma should_escape_slash : should_escape MPath "/" = false.
Proof. reflexivity. Qed.

Lemma renorm_escape_len n : forall raw p, (String.length raw <= n)%nat ->
  unescape raw = Some p -> renorm_sensitive raw = false -> escape MPath p = decode_slashes raw.
Proof.
  induction n as [|n IH]; intros raw p Hl Hu Hs.
  - destruct raw; [inversion Hu; reflexivity | simpl in Hl; lia].
  - destruct raw as [|a r1]; [inversion Hu; reflexivity|].
    destruct (Ascii.eqb a "%") eqn:Ea.
    + apply ascii_eqb_true in Ea. subst a.
      destruct r1 as [|b [|c r3]]; try (unfold unescape in Hu; simpl in Hu; discriminate).
      unfold unescape in Hu. simpl in Hu.
      destruct (ishex b) eqn:Hb; [|discriminate]. destruct (ishex c) eqn:Hc; [|discriminate]. simpl in Hu.
      destruct (unescape_gen false r3) as [p3|] eqn:E3; [|discriminate]. inversion Hu; subst p; clear Hu.
      simpl renorm_sensitive in Hs. apply orb_false_iff in Hs as [Hs1 Hs2]. apply negb_false_iff in Hs1.
      assert (IH3 : escape MPath p3 = decode_slashes r3).
      { apply IH; [simpl in Hl; lia | exact E3 | exact Hs2]. }
      simpl escape. pose proof (enc_slash_by_value b c Hb Hc) as Hsl.
      destruct (Ascii.eqb (hexbyte b c) "/") eqn:Ev.
      * (* an encoded slash: decoded by both *)
        apply ascii_eqb_true in Ev. rewrite Ev. rewrite should_escape_slash.
        symmetry in Hsl. apply andb_true_iff in Hsl as [Hb2 Hcf]. apply ascii_eqb_true in Hb2. subst b.
        simpl decode_slashes. rewrite Hcf. rewrite IH3. reflexivity.
      * (* any other escape: the canonical spelling of a byte that needs escaping *)
        simpl in Hs1. apply andb_true_iff in Hs1 as [Hs1 Hc2]. apply andb_true_iff in Hs1 as [Hse Hb2].
        rewrite Hse. unfold pct_triplet. apply ascii_eqb_true in Hb2. apply ascii_eqb_true in Hc2.
        rewrite <- Hb2, <- Hc2.
        assert (Hnot : Ascii.eqb b "2" && (Ascii.eqb c "F" || Ascii.eqb c "f") = false) by (rewrite <- Hsl; reflexivity).
        assert (Hd : decode_slashes (String "%" (String b (String c r3))) =
                     String "%" (decode_slashes (String b (String c r3)))).
        { simpl. rewrite Hnot. reflexivity. }
        rewrite Hd. rewrite decode_slashes_plain by (apply ishex_not_pct; exact Hb).
        rewrite decode_slashes_plain by (apply ishex_not_pct; exact Hc). rewrite IH3. reflexivity.
    + unfold unescape in Hu. rewrite unescape_gen_cons_plain in Hu by (assumption || reflexivity).
      destruct (unescape_gen false r1) as [p1|] eqn:E1; [|discriminate]. inversion Hu; subst p; clear Hu.
      simpl renorm_sensitive in Hs. rewrite Ea in Hs. apply orb_false_iff in Hs as [Hs1 Hs2].
      simpl escape. rewrite Hs1. rewrite decode_slashes_plain by exact Ea. f_equal.
      apply IH; [simpl in Hl; lia | exact E1 | exact Hs2].
Qed.

Lemma renorm_escape raw p : unescape raw = Some p -> renorm_sensitive raw = false ->
  escape MPath p = decode_slashes raw.
Proof. apply (renorm_escape_len (String.length raw)). lia. Qed.

(** * the path under `on` *)

Theorem wire_path_on fx r u t :
  view_wf u -> r_setting r = On -> u_path u <> "*" ->
  renorm_sensitive (u_rawpath u) = false -> renorm_sensitive (cfg_add r) = false ->
  valid_encoded (cfg_add r) = true -> wellformed (cfg_add r) = true ->
  execute fx r u = Some t ->
  wire_path t = expected_path r u.
Proof.
  intros (Hne & Hv & Hu) Hon Hstar Hsr Hsa Hva Hwa He.
  unfold execute in He. rewrite Hon in He. inversion He; subst t; clear He.
  set (D := decode_slashes (u_rawpath u)).
  assert (HD : escape MPath (u_path u) = D) by (apply renorm_escape; assumption).
  assert (Hep : escaped_path (u_path u) "" = D).
  { unfold escaped_path. simpl. rewrite (proj2 (String.eqb_neq _ _) Hstar). exact HD. }
  unfold expected_path, original_path, cfg_add, cfg_strip in *. rewrite Hon. fold D.
  unfold create_url_q. destruct (b_rw (r_backend r)) as [rw|].
  - set (raw' := rw_add rw ++ strip_prefix (rw_cut rw) D).
    assert (HvD : valid_encoded D = true) by (rewrite <- HD; apply escape_valid).
    assert (HwD : wellformed D = true) by (rewrite <- HD; apply escape_wellformed).
    assert (Hvr : valid_encoded raw' = true).
    { unfold raw'. rewrite valid_encoded_app, Hva. apply strip_prefix_valid. exact HvD. }
    assert (Hwr : wellformed raw' = true).
    { unfold raw'. apply wellformed_app; [exact Hwa | apply strip_prefix_wellformed; exact HwD]. }
    destruct (wellformed_unescape _ Hwr) as [p' Hp'].
    unfold wire_path, rewrite_q. cbn [u_path u_rawpath]. rewrite Hep, transform_path_eq. fold raw'.
    unfold unescape_or_empty. rewrite Hp'. simpl is_empty. cbv iota.
    destruct (String.eqb p' raw') eqn:Eq.
    + (* no escape in the transformed path: RawPath stays empty, the path is re-encoded *)
      apply String.eqb_eq in Eq. subst p'.
      pose proof (unescape_fixpoint _ Hp') as Hnp.
      unfold escaped_path. simpl. destruct (String.eqb raw' "*") eqn:Es; [apply String.eqb_eq in Es; congruence|].
      apply escape_plain. unfold raw' in *. rewrite mem_ascii_app in Hnp. apply orb_false_iff in Hnp as [Hn1 Hn2].
      rewrite all_chars_app. apply andb_true_iff. split.
      * apply renorm_plain; assumption.
      * apply no_pct_plain; [|exact Hn2]. apply strip_prefix_all_chars. rewrite <- HD. apply escape_chars.
    + apply escaped_path_valid; assumption.
  - unfold wire_path. cbn [u_path u_rawpath]. rewrite Hep. destruct D; reflexivity.
Qed.

Corollary wire_path_on_bytes fx r u t :
  view_wf u -> r_setting r = On -> u_path u <> "*" ->
  renorm_sensitive (u_rawpath u) = false -> renorm_sensitive (cfg_add r) = false ->
  valid_encoded (cfg_add r) = true -> wellformed (cfg_add r) = true ->
  execute fx r u = Some t ->
  wire_path t = cfg_add r ++ strip_prefix (cfg_strip r) (decode_slashes (u_rawpath u)).
Proof.
  intros Hwf Hon Hs H1 H2 H3 H4 He. rewrite (wire_path_on fx r u t Hwf Hon Hs H1 H2 H3 H4 He).
  unfold expected_path, original_path. rewrite Hon. reflexivity.
Qed.

(** * the whole statement *)

Lemma list_eqb_refl l : list_eqb String.eqb l l = true.
Proof. induction l as [|x r IH]; [reflexivity|]. simpl. rewrite String.eqb_refl. exact IH. Qed.

Lemma leq_refl l : leq l l = true.
Proof. apply list_eqb_refl. Qed.

Lemma valid_no_qmark_b : forall c, implb (valid_byte c) (negb (Ascii.eqb "?" c)) = true.
Proof. by_ascii. Qed.

Lemma valid_no_qmark s : valid_encoded s = true -> mem_ascii "?" s = false.
Proof.
  induction s as [|c r IH]; [reflexivity|]. simpl valid_encoded. intro H. apply andb_true_iff in H as [H1 H2].
  change (mem_ascii "?" (String c r)) with (Ascii.eqb "?" c || mem_ascii "?" r).
  pose proof (valid_no_qmark_b c) as B. rewrite H1 in B. cbn [implb] in B. apply negb_true_iff in B.
  rewrite B, (IH H2). reflexivity.
Qed.

Lemma cut_on_no_sep sep s : mem_ascii sep s = false -> cut_on sep s = (s, "").
Proof.
  induction s as [|c r IH]; intro H; [reflexivity|].
  change (mem_ascii sep (String c r)) with (Ascii.eqb sep c || mem_ascii sep r) in H.
  apply orb_false_iff in H as [H1 H2]. simpl. rewrite Ascii.eqb_sym, H1, (IH H2). reflexivity.
Qed.

Lemma execute_none fx r u : execute fx r u = None -> fx_c08f2 fx = true -> may_be_refused r u = true.
Proof.
  unfold execute, may_be_refused. intros H Hf. destruct (r_setting r); try discriminate.
  rewrite Hf in H. destruct (has_enc_slash true (u_rawpath u)); [reflexivity | discriminate].
Qed.

Lemma execute_some fx r u t : execute fx r u = Some t -> fx_c08f2 fx = true -> must_be_refused r u = false.
Proof.
  unfold execute, must_be_refused. intros H Hf. destruct (r_setting r); try reflexivity.
  rewrite Hf in H. unfold has_enc_slash in *. destruct (contains "%2F" (u_rawpath u)); [discriminate | reflexivity].
Qed.

(** ** the query sentence *)

Lemma kept_settings_raw names q : kept_settings names q = remove_from_raw names q.
Proof.
  unfold kept_settings, remove_from_raw. f_equal. apply filter_ext. intro s0.
  unfold setting_named, keep_pair, mem_str. destruct (query_unescape (fst (cut_on "=" s0))); reflexivity.
Qed.

(** the strict query sentence holds when RemoveFrom works setting by setting
    (since 5270ed2), and before that outside C15-F6 *)
Lemma query_clause_holds m names q :
  qf1 m = true -> (qf6 m = true \/
    (negb (is_nil names) && negb (is_empty q) && negb (snd (parse_query q)) &&
     negb (String.eqb (values_encode (del_all names (fst (parse_query q)))) (kept_settings names q))) = false) ->
  query_clause names q (remove_from_q m names q) = true.
Proof.
  intros H1 H6. unfold query_clause, remove_from_q. rewrite (orb_comm (is_empty q)).
  destruct (is_nil names || is_empty q) eqn:E; [apply String.eqb_refl|].
  apply orb_false_iff in E as [En Eq]. rewrite kept_settings_raw.
  destruct (qf6 m) eqn:E6; [apply String.eqb_refl|]. destruct H6 as [H6|H6]; [discriminate|].
  rewrite En, Eq in H6. simpl in H6. rewrite H1.
  destruct (parse_query q) as [vals err]. simpl in H6. destruct err; [apply String.eqb_refl|].
  simpl in H6. apply negb_false_iff in H6. rewrite kept_settings_raw in H6. exact H6.
Qed.

(** ** the header sentences *)

Lemma contains_here t r : contains t (t ++ r) = true.
Proof.
  assert (H : has_prefix t (t ++ r) = true).
  { induction t as [|c t IH]; [destruct r; reflexivity|]. simpl. rewrite Ascii.eqb_refl. exact IH. }
  destruct (t ++ r); simpl in *; rewrite H; reflexivity.
Qed.

Lemma contains_app_r t p s : contains t s = true -> contains t (p ++ s) = true.
Proof.
  intro H. induction p as [|c p IH]; [exact H|]. simpl. rewrite IH. apply orb_true_r.
Qed.

Lemma has_prefix_app t s r : has_prefix t s = true -> has_prefix t (s ++ r) = true.
Proof.
  revert s. induction t as [|c t IH]; intros s H; [destruct (s ++ r); reflexivity|].
  destruct s as [|d s]; [discriminate|]. simpl in *. apply andb_true_iff in H as [H1 H2].
  rewrite H1. apply IH. exact H2.
Qed.

Lemma contains_app_l t s r : contains t s = true -> contains t (s ++ r) = true.
Proof.
  induction s as [|c s IH]; intro H.
  - simpl in H. rewrite orb_false_r in H. destruct t; [|discriminate]. destruct r; reflexivity.
  - simpl in H. apply orb_true_iff in H as [H|H].
    + simpl. change (String c (s ++ r)) with (String c s ++ r). rewrite (has_prefix_app _ _ r H). reflexivity.
    + simpl. rewrite (IH H). apply orb_true_r.
Qed.

Definition in_cookie_field (t v : string) : bool := contains t v.

Lemma join_cookies_prefix cs : forall base, exists suffix, join_cookies base cs = base ++ suffix.
Proof.
  induction cs as [|c r IH]; intro base; [exists ""; rewrite append_nil_r; reflexivity|].
  cbn [join_cookies].
  destruct (IH (if is_empty base then cookie_text c else base ++ "; " ++ cookie_text c)) as [sfx H]. rewrite H.
  destruct (is_empty base) eqn:E.
  - destruct base; [|discriminate]. exists (cookie_text c ++ sfx). reflexivity.
  - exists ("; " ++ cookie_text c ++ sfx). rewrite !append_assoc. reflexivity.
Qed.

Lemma join_cookies_contains cs : forall base c, In c cs -> contains (cookie_text c) (join_cookies base cs) = true.
Proof.
  induction cs as [|c0 r IH]; intros base c Hin; [destruct Hin|]. cbn [join_cookies].
  destruct Hin as [Heq|Hin]; [subst c0 | apply IH; exact Hin].
  set (base' := if is_empty base then cookie_text c else base ++ "; " ++ cookie_text c).
  destruct (join_cookies_prefix r base') as [sfx H]. rewrite H. apply contains_app_l.
  unfold base'. destruct (is_empty base).
  - rewrite <- (append_nil_r (cookie_text c)) at 2. apply contains_here.
  - apply contains_app_r. apply contains_app_r. rewrite <- (append_nil_r (cookie_text c)) at 2. apply contains_here.
Qed.

Lemma in_insert_cookie e l x : In x (insert_cookie e l) <-> x = e \/ In x l.
Proof.
  induction l as [|e' r IH]; simpl; [split; intros [H|H]; auto|].
  destruct (String.leb (fst e) (fst e')); simpl.
  - split; intros [H|H]; auto.
  - rewrite IH. split; intros [H|[H|H]]; auto.
Qed.

Lemma in_sort_cookies l x : In x (sort_cookies l) <-> In x l.
Proof.
  unfold sort_cookies. induction l as [|e r IH]; simpl; [reflexivity|].
  rewrite in_insert_cookie, IH. split; intros [H|H]; auto.
Qed.

Lemma cookies_ok_join pl base :
  p_cookies pl <> [] -> cookies_ok pl [join_cookies base (sort_cookies (p_cookies pl))] = true.
Proof.
  intros _. unfold cookies_ok. apply forallb_forall. intros c Hc.
  apply join_cookies_contains. apply in_sort_cookies. exact Hc.
Qed.

Lemma extended_by_append ok old e : ok e = true -> extended_by ok old (append_peer old e) = true.
Proof.
  intro H. unfold extended_by, append_peer. destruct (is_empty old) eqn:E; [exact H|].
  rewrite <- append_assoc. rewrite cut_prefix_of_app. exact H.
Qed.

Lemma join_empty_first vs : join_with ", " vs = "" -> first_or_empty vs = "".
Proof.
  destruct vs as [|x [|y r]]; simpl; auto. intro H. destruct x; discriminate.
Qed.

Lemma joined_single k h : (2 <=? length (h_values k h))%nat = false -> h_joined k h = h_get k h.
Proof.
  unfold h_joined, h_get. destruct (h_values k h) as [|x [|y r]]; simpl; try reflexivity. discriminate.
Qed.

(** outside C15-F7 (or after its repair) the chain this implementation extends is the whole received chain *)
Lemma chain_all al q :
  al = true \/ guard_F7 q = false ->
  forwarding_active al (in_headers q) = forwarding_active true (in_headers q) /\
  (forwarding_active true (in_headers q) = true ->
     chain al "X-Forwarded-For" (in_headers q) = h_joined "X-Forwarded-For" (in_headers q)) /\
  (forwarding_active true (in_headers q) = false ->
     chain al "Forwarded" (in_headers q) = h_joined "Forwarded" (in_headers q)).
Proof.
  intros [H|H]; [subst al; repeat split; reflexivity|].
  destruct al; [repeat split; reflexivity|].
  unfold guard_F7 in H. set (hin := in_headers q) in *.
  destruct (forwarding_active true hin) eqn:Ea.
  - pose proof (joined_single _ _ H) as Hj. unfold forwarding_active, chain in *. rewrite <- Hj.
    repeat split; auto. discriminate.
  - pose proof (joined_single _ _ H) as Hj. repeat split; try discriminate.
    + unfold forwarding_active, chain in *.
      apply orb_false_iff in Ea as [Ea E3]. apply orb_false_iff in Ea as [E1 E2]. rewrite E2, E3.
      apply negb_false_iff in E1.
      assert (Hg : h_get "X-Forwarded-For" hin = "").
      { unfold h_joined in E1. unfold h_get. fold (first_or_empty (h_values "X-Forwarded-For" hin)).
        apply join_empty_first. destruct (join_with ", " (h_values "X-Forwarded-For" hin)); [reflexivity | discriminate]. }
      rewrite Hg. reflexivity.
    + intros _. unfold chain. symmetry. exact Hj.
Qed.

Lemma names_peer_element peer host proto :
  names_peer peer ("for=" ++ peer ++ ";host=" ++ host ++ ";proto=" ++ proto) = true.
Proof.
  unfold names_peer. rewrite <- (append_assoc "for=" peer). rewrite contains_here. reflexivity.
Qed.

Lemma not_forwarding_value al q k : is_forwarding_name k = false -> forwarding_value al q k = None.
Proof.
  intro H. destruct (forwarding_value al q k) eqn:E; [|reflexivity].
  apply forwarding_value_name in E. congruence.
Qed.

(** what Go's HTTP client makes of the values [vs] heimdall hands over for [k]; [b]: it adds gzip *)
Definition tv (b : bool) (k : string) (vs : list string) : list string :=
  if String.eqb k "User-Agent" then (if is_empty (first_or_empty vs) then [] else [first_or_empty vs])
  else if String.eqb k "Accept-Encoding" then (if b then (vs ++ ["gzip"])%list else vs)
  else vs.

Lemma expected_values_shape all pf al q pl m k :
  exists b, expected_values all pf al q pl m k = tv b k (handed_over all pf al q pl k).
Proof.
  unfold expected_values, tv. destruct (String.eqb k "User-Agent"); [exists false; reflexivity|].
  destruct (String.eqb k "Accept-Encoding") eqn:E; [|exists false; reflexivity].
  apply String.eqb_eq in E. subst k. eexists. reflexivity.
Qed.

Lemma tv_clause_ae b vs : ae_ok vs (tv b "Accept-Encoding" vs) = true.
Proof. unfold tv, ae_ok. simpl. destruct b; rewrite leq_refl; [apply orb_true_r | reflexivity]. Qed.

Lemma tv_clause_ua b vs : ua_ok vs (tv b "User-Agent" vs) = true.
Proof.
  unfold tv, ua_ok. simpl. destruct vs as [|v r]; [reflexivity|]. cbn [first_or_empty firstn].
  destruct (is_empty v).
  - cbn. rewrite ?orb_true_r. reflexivity.
  - rewrite (leq_refl [v]). rewrite orb_true_r. reflexivity.
Qed.

Lemma tv_other b k vs : String.eqb k "User-Agent" = false -> String.eqb k "Accept-Encoding" = false -> tv b k vs = vs.
Proof. intros H1 H2. unfold tv. rewrite H1, H2. reflexivity. Qed.

(** what the model puts on the wire satisfies the sentence about every field name *)
Lemma hdr_clause_handed al q pl tracing b k :
  al = true \/ guard_F7 q = false ->
  hdr_clause q pl tracing k (tv b k (handed_over true true al q pl k)) = true.
Proof.
  intro H7. destruct (chain_all al q H7) as (Hact & Hx & Hf).
  unfold hdr_clause, hdr_clause_h, handed_over. unfold pipeline_values.
  set (hin := in_headers q) in *. set (pvs := line_values k (p_headers pl)).
  destruct (is_nil pvs) eqn:Epv; cbn [negb].
  - (* the pipeline did not produce k *)
    destruct (never_passed k) eqn:Enp.
    { assert (Hnf : is_forwarding_name k = false).
      { unfold never_passed, is_forwarding_name, mem_str in *. simpl in *.
        destruct (String.eqb k "X-Forwarded-Method") eqn:E1; [apply String.eqb_eq in E1; subst k; reflexivity|].
        destruct (String.eqb k "X-Forwarded-Uri") eqn:E2; [apply String.eqb_eq in E2; subst k; reflexivity|].
        destruct (String.eqb k "X-Forwarded-Path") eqn:E3; [apply String.eqb_eq in E3; subst k; reflexivity|].
        discriminate. }
      rewrite (not_forwarding_value al q k Hnf). unfold passed_on. rewrite Enp. cbn [orb].
      assert (Hc : String.eqb k "Cookie" = false).
      { destruct (String.eqb k "Cookie") eqn:E; [apply String.eqb_eq in E; subst k; discriminate | reflexivity]. }
      assert (Hu : String.eqb k "User-Agent" = false).
      { destruct (String.eqb k "User-Agent") eqn:E; [apply String.eqb_eq in E; subst k; discriminate | reflexivity]. }
      assert (Ha : String.eqb k "Accept-Encoding" = false).
      { destruct (String.eqb k "Accept-Encoding") eqn:E; [apply String.eqb_eq in E; subst k; discriminate | reflexivity]. }
      rewrite Hc. cbn [andb]. rewrite tv_other by assumption. reflexivity. }
    destruct (String.eqb k "X-Forwarded-For") eqn:Exff.
    { apply String.eqb_eq in Exff. subst k. cbn [String.eqb Ascii.eqb Bool.eqb andb]. rewrite tv_other by reflexivity.
      unfold forwarding_value. fold hin. rewrite Hact.
      destruct (forwarding_active true hin) eqn:Ea; [|reflexivity].
      cbn [String.eqb Ascii.eqb Bool.eqb]. rewrite (Hx eq_refl).
      apply extended_by_append. apply String.eqb_refl. }
    destruct (String.eqb k "Forwarded") eqn:Efw.
    { apply String.eqb_eq in Efw. subst k. cbn [String.eqb Ascii.eqb Bool.eqb andb]. rewrite tv_other by reflexivity.
      unfold forwarding_value. fold hin. rewrite Hact.
      destruct (forwarding_active true hin) eqn:Ea; [reflexivity|].
      cbn [String.eqb Ascii.eqb Bool.eqb]. rewrite (Hf eq_refl).
      apply extended_by_append. apply names_peer_element. }
    destruct (is_forwarding_name k || hop_by_hop hin k) eqn:Efh; [reflexivity|].
    apply orb_false_iff in Efh as [Efn Ehop].
    destruct (tracing && mem_str k propagation_names); [reflexivity|].
    rewrite (not_forwarding_value al q k Efn).
    assert (Hpo : passed_on hin k = h_values k hin).
    { unfold passed_on. rewrite Enp, Efn, Ehop. reflexivity. }
    rewrite Hpo.
    destruct (String.eqb k "Cookie" && negb (is_nil (p_cookies pl))) eqn:Eck.
    { apply andb_true_iff in Eck as [Ec Ecn]. apply String.eqb_eq in Ec. subst k.
      rewrite tv_other by reflexivity. apply cookies_ok_join. destruct (p_cookies pl); discriminate. }
    destruct (h_has k hin) eqn:Eh; cbn [negb]; [|reflexivity].
    destruct (String.eqb k "Accept-Encoding") eqn:Eae.
    { apply String.eqb_eq in Eae. subst k. apply tv_clause_ae. }
    destruct (String.eqb k "User-Agent") eqn:Eua.
    { apply String.eqb_eq in Eua. subst k. apply tv_clause_ua. }
    rewrite tv_other by assumption. apply leq_refl.
  - (* the pipeline produced k: exactly its values *)
    assert (Hbase : match forwarding_value al q k with
                    | Some v => if true && true then pvs else [v]
                    | None => pvs
                    end = pvs) by (destruct (forwarding_value al q k); reflexivity).
    rewrite Hbase.
    destruct (String.eqb k "Cookie" && negb (is_nil (p_cookies pl))) eqn:Eck.
    { apply andb_true_iff in Eck as [Ec Ecn]. apply String.eqb_eq in Ec. subst k.
      rewrite tv_other by reflexivity. apply cookies_ok_join. destruct (p_cookies pl); discriminate. }
    destruct (String.eqb k "Accept-Encoding") eqn:Eae.
    { apply String.eqb_eq in Eae. subst k. apply tv_clause_ae. }
    destruct (String.eqb k "User-Agent") eqn:Eua.
    { apply String.eqb_eq in Eua. subst k. apply tv_clause_ua. }
    rewrite tv_other by assumption. apply leq_refl.
Qed.

Lemma hdr_clause_expected al q pl tracing m k :
  al = true \/ guard_F7 q = false ->
  hdr_clause q pl tracing k (expected_values true true al q pl m k) = true.
Proof.
  intro H. destruct (expected_values_shape true true al q pl m k) as [b Hb]. rewrite Hb.
  apply hdr_clause_handed. exact H.
Qed.

Lemma expected_path_valid r u : view_wf u -> u_path u <> "*" ->
  (r_setting r = On -> renorm_sensitive (u_rawpath u) = false) ->
  valid_encoded (cfg_add r) = true -> valid_encoded (expected_path r u) = true.
Proof.
  intros (Hne & Hv & Hu) Hstar Hs Hva. unfold expected_path. rewrite valid_encoded_app, Hva. simpl.
  apply strip_prefix_valid. unfold original_path. destruct (r_setting r) eqn:E; try exact Hv.
  rewrite <- (renorm_escape _ _ Hu (Hs eq_refl)). apply escape_valid.
Qed.

(** THE WHOLE STATEMENT.  [fx]: a tree with the repairs of C08-F2, C13-F3, C15-F1
    and C15-F4 and — as in /repo — possibly those of C15-F6 / C15-F7.  For every
    request, pipeline output and rule on which none of the open findings shows,
    what is forwarded — or that nothing is — satisfies every sentence of the
    property.  (C15-F8 concerns the tracing instrumentation, which is outside the
    model; the hypothesis is listed to say so.) *)
Theorem spec_holds fx q pl r :
  fx_c08f2 fx = true -> fx_c13f3 fx = true -> fx_f1 fx = true -> fx_f4 fx = true ->
  oracle_ok q = true ->
  guard_F2 q = false -> guard_F3 q r = false -> guard_F5 r = false ->
  fx_f6 fx = true \/ guard_F6 q r = false ->
  fx_f7 fx = true \/ guard_F7 q = false ->
  guard_F8 pl r = false ->
  spec_ok q pl r (serve fx q pl r) = true.
Proof.
  intros F08 F13 F1 F4 Ho G2 G3 G5 G6 G7 _. unfold spec_ok. destruct (view_url q) as [u|] eqn:Hv.
  2:{ unfold serve. rewrite Hv. reflexivity. }
  pose proof (view_url_wf q u Ho Hv) as Hwf.
  unfold guard_F5 in G5. apply negb_false_iff in G5. apply andb_true_iff in G5 as [Hva Hwa].
  destruct (serve fx q pl r) as [st|tls m uri host hs body] eqn:Hs.
  - (* nothing forwarded: refused because of an encoded slash, or the scheme cannot be used *)
    unfold serve in Hs. rewrite Hv in Hs. destruct (execute fx r u) as [t|] eqn:He.
    + pose proof (scheme_rewritten _ _ _ _ He) as Hsc. rewrite Hsc in Hs. unfold scheme_usable.
      destruct (String.eqb (expected_scheme r u) "http") eqn:E1;
        destruct (String.eqb (expected_scheme r u) "https") eqn:E2; cbn [orb negb] in Hs.
      * apply String.eqb_eq in E1. apply String.eqb_eq in E2. congruence.
      * destruct (r_up_tls r); cbn [Bool.eqb negb] in Hs.
        -- cbn [negb]. rewrite orb_true_r. reflexivity.
        -- destruct (q_fault q); [apply orb_true_r|].
           destruct (rewrite_request fx q pl (u_host t)); discriminate.
      * destruct (r_up_tls r); cbn [Bool.eqb negb] in Hs.
        -- destruct (q_fault q); [apply orb_true_r|].
           destruct (rewrite_request fx q pl (u_host t)); discriminate.
        -- cbn [negb]. rewrite orb_true_r. reflexivity.
      * destruct (r_up_tls r); cbn [negb]; rewrite orb_true_r; reflexivity.
    + rewrite (execute_none _ _ _ He F08). reflexivity.
  - destruct (serve_forwarded _ _ _ _ _ _ _ _ _ _ Hs) as (u' & t & Hv' & He & Hsch & Htls & Hup & Hm & Huri & Hh & Hhs & Hb).
    rewrite Hv in Hv'. inversion Hv'; subst u'; clear Hv'.
    pose proof (scheme_rewritten _ _ _ _ He) as Hsc.
    (* the path on the wire *)
    assert (Hstar : r_setting r = On -> u_path u <> "*" /\ renorm_sensitive (u_rawpath u) = false /\
                                      renorm_sensitive (cfg_add r) = false).
    { intro Hon. unfold guard_F3, guard_F3_v in G3. rewrite Hv, Hon in G3.
      apply orb_false_iff in G3 as [G3 G3c]. apply orb_false_iff in G3 as [G3a G3b].
      splits; auto. apply String.eqb_neq. exact G3c. }
    assert (Hpath : wire_path t = expected_path r u).
    { destruct (r_setting r) eqn:Est.
      - apply (wire_path_exact fx); auto. congruence.
      - destruct (Hstar eq_refl) as (H1 & H2 & H3). apply (wire_path_on fx); auto.
      - apply (wire_path_exact fx); auto. congruence. }
    assert (Hpv : valid_encoded (expected_path r u) = true).
    { destruct (r_setting r) eqn:Est.
      - destruct Hwf as (Hne & Hv1 & Hu1). unfold expected_path, original_path. rewrite Est, valid_encoded_app, Hva.
        apply strip_prefix_valid. exact Hv1.
      - destruct (Hstar eq_refl) as (H1 & H2 & H3). apply expected_path_valid; auto.
      - destruct Hwf as (Hne & Hv1 & Hu1). unfold expected_path, original_path. rewrite Est, valid_encoded_app, Hva.
        apply strip_prefix_valid. exact Hv1. }
    set (P := if is_empty (expected_path r u) then "/" else expected_path r u).
    assert (HP : mem_ascii "?" P = false).
    { unfold P. destruct (is_empty (expected_path r u)); [reflexivity | apply valid_no_qmark; exact Hpv]. }
    set (q' := match b_rw (r_backend r) with
               | Some rw => remove_from_q (fx_q fx) (rw_strip_q rw) (u_query u)
               | None => u_query u
               end).
    assert (Hcut : cut_on "?" uri = (P, q')).
    { subst uri. rewrite (request_line _ _ _ _ He). rewrite Hpath. fold P. cbv zeta. fold q'.
      destruct (is_empty q') eqn:Eq.
      - rewrite append_nil_r. rewrite cut_on_no_sep by exact HP. destruct q'; [reflexivity | discriminate].
      - apply cut_on_app_no_sep. exact HP. }
    rewrite Hcut.
    assert (Hq : query_clause (cfg_strip_query r) (u_query u) q' = true).
    { unfold q', cfg_strip_query. destruct (b_rw (r_backend r)) as [rw|] eqn:Erw.
      - apply query_clause_holds; [exact F1|]. cbn [fx_q qf6]. destruct G6 as [G6|G6]; [left; exact G6|right].
        unfold guard_F6, guard_F6_v in G6. rewrite Hv in G6. unfold cfg_strip_query in G6. rewrite Erw in G6. exact G6.
      - unfold query_clause. simpl. apply String.eqb_refl. }
    assert (Husable : scheme_usable r u = true).
    { unfold scheme_usable. rewrite <- Hsc. rewrite <- Hup, Htls.
      destruct Hsch as [E|E]; rewrite E; reflexivity. }
    rewrite (serve_forwarded_intact _ _ _ _ _ _ _ _ _ _ Hs).
    rewrite (execute_some _ _ _ _ He F08), Husable, Hq. cbn [negb andb].
    rewrite Htls, Hsc, Bool.eqb_reflx. fold P. rewrite String.eqb_refl. cbn [andb].
    assert (Hmeth : m = q_method q).
    { subst m. unfold guard_F2 in G2. apply negb_false_iff in G2. apply String.eqb_eq in G2. exact G2. }
    rewrite Hmeth, String.eqb_refl, Hb, String.eqb_refl. cbn [andb].
    rewrite (serve_host _ _ _ _ _ _ _ _ _ _ Hs), String.eqb_refl. cbn [andb].
    (* headers *)
    unfold headers_ok. cbv zeta. apply forallb_forall. intros k _.
    change (hdr_clause_h (in_headers q) (q_peer q) pl (r_tracing r) k (h_values k hs))
      with (hdr_clause q pl (r_tracing r) k (h_values k hs)).
    destruct (String.eqb k "Host") eqn:Ek; [reflexivity|]. simpl.
    rewrite (serve_headers _ _ _ _ _ _ _ _ _ _ k Hs) by (apply String.eqb_neq; exact Ek).
    rewrite F13, F4. apply hdr_clause_expected.
    destruct G7 as [G7|G7]; [left | right]; exact G7.
Qed.

(** the tree before 5270ed2 / f228b67, and /repo as it is *)
Corollary spec_holds_repaired q pl r :
  oracle_ok q = true ->
  guard_F2 q = false -> guard_F3 q r = false -> guard_F5 r = false ->
  guard_F6 q r = false -> guard_F7 q = false -> guard_F8 pl r = false ->
  spec_ok q pl r (serve repaired q pl r) = true.
Proof. intros. apply spec_holds; auto. Qed.

Corollary spec_holds_repaired2 q pl r :
  oracle_ok q = true ->
  guard_F2 q = false -> guard_F3 q r = false -> guard_F5 r = false -> guard_F8 pl r = false ->
  spec_ok q pl r (serve repaired2 q pl r) = true.
Proof. intros. apply spec_holds; auto. Qed.

(** * "in any casing": the canonical key of a field name ignores ASCII case *)

Fixpoint fold_eq (a b : string) : bool :=
  match a, b with
  | EmptyString, EmptyString => true
  | String x a', String y b' => Ascii.eqb (to_lower x) (to_lower y) && fold_eq a' b'
  | _, _ => false
  end.

Lemma fold_byte_b : forall a b,
  implb (Ascii.eqb (to_lower a) (to_lower b))
        (Ascii.eqb (to_upper a) (to_upper b) && Bool.eqb (is_tchar a) (is_tchar b)) = true.
Proof. by_ascii2. Qed.

Lemma fold_byte a b : Ascii.eqb (to_lower a) (to_lower b) = true ->
  to_lower a = to_lower b /\ to_upper a = to_upper b /\ is_tchar a = is_tchar b.
Proof.
  intro H. pose proof (fold_byte_b a b) as B. rewrite H in B. cbn [implb] in B.
  apply andb_true_iff in B as [B1 B2]. apply ascii_eqb_true in H. apply ascii_eqb_true in B1.
  apply Bool.eqb_prop in B2. auto.
Qed.

Lemma canon_from_fold : forall a b up, fold_eq a b = true -> canon_from up a = canon_from up b.
Proof.
  induction a as [|x a IH]; intros [|y b] up H; try discriminate; [reflexivity|].
  simpl in H. apply andb_true_iff in H as [H1 H2]. destruct (fold_byte _ _ H1) as (Hl & Hu & _).
  simpl. destruct up; [rewrite Hu | rewrite Hl]; f_equal; apply IH; exact H2.
Qed.

Lemma tchars_fold : forall a b, fold_eq a b = true -> all_chars is_tchar a = all_chars is_tchar b.
Proof.
  induction a as [|x a IH]; intros [|y b] H; try discriminate; [reflexivity|].
  simpl in H. apply andb_true_iff in H as [H1 H2]. destruct (fold_byte _ _ H1) as (_ & _ & Ht).
  simpl. rewrite Ht, (IH b H2). reflexivity.
Qed.

(** two spellings of a field name that differ only in ASCII case name the same header *)
Theorem canon_key_any_casing n n' :
  all_chars is_tchar n = true -> fold_eq n n' = true -> canon_key n = canon_key n'.
Proof.
  intros Ht Hf. unfold canon_key. rewrite <- (tchars_fold _ _ Hf), Ht. apply canon_from_fold. exact Hf.
Qed.

(** hence what the pipeline adds under one spelling is found under any other *)
Corollary pipeline_values_any_casing all n n' v :
  all_chars is_tchar n = true -> fold_eq n n' = true ->
  pipeline_values all [(n, v)] (canon_key n') = [v].
Proof.
  intros Ht Hf. unfold pipeline_values. simpl. rewrite (canon_key_any_casing _ _ Ht Hf), String.eqb_refl.
  destruct all; reflexivity.
Qed.

(** * bytes in, bytes out *)

(** the path the upstream receives, in terms of the bytes the client sent: with
    no trusted X-Forwarded-Uri, under `off` / `no_decode`, a valid encoded
    request path comes out as add_path_prefix ++ (path minus strip_path_prefix),
    byte for byte *)
Theorem request_path_end_to_end fx q pl r tls m uri host hs body :
  serve fx q pl r = Forwarded tls m uri host hs body ->
  oracle_ok q = true -> valid_encoded (q_raw q) = true ->
  h_get "X-Forwarded-Uri" (in_headers q) = "" ->
  r_setting r <> On -> guard_F5 r = false ->
  fst (cut_on "?" uri) =
  (let p := cfg_add r ++ strip_prefix (cfg_strip r) (q_raw q) in if is_empty p then "/" else p).
Proof.
  intros Hs Ho Hvr Hx Hon G5.
  destruct (serve_forwarded _ _ _ _ _ _ _ _ _ _ Hs) as (u & t & Hv & He & _ & _ & _ & _ & Huri & _ & _ & _).
  pose proof (view_url_wf q u Ho Hv) as Hwf.
  unfold guard_F5 in G5. apply negb_false_iff in G5. apply andb_true_iff in G5 as [Hva Hwa].
  pose proof (wire_path_exact_bytes fx r u t Hwf Hon Hva Hwa He) as Hp.
  rewrite (view_url_rawpath q u Hv Hx Hvr) in Hp.
  cbv zeta. set (p := cfg_add r ++ strip_prefix (cfg_strip r) (q_raw q)) in *.
  assert (Hpv : valid_encoded p = true).
  { unfold p. rewrite valid_encoded_app, Hva. apply strip_prefix_valid. exact Hvr. }
  set (P := if is_empty p then "/" else p).
  assert (HP : mem_ascii "?" P = false).
  { unfold P. destruct (is_empty p); [reflexivity | apply valid_no_qmark; exact Hpv]. }
  subst uri. rewrite (request_line _ _ _ _ He), Hp. fold P. cbv zeta.
  match goal with |- context [if is_empty ?q' then _ else _] => destruct (is_empty q') end.
  - rewrite append_nil_r, cut_on_no_sep by exact HP. reflexivity.
  - rewrite cut_on_app_no_sep by exact HP. reflexivity.
Qed.

(** * sequences of requests through one rule instance *)

(** what one rule instance forwards for a sequence of requests.  The model has no
    state: what is forwarded for a request is a function of that request (and
    what the pipeline handed over for it) and the rule alone — that the
    IMPLEMENTATION keeps no state between requests either (a memoised rewrite, a
    shared buffer) is what the session streams of the correspondence check *)
Definition serve_all (fx : fixes) (r : rule) (reqs : list (request * pipeline)) : list outcome :=
  map (fun x => serve fx (fst x) (snd x) r) reqs.

Lemma history_independent fx r h1 h2 x :
  nth_error (serve_all fx r (h1 ++ [x])) (length h1) = nth_error (serve_all fx r (h2 ++ [x])) (length h2).
Proof.
  unfold serve_all. rewrite !map_app. simpl.
  rewrite !nth_error_app2 by (rewrite map_length; lia). rewrite !map_length, !Nat.sub_diag. reflexivity.
Qed.

(** every request of every sequence, whatever came before it, is forwarded as the statement says *)
Theorem sequence_spec_holds fx r reqs n q pl :
  fx_c08f2 fx = true -> fx_c13f3 fx = true -> fx_f1 fx = true -> fx_f4 fx = true ->
  nth_error reqs n = Some (q, pl) ->
  oracle_ok q = true ->
  guard_F2 q = false -> guard_F3 q r = false -> guard_F5 r = false ->
  fx_f6 fx = true \/ guard_F6 q r = false ->
  fx_f7 fx = true \/ guard_F7 q = false ->
  guard_F8 pl r = false ->
  exists o, nth_error (serve_all fx r reqs) n = Some o /\ spec_ok q pl r o = true.
Proof.
  intros F08 F13 F1 F4 Hn Ho G2 G3 G5 G6 G7 G8. exists (serve fx q pl r). split.
  - unfold serve_all. rewrite nth_error_map, Hn. reflexivity.
  - apply spec_holds; assumption.
Qed.
