(** C15/UrlLemmas — facts about Base/GoUrl needed by C15 that are not in
    Base/GoUrlFacts: well-formedness and validity under append / prefix cutting,
    escape produces valid well-formed text. *)
From HV Require Import Base.Prelude Base.GoUrl Base.GoUrlFacts.

Local Open Scope char_scope.
Local Open Scope string_scope.

(** every '%' starts an escape *)
Definition wellformed (s : string) : bool := match unescape s with Some _ => true | None => false end.

Lemma wellformed_nil : wellformed "" = true.
Proof. reflexivity. Qed.

Lemma wellformed_plain c r : Ascii.eqb c "%" = false -> wellformed (String c r) = wellformed r.
Proof.
  intro H. unfold wellformed, unescape. rewrite unescape_gen_cons_plain by (assumption || reflexivity).
  destruct (unescape_gen false r); reflexivity.
Qed.

Lemma wellformed_pct r :
  wellformed (String "%" r) =
  match r with
  | String a (String b r') => ishex a && ishex b && wellformed r'
  | _ => false
  end.
Proof.
  unfold wellformed, unescape. destruct r as [|a [|b r']]; try reflexivity.
  simpl. destruct (ishex a && ishex b); [|reflexivity].
  destruct (unescape_gen false r'); reflexivity.
Qed.

Lemma append_nil_r (s : string) : s ++ "" = s.
Proof. induction s; simpl; congruence. Qed.

Lemma append_assoc (a b c : string) : (a ++ b) ++ c = a ++ (b ++ c).
Proof. induction a; simpl; congruence. Qed.

Lemma length_append (a b : string) : String.length (a ++ b) = (String.length a + String.length b)%nat.
Proof. induction a; simpl; congruence. Qed.

(** a suffix of well-formed text is well-formed (an escape cut in the middle
    leaves hex digits, which are ordinary bytes) *)
Lemma wellformed_suffix_len n : forall p r, (String.length p <= n)%nat ->
  wellformed (p ++ r) = true -> wellformed r = true.
Proof.
  induction n as [|n IH]; intros p r Hl H.
  - destruct p; [exact H | simpl in Hl; lia].
  - destruct p as [|c p']; [exact H|]. simpl in H, Hl.
    destruct (Ascii.eqb c "%") eqn:Ec.
    + apply ascii_eqb_true in Ec. subst c. rewrite wellformed_pct in H.
      destruct p' as [|a [|b p'']]; simpl in H.
      * destruct r as [|a [|b r']]; try discriminate.
        apply andb_true_iff in H as [H H3]. apply andb_true_iff in H as [H1 H2].
        rewrite wellformed_plain by (apply ishex_not_pct; assumption).
        rewrite wellformed_plain by (apply ishex_not_pct; assumption). exact H3.
      * destruct r as [|b r']; try discriminate.
        apply andb_true_iff in H as [H H3]. apply andb_true_iff in H as [H1 H2].
        rewrite wellformed_plain by (apply ishex_not_pct; assumption). exact H3.
      * apply andb_true_iff in H as [_ H3]. apply (IH p''); [simpl in Hl; lia | exact H3].
    + rewrite wellformed_plain in H by assumption. apply (IH p'); [lia | exact H].
Qed.

Lemma wellformed_suffix p r : wellformed (p ++ r) = true -> wellformed r = true.
Proof. apply (wellformed_suffix_len (String.length p)). lia. Qed.

Lemma wellformed_app_len n : forall a b, (String.length a <= n)%nat ->
  wellformed a = true -> wellformed b = true -> wellformed (a ++ b) = true.
Proof.
  induction n as [|n IH]; intros a b Hl Ha Hb.
  - destruct a; [exact Hb | simpl in Hl; lia].
  - destruct a as [|c a']; [exact Hb|]. simpl in Hl. simpl append.
    destruct (Ascii.eqb c "%") eqn:Ec.
    + apply ascii_eqb_true in Ec. subst c. rewrite wellformed_pct in Ha. rewrite wellformed_pct.
      destruct a' as [|x [|y a'']]; try discriminate. simpl append.
      apply andb_true_iff in Ha as [Ha H3]. rewrite Ha. simpl.
      apply IH; [simpl in Hl; lia | exact H3 | exact Hb].
    + rewrite wellformed_plain in Ha by assumption. rewrite wellformed_plain by assumption.
      apply IH; [lia | exact Ha | exact Hb].
Qed.

Lemma wellformed_app a b : wellformed a = true -> wellformed b = true -> wellformed (a ++ b) = true.
Proof. apply (wellformed_app_len (String.length a)). lia. Qed.

Lemma wellformed_unescape s : wellformed s = true -> exists p, unescape s = Some p.
Proof. unfold wellformed. destruct (unescape s) as [p|]; [eauto | discriminate]. Qed.

Lemma unescape_wellformed s p : unescape s = Some p -> wellformed s = true.
Proof. unfold wellformed. intros ->. reflexivity. Qed.

(** * validEncoded *)

Lemma valid_encoded_app a b : valid_encoded (a ++ b) = valid_encoded a && valid_encoded b.
Proof. induction a as [|c a IH]; simpl; [reflexivity|]. rewrite IH, andb_assoc. reflexivity. Qed.

(** * strings.CutPrefix *)

Lemma cut_prefix_app p s r : cut_prefix p s = Some r -> s = p ++ r.
Proof.
  revert s. induction p as [|a p IH]; intros s H; simpl in H.
  - inversion H. reflexivity.
  - destruct s as [|b s]; [discriminate|]. destruct (Ascii.eqb a b) eqn:E; [|discriminate].
    apply ascii_eqb_true in E. subst b. simpl. f_equal. apply IH. exact H.
Qed.

Lemma cut_prefix_of_app p r : cut_prefix p (p ++ r) = Some r.
Proof. induction p as [|a p IH]; simpl; [reflexivity|]. rewrite Ascii.eqb_refl. exact IH. Qed.

(** * escape produces valid, well-formed text *)

Lemma hexdig_valid_b : forall c,
  valid_byte (hexdig (nb c / 16)) && valid_byte (hexdig (nb c mod 16)) = true.
Proof. by_ascii. Qed.

Lemma noescape_valid c : should_escape MPath c = false -> valid_byte c = true.
Proof. intro H. unfold valid_byte. rewrite H. apply orb_true_r. Qed.

Lemma escape_valid s : valid_encoded (escape MPath s) = true.
Proof.
  induction s as [|c r IH]; [reflexivity|]. simpl escape.
  destruct (should_escape MPath c) eqn:E.
  - unfold pct_triplet. simpl valid_encoded. pose proof (hexdig_valid_b c) as H.
    apply andb_true_iff in H as [H1 H2]. rewrite H1, H2, IH. reflexivity.
  - simpl. rewrite (noescape_valid c E), IH. reflexivity.
Qed.

Lemma escape_wellformed s : wellformed (escape MPath s) = true.
Proof. unfold wellformed. rewrite unescape_escape by discriminate. reflexivity. Qed.

Lemma escape_empty m s : escape m s = "" -> s = "".
Proof.
  destruct s as [|c r]; [reflexivity|]. simpl.
  destruct (should_escape m c); [|discriminate].
  destruct m; unfold pct_triplet; try discriminate.
  destruct (Ascii.eqb c " "); discriminate.
Qed.

Lemma unescape_empty s : unescape s = Some "" -> s = "".
Proof.
  destruct s as [|c r]; [reflexivity|]. unfold unescape. simpl.
  destruct (Ascii.eqb c "%").
  - destruct r as [|a [|b r']]; try discriminate.
    destruct (ishex a && ishex b); [|discriminate].
    destruct (unescape_gen false r'); discriminate.
  - destruct (unescape_gen false r); discriminate.
Qed.

(** the first byte of a path that starts with '/' survives decoding *)
Lemma unescape_slash r p : unescape (String "/" r) = Some p -> exists p', p = String "/" p'.
Proof.
  unfold unescape. simpl. destruct (unescape_gen false r) as [x|]; [|discriminate].
  simpl. intro H. inversion H. eauto.
Qed.

(** text without '%' decodes to itself *)
Lemma unescape_length t : forall y, unescape t = Some y -> (String.length y <= String.length t)%nat.
Proof.
  unfold unescape. remember (String.length t) as n eqn:Hn. revert t Hn.
  induction n as [n IHn] using lt_wf_ind. intros t Hn y Hy.
  destruct t as [|c t]; [inversion Hy; simpl; lia|]. simpl in Hy.
  destruct (Ascii.eqb c "%").
  - destruct t as [|a [|b t']]; try discriminate.
    destruct (ishex a && ishex b); [|discriminate].
    destruct (unescape_gen false t') as [z|] eqn:Ez; [|discriminate]. inversion Hy; subst y.
    simpl in *. assert (String.length z <= String.length t')%nat.
    { eapply (IHn (String.length t')); [lia | reflexivity | exact Ez]. } lia.
  - destruct (unescape_gen false t) as [z|] eqn:Ez; [|discriminate]. inversion Hy; subst y.
    simpl in *. assert (String.length z <= String.length t)%nat.
    { eapply (IHn (String.length t)); [lia | reflexivity | exact Ez]. } lia.
Qed.

Lemma unescape_fixpoint s : unescape s = Some s -> mem_ascii "%" s = false.
Proof.
  induction s as [|c r IH]; [reflexivity|]. intro H.
  change (mem_ascii "%" (String c r)) with (Ascii.eqb "%" c || mem_ascii "%" r).
  unfold unescape in H, IH. simpl in H.
  destruct (Ascii.eqb c "%") eqn:Ec.
  - apply ascii_eqb_true in Ec. subst c.
    destruct r as [|a [|b r']]; try discriminate.
    destruct (ishex a && ishex b); [|discriminate].
    destruct (unescape_gen false r') as [x|] eqn:E; [|discriminate]. simpl in H. inversion H.
    (* the decoded text would be shorter than the original *)
    exfalso. pose proof (unescape_length _ _ E) as Hlen. subst x. simpl in Hlen. lia.
  - destruct (unescape_gen false r) as [x|] eqn:E; [|discriminate]. simpl in H. inversion H. subst x.
    rewrite Ascii.eqb_sym, Ec. simpl. apply IH. reflexivity.
Qed.
