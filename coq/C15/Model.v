(** C15/Model — proxy mode: from the bytes a client sends to the bytes the
    upstream receives.  Faithful, executable model of

      net/http server            request target -> URL.Path / URL.RawPath, field lines -> Header   ([parse_headers], [set_path])
      trustedproxy middleware    forwarded headers of untrusted peers are deleted                  ([strip_untrusted])
      requestcontext.New         extractMethod, extractURL                                         ([view_method], [view_url])
      ruleImpl.Execute           allow_encoded_slashes switch, then Backend.CreateURL              ([execute]; C15/Rewrite.v)
      httputil.ReverseProxy      hop-by-hop removal, forwarding headers stripped before Rewrite    ([remove_hop_by_hop], [strip_forwarding])
      proxy.requestContext.rewriteRequest   method, URL, Host, header algebra, cookies, forwarded block  ([rewrite_request])
      http.Transport             request line, User-Agent / Accept-Encoding handling, scheme       ([on_the_wire])

    Definitions only.  The code is modelled AS IT IS; [fixes] says which repairs
    the modelled tree contains. *)
From HV Require Import Base.Prelude Base.GoUrl.
From HV Require Export C15.Rewrite.

Local Open Scope char_scope.
Local Open Scope string_scope.

(** * header maps (net/http.Header) *)

(** canonical key -> values; keys distinct, values in arrival order *)
Definition header := list (string * list string).

Definition is_lower (c : ascii) : bool := in_range 97 122 c.
Definition is_upper (c : ascii) : bool := in_range 65 90 c.
Definition to_upper (c : ascii) : ascii := if is_lower c then ascii_of_N (nb c - 32) else c.
Definition to_lower (c : ascii) : ascii := if is_upper c then ascii_of_N (nb c + 32) else c.

(** net/textproto validHeaderFieldByte: RFC 7230 tchar *)
Definition is_tchar (c : ascii) : bool := is_alnum c || mem_ascii c "!#$%&'*+-.^_`|~".

Fixpoint all_chars (p : ascii -> bool) (s : string) : bool :=
  match s with
  | EmptyString => true
  | String c r => p c && all_chars p r
  end.

(** the loop of textproto.canonicalMIMEHeaderKey: upper case at the start and after '-' *)
Fixpoint canon_from (upper : bool) (s : string) : string :=
  match s with
  | EmptyString => EmptyString
  | String c r =>
    let c' := if upper then to_upper c else to_lower c in
    String c' (canon_from (Ascii.eqb c' "-") r)
  end.

(** textproto.CanonicalMIMEHeaderKey: names with a byte that is not a token
    character are left alone *)
Definition canon_key (s : string) : string :=
  if all_chars is_tchar s then canon_from true s else s.

Fixpoint h_values (k : string) (h : header) : list string :=
  match h with
  | [] => []
  | (k', vs) :: r => if String.eqb k k' then vs else h_values k r
  end.

(** Header.Get (the caller passes a canonical key) *)
Definition h_get (k : string) (h : header) : string :=
  match h_values k h with v :: _ => v | [] => "" end.

Definition h_has (k : string) (h : header) : bool :=
  existsb (fun e => String.eqb k (fst e)) h.

Definition h_del (k : string) (h : header) : header :=
  filter (fun e => negb (String.eqb k (fst e))) h.

Fixpoint h_add (k v : string) (h : header) : header :=
  match h with
  | [] => [(k, [v])]
  | (k', vs) :: r => if String.eqb k k' then (k', (vs ++ [v])%list) :: r else (k', vs) :: h_add k v r
  end.

(** [h[k] = vs] *)
Definition h_set_all (k : string) (vs : list string) (h : header) : header := (h_del k h ++ [(k, vs)])%list.

Definition h_set (k v : string) (h : header) : header := h_set_all k [v] h.

(** the field lines of a message, read by net/textproto *)
Definition parse_headers (lines : list (string * string)) : header :=
  fold_left (fun h l => h_add (canon_key (fst l)) (snd l) h) lines [].

(** the values of all field lines whose name spells [k], in order *)
Fixpoint line_values (k : string) (lines : list (string * string)) : list string :=
  match lines with
  | [] => []
  | (n, v) :: r => if String.eqb (canon_key n) k then v :: line_values k r else line_values k r
  end.

(** sorted by key, as the upstream test server reports them *)
Fixpoint h_insert (e : string * list string) (h : header) : header :=
  match h with
  | [] => [e]
  | e' :: r => if String.leb (fst e) (fst e') then e :: h else e' :: h_insert e r
  end.

Definition h_sort (h : header) : header := fold_right h_insert [] h.

(** * small string helpers *)

Definition mem_str (k : string) (l : list string) : bool := existsb (String.eqb k) l.

Definition first_or_empty (vs : list string) : string := match vs with v :: _ => v | [] => "" end.

Definition is_ws (c : ascii) : bool := Ascii.eqb c " " || Ascii.eqb c "009".

Fixpoint trim_left (s : string) : string :=
  match s with
  | String c r => if is_ws c then trim_left r else s
  | EmptyString => EmptyString
  end.

(** drop trailing blanks: a blank is kept only if something non-blank follows *)
Fixpoint trim_right (s : string) : string :=
  match s with
  | EmptyString => EmptyString
  | String c r =>
    let r' := trim_right r in
    if is_ws c && is_empty r' then EmptyString else String c r'
  end.

Definition trim (s : string) : string := trim_right (trim_left s).

(** * the request, the pipeline's output, the rule *)

Record request := {
  q_method : string;
  q_raw : string;                       (* path part of the request target, as sent *)
  q_query : string;                     (* after the first '?' *)
  q_host : string;                      (* Host field *)
  q_headers : list (string * string);   (* the other field lines, as sent (any casing), in order *)
  q_body : string;
  q_fault : bool;                       (* the body does not arrive intact: the chunk framing breaks after some good chunks, or the
                                           connection ends before the announced length / the last chunk ([q_body] is what was meant) *)
  q_tls : bool;                         (* the connection to heimdall is TLS (req.TLS != nil) *)
  q_peer : string;                      (* address of the peer as httpx.IPFromHostPort renders it *)
  q_trusted : bool;                     (* oracle: the peer is in trusted_proxies *)
  q_xfu : option (string * string)      (* oracle: what extractURL reads from the X-Forwarded-Uri the view sees: (EscapedPath, RawQuery as sent); for a value url.Parse rejects the text before / after the first '?' *)
}.

(** what the pipeline handed over: AddHeaderForUpstream calls in order,
    AddCookieForUpstream calls (a map: distinct names) *)
Record pipeline := { p_headers : list (string * string); p_cookies : list (string * string) }.

Inductive setting := Off | On | NoDecode.

Record rule := {
  r_setting : setting;
  r_backend : backend;          (* forward_to *)
  r_up_tls : bool;              (* environment: the server at forward_to.host speaks TLS *)
  r_tracing : bool              (* environment: tracing is enabled (heimdall's default), a propagator is installed *)
}.

(** which repairs the modelled tree contains: C08-F2 (case-insensitive %2f
    under `off`, owned by C08), C13-F3 (all values of a pipeline header are
    handed over, owned by C13), C15-F1 (41fd1db), -F4 (35453b2), -F6 (5270ed2)
    and -F7 (f228b67) *)
Record fixes := { fx_c08f2 : bool; fx_c13f3 : bool; fx_f1 : bool; fx_f4 : bool; fx_f6 : bool; fx_f7 : bool }.
Definition fx_q (fx : fixes) : qfix := {| qf1 := fx_f1 fx; qf6 := fx_f6 fx |}.
(** the tree before C15's own repairs: C08-F2 repaired by a779db8, C13-F3 by a5ef279 *)
Definition current : fixes :=
  {| fx_c08f2 := true; fx_c13f3 := true; fx_f1 := false; fx_f4 := false; fx_f6 := false; fx_f7 := false |}.
(** C15-F1 repaired by 41fd1db, C15-F4 by 35453b2 *)
Definition repaired : fixes :=
  {| fx_c08f2 := true; fx_c13f3 := true; fx_f1 := true; fx_f4 := true; fx_f6 := false; fx_f7 := false |}.
(** /repo as it is: also C15-F6 repaired by 5270ed2, C15-F7 by f228b67 *)
Definition repaired2 : fixes :=
  {| fx_c08f2 := true; fx_c13f3 := true; fx_f1 := true; fx_f4 := true; fx_f6 := true; fx_f7 := true |}.

(** * what heimdall sees *)

Definition untrusted_headers : list string :=
  ["Forwarded"; "X-Forwarded-For"; "X-Forwarded-Proto"; "X-Forwarded-Host";
   "X-Forwarded-Uri"; "X-Forwarded-Path"; "X-Forwarded-Method"].

Definition h_del_all (ks : list string) (h : header) : header :=
  fold_left (fun h k => h_del k h) ks h.

(** trustedproxy.New *)
Definition strip_untrusted (trusted : bool) (h : header) : header :=
  if trusted then h else h_del_all untrusted_headers h.

(** the header map every later stage reads ([proxyReq.In.Header], [r.req.Header]) *)
Definition in_headers (q : request) : header :=
  strip_untrusted (q_trusted q) (parse_headers (q_headers q)).

(** extractMethod *)
Definition view_method (q : request) : string :=
  let m := h_get "X-Forwarded-Method" (in_headers q) in
  if is_empty m then q_method q else m.

(** extractURL; [None]: net/http answers 400 before heimdall sees the request *)
Definition view_url (q : request) : option hurl :=
  if negb (has_prefix "/" (q_raw q)) then None else
  match set_path (q_raw q) with
  | None => None
  | Some (p0, rp0) =>
    let h := in_headers q in
    let proto := let p := h_get "X-Forwarded-Proto" h in
                 if is_empty p then (if q_tls q then "https" else "http") else p in
    let host := let x := h_get "X-Forwarded-Host" h in if is_empty x then q_host q else x in
    let xfu := if is_empty (h_get "X-Forwarded-Uri" h) then None else q_xfu q in
    let raw1 := match xfu with Some (p, _) => p | None => "" end in
    let qry1 := match xfu with Some (_, x) => x | None => "" end in
    let raw_path := if is_empty raw1 then escaped_path p0 rp0 else raw1 in
    let query := if is_empty qry1 then q_query q else qry1 in
    Some {| u_scheme := proto; u_host := host; u_path := unescape_or_empty raw_path;
            u_rawpath := raw_path; u_query := query |}
  end.

(** * ruleImpl.Execute (with a pipeline that accepts) *)

Definition has_enc_slash (ci : bool) (p : string) : bool :=
  contains "%2F" p || (ci && contains "%2f" p).

(** [None]: ErrArgument "path contains encoded slash" *)
Definition execute (fx : fixes) (r : rule) (u : hurl) : option hurl :=
  match r_setting r with
  | On => Some (create_url_q (fx_q fx) (r_backend r)
                  {| u_scheme := u_scheme u; u_host := u_host u; u_path := u_path u;
                     u_rawpath := EmptyString; u_query := u_query u |})
  | Off => if has_enc_slash (fx_c08f2 fx) (u_rawpath u) then None
           else Some (create_url_q (fx_q fx) (r_backend r) u)
  | NoDecode => Some (create_url_q (fx_q fx) (r_backend r) u)
  end.

(** * httputil.ReverseProxy before Rewrite *)

Definition hop_headers : list string :=
  ["Connection"; "Proxy-Connection"; "Keep-Alive"; "Proxy-Authenticate"; "Proxy-Authorization";
   "Te"; "Trailer"; "Transfer-Encoding"; "Upgrade"].

(** the header names a Connection field lists *)
Definition connection_tokens (h : header) : list string :=
  filter (fun s => negb (is_empty s))
         (flat_map (fun f => map trim (split_on "," f)) (h_values "Connection" h)).

Definition remove_hop_by_hop (h : header) : header :=
  h_del_all hop_headers (fold_left (fun h t => h_del (canon_key t) h) (connection_tokens h) h).

(** "Strip client-provided forwarding headers" (done because a Rewrite hook is set) *)
Definition strip_forwarding (h : header) : header :=
  h_del_all ["Forwarded"; "X-Forwarded-For"; "X-Forwarded-Host"; "X-Forwarded-Proto"] h.

(** * rewriteRequest *)

(** RequestContext.upstreamHeaders after the pipeline's AddHeaderForUpstream calls *)
Definition upstream_headers (pl : pipeline) : header :=
  fold_left (fun h l => h_add (canon_key (fst l)) (snd l) h) (p_headers pl) [].

(** [for k, values := range uh { Out.Header[k] = slices.Clone(values) }];
    before a5ef279: [for k := range uh { Out.Header.Set(k, uh.Get(k)) }] *)
Definition set_pipeline_headers (all : bool) (uh : header) (h : header) : header :=
  fold_left (fun h e => h_set_all (fst e) (if all then snd e else [first_or_empty (snd e)]) h) uh h.

(** Request.AddCookie with a name and value that need no sanitising *)
Definition add_cookie (h : header) (c : string * string) : header :=
  let s := fst c ++ "=" ++ snd c in
  let old := h_get "Cookie" h in
  if is_empty old then h_set "Cookie" s h else h_set "Cookie" (old ++ "; " ++ s) h.

Fixpoint insert_cookie (e : string * string) (l : list (string * string)) :=
  match l with
  | [] => [e]
  | e' :: r => if String.leb (fst e) (fst e') then e :: l else e' :: insert_cookie e r
  end.

(** the cookie map is iterated in an unspecified order; the observation is
    canonicalised to the order of the names *)
Definition sort_cookies (l : list (string * string)) := fold_right insert_cookie [] l.

Definition forwarded_element (peer host proto : string) : string :=
  "for=" ++ peer ++ ";host=" ++ host ++ ";proto=" ++ proto.

(** a list-valued field spread over several field lines, as one value *)
Definition h_joined (k : string) (h : header) : string := join_with ", " (h_values k h).

(** the forwarded-header block of rewriteRequest; [hin] = proxyReq.In.Header,
    [tls] = proxyReq.In.TLS != nil; [all_lines] = since f228b67 (C15-F7) every
    field line of X-Forwarded-For / Forwarded counts, before only the first *)
Definition forwarded_block (all_lines tls : bool) (hin : header) (in_host peer : string) (h : header) : header :=
  let fhost := h_get "X-Forwarded-Host" hin in
  let fproto := h_get "X-Forwarded-Proto" hin in
  let ffor := if all_lines then h_joined "X-Forwarded-For" hin else h_get "X-Forwarded-For" hin in
  let fwd := if all_lines then h_joined "Forwarded" hin else h_get "Forwarded" hin in
  let proto := if tls then "https" else "http" in
  if negb (is_empty ffor) || negb (is_empty fproto) || negb (is_empty fhost) then
    let h := h_set "X-Forwarded-For" (if is_empty ffor then peer else ffor ++ ", " ++ peer) h in
    let h := h_set "X-Forwarded-Proto" (if is_empty fproto then proto else fproto) h in
    h_set "X-Forwarded-Host" (if is_empty fhost then in_host else fhost) h
  else
    h_set "Forwarded" (if is_empty fwd then forwarded_element peer in_host proto
                       else fwd ++ ", " ++ forwarded_element peer in_host proto) h.

(** the outgoing header map and Host after ReverseProxy's preparation and heimdall's Rewrite hook *)
Definition rewrite_request (fx : fixes) (q : request) (pl : pipeline) (target_host : string) : string * header :=
  let hin := in_headers q in
  let h := strip_forwarding (remove_hop_by_hop hin) in
  let h := h_del_all ["X-Forwarded-Method"; "X-Forwarded-Uri"; "X-Forwarded-Path"] h in
  (* since 35453b2 (C15-F4) the forwarded-header block runs before the pipeline's headers are applied *)
  let h := if fx_f4 fx then forwarded_block (fx_f7 fx) (q_tls q) hin (q_host q) (q_peer q) h else h in
  let uh := upstream_headers pl in
  let h := set_pipeline_headers (fx_c13f3 fx) uh h in
  let ph := h_get "Host" uh in
  let out_host := if is_empty ph then target_host else ph in
  let h := if is_empty ph then h else h_del "Host" h in
  let h := fold_left add_cookie (sort_cookies (p_cookies pl)) h in
  (out_host, if fx_f4 fx then h else forwarded_block (fx_f7 fx) (q_tls q) hin (q_host q) (q_peer q) h).

(** * http.Transport *)

(** User-Agent is written from the first value only and not at all when empty
    (ReverseProxy sets it to "" when the client sent none); a field line
    Accept-Encoding: gzip is added when the request carries no (non-empty)
    Accept-Encoding and no Range and is not HEAD *)
Definition on_the_wire (method : string) (h : header) : header :=
  let h := h_del "Host" h in   (* never written from the map: the Host line comes from Request.Host *)
  let ua := h_get "User-Agent" h in
  let h := if is_empty ua then h_del "User-Agent" h else h_set "User-Agent" ua h in
  if is_empty (h_get "Accept-Encoding" h) && is_empty (h_get "Range" h) && negb (String.eqb method "HEAD")
  then h_add "Accept-Encoding" "gzip" h else h.

(** * the whole way *)

Inductive outcome :=
| NotForwarded (status : Z)       (* nothing reaches the upstream; the client sees [status] *)
| Forwarded (tls : bool) (method uri host : string) (hdrs : header) (body : string).

Definition serve (fx : fixes) (q : request) (pl : pipeline) (r : rule) : outcome :=
  match view_url q with
  | None => NotForwarded 400
  | Some u =>
    match execute fx r u with
    | None => NotForwarded 400
    | Some t =>
      let tls_wanted := String.eqb (u_scheme t) "https" in
      if negb (String.eqb (u_scheme t) "http" || tls_wanted) then NotForwarded 502
      else if negb (Bool.eqb tls_wanted (r_up_tls r)) then NotForwarded 502
      else if q_fault q then NotForwarded 502   (* the read error of the client's body aborts the upstream request,
                                                   whether or not the pipeline looked at the body before *)
      else
        let '(host, h) := rewrite_request fx q pl (u_host t) in
        let m := view_method q in
        Forwarded tls_wanted m (wire_uri t) host (h_sort (on_the_wire m h)) (q_body q)
    end
  end.

(** * equality tests for the evaluator *)

Definition entry_eqb (a b : string * list string) : bool :=
  String.eqb (fst a) (fst b) && list_eqb String.eqb (snd a) (snd b).

Definition outcome_eqb (a b : outcome) : bool :=
  match a, b with
  | NotForwarded x, NotForwarded y => Z.eqb x y
  | Forwarded t1 m1 u1 h1 hs1 b1, Forwarded t2 m2 u2 h2 hs2 b2 =>
    Bool.eqb t1 t2 && String.eqb m1 m2 && String.eqb u1 u2 && String.eqb h1 h2 &&
    list_eqb entry_eqb hs1 hs2 && String.eqb b1 b2
  | _, _ => false
  end.
