(** C15/HeaderLemmas — the algebra of header maps: what a lookup sees after
    Add / Set / Del, after the loops of rewriteRequest, after sorting. *)
From HV Require Import Base.Prelude Base.GoUrl Base.GoUrlFacts C15.Model.


Lemma str_eqb_refl s : String.eqb s s = true.
Proof. apply String.eqb_refl. Qed.

Lemma str_eqb_neq a b : a <> b -> String.eqb a b = false.
Proof. intro H. apply String.eqb_neq. exact H. Qed.

Lemma str_eqb_sym a b : String.eqb a b = String.eqb b a.
Proof. apply String.eqb_sym. Qed.

(** * lookups *)

Lemma h_values_cons k k' vs h :
  h_values k ((k', vs) :: h) = if String.eqb k k' then vs else h_values k h.
Proof. reflexivity. Qed.

Lemma h_has_false_values k h : h_has k h = false -> h_values k h = [].
Proof.
  induction h as [|[k' vs] r IH]; [reflexivity|]. unfold h_has in *. simpl.
  destruct (String.eqb k k'); [discriminate|]. exact IH.
Qed.

Lemma h_values_app k h1 h2 :
  h_values k (h1 ++ h2) = if h_has k h1 then h_values k h1 else h_values k h2.
Proof.
  induction h1 as [|[k' vs] r IH]; [reflexivity|]. unfold h_has in *. simpl.
  destruct (String.eqb k k'); [reflexivity|]. exact IH.
Qed.

Lemma h_has_del k k' h : h_has k (h_del k' h) = negb (String.eqb k' k) && h_has k h.
Proof.
  induction h as [|[k2 vs] r IH]; [simpl; rewrite andb_false_r; reflexivity|].
  unfold h_has, h_del in *. simpl. destruct (String.eqb k' k2) eqn:E1; simpl.
  - rewrite IH. apply String.eqb_eq in E1. subst k2. rewrite (str_eqb_sym k k').
    destruct (String.eqb k' k); reflexivity.
  - rewrite IH. destruct (String.eqb k k2) eqn:E2; [|reflexivity].
    apply String.eqb_eq in E2. subst k2. rewrite E1. reflexivity.
Qed.

Lemma h_values_del k k' h :
  h_values k (h_del k' h) = if String.eqb k' k then [] else h_values k h.
Proof.
  induction h as [|[k2 vs] r IH]; [destruct (String.eqb k' k); reflexivity|].
  unfold h_del in *. simpl. destruct (String.eqb k' k2) eqn:E1; simpl.
  - rewrite IH. apply String.eqb_eq in E1. subst k2. rewrite (str_eqb_sym k k').
    destruct (String.eqb k' k); reflexivity.
  - rewrite IH. destruct (String.eqb k k2) eqn:E2.
    + apply String.eqb_eq in E2. subst k2. rewrite E1. reflexivity.
    + reflexivity.
Qed.

Lemma h_values_set_all k k' vs h :
  h_values k (h_set_all k' vs h) = if String.eqb k' k then vs else h_values k h.
Proof.
  unfold h_set_all. rewrite h_values_app, h_has_del, h_values_del. simpl.
  rewrite (str_eqb_sym k k'). destruct (String.eqb k' k); simpl; [reflexivity|].
  destruct (h_has k h) eqn:E; [reflexivity|]. symmetry. apply h_has_false_values. exact E.
Qed.

Lemma h_values_set k k' v h :
  h_values k (h_set k' v h) = if String.eqb k' k then [v] else h_values k h.
Proof. apply h_values_set_all. Qed.

Lemma h_values_add k k' v h :
  h_values k (h_add k' v h) = if String.eqb k' k then (h_values k h ++ [v])%list else h_values k h.
Proof.
  induction h as [|[k2 vs] r IH]; simpl.
  - rewrite (str_eqb_sym k k'). destruct (String.eqb k' k); reflexivity.
  - destruct (String.eqb k' k2) eqn:E1; simpl.
    + apply String.eqb_eq in E1. subst k2. rewrite (str_eqb_sym k k').
      destruct (String.eqb k' k); reflexivity.
    + rewrite IH. destruct (String.eqb k k2) eqn:E2; [|reflexivity].
      apply String.eqb_eq in E2. subst k2. rewrite E1. reflexivity.
Qed.

Lemma h_get_values k h : h_get k h = match h_values k h with v :: _ => v | [] => ""%string end.
Proof. reflexivity. Qed.

Lemma h_values_del_all k ks h :
  h_values k (h_del_all ks h) = if mem_str k ks then [] else h_values k h.
Proof.
  unfold h_del_all. revert h. induction ks as [|k' ks IH]; intro h; [reflexivity|].
  simpl. rewrite IH, h_values_del. rewrite (str_eqb_sym k k').
  destruct (String.eqb k' k); simpl; destruct (mem_str k ks); reflexivity.
Qed.

(** * distinct keys *)

Definition keys (h : header) : list string := map fst h.

Lemma keys_del k h : keys (h_del k h) = filter (fun x => negb (String.eqb k x)) (keys h).
Proof.
  induction h as [|[k' vs] r IH]; [reflexivity|]. unfold h_del, keys in *. simpl.
  destruct (String.eqb k k'); simpl; rewrite IH; reflexivity.
Qed.

Lemma NoDup_filter {A} (f : A -> bool) l : NoDup l -> NoDup (filter f l).
Proof.
  induction 1 as [|x l Hx Hl IH]; simpl; [constructor|].
  destruct (f x); [|exact IH]. constructor; [|exact IH].
  intro Hin. apply filter_In in Hin as [Hin _]. contradiction.
Qed.

Lemma NoDup_snoc {A} (l : list A) x : NoDup l -> ~ In x l -> NoDup (l ++ [x]).
Proof.
  induction 1 as [|y l Hy Hl IH]; intro Hx; simpl.
  - constructor; [intros []|constructor].
  - constructor.
    + intro Hin. apply in_app_or in Hin as [Hin|[Hin|[]]]; [contradiction|]. subst y. apply Hx. left. reflexivity.
    + apply IH. intro Hin. apply Hx. right. exact Hin.
Qed.

Lemma nodup_del k h : NoDup (keys h) -> NoDup (keys (h_del k h)).
Proof. intro H. rewrite keys_del. apply NoDup_filter. exact H. Qed.

Lemma in_keys_has k h : In k (keys h) <-> h_has k h = true.
Proof.
  unfold keys, h_has. rewrite existsb_exists. split.
  - intro H. apply in_map_iff in H as ([k' vs] & E & Hin). simpl in E. subst k'.
    exists (k, vs). split; [exact Hin | apply str_eqb_refl].
  - intros ([k' vs] & Hin & E). simpl in E. apply String.eqb_eq in E. subst k'.
    apply in_map_iff. exists (k, vs). auto.
Qed.

Lemma nodup_set_all k vs h : NoDup (keys h) -> NoDup (keys (h_set_all k vs h)).
Proof.
  intro H. unfold h_set_all, keys. rewrite map_app. simpl.
  apply NoDup_snoc.
  - apply (nodup_del k h H).
  - intro Hx. fold (keys (h_del k h)) in Hx.
    apply in_keys_has in Hx. rewrite h_has_del, str_eqb_refl in Hx. discriminate.
Qed.

Lemma nodup_set k v h : NoDup (keys h) -> NoDup (keys (h_set k v h)).
Proof. apply nodup_set_all. Qed.

Lemma keys_add k v h : keys (h_add k v h) = if h_has k h then keys h else (keys h ++ [k])%list.
Proof.
  induction h as [|[k' vs] r IH]; [reflexivity|]. unfold keys, h_has in *. simpl.
  destruct (String.eqb k k') eqn:E; simpl; [reflexivity|]. rewrite IH.
  destruct (existsb _ r); reflexivity.
Qed.

Lemma nodup_add k v h : NoDup (keys h) -> NoDup (keys (h_add k v h)).
Proof.
  intro H. rewrite keys_add. destruct (h_has k h) eqn:E; [exact H|].
  apply NoDup_snoc; [exact H|]. intro Hx. apply in_keys_has in Hx. congruence.
Qed.

Lemma nodup_del_all ks h : NoDup (keys h) -> NoDup (keys (h_del_all ks h)).
Proof.
  unfold h_del_all. revert h. induction ks as [|k ks IH]; intros h H; [exact H|].
  simpl. apply IH. apply nodup_del. exact H.
Qed.

Lemma nodup_fold_add (lines : list (string * string)) h :
  NoDup (keys h) -> NoDup (keys (fold_left (fun h l => h_add (canon_key (fst l)) (snd l) h) lines h)).
Proof.
  revert h. induction lines as [|l r IH]; intros h H; [exact H|]. simpl. apply IH. apply nodup_add. exact H.
Qed.

Lemma nodup_parse_headers lines : NoDup (keys (parse_headers lines)).
Proof. apply nodup_fold_add. constructor. Qed.

(** * field lines to map *)

Lemma h_values_fold_add k (lines : list (string * string)) h :
  h_values k (fold_left (fun h l => h_add (canon_key (fst l)) (snd l) h) lines h) =
  (h_values k h ++ line_values k lines)%list.
Proof.
  revert h. induction lines as [|[n v] r IH]; intro h; simpl; [rewrite app_nil_r; reflexivity|].
  rewrite IH, h_values_add. destruct (String.eqb (canon_key n) k); [|reflexivity].
  rewrite <- app_assoc. reflexivity.
Qed.

Lemma h_values_parse_headers k lines : h_values k (parse_headers lines) = line_values k lines.
Proof. unfold parse_headers. rewrite h_values_fold_add. reflexivity. Qed.

(** * sorting keeps lookups *)

Lemma h_values_insert k e h :
  h_values k (h_insert e h) = if String.eqb k (fst e) then snd e else h_values k h.
Proof.
  destruct e as [ke ve]. induction h as [|[k' vs] r IH]; [reflexivity|]. simpl.
  destruct (String.leb ke k') eqn:L; simpl.
  - reflexivity.
  - rewrite IH. simpl. destruct (String.eqb k k') eqn:E1; destruct (String.eqb k ke) eqn:E2; try reflexivity.
    (* both ke and k' equal k: excluded by the order test only if keys differ; values of the first hit win *)
    apply String.eqb_eq in E1. apply String.eqb_eq in E2. subst k' ke.
    (* String.leb k k = true *)
    exfalso. destruct (String.leb_total k k); congruence.
Qed.

Lemma h_values_sort k h : NoDup (keys h) -> h_values k (h_sort h) = h_values k h.
Proof.
  unfold h_sort. induction h as [|[k' vs] r IH]; intro H; [reflexivity|].
  simpl. rewrite h_values_insert. simpl. inversion H; subst. rewrite IH by assumption. reflexivity.
Qed.

Local Open Scope string_scope.

(** * the loops of rewriteRequest *)

Lemma h_has_cons k k' vs h : h_has k ((k', vs) :: h) = String.eqb k k' || h_has k h.
Proof. reflexivity. Qed.

Lemma h_values_set_pipeline all k uh : forall h, NoDup (keys uh) ->
  h_values k (set_pipeline_headers all uh h) =
  if h_has k uh then (if all then h_values k uh else [first_or_empty (h_values k uh)]) else h_values k h.
Proof.
  unfold set_pipeline_headers. induction uh as [|[ke ve] r IH]; intros h H; [reflexivity|].
  simpl fold_left. inversion H as [|x l Hnin Hnd]; subst. rewrite IH by assumption.
  rewrite h_has_cons, h_values_cons, h_values_set_all. simpl fst. simpl snd.
  destruct (String.eqb k ke) eqn:E.
  - apply String.eqb_eq in E. subst ke. rewrite str_eqb_refl. simpl.
    destruct (h_has k r) eqn:Eh; [|reflexivity].
    exfalso. apply Hnin. apply in_keys_has. exact Eh.
  - rewrite (str_eqb_sym ke k), E. reflexivity.
Qed.

Lemma nodup_set_pipeline all uh : forall h, NoDup (keys h) -> NoDup (keys (set_pipeline_headers all uh h)).
Proof.
  unfold set_pipeline_headers. induction uh as [|e r IH]; intros h H; [exact H|].
  simpl. apply IH. apply nodup_set_all. exact H.
Qed.

Lemma h_has_add k k' v h : h_has k (h_add k' v h) = h_has k h || String.eqb k' k.
Proof.
  induction h as [|[k2 vs] r IH]; simpl.
  - unfold h_has. simpl. rewrite (str_eqb_sym k k'), orb_false_r. reflexivity.
  - destruct (String.eqb k' k2) eqn:E1.
    + rewrite !h_has_cons. apply String.eqb_eq in E1. subst k2.
      rewrite (str_eqb_sym k k'). destruct (String.eqb k' k); simpl; [reflexivity|]. rewrite orb_false_r. reflexivity.
    + rewrite !h_has_cons, IH. rewrite orb_assoc. reflexivity.
Qed.

Lemma h_has_fold_add k (lines : list (string * string)) h :
  h_has k (fold_left (fun h l => h_add (canon_key (fst l)) (snd l) h) lines h) =
  h_has k h || negb (is_nil (line_values k lines)).
Proof.
  revert h. induction lines as [|[n v] r IH]; intro h; simpl; [rewrite orb_false_r; reflexivity|].
  rewrite IH, h_has_add. destruct (String.eqb (canon_key n) k); simpl.
  - rewrite !orb_true_r. reflexivity.
  - rewrite orb_false_r. reflexivity.
Qed.

(** cookies *)

Lemma h_values_add_cookie_other k h c : String.eqb "Cookie" k = false ->
  h_values k (add_cookie h c) = h_values k h.
Proof.
  intro H. unfold add_cookie. destruct (is_empty (h_get "Cookie" h)); rewrite h_values_set, H; reflexivity.
Qed.

Lemma h_values_add_cookies_other k cs : forall h, String.eqb "Cookie" k = false ->
  h_values k (fold_left add_cookie cs h) = h_values k h.
Proof.
  induction cs as [|c r IH]; intros h H; [reflexivity|]. simpl. rewrite IH by assumption.
  apply h_values_add_cookie_other. exact H.
Qed.

Lemma nodup_add_cookies cs : forall h, NoDup (keys h) -> NoDup (keys (fold_left add_cookie cs h)).
Proof.
  induction cs as [|c r IH]; intros h H; [exact H|]. simpl. apply IH.
  unfold add_cookie. destruct (is_empty (h_get "Cookie" h)); apply nodup_set; exact H.
Qed.

(** hop-by-hop *)

Lemma h_values_fold_del k (ts : list string) : forall h,
  h_values k (fold_left (fun h t => h_del (canon_key t) h) ts h) =
  if existsb (fun t => String.eqb (canon_key t) k) ts then [] else h_values k h.
Proof.
  induction ts as [|t r IH]; intro h; [reflexivity|]. simpl. rewrite IH, h_values_del.
  destruct (String.eqb (canon_key t) k); simpl; destruct (existsb _ r); reflexivity.
Qed.

Lemma nodup_fold_del (ts : list string) : forall h, NoDup (keys h) ->
  NoDup (keys (fold_left (fun h t => h_del (canon_key t) h) ts h)).
Proof.
  induction ts as [|t r IH]; intros h H; [exact H|]. simpl. apply IH. apply nodup_del. exact H.
Qed.

Lemma h_values_remove_hop k h :
  h_values k (remove_hop_by_hop h) =
  if mem_str k hop_headers || existsb (fun t => String.eqb (canon_key t) k) (connection_tokens h)
  then [] else h_values k h.
Proof.
  unfold remove_hop_by_hop. rewrite h_values_del_all, h_values_fold_del.
  destruct (mem_str k hop_headers); reflexivity.
Qed.

Lemma nodup_remove_hop h : NoDup (keys h) -> NoDup (keys (remove_hop_by_hop h)).
Proof. intro H. unfold remove_hop_by_hop. apply nodup_del_all. apply nodup_fold_del. exact H. Qed.

Lemma nodup_in_headers q : NoDup (keys (in_headers q)).
Proof.
  unfold in_headers, strip_untrusted. destruct (q_trusted q).
  - apply nodup_parse_headers.
  - apply nodup_del_all. apply nodup_parse_headers.
Qed.

Lemma nodup_forwarded_block al tls hin host peer h :
  NoDup (keys h) -> NoDup (keys (forwarded_block al tls hin host peer h)).
Proof.
  intro H. unfold forwarded_block. cbv zeta.
  match goal with |- context [if ?c then _ else _] =>
    match c with negb _ || _ || _ => destruct c end end; repeat apply nodup_set; exact H.
Qed.

Lemma nodup_rewrite_request fx q pl th : NoDup (keys (snd (rewrite_request fx q pl th))).
Proof.
  unfold rewrite_request. cbv zeta. cbn [snd].
  set (h1 := h_del_all ["X-Forwarded-Method"; "X-Forwarded-Uri"; "X-Forwarded-Path"]
               (strip_forwarding (remove_hop_by_hop (in_headers q)))).
  assert (H1 : NoDup (keys h1)).
  { unfold h1. apply nodup_del_all. unfold strip_forwarding. apply nodup_del_all.
    apply nodup_remove_hop. apply nodup_in_headers. }
  set (h1' := if fx_f4 fx then forwarded_block (fx_f7 fx) (q_tls q) (in_headers q) (q_host q) (q_peer q) h1 else h1).
  assert (H1' : NoDup (keys h1')).
  { unfold h1'. destruct (fx_f4 fx); [apply nodup_forwarded_block|]; exact H1. }
  set (h2 := set_pipeline_headers (fx_c13f3 fx) (upstream_headers pl) h1').
  assert (H2 : NoDup (keys h2)) by (apply nodup_set_pipeline; exact H1').
  set (h3 := if is_empty (h_get "Host" (upstream_headers pl)) then h2 else h_del "Host" h2).
  assert (H3 : NoDup (keys h3)).
  { unfold h3. destruct (is_empty (h_get "Host" (upstream_headers pl))); [exact H2 | apply nodup_del; exact H2]. }
  destruct (fx_f4 fx).
  - apply nodup_add_cookies. exact H3.
  - apply nodup_forwarded_block. apply nodup_add_cookies. exact H3.
Qed.

Lemma nodup_on_the_wire m h : NoDup (keys h) -> NoDup (keys (on_the_wire m h)).
Proof.
  intro H. unfold on_the_wire.
  set (h1 := h_del "Host" h). assert (H1 : NoDup (keys h1)) by (apply nodup_del; exact H).
  set (h2 := if is_empty (h_get "User-Agent" h1) then h_del "User-Agent" h1 else h_set "User-Agent" (h_get "User-Agent" h1) h1).
  assert (H2 : NoDup (keys h2)).
  { unfold h2. destruct (is_empty (h_get "User-Agent" h1)); [apply nodup_del | apply nodup_set]; exact H1. }
  destruct (is_empty (h_get "Accept-Encoding" h2) && is_empty (h_get "Range" h2) && negb (String.eqb m "HEAD"));
    [apply nodup_add|]; exact H2.
Qed.
