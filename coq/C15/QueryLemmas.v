(** C15/QueryLemmas — removing query parameters, key by key.

    Main statements
      [removed_raw]      setting-by-setting removal (the repair of C15-F1): every
                         removed key is gone, every other key keeps its values
      [parse_encode]     ParseQuery (Values.Encode m) gives back m, key by key, no error
      [removed_encoded]  Del + Encode on a parsed query: the same statement
      [remove_from_spec] QueryParamsRemover.RemoveFrom (repaired) satisfies it for EVERY query *)
From HV Require Import Base.Prelude Base.GoUrl Base.GoUrlFacts C15.Rewrite.

Local Open Scope char_scope.

Definition mem_name (k : string) (names : list string) : bool := existsb (String.eqb k) names.

(** * url.Values as an association list *)

Lemma values_get_nil k : values_get k [] = [].
Proof. reflexivity. Qed.

Lemma values_get_cons k k' vs m :
  values_get k ((k', vs) :: m) = if String.eqb k k' then vs else values_get k m.
Proof. unfold values_get. simpl. destruct (String.eqb k k'); reflexivity. Qed.

Lemma values_get_add k k' v m :
  values_get k (values_add k' v m) = if String.eqb k k' then (values_get k m ++ [v])%list else values_get k m.
Proof.
  induction m as [|[k2 vs] r IH].
  - simpl values_add. rewrite values_get_cons, values_get_nil. destruct (String.eqb k k'); reflexivity.
  - simpl values_add. destruct (String.eqb k' k2) eqn:E.
    + apply String.eqb_eq in E. subst k2. rewrite !values_get_cons. destruct (String.eqb k k'); reflexivity.
    + rewrite !values_get_cons, IH. destruct (String.eqb k k2) eqn:E2; [|reflexivity].
      apply String.eqb_eq in E2. subst k2. rewrite String.eqb_sym, E. reflexivity.
Qed.

Lemma values_get_del k k' m :
  values_get k (values_del k' m) = if String.eqb k' k then [] else values_get k m.
Proof.
  induction m as [|[k2 vs] r IH].
  - destruct (String.eqb k' k); reflexivity.
  - unfold values_del in *. simpl filter. destruct (String.eqb k' k2) eqn:E; simpl negb; cbv iota.
    + rewrite IH, values_get_cons. apply String.eqb_eq in E. subst k2.
      rewrite (String.eqb_sym k k'). destruct (String.eqb k' k); reflexivity.
    + rewrite !values_get_cons, IH. destruct (String.eqb k k2) eqn:E2; [|reflexivity].
      apply String.eqb_eq in E2. subst k2. rewrite E. reflexivity.
Qed.

Lemma values_get_del_all k names : forall m,
  values_get k (del_all names m) = if mem_name k names then [] else values_get k m.
Proof.
  unfold del_all. induction names as [|n r IH]; intro m; [reflexivity|].
  simpl fold_left. rewrite IH, values_get_del. simpl mem_name. rewrite (String.eqb_sym k n).
  destruct (String.eqb n k); simpl; destruct (mem_name k r); reflexivity.
Qed.

(** * splitting and joining on '&' *)

Lemma split1_fst_no_sep sep s : mem_ascii sep (fst (split1 sep s)) = false.
Proof.
  induction s as [|c r IH]; [reflexivity|]. simpl. destruct (split1 sep r) as [h t]. simpl in IH.
  destruct (Ascii.eqb c sep) eqn:E; [reflexivity|]. simpl. rewrite Ascii.eqb_sym, E. exact IH.
Qed.

Lemma split1_snd_no_sep sep s : Forall (fun x => mem_ascii sep x = false) (snd (split1 sep s)).
Proof.
  induction s as [|c r IH]; [constructor|]. simpl.
  pose proof (split1_fst_no_sep sep r) as Hf. destruct (split1 sep r) as [h t]. simpl in *.
  destruct (Ascii.eqb c sep); simpl; [constructor; assumption | assumption].
Qed.

Lemma split_on_no_sep sep s : Forall (fun x => mem_ascii sep x = false) (split_on sep s).
Proof.
  rewrite split_on_eq. constructor; [apply split1_fst_no_sep | apply split1_snd_no_sep].
Qed.

Lemma split1_app_no_sep sep a r : mem_ascii sep a = false ->
  split1 sep (a ++ String sep r) = (a, fst (split1 sep r) :: snd (split1 sep r)).
Proof.
  induction a as [|c a IH]; intro H.
  - simpl append. rewrite split1_cons_sep. reflexivity.
  - change (mem_ascii sep (String c a)) with (Ascii.eqb sep c || mem_ascii sep a) in H.
    apply orb_false_iff in H as [H1 H2]. simpl append.
    rewrite split1_cons_other by (rewrite Ascii.eqb_sym; exact H1). rewrite IH by exact H2. reflexivity.
Qed.

Lemma split1_no_sep sep a : mem_ascii sep a = false -> split1 sep a = (a, []).
Proof.
  induction a as [|c a IH]; intro H; [reflexivity|].
  change (mem_ascii sep (String c a)) with (Ascii.eqb sep c || mem_ascii sep a) in H.
  apply orb_false_iff in H as [H1 H2].
  rewrite split1_cons_other by (rewrite Ascii.eqb_sym; exact H1). rewrite IH by exact H2. reflexivity.
Qed.

Lemma join_cons2 sep x y r :
  join_with (String sep EmptyString) (x :: y :: r) =
  (x ++ String sep (join_with (String sep EmptyString) (y :: r)))%string.
Proof. reflexivity. Qed.

(** Split (Join l) = l for a non-empty list of pieces without the separator *)
Lemma split_join sep l : l <> [] -> Forall (fun x => mem_ascii sep x = false) l ->
  split_on sep (join_with (String sep EmptyString) l) = l.
Proof.
  intros Hne H. rewrite split_on_eq. induction H as [|x r Hx Hr IH]; [congruence|].
  destruct r as [|y r'].
  - simpl join_with. rewrite split1_no_sep by exact Hx. reflexivity.
  - rewrite join_cons2, split1_app_no_sep by exact Hx. cbn [fst snd].
    f_equal. apply IH. discriminate.
Qed.

(** * setting-by-setting removal *)

(** a setting that ParseQuery adds has the key that [keep_pair] looks at *)
Lemma parse_setting_key s k v : parse_setting s = Some (Some (k, v)) ->
  query_unescape (fst (cut_on "=" s)) = Some k.
Proof.
  unfold parse_setting. destruct (mem_ascii ";" s); [discriminate|]. destruct (is_empty s); [discriminate|].
  destruct (cut_on "=" s) as [a b]. simpl. destruct (query_unescape a) as [a'|]; [|discriminate].
  destruct (query_unescape b); [|discriminate]. intro H. inversion H. reflexivity.
Qed.

Lemma parse_settings_filter names m0 : forall l mA mB eA eB,
  (forall k, values_get k mA = if mem_name k names then values_get k m0 else values_get k mB) ->
  forall k, values_get k (fst (parse_settings (filter (keep_pair names) l) mA eA)) =
            if mem_name k names then values_get k m0 else values_get k (fst (parse_settings l mB eB)).
Proof.
  induction l as [|s r IH]; intros mA mB eA eB HI k; [apply HI|].
  simpl filter. destruct (keep_pair names s) eqn:Ek.
  - (* kept: both runs treat the setting alike, and its key is not a removed one *)
    simpl parse_settings. destruct (parse_setting s) as [[[k' v']|]|] eqn:Ep.
    + apply IH. intro k0. rewrite !values_get_add.
      destruct (String.eqb k0 k') eqn:E; [|apply HI].
      apply String.eqb_eq in E. subst k0.
      assert (Hn : mem_name k' names = false).
      { unfold keep_pair in Ek. rewrite (parse_setting_key _ _ _ Ep) in Ek.
        apply negb_true_iff in Ek. exact Ek. }
      pose proof (HI k') as Hk'. rewrite Hn in Hk'. rewrite Hn, Hk'. reflexivity.
    + apply IH. exact HI.
    + apply IH. exact HI.
  - (* dropped: the full run may add a value, but only under a removed key *)
    simpl parse_settings. destruct (parse_setting s) as [[[k' v']|]|] eqn:Ep.
    + apply IH. intro k0. rewrite values_get_add.
      destruct (String.eqb k0 k') eqn:E; [|apply HI].
      apply String.eqb_eq in E. subst k0.
      assert (Hn : mem_name k' names = true).
      { unfold keep_pair in Ek. rewrite (parse_setting_key _ _ _ Ep) in Ek.
        apply negb_false_iff in Ek. exact Ek. }
      pose proof (HI k') as Hk'. rewrite Hn in Hk'. rewrite Hn. exact Hk'.
    + apply IH. exact HI.
    + apply IH. exact HI.
Qed.

Lemma parse_settings_empty_setting m e : parse_settings [EmptyString] m e = parse_settings [] m e.
Proof. reflexivity. Qed.

(** the repaired RemoveFrom on a query that does not parse as a whole — in fact
    on any query: key by key, the removed keys are gone and the others keep
    their values in order *)
Theorem removed_raw names q k :
  values_get k (fst (parse_query (remove_from_raw names q))) =
  if mem_name k names then [] else values_get k (fst (parse_query q)).
Proof.
  unfold remove_from_raw, parse_query.
  set (l := split_on "&" q).
  assert (Hl : Forall (fun x => mem_ascii "&" x = false) (filter (keep_pair names) l)).
  { apply Forall_forall. intros x Hx. apply filter_In in Hx as [Hx _].
    pose proof (split_on_no_sep "&" q) as H. rewrite Forall_forall in H. apply H. exact Hx. }
  assert (HF : forall k0, values_get k0 (fst (parse_settings (filter (keep_pair names) l) [] false)) =
                          if mem_name k0 names then [] else values_get k0 (fst (parse_settings l [] false))).
  { apply (parse_settings_filter names []). intro k0. destruct (mem_name k0 names); reflexivity. }
  destruct (filter (keep_pair names) l) as [|x r] eqn:Ef.
  - simpl join_with. change (split_on "&" "") with [EmptyString]. rewrite parse_settings_empty_setting.
    apply HF.
  - rewrite split_join by (discriminate || exact Hl). apply HF.
Qed.

(** * Encode, then ParseQuery *)

(** the bytes QueryEscape never emits *)
Definition special (c : ascii) : bool := Ascii.eqb c "&" || Ascii.eqb c ";" || Ascii.eqb c "=".

Lemma query_escape_chars_b : forall c,
  (if should_escape MQuery c
   then negb (special (hexdig (nb c / 16))) && negb (special (hexdig (nb c mod 16)))
   else negb (special c)) = true.
Proof. by_ascii. Qed.

Fixpoint has_special (s : string) : bool :=
  match s with EmptyString => false | String c r => special c || has_special r end.

Lemma escape_query_clean s : has_special (escape MQuery s) = false.
Proof.
  induction s as [|c r IH]; [reflexivity|]. simpl escape.
  pose proof (query_escape_chars_b c) as H. destruct (should_escape MQuery c).
  - apply andb_true_iff in H as [H1 H2]. apply negb_true_iff in H1. apply negb_true_iff in H2.
    destruct (Ascii.eqb c " ").
    + simpl. exact IH.
    + unfold pct_triplet. simpl has_special. rewrite H1, H2, IH. reflexivity.
  - apply negb_true_iff in H. simpl. rewrite H, IH. reflexivity.
Qed.

Lemma has_special_mem x s : special x = true -> has_special s = false -> mem_ascii x s = false.
Proof.
  intros Hx. induction s as [|c r IH]; [reflexivity|]. simpl has_special. intro H.
  apply orb_false_iff in H as [H1 H2].
  change (mem_ascii x (String c r)) with (Ascii.eqb x c || mem_ascii x r).
  rewrite (IH H2), orb_false_r. destruct (Ascii.eqb x c) eqn:E; [|reflexivity].
  apply ascii_eqb_true in E. subst c. congruence.
Qed.

Lemma mem_ascii_app x a b : mem_ascii x (a ++ b) = mem_ascii x a || mem_ascii x b.
Proof. induction a as [|c a IH]; simpl; [reflexivity|]. rewrite IH, orb_assoc. reflexivity. Qed.

Lemma escape_query_no x s : special x = true -> mem_ascii x (escape MQuery s) = false.
Proof. intro H. apply has_special_mem; [exact H | apply escape_query_clean]. Qed.

Lemma has_special_app a b : has_special (a ++ b) = has_special a || has_special b.
Proof. induction a as [|c a IH]; simpl; [reflexivity|]. rewrite IH, orb_assoc. reflexivity. Qed.

Lemma cut_on_app_no_sep sep a b : mem_ascii sep a = false -> cut_on sep (a ++ String sep b) = (a, b).
Proof.
  induction a as [|c a IH]; intro H.
  - simpl. rewrite Ascii.eqb_refl. reflexivity.
  - change (mem_ascii sep (String c a)) with (Ascii.eqb sep c || mem_ascii sep a) in H.
    apply orb_false_iff in H as [H1 H2]. simpl. rewrite Ascii.eqb_sym, H1, (IH H2). reflexivity.
Qed.

Definition encode_pair (k v : string) : string := (escape MQuery k ++ String "=" (escape MQuery v))%string.

(** one encoded setting parses back to its pair *)
Lemma parse_setting_encoded k v : parse_setting (encode_pair k v) = Some (Some (k, v)).
Proof.
  unfold parse_setting, encode_pair.
  assert (Hs : mem_ascii ";" (escape MQuery k ++ String "=" (escape MQuery v)) = false).
  { rewrite mem_ascii_app. change (mem_ascii ";" (String "=" (escape MQuery v))) with
      (Ascii.eqb ";" "=" || mem_ascii ";" (escape MQuery v)).
    rewrite !escape_query_no by reflexivity. reflexivity. }
  rewrite Hs.
  assert (He : is_empty (escape MQuery k ++ String "=" (escape MQuery v)) = false).
  { destruct (escape MQuery k); reflexivity. }
  rewrite He. rewrite cut_on_app_no_sep by (apply has_special_mem; [reflexivity | apply escape_query_clean]).
  rewrite !query_unescape_escape. reflexivity.
Qed.

Lemma encoded_no_amp k v : mem_ascii "&" (encode_pair k v) = false.
Proof.
  unfold encode_pair. rewrite mem_ascii_app. change (mem_ascii "&" (String "=" (escape MQuery v))) with
    (Ascii.eqb "&" "=" || mem_ascii "&" (escape MQuery v)).
  rewrite !escape_query_no by reflexivity. reflexivity.
Qed.

(** the pairs of an association list, entry by entry *)
Definition pairs_of (m : values) : list (string * string) :=
  flat_map (fun e => map (fun v => (fst e, v)) (snd e)) m.

Lemma encode_entries_pairs m :
  flat_map encode_entry m = map (fun p => encode_pair (fst p) (snd p)) (pairs_of m).
Proof.
  induction m as [|[k vs] r IH]; [reflexivity|]. simpl flat_map. unfold pairs_of in *. simpl flat_map.
  rewrite map_app, IH. f_equal. unfold encode_entry. simpl. rewrite map_map. reflexivity.
Qed.

Definition add_pairs (ps : list (string * string)) (m : values) : values :=
  fold_left (fun m p => values_add (fst p) (snd p) m) ps m.

Lemma parse_settings_encoded ps : forall m e,
  parse_settings (map (fun p => encode_pair (fst p) (snd p)) ps) m e = (add_pairs ps m, e).
Proof.
  induction ps as [|[k v] r IH]; intros m e; [reflexivity|].
  simpl map. simpl parse_settings. rewrite parse_setting_encoded. apply IH.
Qed.

(** the values under [k] among pairs, in order *)
Fixpoint pair_values (k : string) (ps : list (string * string)) : list string :=
  match ps with
  | [] => []
  | (k', v) :: r => if String.eqb k k' then v :: pair_values k r else pair_values k r
  end.

Lemma values_get_add_pairs k ps : forall m,
  values_get k (add_pairs ps m) = (values_get k m ++ pair_values k ps)%list.
Proof.
  unfold add_pairs. induction ps as [|[k' v] r IH]; intro m; simpl; [rewrite app_nil_r; reflexivity|].
  rewrite IH, values_get_add. destruct (String.eqb k k'); [|reflexivity]. rewrite <- app_assoc. reflexivity.
Qed.

Lemma pair_values_app k a b : pair_values k (a ++ b) = (pair_values k a ++ pair_values k b)%list.
Proof.
  induction a as [|[k' v] r IH]; [reflexivity|]. simpl. destruct (String.eqb k k'); simpl; rewrite IH; reflexivity.
Qed.

Lemma pair_values_entry k k' vs :
  pair_values k (map (fun v => (k', v)) vs) = if String.eqb k k' then vs else [].
Proof.
  induction vs as [|v r IH]; simpl; [destruct (String.eqb k k'); reflexivity|].
  rewrite IH. destruct (String.eqb k k'); reflexivity.
Qed.

(** with distinct keys, the values under [k] among all pairs are the entry of [k] *)
Lemma pair_values_pairs_of k m : NoDup (map fst m) -> pair_values k (pairs_of m) = values_get k m.
Proof.
  induction m as [|[k' vs] r IH]; intro H; [reflexivity|].
  unfold pairs_of in *. simpl flat_map. rewrite pair_values_app. simpl fst. simpl snd.
  rewrite pair_values_entry, values_get_cons. inversion H as [|x l Hnin Hnd]; subst.
  rewrite IH by assumption. destruct (String.eqb k k') eqn:E; [|reflexivity].
  apply String.eqb_eq in E. subst k'.
  assert (Hg : values_get k r = []).
  { clear -Hnin. induction r as [|[k2 vs2] r IH]; [reflexivity|]. rewrite values_get_cons.
    destruct (String.eqb k k2) eqn:E.
    - apply String.eqb_eq in E. subst k2. exfalso. apply Hnin. left. reflexivity.
    - apply IH. intro Hin. apply Hnin. right. exact Hin. }
  rewrite Hg, app_nil_r. reflexivity.
Qed.

(** sorting the entries: a lookup does not notice, keys stay distinct *)
Lemma values_get_insert k e m : NoDup (fst e :: map fst m) ->
  values_get k (insert_entry e m) = values_get k (e :: m).
Proof.
  destruct e as [ke ve]. induction m as [|[k' vs] r IH]; intro H; [reflexivity|].
  simpl insert_entry. simpl fst in *. destruct (String.leb ke k'); [reflexivity|].
  rewrite !values_get_cons. rewrite IH.
  - rewrite !values_get_cons. destruct (String.eqb k k') eqn:E1; destruct (String.eqb k ke) eqn:E2; try reflexivity.
    apply String.eqb_eq in E1. apply String.eqb_eq in E2. subst k' ke.
    exfalso. inversion H as [|x l Hnin _]; subst. apply Hnin. left. reflexivity.
  - inversion H as [|x l Hnin Hnd]; subst. inversion Hnd; subst. constructor; [|assumption].
    intro Hin. apply Hnin. right. exact Hin.
Qed.

Lemma keys_insert e m : forall x, In x (map fst (insert_entry e m)) <-> x = fst e \/ In x (map fst m).
Proof.
  induction m as [|e' r IH]; intro x; simpl.
  - split; intros [H|H]; auto.
  - destruct (String.leb (fst e) (fst e')); simpl.
    + split; intros [H|H]; auto.
    + rewrite IH. split; intros [H|[H|H]]; auto.
Qed.

Lemma nodup_insert e m : NoDup (fst e :: map fst m) -> NoDup (map fst (insert_entry e m)).
Proof.
  induction m as [|e' r IH]; intro H; [exact H|]. simpl.
  destruct (String.leb (fst e) (fst e')); [exact H|]. simpl.
  inversion H as [|x l Hnin Hnd]; subst. inversion Hnd as [|y l' Hnin' Hnd']; subst.
  constructor.
  - intro Hin. apply keys_insert in Hin as [Hin|Hin]; [|contradiction].
    apply Hnin. left. exact Hin.
  - apply IH. constructor; [|assumption]. intro Hin. apply Hnin. right. exact Hin.
Qed.

Lemma sort_values_spec m : NoDup (map fst m) ->
  NoDup (map fst (sort_values m)) /\ (forall x, In x (map fst (sort_values m)) <-> In x (map fst m)) /\
  forall k, values_get k (sort_values m) = values_get k m.
Proof.
  unfold sort_values. induction m as [|e r IH]; intro H; [repeat split; auto; constructor|].
  simpl fold_right. inversion H as [|x l Hnin Hnd]; subst. destruct (IH Hnd) as (H1 & H2 & H3).
  assert (Hn : NoDup (fst e :: map fst (fold_right insert_entry [] r))).
  { constructor; [|exact H1]. intro Hin. apply Hnin. apply H2. exact Hin. }
  repeat split.
  - apply nodup_insert. exact Hn.
  - intro Hin. apply keys_insert in Hin as [Hin|Hin]; simpl; [left; auto | right; apply H2; exact Hin].
  - intro Hin. apply keys_insert. simpl in Hin. destruct Hin as [Hin|Hin]; [left; auto | right; apply H2; exact Hin].
  - intro k. rewrite values_get_insert by exact Hn. destruct e as [ke ve]. rewrite !values_get_cons, H3. reflexivity.
Qed.

(** ParseQuery (Values.Encode m): the same values under every key, and no error *)
Theorem parse_encode m : NoDup (map fst m) ->
  snd (parse_query (values_encode m)) = false /\
  forall k, values_get k (fst (parse_query (values_encode m))) = values_get k m.
Proof.
  intro H. destruct (sort_values_spec m H) as (Hs1 & _ & Hs3).
  unfold values_encode, parse_query. rewrite encode_entries_pairs.
  set (ps := pairs_of (sort_values m)).
  destruct ps as [|p r] eqn:Ep.
  - simpl. split; [reflexivity|]. intro k. rewrite <- (Hs3 k), <- (pair_values_pairs_of k (sort_values m) Hs1).
    fold ps. rewrite Ep. reflexivity.
  - rewrite <- Ep. rewrite split_join.
    + rewrite parse_settings_encoded. simpl. split; [reflexivity|]. intro k.
      rewrite values_get_add_pairs. simpl. unfold ps. rewrite pair_values_pairs_of by exact Hs1. apply Hs3.
    + rewrite Ep. discriminate.
    + apply Forall_forall. intros x Hx. apply in_map_iff in Hx as (q & Hq & _). subst x. apply encoded_no_amp.
Qed.

(** * keys of a parsed query are distinct *)

Lemma keys_values_add k v m : forall x, In x (map fst (values_add k v m)) <-> x = k \/ In x (map fst m).
Proof.
  induction m as [|[k' vs] r IH]; intro x; simpl.
  - split; intros [H|H]; auto.
  - destruct (String.eqb k k') eqn:E; simpl.
    + apply String.eqb_eq in E. subst k'. split; [intros [H|H]; auto | intros [H|[H|H]]; auto].
    + rewrite IH. split; intros [H|[H|H]]; auto.
Qed.

Lemma nodup_values_add k v m : NoDup (map fst m) -> NoDup (map fst (values_add k v m)).
Proof.
  induction m as [|[k' vs] r IH]; intro H; simpl.
  - constructor; [intros []|constructor].
  - destruct (String.eqb k k') eqn:E; simpl; [exact H|].
    inversion H as [|x l Hnin Hnd]; subst. constructor; [|apply IH; exact Hnd].
    intro Hin. apply keys_values_add in Hin as [Hin|Hin]; [|contradiction].
    subst k'. rewrite String.eqb_refl in E. discriminate.
Qed.

Lemma nodup_parse_settings l : forall m e, NoDup (map fst m) -> NoDup (map fst (fst (parse_settings l m e))).
Proof.
  induction l as [|s r IH]; intros m e H; [exact H|]. simpl.
  destruct (parse_setting s) as [[[k v]|]|]; apply IH; [apply nodup_values_add|..]; exact H.
Qed.

Lemma nodup_parse_query q : NoDup (map fst (fst (parse_query q))).
Proof. apply nodup_parse_settings. constructor. Qed.

Lemma nodup_values_del k m : NoDup (map fst m) -> NoDup (map fst (values_del k m)).
Proof.
  induction m as [|[k' vs] r IH]; intro H; [exact H|]. unfold values_del in *. simpl.
  inversion H as [|x l Hnin Hnd]; subst. destruct (String.eqb k k'); simpl; [apply IH; exact Hnd|].
  constructor; [|apply IH; exact Hnd]. intro Hin. apply Hnin.
  apply in_map_iff in Hin as (e & He & Hin). apply filter_In in Hin as [Hin _].
  apply in_map_iff. exists e. auto.
Qed.

Lemma nodup_del_all names : forall m, NoDup (map fst m) -> NoDup (map fst (del_all names m)).
Proof.
  unfold del_all. induction names as [|n r IH]; intros m H; [exact H|]. simpl. apply IH. apply nodup_values_del. exact H.
Qed.

(** Del of every name, then Encode: the removed keys are gone, the others keep their values *)
Theorem removed_encoded names q k :
  values_get k (fst (parse_query (values_encode (del_all names (fst (parse_query q)))))) =
  if mem_name k names then [] else values_get k (fst (parse_query q)).
Proof.
  destruct (parse_encode (del_all names (fst (parse_query q)))) as [_ H].
  - apply nodup_del_all. apply nodup_parse_query.
  - rewrite H. apply values_get_del_all.
Qed.

(** * QueryParamsRemover.RemoveFrom *)

(** RemoveFrom with the repair of C15-F1 (or of C15-F6), for EVERY query: whatever
    was to be removed is gone and every other parameter keeps its values, in order *)
Theorem remove_from_spec m names q k :
  qf1 m = true \/ qf6 m = true ->
  names <> [] -> q <> EmptyString ->
  values_get k (fst (parse_query (remove_from_q m names q))) =
  if mem_name k names then [] else values_get k (fst (parse_query q)).
Proof.
  intros Hm Hn Hq. unfold remove_from_q.
  destruct q as [|c q']; [congruence|]. destruct names as [|n names']; [congruence|].
  simpl is_empty. simpl is_nil. cbv iota. simpl orb. cbv iota.
  destruct (qf6 m) eqn:E6; [apply removed_raw|].
  destruct Hm as [Hm|Hm]; [|congruence]. rewrite Hm.
  destruct (parse_query (String c q')) as [vals err] eqn:Ep. destruct err.
  - rewrite removed_raw, Ep. reflexivity.
  - pose proof (removed_encoded (n :: names') (String c q') k) as H. rewrite Ep in H. exact H.
Qed.

(** before the repairs: the same, provided the query parses *)
Theorem remove_from_spec_pinned names q k :
  names <> [] -> q <> EmptyString -> snd (parse_query q) = false ->
  values_get k (fst (parse_query (remove_from_q {| qf1 := false; qf6 := false |} names q))) =
  if mem_name k names then [] else values_get k (fst (parse_query q)).
Proof.
  intros Hn Hq He. unfold remove_from_q.
  destruct q as [|c q']; [congruence|]. destruct names as [|n names']; [congruence|].
  simpl is_empty. simpl is_nil. cbv iota. simpl orb. cbv iota. cbn [qf6 qf1].
  destruct (parse_query (String c q')) as [vals err] eqn:Ep. simpl in He. subst err.
  pose proof (removed_encoded (n :: names') (String c q') k) as H. rewrite Ep in H. exact H.
Qed.
