(** C15/Proofs — the property theorems of C15 about the model of C15/Model.v,
    stated with the vocabulary of C15/Spec.v. *)
From HV Require Import Base.Prelude Base.GoUrl Base.GoUrlFacts C15.UrlLemmas C15.Model C15.Spec.

Local Open Scope char_scope.
Local Open Scope string_scope.

Ltac splits := repeat match goal with |- _ /\ _ => split end.

(** * the request view is a valid encoded path *)

(** what extractURL guarantees about the URL it builds: RawPath is set, is a
    valid encoded path, and Path is its decoding *)
Definition view_wf (u : hurl) : Prop :=
  u_rawpath u <> "" /\ valid_encoded (u_rawpath u) = true /\ unescape (u_rawpath u) = Some (u_path u).

(** * strip prefix, add prefix *)

Lemma cut_from_strip c s : cut_from c s = strip_prefix c s.
Proof. unfold cut_from, strip_prefix. destruct c; reflexivity. Qed.

Lemma add_to_app a s : add_to a s = a ++ s.
Proof. unfold add_to. destruct a; reflexivity. Qed.

Lemma strip_prefix_suffix c s : exists p, s = p ++ strip_prefix c s.
Proof.
  unfold strip_prefix. destruct (cut_prefix c s) as [r|] eqn:E.
  - exists c. apply cut_prefix_app. exact E.
  - exists "". reflexivity.
Qed.

Lemma strip_prefix_valid c s : valid_encoded s = true -> valid_encoded (strip_prefix c s) = true.
Proof.
  intro H. destruct (strip_prefix_suffix c s) as [p Hp]. rewrite Hp, valid_encoded_app in H.
  apply andb_true_iff in H as [_ H]. exact H.
Qed.

Lemma strip_prefix_wellformed c s : wellformed s = true -> wellformed (strip_prefix c s) = true.
Proof.
  intro H. destruct (strip_prefix_suffix c s) as [p Hp]. rewrite Hp in H.
  eapply wellformed_suffix. exact H.
Qed.

Lemma transform_path_eq rw s : transform_path rw s = rw_add rw ++ strip_prefix (rw_cut rw) s.
Proof. unfold transform_path. rewrite add_to_app, cut_from_strip. reflexivity. Qed.

(** * URLRewriter.Rewrite: what goes on the wire *)

Lemma escaped_path_same r p : valid_encoded r = true -> unescape r = Some p -> escaped_path p r = r.
Proof. apply escaped_path_valid. Qed.

(** if the original URL had a RawPath, a valid well-formed transformed path is
    written on the wire byte for byte *)
Lemma rewrite_wire rw u :
  let raw' := transform_path rw (escaped_path (u_path u) (u_rawpath u)) in
  u_rawpath u <> "" -> valid_encoded raw' = true -> wellformed raw' = true ->
  wire_path (rewrite rw u) = raw'.
Proof.
  intros raw' Hne Hv Hw. unfold wire_path, rewrite. fold raw'. cbn [u_path u_rawpath].
  destruct (wellformed_unescape _ Hw) as [p Hp].
  unfold unescape_or_empty. rewrite Hp.
  assert (Hrp : (if is_empty (u_rawpath u) then u_rawpath u else raw') = raw').
  { destruct (u_rawpath u); [congruence | reflexivity]. }
  rewrite Hrp. destruct (String.eqb p raw'); apply escaped_path_valid; assumption.
Qed.

(** in any case the DECODED path on the wire is the decoded transformed path:
    nothing is encoded twice, nothing is lost *)
Lemma escaped_path_decodes p rp : unescape (escaped_path p rp) = Some p.
Proof.
  unfold escaped_path.
  destruct (negb (is_empty rp) && valid_encoded rp &&
            match unescape rp with Some p0 => String.eqb p0 p | None => false end) eqn:E.
  - apply andb_true_iff in E as [_ E]. destruct (unescape rp) as [p0|]; [|discriminate].
    apply String.eqb_eq in E. congruence.
  - destruct (String.eqb p "*") eqn:Es.
    + apply String.eqb_eq in Es. subst p. reflexivity.
    + apply unescape_escape. discriminate.
Qed.

Lemma rewrite_decoded rw u :
  let raw' := transform_path rw (escaped_path (u_path u) (u_rawpath u)) in
  wellformed raw' = true ->
  unescape (wire_path (rewrite rw u)) = unescape raw'.
Proof.
  intros raw' Hw. unfold wire_path, rewrite. fold raw'. cbn [u_path u_rawpath].
  destruct (wellformed_unescape _ Hw) as [p Hp].
  rewrite escaped_path_decodes. unfold unescape_or_empty. rewrite Hp. reflexivity.
Qed.

(** * the view *)

Lemma has_prefix_slash s : has_prefix "/" s = true -> exists r, s = String "/" r.
Proof.
  destruct s as [|c r]; [discriminate|]. intro H.
  change (Ascii.eqb "/" c && has_prefix "" r = true) in H.
  apply andb_true_iff in H as [H _]. apply ascii_eqb_true in H. subst c. eauto.
Qed.

Lemma view_url_wf q u : oracle_ok q = true -> view_url q = Some u -> view_wf u.
Proof.
  unfold view_url, oracle_ok. intros Ho H.
  destruct (has_prefix "/" (q_raw q)) eqn:Hp; [|discriminate]. simpl in H.
  destruct (has_prefix_slash _ Hp) as [raw Hraw]. rewrite Hraw in *.
  destruct (set_path (String "/" raw)) as [[p0 rp0]|] eqn:Hs; [|discriminate].
  pose proof (set_path_unescape _ _ _ Hs) as Hu.
  destruct (unescape_slash _ _ Hu) as [p0' Hp0]. 
  assert (Hstar : p0 <> "*"%string) by (subst p0; discriminate).
  pose proof (set_path_escaped _ _ _ Hs Hstar) as He.
  set (xfu := if is_empty (h_get "X-Forwarded-Uri" (in_headers q)) then None else q_xfu q) in H.
  assert (Hx : xfu = None \/ exists p x, xfu = Some (p, x) /\ valid_encoded p = true /\ wellformed p = true).
  { unfold xfu. destruct (is_empty (h_get "X-Forwarded-Uri" (in_headers q))); [left; reflexivity|].
    destruct (q_xfu q) as [[p x]|]; [|left; reflexivity]. right. exists p, x.
    apply andb_true_iff in Ho as [H1 H2]. auto. }
  inversion H; subst u; clear H. unfold view_wf. cbn [u_rawpath u_path].
  destruct Hx as [Hx | (p & x & Hx & Hv & Hw)]; rewrite Hx.
  - (* the path of the request *)
    simpl is_empty. cbv iota. rewrite He.
    destruct (valid_encoded (String "/" raw)) eqn:Hv.
    + splits; [discriminate | exact Hv |]. unfold unescape_or_empty. rewrite Hu. reflexivity.
    + splits.
      * intro E. apply escape_empty in E. subst p0. discriminate.
      * apply escape_valid.
      * unfold unescape_or_empty. rewrite unescape_escape by discriminate. reflexivity.
  - (* the path of X-Forwarded-Uri *)
    destruct (is_empty p) eqn:Ep.
    + rewrite He. destruct (valid_encoded (String "/" raw)) eqn:Hv'.
      * splits; [discriminate | exact Hv' |]. unfold unescape_or_empty. rewrite Hu. reflexivity.
      * splits.
        -- intro E. apply escape_empty in E. subst p0. discriminate.
        -- apply escape_valid.
        -- unfold unescape_or_empty. rewrite unescape_escape by discriminate. reflexivity.
    + splits.
      * destruct p; discriminate.
      * exact Hv.
      * destruct (wellformed_unescape _ Hw) as [y Hy]. unfold unescape_or_empty. rewrite Hy. reflexivity.
Qed.

(** without a (trusted) X-Forwarded-Uri the view's RawPath is the request
    target's path byte for byte, provided it is a valid encoded path *)
Lemma view_url_rawpath q u :
  view_url q = Some u -> h_get "X-Forwarded-Uri" (in_headers q) = "" ->
  valid_encoded (q_raw q) = true -> u_rawpath u = q_raw q.
Proof.
  unfold view_url. intros H Hx Hv.
  destruct (has_prefix "/" (q_raw q)) eqn:Hp; [|discriminate]. simpl in H.
  destruct (has_prefix_slash _ Hp) as [raw Hraw]. rewrite Hraw in *.
  destruct (set_path (String "/" raw)) as [[p0 rp0]|] eqn:Hs; [|discriminate].
  pose proof (set_path_unescape _ _ _ Hs) as Hu.
  destruct (unescape_slash _ _ Hu) as [p0' Hp0].
  assert (Hstar : p0 <> "*"%string) by (subst p0; discriminate).
  pose proof (set_path_escaped _ _ _ Hs Hstar) as He.
  rewrite Hx in H. simpl in H. inversion H; subst u. cbn [u_rawpath]. rewrite He, Hv. reflexivity.
Qed.

(** * CreateURL after ruleImpl.Execute *)

Lemma create_url_wire_path b u :
  view_wf u ->
  valid_encoded (match b_rw b with Some rw => rw_add rw | None => "" end) = true ->
  wellformed (match b_rw b with Some rw => rw_add rw | None => "" end) = true ->
  wire_path (create_url b u) =
  match b_rw b with
  | Some rw => rw_add rw ++ strip_prefix (rw_cut rw) (u_rawpath u)
  | None => u_rawpath u
  end.
Proof.
  intros (Hne & Hv & Hu) Hva Hwa. unfold create_url. destruct (b_rw b) as [rw|].
  - set (up := {| u_scheme := u_scheme u; u_host := b_host b; u_path := u_path u;
                  u_rawpath := u_rawpath u; u_query := u_query u |}).
    assert (He : escaped_path (u_path up) (u_rawpath up) = u_rawpath u).
    { simpl. apply escaped_path_valid; assumption. }
    pose proof (rewrite_wire rw up) as Hw. cbv zeta in Hw. rewrite He in Hw.
    rewrite transform_path_eq in Hw. apply Hw.
    + exact Hne.
    + rewrite valid_encoded_app, Hva. apply strip_prefix_valid. exact Hv.
    + apply wellformed_app; [exact Hwa|]. apply strip_prefix_wellformed.
      eapply unescape_wellformed. exact Hu.
  - unfold wire_path. simpl. apply escaped_path_valid; assumption.
Qed.

(** sentence "path changed only by strip prefix then add prefix, preserving the
    percent-encoding": under `off` and `no_decode` the path on the wire is
    add ++ (raw path of the view without the prefix), byte for byte *)
Theorem wire_path_exact fx r u t :
  view_wf u -> r_setting r <> On ->
  valid_encoded (cfg_add r) = true -> wellformed (cfg_add r) = true ->
  execute fx r u = Some t ->
  wire_path t = expected_path r u.
Proof.
  intros Hwf Hon Hva Hwa He. unfold expected_path, original_path, cfg_add, cfg_strip in *.
  assert (Ht : t = create_url (r_backend r) u).
  { unfold execute in He. destruct (r_setting r); try congruence.
    destruct (has_enc_slash (fx_c08f2 fx) (u_rawpath u)); congruence. }
  subst t. rewrite create_url_wire_path by assumption.
  destruct (r_setting r); try congruence; destruct (b_rw (r_backend r)); reflexivity.
Qed.
