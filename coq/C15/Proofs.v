(** C15/Proofs — the property theorems of C15 about the model of C15/Model.v,
    stated with the vocabulary of C15/Spec.v. *)
From HV Require Import Base.Prelude Base.GoUrl Base.GoUrlFacts C15.UrlLemmas C15.Model C15.Spec.

Local Open Scope char_scope.
Local Open Scope string_scope.

Ltac splits := repeat match goal with |- _ /\ _ => split end.

(** * the request view is a valid encoded path *)

(** what extractURL guarantees about the URL it builds: RawPath is set, is a
    valid encoded path, and Path is its decoding *)
Definition view_wf (u : hurl) : Prop :=
  u_rawpath u <> "" /\ valid_encoded (u_rawpath u) = true /\ unescape (u_rawpath u) = Some (u_path u).

(** * strip prefix, add prefix *)

Lemma cut_from_strip c s : cut_from c s = strip_prefix c s.
Proof. unfold cut_from, strip_prefix. destruct c; reflexivity. Qed.

Lemma add_to_app a s : add_to a s = a ++ s.
Proof. unfold add_to. destruct a; reflexivity. Qed.

Lemma strip_prefix_suffix c s : exists p, s = p ++ strip_prefix c s.
Proof.
  unfold strip_prefix. destruct (cut_prefix c s) as [r|] eqn:E.
  - exists c. apply cut_prefix_app. exact E.
  - exists "". reflexivity.
Qed.

Lemma strip_prefix_valid c s : valid_encoded s = true -> valid_encoded (strip_prefix c s) = true.
Proof.
  intro H. destruct (strip_prefix_suffix c s) as [p Hp]. rewrite Hp, valid_encoded_app in H.
  apply andb_true_iff in H as [_ H]. exact H.
Qed.

Lemma strip_prefix_wellformed c s : wellformed s = true -> wellformed (strip_prefix c s) = true.
Proof.
  intro H. destruct (strip_prefix_suffix c s) as [p Hp]. rewrite Hp in H.
  eapply wellformed_suffix. exact H.
Qed.

Lemma transform_path_eq rw s : transform_path rw s = rw_add rw ++ strip_prefix (rw_cut rw) s.
Proof. unfold transform_path. rewrite add_to_app, cut_from_strip. reflexivity. Qed.

(** * URLRewriter.Rewrite: what goes on the wire *)

Lemma escaped_path_same r p : valid_encoded r = true -> unescape r = Some p -> escaped_path p r = r.
Proof. apply escaped_path_valid. Qed.

(** if the original URL had a RawPath, a valid well-formed transformed path is
    written on the wire byte for byte *)
Lemma rewrite_wire f rw u :
  let raw' := transform_path rw (escaped_path (u_path u) (u_rawpath u)) in
  u_rawpath u <> "" -> valid_encoded raw' = true -> wellformed raw' = true ->
  wire_path (rewrite_q f rw u) = raw'.
Proof.
  intros raw' Hne Hv Hw. unfold wire_path, rewrite_q. fold raw'. cbn [u_path u_rawpath].
  destruct (wellformed_unescape _ Hw) as [p Hp].
  unfold unescape_or_empty. rewrite Hp.
  assert (Hrp : (if is_empty (u_rawpath u) then u_rawpath u else raw') = raw').
  { destruct (u_rawpath u); [congruence | reflexivity]. }
  rewrite Hrp. destruct (String.eqb p raw'); apply escaped_path_valid; assumption.
Qed.

(** in any case the DECODED path on the wire is the decoded transformed path:
    nothing is encoded twice, nothing is lost *)
Lemma escaped_path_decodes p rp : unescape (escaped_path p rp) = Some p.
Proof.
  unfold escaped_path.
  destruct (negb (is_empty rp) && valid_encoded rp &&
            match unescape rp with Some p0 => String.eqb p0 p | None => false end) eqn:E.
  - apply andb_true_iff in E as [_ E]. destruct (unescape rp) as [p0|]; [|discriminate].
    apply String.eqb_eq in E. congruence.
  - destruct (String.eqb p "*") eqn:Es.
    + apply String.eqb_eq in Es. subst p. reflexivity.
    + apply unescape_escape. discriminate.
Qed.

Lemma rewrite_decoded f rw u :
  let raw' := transform_path rw (escaped_path (u_path u) (u_rawpath u)) in
  wellformed raw' = true ->
  unescape (wire_path (rewrite_q f rw u)) = unescape raw'.
Proof.
  intros raw' Hw. unfold wire_path, rewrite_q. fold raw'. cbn [u_path u_rawpath].
  destruct (wellformed_unescape _ Hw) as [p Hp].
  rewrite escaped_path_decodes. unfold unescape_or_empty. rewrite Hp. reflexivity.
Qed.

(** * the view *)

Lemma has_prefix_slash s : has_prefix "/" s = true -> exists r, s = String "/" r.
Proof.
  destruct s as [|c r]; [discriminate|]. intro H.
  change (Ascii.eqb "/" c && has_prefix "" r = true) in H.
  apply andb_true_iff in H as [H _]. apply ascii_eqb_true in H. subst c. eauto.
Qed.

Lemma view_url_wf q u : oracle_ok q = true -> view_url q = Some u -> view_wf u.
Proof.
  unfold view_url, oracle_ok. intros Ho H.
  destruct (has_prefix "/" (q_raw q)) eqn:Hp; [|discriminate]. simpl in H.
  destruct (has_prefix_slash _ Hp) as [raw Hraw]. rewrite Hraw in *.
  destruct (set_path (String "/" raw)) as [[p0 rp0]|] eqn:Hs; [|discriminate].
  pose proof (set_path_unescape _ _ _ Hs) as Hu.
  destruct (unescape_slash _ _ Hu) as [p0' Hp0]. 
  assert (Hstar : p0 <> "*"%string) by (subst p0; discriminate).
  pose proof (set_path_escaped _ _ _ Hs Hstar) as He.
  set (xfu := if is_empty (h_get "X-Forwarded-Uri" (in_headers q)) then None else q_xfu q) in H.
  assert (Hx : xfu = None \/ exists p x, xfu = Some (p, x) /\ valid_encoded p = true /\ wellformed p = true).
  { unfold xfu. destruct (is_empty (h_get "X-Forwarded-Uri" (in_headers q))); [left; reflexivity|].
    destruct (q_xfu q) as [[p x]|]; [|left; reflexivity]. right. exists p, x.
    apply andb_true_iff in Ho as [H1 H2]. auto. }
  inversion H; subst u; clear H. unfold view_wf. cbn [u_rawpath u_path].
  destruct Hx as [Hx | (p & x & Hx & Hv & Hw)]; rewrite Hx.
  - (* the path of the request *)
    simpl is_empty. cbv iota. rewrite He.
    destruct (valid_encoded (String "/" raw)) eqn:Hv.
    + splits; [discriminate | exact Hv |]. unfold unescape_or_empty. rewrite Hu. reflexivity.
    + splits.
      * intro E. apply escape_empty in E. subst p0. discriminate.
      * apply escape_valid.
      * unfold unescape_or_empty. rewrite unescape_escape by discriminate. reflexivity.
  - (* the path of X-Forwarded-Uri *)
    destruct (is_empty p) eqn:Ep.
    + rewrite He. destruct (valid_encoded (String "/" raw)) eqn:Hv'.
      * splits; [discriminate | exact Hv' |]. unfold unescape_or_empty. rewrite Hu. reflexivity.
      * splits.
        -- intro E. apply escape_empty in E. subst p0. discriminate.
        -- apply escape_valid.
        -- unfold unescape_or_empty. rewrite unescape_escape by discriminate. reflexivity.
    + splits.
      * destruct p; discriminate.
      * exact Hv.
      * destruct (wellformed_unescape _ Hw) as [y Hy]. unfold unescape_or_empty. rewrite Hy. reflexivity.
Qed.

(** without a (trusted) X-Forwarded-Uri the view's RawPath is the request
    target's path byte for byte, provided it is a valid encoded path *)
Lemma view_url_rawpath q u :
  view_url q = Some u -> h_get "X-Forwarded-Uri" (in_headers q) = "" ->
  valid_encoded (q_raw q) = true -> u_rawpath u = q_raw q.
Proof.
  unfold view_url. intros H Hx Hv.
  destruct (has_prefix "/" (q_raw q)) eqn:Hp; [|discriminate]. simpl in H.
  destruct (has_prefix_slash _ Hp) as [raw Hraw]. rewrite Hraw in *.
  destruct (set_path (String "/" raw)) as [[p0 rp0]|] eqn:Hs; [|discriminate].
  pose proof (set_path_unescape _ _ _ Hs) as Hu.
  destruct (unescape_slash _ _ Hu) as [p0' Hp0].
  assert (Hstar : p0 <> "*"%string) by (subst p0; discriminate).
  pose proof (set_path_escaped _ _ _ Hs Hstar) as He.
  rewrite Hx in H. simpl in H. inversion H; subst u. cbn [u_rawpath]. rewrite He, Hv. reflexivity.
Qed.

(** * CreateURL after ruleImpl.Execute *)

Lemma create_url_wire_path f b u :
  view_wf u ->
  valid_encoded (match b_rw b with Some rw => rw_add rw | None => "" end) = true ->
  wellformed (match b_rw b with Some rw => rw_add rw | None => "" end) = true ->
  wire_path (create_url_q f b u) =
  match b_rw b with
  | Some rw => rw_add rw ++ strip_prefix (rw_cut rw) (u_rawpath u)
  | None => u_rawpath u
  end.
Proof.
  intros (Hne & Hv & Hu) Hva Hwa. unfold create_url_q. destruct (b_rw b) as [rw|].
  - set (up := {| u_scheme := u_scheme u; u_host := b_host b; u_path := u_path u;
                  u_rawpath := u_rawpath u; u_query := u_query u |}).
    assert (He : escaped_path (u_path up) (u_rawpath up) = u_rawpath u).
    { simpl. apply escaped_path_valid; assumption. }
    pose proof (rewrite_wire f rw up) as Hw. cbv zeta in Hw. rewrite He in Hw.
    rewrite transform_path_eq in Hw. apply Hw.
    + exact Hne.
    + rewrite valid_encoded_app, Hva. apply strip_prefix_valid. exact Hv.
    + apply wellformed_app; [exact Hwa|]. apply strip_prefix_wellformed.
      eapply unescape_wellformed. exact Hu.
  - unfold wire_path. simpl. apply escaped_path_valid; assumption.
Qed.

(** sentence "path changed only by strip prefix then add prefix, preserving the
    percent-encoding": under `off` and `no_decode` the path on the wire is
    add ++ (raw path of the view without the prefix), byte for byte *)
Theorem wire_path_exact fx r u t :
  view_wf u -> r_setting r <> On ->
  valid_encoded (cfg_add r) = true -> wellformed (cfg_add r) = true ->
  execute fx r u = Some t ->
  wire_path t = expected_path r u.
Proof.
  intros Hwf Hon Hva Hwa He. unfold expected_path, original_path, cfg_add, cfg_strip in *.
  assert (Ht : t = create_url_q (fx_q fx) (r_backend r) u).
  { unfold execute in He. destruct (r_setting r); try congruence.
    destruct (has_enc_slash (fx_c08f2 fx) (u_rawpath u)); congruence. }
  subst t. rewrite create_url_wire_path by assumption.
  destruct (r_setting r); try congruence; destruct (b_rw (r_backend r)); reflexivity.
Qed.

Corollary wire_path_exact_bytes fx r u t :
  view_wf u -> r_setting r <> On ->
  valid_encoded (cfg_add r) = true -> wellformed (cfg_add r) = true ->
  execute fx r u = Some t ->
  wire_path t = cfg_add r ++ strip_prefix (cfg_strip r) (u_rawpath u).
Proof.
  intros Hwf Hon Hva Hwa He. rewrite (wire_path_exact fx r u t Hwf Hon Hva Hwa He).
  unfold expected_path, original_path. destruct (r_setting r); congruence.
Qed.

(** * headers: what the HTTP client is handed, name by name *)

From HV Require Import C15.HeaderLemmas.

Lemma pipeline_value_lines hs k :
  pipeline_value hs k = match line_values k hs with v :: _ => Some v | [] => None end.
Proof.
  induction hs as [|[n v] r IH]; [reflexivity|]. simpl.
  destruct (String.eqb (canon_key n) k); [reflexivity | exact IH].
Qed.

Lemma upstream_headers_values pl k : h_values k (upstream_headers pl) = line_values k (p_headers pl).
Proof. unfold upstream_headers. rewrite h_values_fold_add. reflexivity. Qed.

Lemma upstream_headers_has pl k : h_has k (upstream_headers pl) = negb (is_nil (line_values k (p_headers pl))).
Proof. unfold upstream_headers. rewrite h_has_fold_add. reflexivity. Qed.

Lemma nodup_upstream_headers pl : NoDup (keys (upstream_headers pl)).
Proof. unfold upstream_headers. apply nodup_fold_add. constructor. Qed.

Lemma pipeline_values_nil all hs k :
  is_nil (pipeline_values all hs k) = is_nil (line_values k hs).
Proof.
  unfold pipeline_values. rewrite pipeline_value_lines. destruct all; destruct (line_values k hs); reflexivity.
Qed.

(** the loop over the pipeline's headers: its values for the name, else what was there *)
Lemma pipeline_headers_set all pl k h :
  h_values k (set_pipeline_headers all (upstream_headers pl) h) =
  if is_nil (pipeline_values all (p_headers pl) k) then h_values k h else pipeline_values all (p_headers pl) k.
Proof.
  rewrite h_values_set_pipeline by apply nodup_upstream_headers.
  rewrite upstream_headers_has, upstream_headers_values, pipeline_values_nil.
  unfold pipeline_values. rewrite pipeline_value_lines.
  destruct (line_values k (p_headers pl)); destruct all; reflexivity.
Qed.

Lemma upstream_host pl : h_get "Host" (upstream_headers pl) =
  match pipeline_value (p_headers pl) "Host" with Some v => v | None => "" end.
Proof.
  rewrite h_get_values, upstream_headers_values, pipeline_value_lines.
  destruct (line_values "Host" (p_headers pl)); reflexivity.
Qed.

(** before the pipeline's headers are applied: the client's fields that are passed on *)
Lemma passed_on_values q k :
  h_values k (h_del_all ["X-Forwarded-Method"; "X-Forwarded-Uri"; "X-Forwarded-Path"]
                (strip_forwarding (remove_hop_by_hop (in_headers q)))) = passed_on (in_headers q) k.
Proof.
  unfold strip_forwarding, passed_on, never_passed, is_forwarding_name, hop_by_hop.
  rewrite !h_values_del_all, h_values_remove_hop.
  destruct (mem_str k ["X-Forwarded-Method"; "X-Forwarded-Uri"; "X-Forwarded-Path"]); [reflexivity|].
  destruct (mem_str k ["Forwarded"; "X-Forwarded-For"; "X-Forwarded-Host"; "X-Forwarded-Proto"]); reflexivity.
Qed.

Lemma join_cookies_fold cs : forall h, cs <> [] ->
  h_values "Cookie" (fold_left add_cookie cs h) = [join_cookies (h_get "Cookie" h) cs].
Proof.
  induction cs as [|c r IH]; intros h Hne; [congruence|]. simpl fold_left.
  assert (Hg : h_get "Cookie" (add_cookie h c) =
               (if is_empty (h_get "Cookie" h) then cookie_text c else h_get "Cookie" h ++ "; " ++ cookie_text c)).
  { unfold add_cookie, cookie_text. destruct (is_empty (h_get "Cookie" h)); rewrite h_get_values, h_values_set; reflexivity. }
  destruct r as [|c2 r'].
  - simpl. unfold add_cookie, cookie_text.
    destruct (is_empty (h_get "Cookie" h)); rewrite h_values_set; reflexivity.
  - rewrite IH by discriminate. rewrite Hg. reflexivity.
Qed.

Lemma sort_cookies_nil cs : sort_cookies cs = [] -> cs = [].
Proof.
  destruct cs as [|c r]; [reflexivity|]. simpl. intro H. exfalso.
  destruct (sort_cookies r) as [|e l]; simpl in H; [discriminate|].
  destruct (String.leb (fst c) (fst e)); discriminate.
Qed.

(** the forwarded-header block of rewriteRequest *)
Lemma forwarded_block_values al q k h :
  h_values k (forwarded_block al (q_tls q) (in_headers q) (q_host q) (q_peer q) h) =
  match forwarding_value al q k with Some v => [v] | None => h_values k h end.
Proof.
  unfold forwarded_block, forwarding_value, forwarding_active, chain, append_peer, forwarded_element, conn_proto.
  set (hin := in_headers q). cbv zeta.
  set (ffor := if al then h_joined "X-Forwarded-For" hin else h_get "X-Forwarded-For" hin).
  set (fwd := if al then h_joined "Forwarded" hin else h_get "Forwarded" hin).
  destruct (negb (is_empty ffor) || negb (is_empty (h_get "X-Forwarded-Proto" hin)) ||
            negb (is_empty (h_get "X-Forwarded-Host" hin))).
  - rewrite !h_values_set.
    destruct (String.eqb k "X-Forwarded-For") eqn:E1.
    { apply String.eqb_eq in E1. subst k. reflexivity. }
    destruct (String.eqb k "X-Forwarded-Proto") eqn:E2.
    { apply String.eqb_eq in E2. subst k. reflexivity. }
    destruct (String.eqb k "X-Forwarded-Host") eqn:E3.
    { apply String.eqb_eq in E3. subst k. reflexivity. }
    rewrite (str_eqb_sym "X-Forwarded-Host" k), E3, (str_eqb_sym "X-Forwarded-Proto" k), E2,
            (str_eqb_sym "X-Forwarded-For" k), E1. reflexivity.
  - rewrite h_values_set. rewrite (str_eqb_sym "Forwarded" k).
    destruct (String.eqb k "Forwarded") eqn:E; [|reflexivity].
    apply String.eqb_eq in E. subst k. reflexivity.
Qed.

Lemma forwarding_value_name al q k v : forwarding_value al q k = Some v -> is_forwarding_name k = true.
Proof.
  unfold forwarding_value, is_forwarding_name, mem_str. simpl.
  destruct (forwarding_active al (in_headers q)).
  - destruct (String.eqb k "X-Forwarded-For"); [intros _; rewrite !orb_true_r; reflexivity|].
    destruct (String.eqb k "X-Forwarded-Proto"); [intros _; rewrite !orb_true_r; reflexivity|].
    destruct (String.eqb k "X-Forwarded-Host"); [intros _; rewrite !orb_true_r; reflexivity|]. discriminate.
  - destruct (String.eqb k "Forwarded"); [reflexivity | discriminate].
Qed.

(** the header map handed to the HTTP client is, name by name, what the
    specification says; who has the last word on a forwarding header the pipeline
    itself produced depends on the order of the two blocks (C15-F4) *)
Theorem rewrite_request_values fx q pl th k : k <> "Host" ->
  h_values k (snd (rewrite_request fx q pl th)) = handed_over (fx_c13f3 fx) (fx_f4 fx) (fx_f7 fx) q pl k.
Proof.
  intro Hk. unfold rewrite_request. cbv zeta. cbn [snd].
  set (pvs := pipeline_values (fx_c13f3 fx) (p_headers pl)).
  set (h1 := h_del_all ["X-Forwarded-Method"; "X-Forwarded-Uri"; "X-Forwarded-Path"]
               (strip_forwarding (remove_hop_by_hop (in_headers q)))).
  set (h1' := if fx_f4 fx then forwarded_block (fx_f7 fx) (q_tls q) (in_headers q) (q_host q) (q_peer q) h1 else h1).
  set (h2 := set_pipeline_headers (fx_c13f3 fx) (upstream_headers pl) h1').
  set (h3 := if is_empty (h_get "Host" (upstream_headers pl)) then h2 else h_del "Host" h2).
  assert (H1' : forall k', h_values k' h1' =
                if fx_f4 fx then match forwarding_value (fx_f7 fx) q k' with Some v => [v] | None => passed_on (in_headers q) k' end
                else passed_on (in_headers q) k').
  { intro k'. unfold h1'. destruct (fx_f4 fx).
    - rewrite forwarded_block_values. unfold h1. rewrite passed_on_values. reflexivity.
    - unfold h1. apply passed_on_values. }
  assert (H3 : forall k', k' <> "Host" -> h_values k' h3 = if is_nil (pvs k') then h_values k' h1' else pvs k').
  { intros k' Hk'. unfold h3. destruct (is_empty (h_get "Host" (upstream_headers pl))).
    - unfold h2. rewrite pipeline_headers_set. reflexivity.
    - rewrite h_values_del. rewrite str_eqb_neq by congruence.
      unfold h2. rewrite pipeline_headers_set. reflexivity. }
  (* the cookies *)
  assert (H4 : h_values k (fold_left add_cookie (sort_cookies (p_cookies pl)) h3) =
               if String.eqb k "Cookie" && negb (is_nil (p_cookies pl))
               then [join_cookies (first_or_empty (h_values k h3)) (sort_cookies (p_cookies pl))]
               else h_values k h3).
  { destruct (String.eqb k "Cookie") eqn:Ec.
    - apply String.eqb_eq in Ec. subst k. simpl andb.
      destruct (sort_cookies (p_cookies pl)) as [|c cs] eqn:Es.
      + assert (Hnil : p_cookies pl = []) by (apply sort_cookies_nil; exact Es).
        rewrite Hnil. reflexivity.
      + assert (Hnn : is_nil (p_cookies pl) = false).
        { destruct (p_cookies pl); [discriminate | reflexivity]. }
        rewrite Hnn. simpl negb. cbv iota.
        rewrite join_cookies_fold by discriminate. rewrite h_get_values. reflexivity.
    - simpl andb. cbv iota. apply h_values_add_cookies_other. rewrite str_eqb_sym. exact Ec. }
  unfold handed_over. fold pvs.
  destruct (forwarding_value (fx_f7 fx) q k) as [fv|] eqn:Ef.
  - (* a forwarding name: not Cookie *)
    pose proof (forwarding_value_name _ _ _ _ Ef) as Hn.
    assert (Hc : String.eqb k "Cookie" = false).
    { destruct (String.eqb k "Cookie") eqn:E; [|reflexivity]. apply String.eqb_eq in E. subst k. discriminate. }
    rewrite Hc in *. cbn [andb] in *. destruct (fx_f4 fx) eqn:E4.
    + rewrite H4, H3 by exact Hk. rewrite H1', Ef. cbn [andb]. destruct (is_nil (pvs k)); reflexivity.
    + rewrite forwarded_block_values, Ef. reflexivity.
  - assert (Hend : h_values k (if fx_f4 fx then fold_left add_cookie (sort_cookies (p_cookies pl)) h3
                               else forwarded_block (fx_f7 fx) (q_tls q) (in_headers q) (q_host q) (q_peer q)
                                      (fold_left add_cookie (sort_cookies (p_cookies pl)) h3)) =
                   h_values k (fold_left add_cookie (sort_cookies (p_cookies pl)) h3)).
    { destruct (fx_f4 fx); [reflexivity|]. rewrite forwarded_block_values, Ef. reflexivity. }
    rewrite Hend, H4, H3 by exact Hk. rewrite H1', Ef.
    destruct (fx_f4 fx); reflexivity.
Qed.

(** * http.Transport and the sorted report *)

Lemma on_the_wire_values m h k : k <> "Host" ->
  h_values k (on_the_wire m h) =
  if String.eqb k "User-Agent" then
    (if is_empty (first_or_empty (h_values k h)) then [] else [first_or_empty (h_values k h)])
  else if String.eqb k "Accept-Encoding" then
    (if is_empty (first_or_empty (h_values "Accept-Encoding" h)) && is_empty (first_or_empty (h_values "Range" h)) &&
        negb (String.eqb m "HEAD")
     then (h_values k h ++ ["gzip"])%list else h_values k h)
  else h_values k h.
Proof.
  intro Hk. unfold on_the_wire.
  set (h1 := h_del "Host" h).
  assert (H1 : forall k', k' <> "Host" -> h_values k' h1 = h_values k' h).
  { intros k' Hk'. unfold h1. rewrite h_values_del. rewrite str_eqb_neq by congruence. reflexivity. }
  set (ua := h_get "User-Agent" h1).
  set (h2 := if is_empty ua then h_del "User-Agent" h1 else h_set "User-Agent" ua h1).
  assert (Hua : ua = first_or_empty (h_values "User-Agent" h)).
  { unfold ua. rewrite h_get_values, H1 by discriminate. reflexivity. }
  assert (H2 : forall k', k' <> "Host" -> h_values k' h2 =
               if String.eqb k' "User-Agent" then (if is_empty ua then [] else [ua]) else h_values k' h).
  { intros k' Hk'. unfold h2. destruct (is_empty ua).
    - rewrite h_values_del, (str_eqb_sym "User-Agent" k'). destruct (String.eqb k' "User-Agent"); [reflexivity|].
      apply H1. exact Hk'.
    - rewrite h_values_set, (str_eqb_sym "User-Agent" k'). destruct (String.eqb k' "User-Agent"); [reflexivity|].
      apply H1. exact Hk'. }
  assert (Hae : h_get "Accept-Encoding" h2 = first_or_empty (h_values "Accept-Encoding" h)).
  { rewrite h_get_values, H2 by discriminate. reflexivity. }
  assert (Hrg : h_get "Range" h2 = first_or_empty (h_values "Range" h)).
  { rewrite h_get_values, H2 by discriminate. reflexivity. }
  rewrite Hae, Hrg.
  destruct (String.eqb k "User-Agent") eqn:Eu.
  - apply String.eqb_eq in Eu. subst k.
    destruct (is_empty (first_or_empty (h_values "Accept-Encoding" h)) &&
              is_empty (first_or_empty (h_values "Range" h)) && negb (String.eqb m "HEAD")).
    + rewrite h_values_add. simpl String.eqb. cbv iota. rewrite H2 by discriminate. simpl String.eqb. cbv iota.
      rewrite Hua. reflexivity.
    + rewrite H2 by discriminate. simpl String.eqb. cbv iota. rewrite Hua. reflexivity.
  - destruct (is_empty (first_or_empty (h_values "Accept-Encoding" h)) &&
              is_empty (first_or_empty (h_values "Range" h)) && negb (String.eqb m "HEAD")).
    + rewrite h_values_add, (str_eqb_sym "Accept-Encoding" k).
      destruct (String.eqb k "Accept-Encoding") eqn:Ea.
      * apply String.eqb_eq in Ea. subst k. rewrite H2 by discriminate. reflexivity.
      * rewrite H2 by exact Hk. rewrite Eu. reflexivity.
    + rewrite H2 by exact Hk. rewrite Eu. destruct (String.eqb k "Accept-Encoding"); reflexivity.
Qed.

(** * taking [serve] apart *)

Lemma serve_forwarded fx q pl r tls m uri host hs body :
  serve fx q pl r = Forwarded tls m uri host hs body ->
  exists u t,
    view_url q = Some u /\ execute fx r u = Some t /\
    (u_scheme t = "http" \/ u_scheme t = "https") /\
    tls = String.eqb (u_scheme t) "https" /\ tls = r_up_tls r /\
    m = view_method q /\ uri = wire_uri t /\
    host = fst (rewrite_request fx q pl (u_host t)) /\
    hs = h_sort (on_the_wire m (snd (rewrite_request fx q pl (u_host t)))) /\
    body = q_body q.
Proof.
  unfold serve. destruct (view_url q) as [u|]; [|discriminate].
  destruct (execute fx r u) as [t|] eqn:He; [|discriminate].
  destruct (String.eqb (u_scheme t) "http") eqn:E1; destruct (String.eqb (u_scheme t) "https") eqn:E2;
    cbn [orb negb]; try discriminate.
  - exfalso. apply String.eqb_eq in E1. apply String.eqb_eq in E2. rewrite E1 in E2. discriminate E2.
  - destruct (r_up_tls r) eqn:Et; cbn [Bool.eqb negb]; [discriminate|].
    destruct (q_fault q); [discriminate|].
    destruct (rewrite_request fx q pl (u_host t)) as [hh h] eqn:Er. intro H. inversion H; subst.
    exists u, t. apply String.eqb_eq in E1. rewrite Er. splits; auto.
  - destruct (r_up_tls r) eqn:Et; cbn [Bool.eqb negb]; [|discriminate].
    destruct (q_fault q); [discriminate|].
    destruct (rewrite_request fx q pl (u_host t)) as [hh h] eqn:Er. intro H. inversion H; subst.
    exists u, t. pose proof E2 as E2'. apply String.eqb_eq in E2. rewrite Er. splits; auto.
Qed.

Lemma serve_forwarded_intact fx q pl r tls m uri host hs body :
  serve fx q pl r = Forwarded tls m uri host hs body -> q_fault q = false.
Proof.
  unfold serve. destruct (view_url q) as [u|]; [|discriminate].
  destruct (execute fx r u) as [t|]; [|discriminate].
  destruct (negb _); [discriminate|]. destruct (negb _); [discriminate|].
  destruct (q_fault q); [discriminate | reflexivity].
Qed.

(** every field the upstream sees, name by name *)
Theorem serve_headers fx q pl r tls m uri host hs body k :
  serve fx q pl r = Forwarded tls m uri host hs body -> k <> "Host" ->
  h_values k hs = expected_values (fx_c13f3 fx) (fx_f4 fx) (fx_f7 fx) q pl m k.
Proof.
  intros H Hk. destruct (serve_forwarded _ _ _ _ _ _ _ _ _ _ H) as (u & t & _ & _ & _ & _ & _ & Hm & _ & _ & Hhs & _).
  subst hs. rewrite h_values_sort by (apply nodup_on_the_wire; apply nodup_rewrite_request).
  rewrite on_the_wire_values by exact Hk. unfold expected_values.
  rewrite !rewrite_request_values by (exact Hk || discriminate). reflexivity.
Qed.

Lemma serve_host fx q pl r tls m uri host hs body :
  serve fx q pl r = Forwarded tls m uri host hs body -> host = expected_host pl r.
Proof.
  intro H. destruct (serve_forwarded _ _ _ _ _ _ _ _ _ _ H) as (u & t & Hv & He & _ & _ & _ & _ & _ & Hh & _ & _).
  subst host. unfold rewrite_request. cbv zeta. cbn [fst]. rewrite upstream_host. unfold expected_host.
  assert (Ht : u_host t = b_host (r_backend r)).
  { unfold execute in He.
    assert (Hc : forall x, u_host (create_url_q (fx_q fx) (r_backend r) x) = b_host (r_backend r)).
    { intro x. unfold create_url_q. destruct (b_rw (r_backend r)); reflexivity. }
    destruct (r_setting r); try (inversion He; apply Hc).
    destruct (has_enc_slash (fx_c08f2 fx) (u_rawpath u)); [discriminate|]. inversion He. apply Hc. }
  rewrite Ht. destruct (pipeline_value (p_headers pl) "Host"); reflexivity.
Qed.

(** * the sentences about headers *)

Lemma handed_over_pipeline all pf al q pl k :
  pipeline_values all (p_headers pl) k <> [] -> pf = true \/ forwarding_value al q k = None ->
  (k = "Cookie" -> p_cookies pl = []) ->
  handed_over all pf al q pl k = pipeline_values all (p_headers pl) k.
Proof.
  intros Hp Hf Hc. unfold handed_over.
  assert (Hn : is_nil (pipeline_values all (p_headers pl) k) = false).
  { destruct (pipeline_values all (p_headers pl) k); [congruence | reflexivity]. }
  rewrite Hn.
  assert (Hb : match forwarding_value al q k with
               | Some v => if pf && negb false then pipeline_values all (p_headers pl) k else [v]
               | None => pipeline_values all (p_headers pl) k
               end = pipeline_values all (p_headers pl) k).
  { destruct Hf as [Hf|Hf]; rewrite Hf; [destruct (forwarding_value al q k)|]; reflexivity. }
  rewrite Hb. destruct (String.eqb k "Cookie") eqn:E; [|reflexivity].
  apply String.eqb_eq in E. rewrite (Hc E). reflexivity.
Qed.

(** "every header produced by the pipeline replaces any same-named header sent
    by the client": heimdall hands its HTTP client exactly the pipeline's values
    for that name — empty values included — whatever the client sent under it in
    whatever casing *)
Theorem pipeline_header_wins fx q pl th k :
  let vs := pipeline_values (fx_c13f3 fx) (p_headers pl) k in
  vs <> [] -> k <> "Host" -> (k = "Cookie" -> p_cookies pl = []) ->
  fx_f4 fx = true \/ forwarding_value (fx_f7 fx) q k = None ->
  h_values k (snd (rewrite_request fx q pl th)) = vs.
Proof.
  intros vs Hne Hk Hc Hf. rewrite rewrite_request_values by exact Hk.
  apply handed_over_pipeline; assumption.
Qed.

(** ... and the upstream sees exactly these (User-Agent and Accept-Encoding are
    written by Go's HTTP client in its own way, see [expected_values]) *)
Theorem pipeline_header_on_the_wire fx q pl r tls m uri host hs body k :
  serve fx q pl r = Forwarded tls m uri host hs body ->
  let vs := pipeline_values (fx_c13f3 fx) (p_headers pl) k in
  vs <> [] -> k <> "Host" -> k <> "User-Agent" -> k <> "Accept-Encoding" -> (k = "Cookie" -> p_cookies pl = []) ->
  fx_f4 fx = true \/ forwarding_value (fx_f7 fx) q k = None ->
  h_values k hs = vs.
Proof.
  intros H vs Hne Hk Hua Hae Hc Hf. rewrite (serve_headers _ _ _ _ _ _ _ _ _ _ k H Hk).
  unfold expected_values. rewrite (str_eqb_neq k "User-Agent") by exact Hua.
  rewrite (str_eqb_neq k "Accept-Encoding") by exact Hae. apply handed_over_pipeline; assumption.
Qed.

(** the pipeline's Host header becomes the Host of the forwarded request *)
Theorem pipeline_host_wins fx q pl r tls m uri host hs body v :
  serve fx q pl r = Forwarded tls m uri host hs body ->
  pipeline_value (p_headers pl) "Host" = Some v -> v <> "" -> host = v.
Proof.
  intros H Hp Hv. rewrite (serve_host _ _ _ _ _ _ _ _ _ _ H). unfold expected_host. rewrite Hp.
  destruct v; [congruence | reflexivity].
Qed.

(** "a client cannot pass X-Forwarded-Method/-Uri/-Path through" *)
Theorem no_forwarded_passthrough fx q pl r tls m uri host hs body k :
  serve fx q pl r = Forwarded tls m uri host hs body ->
  never_passed k = true -> pipeline_value (p_headers pl) k = None ->
  h_values k hs = [].
Proof.
  intros H Hn Hp.
  assert (Hk : k <> "Host") by (intro; subst k; discriminate).
  rewrite (serve_headers _ _ _ _ _ _ _ _ _ _ k H Hk).
  assert (Hf : forwarding_value (fx_f7 fx) q k = None).
  { destruct (forwarding_value (fx_f7 fx) q k) eqn:E; [|reflexivity]. apply forwarding_value_name in E.
    unfold never_passed, is_forwarding_name, mem_str in *. simpl in *.
    destruct (String.eqb k "X-Forwarded-Method") eqn:E1; [apply String.eqb_eq in E1; subst k; discriminate|].
    destruct (String.eqb k "X-Forwarded-Uri") eqn:E2; [apply String.eqb_eq in E2; subst k; discriminate|].
    destruct (String.eqb k "X-Forwarded-Path") eqn:E3; [apply String.eqb_eq in E3; subst k; discriminate|].
    discriminate. }
  assert (Hpv : pipeline_values (fx_c13f3 fx) (p_headers pl) k = []).
  { unfold pipeline_values. rewrite pipeline_value_lines in Hp. rewrite pipeline_value_lines.
    destruct (line_values k (p_headers pl)); [destruct (fx_c13f3 fx); reflexivity | discriminate]. }
  assert (Hho : handed_over (fx_c13f3 fx) (fx_f4 fx) (fx_f7 fx) q pl k = []).
  { unfold handed_over. rewrite Hpv, Hf. unfold passed_on. rewrite Hn. simpl.
    destruct (String.eqb k "Cookie") eqn:E; [|reflexivity]. apply String.eqb_eq in E. subst k. discriminate. }
  unfold expected_values. rewrite Hho.
  destruct (String.eqb k "User-Agent") eqn:E1; [apply String.eqb_eq in E1; subst k; discriminate|].
  destruct (String.eqb k "Accept-Encoding") eqn:E2; [apply String.eqb_eq in E2; subst k; discriminate|].
  reflexivity.
Qed.

(** "X-Forwarded-For or Forwarded is extended by the peer address": whichever of
    the two carries this request's forwarding information is the received chain
    ([chain]: all field lines after the repair of C15-F7, the first line before)
    extended by the peer (after the repair of C15-F4: unless the pipeline itself
    produced that header) *)
Theorem forwarded_extended_by_peer fx q pl r tls m uri host hs body :
  serve fx q pl r = Forwarded tls m uri host hs body ->
  let hin := in_headers q in
  let al := fx_f7 fx in
  let k := if forwarding_active al hin then "X-Forwarded-For" else "Forwarded" in
  fx_f4 fx = false \/ pipeline_values (fx_c13f3 fx) (p_headers pl) k = [] ->
  if forwarding_active al hin
  then h_values "X-Forwarded-For" hs = [append_peer (chain al "X-Forwarded-For" hin) (q_peer q)]
  else h_values "Forwarded" hs =
       [append_peer (chain al "Forwarded" hin) ("for=" ++ q_peer q ++ ";host=" ++ q_host q ++ ";proto=" ++ conn_proto q)].
Proof.
  intros H hin al k Hor. subst k. destruct (forwarding_active al hin) eqn:Ea.
  - rewrite (serve_headers _ _ _ _ _ _ _ _ _ _ "X-Forwarded-For" H) by discriminate.
    unfold expected_values, handed_over, forwarding_value. fold hin. fold al. rewrite Ea. cbn [String.eqb Ascii.eqb Bool.eqb andb].
    destruct Hor as [Hor|Hor]; rewrite Hor; cbn [andb is_nil negb]; rewrite ?andb_false_r; reflexivity.
  - rewrite (serve_headers _ _ _ _ _ _ _ _ _ _ "Forwarded" H) by discriminate.
    unfold expected_values, handed_over, forwarding_value. fold hin. fold al. rewrite Ea. cbn [String.eqb Ascii.eqb Bool.eqb andb].
    destruct Hor as [Hor|Hor]; rewrite Hor; cbn [andb is_nil negb]; rewrite ?andb_false_r; reflexivity.
Qed.

(** the forwarded method is the view's; it is the received one unless C15-F2 *)
Lemma method_body_untouched fx q pl r tls m uri host hs body :
  serve fx q pl r = Forwarded tls m uri host hs body ->
  body = q_body q /\ m = view_method q /\ (guard_F2 q = false -> m = q_method q).
Proof.
  intro H. destruct (serve_forwarded _ _ _ _ _ _ _ _ _ _ H) as (u & t & _ & _ & _ & _ & _ & Hm & _ & _ & _ & Hb).
  splits; auto. intro Hg. subst m. unfold guard_F2 in Hg. apply negb_false_iff in Hg.
  apply String.eqb_eq in Hg. exact Hg.
Qed.

(** * the decoded path: no double encoding, whatever the configuration *)

Theorem decoded_path_preserved f b u :
  match b_rw b with
  | Some rw =>
    let raw' := rw_add rw ++ strip_prefix (rw_cut rw) (escaped_path (u_path u) (u_rawpath u)) in
    wellformed raw' = true -> unescape (wire_path (create_url_q f b u)) = unescape raw'
  | None => unescape (wire_path (create_url_q f b u)) = Some (u_path u)
  end.
Proof.
  unfold create_url_q. destruct (b_rw b) as [rw|].
  - cbv zeta. intro Hw.
    set (up := {| u_scheme := u_scheme u; u_host := b_host b; u_path := u_path u;
                  u_rawpath := u_rawpath u; u_query := u_query u |}).
    pose proof (rewrite_decoded f rw up) as H. cbv zeta in H. rewrite transform_path_eq in H.
    apply H. exact Hw.
  - unfold wire_path. simpl. apply escaped_path_decodes.
Qed.

(** * the request line *)

Lemma create_url_query f b u :
  u_query (create_url_q f b u) =
  match b_rw b with Some rw => remove_from_q f (rw_strip_q rw) (u_query u) | None => u_query u end.
Proof. unfold create_url_q. destruct (b_rw b); reflexivity. Qed.

Lemma create_url_scheme f b u :
  u_scheme (create_url_q f b u) =
  match b_rw b with Some rw => if is_empty (rw_scheme rw) then u_scheme u else rw_scheme rw | None => u_scheme u end.
Proof. unfold create_url_q. destruct (b_rw b); reflexivity. Qed.

Lemma execute_create fx r u t : execute fx r u = Some t ->
  exists u', t = create_url_q (fx_q fx) (r_backend r) u' /\ u_query u' = u_query u /\ u_scheme u' = u_scheme u /\
             u_path u' = u_path u /\
             u_rawpath u' = match r_setting r with On => "" | _ => u_rawpath u end.
Proof.
  unfold execute. destruct (r_setting r).
  - destruct (has_enc_slash (fx_c08f2 fx) (u_rawpath u)); [discriminate|]. intro H. inversion H.
    exists u. splits; reflexivity.
  - intro H. inversion H. eexists. splits; reflexivity.
  - intro H. inversion H. exists u. splits; reflexivity.
Qed.

(** "original scheme ... changed only by the configured rewrite" *)
Theorem scheme_rewritten fx r u t : execute fx r u = Some t -> u_scheme t = expected_scheme r u.
Proof.
  intro H. destruct (execute_create _ _ _ _ H) as (u' & Ht & _ & Hs & _). subst t.
  rewrite create_url_scheme, Hs. unfold expected_scheme, cfg_scheme.
  destruct (b_rw (r_backend r)); reflexivity.
Qed.

(** the request target on the wire: path (never empty), then '?' and the query if there is one *)
Theorem request_line fx r u t : execute fx r u = Some t ->
  wire_uri t =
  (if is_empty (wire_path t) then "/" else wire_path t) ++
  (let q' := match b_rw (r_backend r) with
             | Some rw => remove_from_q (fx_q fx) (rw_strip_q rw) (u_query u)
             | None => u_query u
             end in
   if is_empty q' then "" else String "?" q').
Proof.
  intro H. destruct (execute_create _ _ _ _ H) as (u' & Ht & Hq & _). subst t.
  unfold wire_uri, request_uri, wire_path. rewrite create_url_query, Hq.
  destruct (b_rw (r_backend r)) as [rw|].
  - destruct (is_empty (remove_from_q (fx_q fx) (rw_strip_q rw) (u_query u))); [rewrite append_nil_r|]; reflexivity.
  - destruct (is_empty (u_query u)); [rewrite append_nil_r|]; reflexivity.
Qed.

(** with nothing to remove the query is forwarded byte for byte *)
Theorem query_untouched f names q : names = [] \/ q = "" -> remove_from_q f names q = q.
Proof.
  intros [H|H]; subst; unfold remove_from_q.
  - destruct (is_empty q); reflexivity.
  - reflexivity.
Qed.

(** * the findings, each with a witness; a non-trivial input without any *)

Definition ex_req (m raw q : string) (hs : list (string * string)) (trusted : bool) : request :=
  {| q_method := m; q_raw := raw; q_query := q; q_host := "h.example.com"; q_headers := hs; q_body := "body";
     q_fault := false; q_tls := false; q_peer := "127.0.0.2"; q_trusted := trusted; q_xfu := None |}.
Definition ex_rule (st : setting) (rw : option rewriter) : rule :=
  {| r_setting := st; r_backend := {| b_host := "up:8080"; b_rw := rw |}; r_up_tls := false; r_tracing := false |}.
Definition ex_rw (cut add : string) (strip : list string) : option rewriter :=
  Some {| rw_scheme := ""; rw_cut := cut; rw_add := add; rw_strip_q := strip |}.
Definition no_pl : pipeline := {| p_headers := []; p_cookies := [] |}.

Definition forwarded_uri (o : outcome) : string :=
  match o with Forwarded _ _ uri _ _ _ => uri | NotForwarded _ => "" end.
Definition forwarded_method (o : outcome) : string :=
  match o with Forwarded _ m _ _ _ _ => m | NotForwarded _ => "" end.
Definition forwarded_field (k : string) (o : outcome) : list string :=
  match o with Forwarded _ _ _ _ hs _ => h_values k hs | NotForwarded _ => [] end.

(** C15-F1 (repaired by 41fd1db): `a` is to be removed, the query has a broken escape elsewhere *)
Theorem F1_pinned_refuted : exists q pl r,
  guard_F1 q r = true /\ spec_ok q pl r (serve current q pl r) = false /\
  forwarded_uri (serve current q pl r) = "/x?a=1&b=%zz" /\
  spec_ok q pl r (serve repaired q pl r) = true /\ forwarded_uri (serve repaired q pl r) = "/x?b=%zz".
Proof.
  exists (ex_req "GET" "/x" "a=1&b=%zz" [] false), no_pl, (ex_rule NoDecode (ex_rw "" "" ["a"])).
  vm_compute. splits; reflexivity.
Qed.

(** C15-F2: PROPFIND arrives from a trusted peer with X-Forwarded-Method: GET; GET is forwarded *)
Theorem F2_refuted : exists q pl r,
  guard_F2 q = true /\ spec_ok q pl r (serve repaired2 q pl r) = false /\
  q_method q = "PROPFIND" /\ forwarded_method (serve repaired2 q pl r) = "GET".
Proof.
  exists (ex_req "PROPFIND" "/x" "" [("X-Forwarded-Method", "GET")] true), no_pl, (ex_rule Off None).
  vm_compute. splits; reflexivity.
Qed.

(** C15-F3: under `on` an encoded semicolon is decoded on the way *)
Theorem F3_refuted : exists q pl r,
  guard_F3 q r = true /\ spec_ok q pl r (serve repaired2 q pl r) = false /\
  forwarded_uri (serve repaired2 q pl r) = "/0%20/;users".
Proof.
  exists (ex_req "GET" "/0%20/%3Busers" "" [] false), no_pl, (ex_rule On None).
  vm_compute. splits; reflexivity.
Qed.

(** C15-F4 (repaired by 35453b2): the pipeline's Forwarded header is overwritten *)
Theorem F4_pinned_refuted : exists q pl r,
  guard_F4 q pl = true /\ spec_ok q pl r (serve current q pl r) = false /\
  forwarded_field "Forwarded" (serve current q pl r) = ["for=127.0.0.2;host=h.example.com;proto=http"] /\
  spec_ok q pl r (serve repaired q pl r) = true /\ forwarded_field "Forwarded" (serve repaired q pl r) = ["v1"].
Proof.
  exists (ex_req "GET" "/x" "" [] false), {| p_headers := [("Forwarded", "v1")]; p_cookies := [] |}, (ex_rule Off None).
  vm_compute. splits; reflexivity.
Qed.

(** C15-F5: a prefix with a blank re-encodes the whole path; one with a broken escape sends everything to / *)
Theorem F5_refuted :
  (exists q pl r, guard_F5 r = true /\ spec_ok q pl r (serve repaired2 q pl r) = false /\
                  forwarded_uri (serve repaired2 q pl r) = "/a%20b/x;y") /\
  (exists q pl r, guard_F5 r = true /\ spec_ok q pl r (serve repaired2 q pl r) = false /\
                  forwarded_uri (serve repaired2 q pl r) = "/").
Proof.
  split.
  - exists (ex_req "GET" "/x%3By" "" [] false), no_pl, (ex_rule NoDecode (ex_rw "" "/a b" [])).
    vm_compute. splits; reflexivity.
  - exists (ex_req "GET" "/img" "" [] false), no_pl, (ex_rule NoDecode (ex_rw "" "/%zz" [])).
    vm_compute. splits; reflexivity.
Qed.

(** C15-F6 (repaired by 5270ed2): nothing named `zz` is in the query, yet the query was re-ordered
    and re-encoded; since the repair it is forwarded as it came *)
Theorem F6_pinned_refuted : exists q pl r,
  guard_F6 q r = true /\ spec_ok q pl r (serve repaired q pl r) = false /\
  forwarded_uri (serve repaired q pl r) = "/x?a=~&b=1" /\
  spec_ok q pl r (serve repaired2 q pl r) = true /\ forwarded_uri (serve repaired2 q pl r) = "/x?b=1&a=%7E".
Proof.
  exists (ex_req "GET" "/x" "b=1&a=%7E" [] false), no_pl, (ex_rule NoDecode (ex_rw "" "" ["zz"])).
  vm_compute. splits; reflexivity.
Qed.

(** C15-F7 (repaired by f228b67): a trusted peer sends its chain in two X-Forwarded-For lines; the
    second was lost; since the repair both are kept *)
Theorem F7_pinned_refuted : exists q pl r,
  guard_F7 q = true /\ spec_ok q pl r (serve repaired q pl r) = false /\
  forwarded_field "X-Forwarded-For" (serve repaired q pl r) = ["10.0.0.1, 127.0.0.2"] /\
  spec_ok q pl r (serve repaired2 q pl r) = true /\
  forwarded_field "X-Forwarded-For" (serve repaired2 q pl r) = ["10.0.0.1, 10.0.0.2, 127.0.0.2"].
Proof.
  exists (ex_req "GET" "/x" "" [("X-Forwarded-For", "10.0.0.1"); ("X-Forwarded-For", "10.0.0.2")] true), no_pl, (ex_rule Off None).
  vm_compute. splits; reflexivity.
Qed.

(** C15-F8 is outside the model (the OpenTelemetry transport wrapper is not
    modelled): the observation below is what the assembled application with
    tracing enabled forwarded when the header finalizer had set Traceparent *)
Theorem F8_observed_refuted : exists q pl r o,
  guard_F8 pl r = true /\ spec_ok q pl r o = false /\
  line_values "Traceparent" (p_headers pl) = ["from-pipeline"] /\
  forwarded_field "Traceparent" o = ["00-0af7651916cd43dd8448eb211c80319c-d2ed1e541ae0a01b-01"].
Proof.
  exists (ex_req "GET" "/x" "" [] false), {| p_headers := [("Traceparent", "from-pipeline")]; p_cookies := [] |},
         {| r_setting := Off; r_backend := {| b_host := "up:8080"; b_rw := None |}; r_up_tls := false; r_tracing := true |},
         (Forwarded false "GET" "/x" "up:8080"
            [("Accept-Encoding", ["gzip"]); ("Forwarded", ["for=127.0.0.2;host=h.example.com;proto=http"]);
             ("Traceparent", ["00-0af7651916cd43dd8448eb211c80319c-d2ed1e541ae0a01b-01"])] "body").
  vm_compute. splits; reflexivity.
Qed.

(** C15-F9: a trusted X-Forwarded-Uri that url.Parse rejects is used as received for the
    view (d3f6cd7), but its path does not decode: the rules decide about /%zz, the upstream gets / *)
Theorem F9_refuted : exists q pl r,
  guard_F9 q = true /\ spec_ok q pl r (serve repaired2 q pl r) = false /\
  option_map u_rawpath (view_url q) = Some "/%zz" /\ forwarded_uri (serve repaired2 q pl r) = "/".
Proof.
  exists {| q_method := "GET"; q_raw := "/users"; q_query := ""; q_host := "h.example.com";
            q_headers := [("X-Forwarded-Uri", "/%zz")]; q_body := ""; q_fault := false; q_tls := false; q_peer := "127.0.0.2";
            q_trusted := true; q_xfu := Some ("/%zz", "") |}, no_pl, (ex_rule NoDecode None).
  vm_compute. splits; reflexivity.
Qed.

(** a request that exercises every sentence and none of the guards: escapes of
    reserved and unreserved bytes, an encoded slash, strip + add prefix, a
    repeated query parameter to remove, client headers colliding with pipeline
    headers in another casing (one of them set to the EMPTY value by the
    pipeline), forwarded headers of an untrusted client, cookies, TLS towards heimdall *)
Definition nv_req : request :=
  {| q_method := "POST"; q_raw := "/api/v1%2Fx/%3Bq%41"; q_query := "a=1&b=%2F&a=3&c=";
     q_host := "h.example.com";
     q_headers := [("X-USER", "mallory"); ("x-forwarded-method", "DELETE"); ("X-Forwarded-For", "6.6.6.6");
                   ("Cookie", "c=1"); ("connection", "close, X-Drop"); ("X-Drop", "1"); ("Accept", "*/*");
                   ("X-Role", "admin")];
     q_body := "{""a"":1}"; q_fault := false; q_tls := true; q_peer := "127.0.0.9"; q_trusted := false; q_xfu := None |}.
Definition nv_pl : pipeline :=
  {| p_headers := [("x-user", "alice"); ("Authorization", "Bearer t"); ("X-User", "second"); ("x-role", "")];
     p_cookies := [("sid", "1")] |}.
Definition nv_rule : rule :=
  {| r_setting := NoDecode; r_backend := {| b_host := "up:8080"; b_rw := ex_rw "/api" "/up" ["a"] |};
     r_up_tls := true; r_tracing := false |}.

Example nonvacuous :
  oracle_ok nv_req = true /\
  guard_F2 nv_req = false /\ guard_F3 nv_req nv_rule = false /\ guard_F5 nv_rule = false /\
  guard_F6 nv_req nv_rule = false /\ guard_F7 nv_req = false /\ guard_F8 nv_pl nv_rule = false /\
  serve repaired2 nv_req nv_pl nv_rule =
    Forwarded true "POST" "/up/v1%2Fx/%3Bq%41?b=%2F&c=" "up:8080"
      [("Accept", ["*/*"]); ("Accept-Encoding", ["gzip"]); ("Authorization", ["Bearer t"]);
       ("Cookie", ["c=1; sid=1"]); ("Forwarded", ["for=127.0.0.9;host=h.example.com;proto=https"]);
       ("X-Role", [""]); ("X-User", ["alice"; "second"])] "{""a"":1}" /\
  spec_ok nv_req nv_pl nv_rule (serve repaired2 nv_req nv_pl nv_rule) = true.
Proof. vm_compute. splits; reflexivity. Qed.

(** a second witness: a TRUSTED peer whose chain comes in two X-Forwarded-For
    lines and whose X-Forwarded-Uri / -Proto / -Host define the view; a query that
    is kept byte for byte although a parameter list is configured *)
Definition nv2_req : request :=
  {| q_method := "GET"; q_raw := "/ignored"; q_query := "z=0"; q_host := "h.example.com";
     q_headers := [("X-Forwarded-For", "10.0.0.1"); ("x-forwarded-for", "10.0.0.2");
                   ("X-Forwarded-Uri", "/api/o%2Fp?b=1&a=%7E&&c"); ("X-Forwarded-Host", "orig.example.com");
                   ("X-Forwarded-Method", "GET"); ("X-Forwarded-Path", "/p")];
     q_body := ""; q_fault := false; q_tls := false; q_peer := "127.0.0.2"; q_trusted := true;
     q_xfu := Some ("/api/o%2Fp", "b=1&a=%7E&&c") |}.
Definition nv2_rule : rule :=
  {| r_setting := NoDecode; r_backend := {| b_host := "up:8080"; b_rw := ex_rw "/api" "" ["zz"] |};
     r_up_tls := false; r_tracing := false |}.

Example nonvacuous_trusted :
  oracle_ok nv2_req = true /\
  guard_F2 nv2_req = false /\ guard_F3 nv2_req nv2_rule = false /\ guard_F5 nv2_rule = false /\
  guard_F8 no_pl nv2_rule = false /\ guard_F9 nv2_req = false /\
  serve repaired2 nv2_req no_pl nv2_rule =
    Forwarded false "GET" "/o%2Fp?b=1&a=%7E&&c" "up:8080"
      [("Accept-Encoding", ["gzip"]); ("X-Forwarded-For", ["10.0.0.1, 10.0.0.2, 127.0.0.2"]);
       ("X-Forwarded-Host", ["orig.example.com"]); ("X-Forwarded-Proto", ["http"])] "" /\
  spec_ok nv2_req no_pl nv2_rule (serve repaired2 nv2_req no_pl nv2_rule) = true.
Proof. vm_compute. splits; reflexivity. Qed.
