(** C15/Spec — the property, sentence by sentence, as executable predicates on
    the input (request as sent, pipeline output, rule) and on what the upstream
    received.  Written per header NAME and per query KEY, not as a sequence of
    map updates; nothing here refers to [create_url], [rewrite],
    [rewrite_request] or [serve].

    Shared vocabulary with the model: the request view ([view_url],
    [view_method], [in_headers] — what heimdall matched and authorised, the
    subject of C09/C13), header-map lookups, and Base/GoUrl.

    "In proxy mode an accepted request is forwarded to forward_to.host with the
     original scheme, path and query changed only by the configured rewrite
     (scheme, strip prefix then add prefix, removed query parameters), preserving
     the percent-encoding of the path without double encoding and leaving method
     and body untouched.  Every header produced by the pipeline replaces any
     same-named header sent by the client, a client cannot pass
     X-Forwarded-Method/-Uri/-Path through, and X-Forwarded-For or Forwarded is
     extended by the peer address." *)
From HV Require Import Base.Prelude Base.GoUrl C15.Model.
From HV Require Export C15.UrlLemmas.

Local Open Scope char_scope.
Local Open Scope string_scope.

(** * the rewrite configuration *)

Definition cfg_scheme (r : rule) : string :=
  match b_rw (r_backend r) with Some rw => rw_scheme rw | None => "" end.
Definition cfg_strip (r : rule) : string :=
  match b_rw (r_backend r) with Some rw => rw_cut rw | None => "" end.
Definition cfg_add (r : rule) : string :=
  match b_rw (r_backend r) with Some rw => rw_add rw | None => "" end.
Definition cfg_strip_query (r : rule) : list string :=
  match b_rw (r_backend r) with Some rw => rw_strip_q rw | None => [] end.

(** * scheme and host *)

Definition expected_scheme (r : rule) (u : hurl) : string :=
  if is_empty (cfg_scheme r) then u_scheme u else cfg_scheme r.

(** the server at forward_to.host can be talked to with that scheme *)
Definition scheme_usable (r : rule) (u : hurl) : bool :=
  let s := expected_scheme r u in
  if r_up_tls r then String.eqb s "https" else String.eqb s "http".

(** * the path *)

(** `allow_encoded_slashes: on` — "accept requests with encoded slashes decoding them to /" *)
Fixpoint decode_slashes (s : string) : string :=
  match s with
  | EmptyString => EmptyString
  | String a r1 =>
    match r1 with
    | String b (String c r3) =>
      if Ascii.eqb a "%" && Ascii.eqb b "2" && (Ascii.eqb c "F" || Ascii.eqb c "f")
      then String "/" (decode_slashes r3)
      else String a (decode_slashes r1)
    | _ => String a (decode_slashes r1)
    end
  end.

Definition original_path (r : rule) (u : hurl) : string :=
  match r_setting r with On => decode_slashes (u_rawpath u) | _ => u_rawpath u end.

Definition strip_prefix (p s : string) : string :=
  match cut_prefix p s with Some rest => rest | None => s end.

(** strip prefix, then add prefix; byte for byte otherwise *)
Definition expected_path (r : rule) (u : hurl) : string :=
  cfg_add r ++ strip_prefix (cfg_strip r) (original_path r u).

(** * the query *)

(** (key-by-key form, used by the units evaluator and by C15_query_only_removed;
    [spec_ok] uses the strict [query_clause] below)
    [q'] is [q] with the parameters [names] removed: byte for byte if there is
    nothing to remove from; otherwise key by key — every removed key is gone,
    every other key has the same values in the same order (the encoding of a
    pair and the order of different keys are not part of the property) *)
Definition query_removed (names : list string) (q q' : string) : bool :=
  if is_nil names || is_empty q then String.eqb q' q
  else
    let m := fst (parse_query q) in
    let m' := fst (parse_query q') in
    forallb (fun k => list_eqb String.eqb (values_get k m')
                                (if mem_str k names then [] else values_get k m))
            (map fst m ++ map fst m' ++ names)%list.

(** ... and the strict reading of "changed only by the removed query parameters":
    the settings that name a parameter to remove are gone, every other setting is
    there byte for byte, in the original order *)
Definition setting_named (names : list string) (s : string) : bool :=
  match query_unescape (fst (cut_on "=" s)) with
  | Some n => mem_str n names
  | None => false
  end.

Definition kept_settings (names : list string) (q : string) : string :=
  join_with "&" (filter (fun s => negb (setting_named names s)) (split_on "&" q)).

Definition query_clause (names : list string) (q q' : string) : bool :=
  String.eqb q' (if is_nil names || is_empty q then q else kept_settings names q).

(** * headers, name by name *)

(** the value the pipeline produced for the canonical name [k]: its first
    AddHeaderForUpstream call with a name spelling [k] in any casing *)
Fixpoint pipeline_value (hs : list (string * string)) (k : string) : option string :=
  match hs with
  | [] => None
  | (n, v) :: r => if String.eqb (canon_key n) k then Some v else pipeline_value r k
  end.

(** all values the pipeline produced for [k], in order ([all] = false: only the
    first, the behaviour before C13-F3 was repaired) *)
Definition pipeline_values (all : bool) (hs : list (string * string)) (k : string) : list string :=
  if all then line_values k hs else match pipeline_value hs k with Some v => [v] | None => [] end.

(** the forwarding information a (trusted) peer sent under [k]: all field lines
    as one list ([all_lines] = false: the first line only, the behaviour C15-F7) *)
Definition chain (all_lines : bool) (k : string) (hin : header) : string :=
  if all_lines then h_joined k hin else h_get k hin.

Definition forwarding_active (all_lines : bool) (hin : header) : bool :=
  negb (is_empty (chain all_lines "X-Forwarded-For" hin)) || negb (is_empty (h_get "X-Forwarded-Proto" hin)) ||
  negb (is_empty (h_get "X-Forwarded-Host" hin)).

Definition append_peer (old peer : string) : string :=
  if is_empty old then peer else old ++ ", " ++ peer.

Definition conn_proto (q : request) : string := if q_tls q then "https" else "http".

(** what this implementation writes into the forwarding header [k], if this
    request's forwarding information travels in [k] *)
Definition forwarding_value (all_lines : bool) (q : request) (k : string) : option string :=
  let hin := in_headers q in
  if forwarding_active all_lines hin then
    if String.eqb k "X-Forwarded-For" then Some (append_peer (chain all_lines k hin) (q_peer q))
    else if String.eqb k "X-Forwarded-Proto" then Some (if is_empty (h_get k hin) then conn_proto q else h_get k hin)
    else if String.eqb k "X-Forwarded-Host" then Some (if is_empty (h_get k hin) then q_host q else h_get k hin)
    else None
  else
    if String.eqb k "Forwarded"
    then Some (append_peer (chain all_lines k hin) ("for=" ++ q_peer q ++ ";host=" ++ q_host q ++ ";proto=" ++ conn_proto q))
    else None.

Definition is_forwarding_name (k : string) : bool :=
  mem_str k ["Forwarded"; "X-Forwarded-For"; "X-Forwarded-Host"; "X-Forwarded-Proto"].

Definition never_passed (k : string) : bool :=
  mem_str k ["X-Forwarded-Method"; "X-Forwarded-Uri"; "X-Forwarded-Path"].

(** hop-by-hop fields (RFC 7230 §6.1): the fixed list and whatever the Connection field names *)
Definition hop_by_hop (hin : header) (k : string) : bool :=
  mem_str k hop_headers || existsb (fun t => String.eqb (canon_key t) k) (connection_tokens hin).

Definition cookie_text (c : string * string) : string := fst c ++ "=" ++ snd c.

Fixpoint join_cookies (base : string) (cs : list (string * string)) : string :=
  match cs with
  | [] => base
  | c :: r => join_cookies (if is_empty base then cookie_text c else base ++ "; " ++ cookie_text c) r
  end.

(** what the client's header [k] looks like when it is passed on *)
Definition passed_on (hin : header) (k : string) : list string :=
  if never_passed k || is_forwarding_name k || hop_by_hop hin k then [] else h_values k hin.

(** the values of field [k] this implementation hands to its HTTP client ([k]
    canonical, not Host): forwarding information extended by the peer; the
    pipeline's values; otherwise the client's own field unless it is one that is
    never passed.  Cookies of the pipeline are appended to the Cookie field.
    Arguments: [all] every pipeline value (C13-F3 repaired), [pipeline_first]
    the pipeline wins on a forwarding header (C15-F4 repaired), [al] all field
    lines of a forwarding header count (C15-F7 repaired). *)
Definition handed_over (all pipeline_first al : bool) (q : request) (pl : pipeline) (k : string) : list string :=
  let hin := in_headers q in
  let pvs := pipeline_values all (p_headers pl) k in
  let base := if is_nil pvs then passed_on hin k else pvs in
  let base :=
    match forwarding_value al q k with
    | Some v => if pipeline_first && negb (is_nil pvs) then pvs else [v]
    | None => base
    end in
  if String.eqb k "Cookie" && negb (is_nil (p_cookies pl))
  then [join_cookies (first_or_empty base) (sort_cookies (p_cookies pl))]
  else base.

(** ... and what the upstream then sees, given two habits of Go's http.Transport
    (observed, not part of the property): only the first User-Agent value is
    written (none if it is empty), and a line `Accept-Encoding: gzip` is added to a
    non-HEAD request that has neither a non-empty Accept-Encoding nor Range. *)
Definition expected_values (all pipeline_first al : bool) (q : request) (pl : pipeline) (method : string) (k : string) : list string :=
  let ho := handed_over all pipeline_first al q pl in
  if String.eqb k "User-Agent" then
    (if is_empty (first_or_empty (ho k)) then [] else [first_or_empty (ho k)])
  else if String.eqb k "Accept-Encoding" then
    (if is_empty (first_or_empty (ho "Accept-Encoding")) && is_empty (first_or_empty (ho "Range")) &&
        negb (String.eqb method "HEAD")
     then (ho k ++ ["gzip"])%list else ho k)
  else ho k.

(** * the header sentences of the statement, as a predicate on what was observed *)

(** names of the W3C trace context / baggage propagation: with tracing enabled
    heimdall's HTTP client rewrites them on every request *)
Definition propagation_names : list string := ["Traceparent"; "Tracestate"; "Baggage"].

Definition leq (a b : list string) : bool := list_eqb String.eqb a b.

(** Accept-Encoding / User-Agent: the statement fixes the values that were sent;
    the HTTP client may append `gzip`, writes one User-Agent line at most and none for an empty value *)
Definition ae_ok (expected obs : list string) : bool := leq obs expected || leq obs (expected ++ ["gzip"])%list.
Definition ua_ok (expected obs : list string) : bool :=
  leq obs expected || leq obs (firstn 1 expected) || (is_empty (first_or_empty expected) && is_nil obs).

(** the pipeline's cookies are in the one Cookie field *)
Definition cookies_ok (pl : pipeline) (obs : list string) : bool :=
  match obs with
  | [v] => forallb (fun c => contains (cookie_text c) v) (p_cookies pl)
  | _ => false
  end.

(** an element of a Forwarded field that names the peer (RFC 7239: for=addr, for="addr", for="[v6]") *)
Definition names_peer (peer e : string) : bool :=
  contains ("for=" ++ peer) e || contains ("for=""" ++ peer ++ """") e || contains ("for=""[" ++ peer ++ "]""") e.

(** [v] is [old] extended by one more element (old may be empty) which satisfies [ok] *)
Definition extended_by (ok : string -> bool) (old v : string) : bool :=
  if is_empty old then ok v
  else match cut_prefix (old ++ ", ") v with Some e => ok e | None => false end.

(** the sentence about one field name [k] (canonical, not Host), given the values [vs] the upstream saw for it *)
Definition hdr_clause_h (hin : header) (peer : string) (pl : pipeline) (tracing : bool) (k : string) (vs : list string) : bool :=
  let pvs := line_values k (p_headers pl) in
  let with_cookies := String.eqb k "Cookie" && negb (is_nil (p_cookies pl)) in
  if negb (is_nil pvs) then
    (* "every header produced by the pipeline replaces any same-named header sent by the client" *)
    if with_cookies then cookies_ok pl vs
    else if String.eqb k "Accept-Encoding" then ae_ok pvs vs
    else if String.eqb k "User-Agent" then ua_ok pvs vs
    else leq vs pvs
  else if never_passed k then
    (* "a client cannot pass X-Forwarded-Method/-Uri/-Path through" *)
    is_nil vs
  else if String.eqb k "X-Forwarded-For" then
    (* "X-Forwarded-For or Forwarded is extended by the peer address" *)
    if forwarding_active true hin
    then match vs with [v] => extended_by (String.eqb peer) (h_joined k hin) v | _ => false end
    else true
  else if String.eqb k "Forwarded" then
    if forwarding_active true hin then true
    else match vs with [v] => extended_by (names_peer peer) (h_joined k hin) v | _ => false end
  else if is_forwarding_name k || hop_by_hop hin k then true
  else if tracing && mem_str k propagation_names then true
  else if with_cookies then cookies_ok pl vs
  else if negb (h_has k hin) then true
    (* a field of the client that nothing above touches arrives as it was sent *)
  else if String.eqb k "Accept-Encoding" then ae_ok (h_values k hin) vs
  else if String.eqb k "User-Agent" then ua_ok (h_values k hin) vs
  else leq vs (h_values k hin).

Definition hdr_clause (q : request) (pl : pipeline) (tracing : bool) (k : string) (vs : list string) : bool :=
  hdr_clause_h (in_headers q) (q_peer q) pl tracing k vs.

(** the names the statement talks about for this request *)
Definition statement_names_h (hin : header) (pl : pipeline) : list string :=
  (map fst hin ++ map (fun l => canon_key (fst l)) (p_headers pl) ++
   ["Forwarded"; "X-Forwarded-For"; "X-Forwarded-Method"; "X-Forwarded-Uri"; "X-Forwarded-Path"; "Cookie"])%list.
Definition statement_names (q : request) (pl : pipeline) : list string := statement_names_h (in_headers q) pl.

(** ([in_headers q] is computed once) *)
Definition headers_ok (q : request) (pl : pipeline) (tracing : bool) (obs : header) : bool :=
  let hin := in_headers q in
  forallb (fun k => String.eqb k "Host" || hdr_clause_h hin (q_peer q) pl tracing k (h_values k obs))
          (statement_names_h hin pl).

Definition expected_host (pl : pipeline) (r : rule) : string :=
  match pipeline_value (p_headers pl) "Host" with
  | Some v => if is_empty v then b_host (r_backend r) else v
  | None => b_host (r_backend r)
  end.

(** the oracle for X-Forwarded-Uri: what extractURL reads from the header — for a
    value url.Parse accepts, URL.EscapedPath (a valid, well-formed encoded path)
    and URL.RawQuery (the query as sent, since f446e16); for a value url.Parse
    rejects, the text before and after the first '?' (since d3f6cd7; C15-F9) *)
Definition oracle_ok (q : request) : bool :=
  match q_xfu q with Some (p, _) => valid_encoded p && wellformed p | None => true end.

(** * the whole statement *)

(** the part of "accepted" that is C08's: under `off` an encoded slash (either
    spelling) is refused; requests with only the lower-case spelling are left to C08 *)
Definition may_be_refused (r : rule) (u : hurl) : bool :=
  match r_setting r with Off => has_enc_slash true (u_rawpath u) | _ => false end.
Definition must_be_refused (r : rule) (u : hurl) : bool :=
  match r_setting r with Off => has_enc_slash false (u_rawpath u) | _ => false end.

Definition spec_ok (q : request) (pl : pipeline) (r : rule) (o : outcome) : bool :=
  match view_url q with
  | None => match o with NotForwarded _ => true | _ => false end
  | Some u =>
    match o with
    | NotForwarded _ => may_be_refused r u || negb (scheme_usable r u) || q_fault q
    | Forwarded tls method uri host hs body =>
      let '(opath, oquery) := cut_on "?" uri in
      (* "leaving ... body untouched": a body that did not arrive intact is never passed on as a complete request *)
      negb (q_fault q) &&
      negb (must_be_refused r u) && scheme_usable r u &&
      Bool.eqb tls (String.eqb (expected_scheme r u) "https") &&
      String.eqb opath (let p := expected_path r u in if is_empty p then "/" else p) &&
      query_clause (cfg_strip_query r) (u_query u) oquery &&
      String.eqb method (q_method q) &&
      String.eqb body (q_body q) &&
      String.eqb host (expected_host pl r) &&
      headers_ok q pl (r_tracing r) hs
    end
  end.

(** * guards: the inputs on which a recorded finding shows *)

(** C15-F1: the query does not parse and a parameter that is to be removed is in it *)
Definition guard_F1_v (v : option hurl) (r : rule) : bool :=
  match v with
  | None => false
  | Some u =>
    let names := cfg_strip_query r in
    negb (is_nil names) && negb (is_empty (u_query u)) && snd (parse_query (u_query u)) &&
    existsb (fun k => negb (is_nil (values_get k (fst (parse_query (u_query u)))))) names
  end.

Definition guard_F1 (q : request) (r : rule) : bool := guard_F1_v (view_url q) r.

(** C15-F2: a trusted peer's X-Forwarded-Method differs from the method of the request *)
Definition guard_F2 (q : request) : bool := negb (String.eqb (view_method q) (q_method q)).

(** a string that net/url's EscapedPath would spell differently once RawPath is
    gone, other than by decoding %2F: an escape that is not the upper-case escape
    of a byte that needs escaping, or a literal byte that needs escaping *)
Fixpoint renorm_sensitive (s : string) : bool :=
  match s with
  | EmptyString => false
  | String a r1 =>
    if Ascii.eqb a "%" then
      match r1 with
      | String b (String c r3) =>
        let v := hexbyte b c in
        negb (Ascii.eqb v "/" ||
              (should_escape MPath v && Ascii.eqb b (hexdig (nb v / 16)) && Ascii.eqb c (hexdig (nb v mod 16))))
        || renorm_sensitive r3
      | _ => true
      end
    else should_escape MPath a || renorm_sensitive r1
  end.

(** C15-F3: `allow_encoded_slashes: on` and the path (or the prefix to add) has
    such a spot, or the whole decoded path is "*" (which net/url never escapes) *)
Definition guard_F3_v (v : option hurl) (r : rule) : bool :=
  match v, r_setting r with
  | Some u, On => renorm_sensitive (u_rawpath u) || renorm_sensitive (cfg_add r) || String.eqb (u_path u) "*"
  | _, _ => false
  end.

Definition guard_F3 (q : request) (r : rule) : bool := guard_F3_v (view_url q) r.

(** C15-F4: the pipeline produced a forwarding header that the forwarded-header block then overwrites *)
Definition guard_F4 (q : request) (pl : pipeline) : bool :=
  existsb (fun k => match pipeline_value (p_headers pl) k, forwarding_value true q k with
                    | Some _, Some _ => true
                    | _, _ => false
                    end)
          ["Forwarded"; "X-Forwarded-For"; "X-Forwarded-Host"; "X-Forwarded-Proto"].

(** C15-F5: add_path_prefix is not a valid encoded path (a byte that needs
    escaping, or a broken escape) *)
Definition guard_F5 (r : rule) : bool :=
  let a := cfg_add r in negb (valid_encoded a && wellformed a).

(** C15-F6: parameters are to be removed, the query parses, and Values.Encode
    spells what is left differently (order of the keys, escapes, `a` vs `a=`, empty settings) *)
Definition guard_F6_v (v : option hurl) (r : rule) : bool :=
  match v with
  | None => false
  | Some u =>
    let names := cfg_strip_query r in
    let qs := u_query u in
    negb (is_nil names) && negb (is_empty qs) && negb (snd (parse_query qs)) &&
    negb (String.eqb (values_encode (del_all names (fst (parse_query qs)))) (kept_settings names qs))
  end.

Definition guard_F6 (q : request) (r : rule) : bool := guard_F6_v (view_url q) r.

(** C15-F7: the forwarding header this request's information travels in came in more than one field line *)
Definition guard_F7 (q : request) : bool :=
  let hin := in_headers q in
  if forwarding_active true hin then (2 <=? length (h_values "X-Forwarded-For" hin))%nat
  else (2 <=? length (h_values "Forwarded" hin))%nat.

(** C15-F8: tracing is on and the pipeline produced a trace propagation header *)
Definition guard_F8 (pl : pipeline) (r : rule) : bool :=
  r_tracing r && existsb (fun k => negb (is_nil (line_values k (p_headers pl)))) propagation_names.

(** C15-F9: the view's path comes from a trusted X-Forwarded-Uri that is not a
    valid well-formed encoded path (url.Parse rejected it and it is used as received) *)
Definition guard_F9 (q : request) : bool :=
  negb (is_empty (h_get "X-Forwarded-Uri" (in_headers q))) && negb (oracle_ok q).
