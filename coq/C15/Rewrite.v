(** C15/Rewrite — model of internal/rules/config/backend.go (Backend.CreateURL)
    and url_rewriter.go (URLRewriter.Rewrite, PrefixCutter, PrefixAdder,
    QueryParamsRemover) on top of Base/GoUrl.  Used by C08 and C15.
    Definitions only. *)
From HV Require Import Base.Prelude Base.GoUrl.

(** the fields of net/url.URL heimdall uses *)
Record hurl := {
  u_scheme : string; u_host : string; u_path : string; u_rawpath : string; u_query : string }.

Record rewriter := {
  rw_scheme : string; rw_cut : string; rw_add : string; rw_strip_q : list string }.

Record backend := { b_host : string; b_rw : option rewriter }.

(** PrefixCutter.CutFrom *)
Definition cut_from (c s : string) : string :=
  if is_empty c then s
  else match cut_prefix c s with Some r => r | None => s end.

(** PrefixAdder.AddTo *)
Definition add_to (a s : string) : string :=
  if is_empty a then s else (a ++ s)%string.

Definition del_all (names : list string) (m : values) : values :=
  fold_left (fun m n => values_del n m) names m.

(** the repair of C15-F1 (41fd1db), used for every query since 5270ed2 (C15-F6): if the query does not
    parse as a whole, the parameters are removed pair by pair and everything else
    is kept byte for byte *)
Definition keep_pair (names : list string) (pair : string) : bool :=
  match query_unescape (fst (cut_on "=" pair)) with
  | Some n => negb (existsb (String.eqb n) names)
  | None => true
  end.

Definition remove_from_raw (names : list string) (q : string) : string :=
  join_with "&" (filter (keep_pair names) (split_on "&" q)).

(** which repairs of RemoveFrom the modelled tree contains: C15-F1 (41fd1db: an
    unparsable query is handled setting by setting) and C15-F6 (5270ed2:
    every query is, nothing is re-encoded or re-ordered) *)
Record qfix := { qf1 : bool; qf6 : bool }.

(** QueryParamsRemover.RemoveFrom *)
Definition remove_from_q (m : qfix) (names : list string) (q : string) : string :=
  if is_empty q || is_nil names then q
  else if qf6 m then remove_from_raw names q
  else let '(vals, err) := parse_query q in
       if err then (if qf1 m then remove_from_raw names q else q)
       else values_encode (del_all names vals).

Definition transform_path (rw : rewriter) (p : string) : string :=
  add_to (rw_add rw) (cut_from (rw_cut rw) p).

(** URLRewriter.Rewrite *)
Definition rewrite_q (m : qfix) (rw : rewriter) (u : hurl) : hurl :=
  let raw' := transform_path rw (escaped_path (u_path u) (u_rawpath u)) in
  let rp1 := if is_empty (u_rawpath u) then u_rawpath u else raw' in
  let path' := unescape_or_empty raw' in
  {| u_scheme := if is_empty (rw_scheme rw) then u_scheme u else rw_scheme rw;
     u_host := u_host u;
     u_path := path';
     u_rawpath := if String.eqb path' raw' then rp1 else raw';
     u_query := remove_from_q m (rw_strip_q rw) (u_query u) |}.


(** Backend.CreateURL *)
Definition create_url_q (m : qfix) (b : backend) (u : hurl) : hurl :=
  let up := {| u_scheme := u_scheme u; u_host := b_host b; u_path := u_path u;
               u_rawpath := u_rawpath u; u_query := u_query u |} in
  match b_rw b with
  | Some rw => rewrite_q m rw up
  | None => up
  end.


(** what the HTTP client writes into the request line for this URL *)
Definition wire_path (u : hurl) : string := escaped_path (u_path u) (u_rawpath u).
Definition wire_uri (u : hurl) : string := request_uri (u_path u) (u_rawpath u) (u_query u).

Definition hurl_eqb (a b : hurl) : bool :=
  String.eqb (u_scheme a) (u_scheme b) && String.eqb (u_host a) (u_host b) &&
  String.eqb (u_path a) (u_path b) && String.eqb (u_rawpath a) (u_rawpath b) &&
  String.eqb (u_query a) (u_query b).
