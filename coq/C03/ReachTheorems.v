(** C03/ReachTheorems.v — the C03 statements after ANY history of AddRuleSet / UpdateRuleSet /
    DeleteRuleSet: C03/ReachHist.v ([hrun_reach]: the index is a reachable tree) composed with
    C03/ReachSpec.v (the lookup theorems on reachable trees), and the non-vacuity example. *)
From HV Require Import Base.Prelude C03.Model C03.Spec C03.Proofs C03.ProofsTree C03.ProofsAdd C03.ProofsSpec
  C03.ReachConv C03.ReachSpec C03.ReachHist.
Open Scope string_scope.
Open Scope list_scope.

(** the tree C03's lookup runs on after the history [ops]; [cs] = the created rules of every rule
    definition that occurs in the history, [metas] = rule set / id / hash class per rule *)
Definition hist_index (cs : list crule) (metas : list rmeta) (ops : list hop) : tree :=
  conv (h_tree (fst (hrun (entries_of 0 cs) metas ops))).

Section History.
Variable ds : list ruledef.
Variable cs : list crule.
Variable metas : list rmeta.
Variable ops : list hop.

Let es := entries_of 0 cs.
Let T := h_tree (fst (hrun es metas ops)).

Theorem hist_matcher_sees_route_keys fx1 fx4 fx6 fx7 eng q :
  create_rules fx4 ds = Ok cs ->
  forall k, In k (snd (serve fx1 true true fx6 fx7 eng es (hist_index cs metas ops) q)) ->
  exists s, nth_error (flat_routes 0 ds) (k_vid k) = Some s /\
    sr_segs s q = Some (k_vals k) /\ k_keys k = declared_names (sr_tokens s).
Proof.
  intro Hc. exact (reach_matcher_sees_route_keys (same_src es metas) fx4 ds cs T Hc (hrun_reach es metas ops) fx1 fx6 fx7 eng q).
Qed.

Theorem hist_lookup_no_panic fx1 fx4 fx6 fx7 eng q :
  create_rules fx4 ds = Ok cs -> fst (serve fx1 true true fx6 fx7 eng es (hist_index cs metas ops) q) <> OPanic.
Proof.
  intro Hc. exact (reach_lookup_no_panic (same_src es metas) fx4 ds cs T Hc (hrun_reach es metas ops) fx1 fx6 fx7 eng q).
Qed.

Theorem hist_lookup_answers_spec_now eng q :
  create_rules true ds = Ok cs ->
  String.eqb (q_rawpath q) "" = false -> valid_enc (q_rawpath q) ->
  forall k, In k (snd (serve true true true true D8 eng es (hist_index cs metas ops) q)) ->
  forall s segs, nth_error (flat_routes 0 ds) (k_vid k) = Some s -> sr_segs s q = Some segs ->
    k_res k = spec_answer eng s q segs.
Proof.
  intro Hc. exact (reach_lookup_answers_spec_now (same_src es metas) ds cs T Hc (hrun_reach es metas ops) eng q).
Qed.

Theorem hist_selected_only_if_documented eng q r caps rej calls :
  create_rules true ds = Ok cs ->
  String.eqb (q_rawpath q) "" = false -> valid_enc (q_rawpath q) ->
  serve true true true true D8 eng es (hist_index cs metas ops) q = (ORule r caps rej, calls) ->
  exists v s segs, nth_error (flat_routes 0 ds) v = Some s /\ sr_rule s = r /\ sr_segs s q = Some segs /\
    spec_route_ok eng (sr_def s) (rt_params (sr_route s)) q (declared_names (sr_tokens s)) segs = true /\
    rej = spec_rejected (rl_slash (sr_def s)) q /\
    (rej = false -> exists sc, spec_captures (rl_slash (sr_def s)) (declared_names (sr_tokens s)) segs = Some sc /\ caps = sc).
Proof.
  intro Hc. exact (reach_selected_only_if_documented (same_src es metas) ds cs T Hc (hrun_reach es metas ops) eng q r caps rej calls).
Qed.

End History.

(* ------------------------------------------------------------------ non-vacuity *)

(** the edge labels of all nodes of a tree *)
Fixpoint node_paths (T : RT.tree nat) : list string :=
  l2s (RT.t_path T)
  :: (fix go (l : list (ascii * RT.tree nat)) : list string :=
        match l with [] => [] | (_, x) :: r => node_paths x ++ go r end) (RT.t_statics T)
  ++ match RT.t_wild T with Some w => node_paths w | None => [] end
  ++ match RT.t_catch T with Some c => node_paths c | None => [] end.

(** rule 0 (rule set 0): /foo/bar.  Rule 1 (rule set 1): /foo/baz/:x with the path_params
    condition x = "1" and /files/*rest with rest = "a/b".  Adding rule 1 splits the edge "bar" into
    "ba" + "r" / "z" (and "foo" / "files" share the node "f"); deleting rule set 0 removes the leaf "r", and deleteChild merges "ba" with
    its only child into "baz". *)
Definition ex_ds : list ruledef :=
  [ w_rule [] [] [w_route "/foo/bar" []] SOff;
    w_rule ["GET"] [] [w_route "/foo/baz/:x" [{| pp_name := "x"; pp_tm := w_exact "1" |}];
                       w_route "/files/*rest" [{| pp_name := "rest"; pp_tm := w_exact "a/b" |}]] SOff ].
Definition ex_metas : list rmeta :=
  [ {| rm_src := 0; rm_id := 0; rm_hash := 0 |}; {| rm_src := 1; rm_id := 1; rm_hash := 1 |} ].
Definition ex_ops : list hop := [HAdd [0]; HAdd [1]; HDel 0].

Definition ex_serve (ops : list hop) (q : request) : option (outcome * list call) :=
  match create_rules true ex_ds with
  | Ok cs => Some (serve true true true true D8 eng_none (entries_of 0 cs) (hist_index cs ex_metas ops) q)
  | Rejected => None
  end.

Definition ex_paths (ops : list hop) : option (list string) :=
  match create_rules true ex_ds with
  | Ok cs => Some (node_paths (h_tree (fst (hrun (entries_of 0 cs) ex_metas ops))))
  | Rejected => None
  end.

Definition ex_oks (ops : list hop) : option (list bool) :=
  match create_rules true ex_ds with
  | Ok cs => Some (snd (hrun (entries_of 0 cs) ex_metas ops))
  | Rejected => None
  end.

Example hist_example :
  (* every operation is accepted *)
  ex_oks ex_ops = Some [true; true; true] /\
  (* after the two AddRuleSets: the split node "ba" with the children "r" and "z" *)
  ex_paths (firstn 2 ex_ops) = Some [""; "/"; "f"; "oo"; "/"; "ba"; "r"; "z"; "/"; "wildcard"; "iles"; "/"; "rest"] /\
  (* after DeleteRuleSet 0: "r" is gone and "ba" + "z" are merged *)
  ex_paths ex_ops = Some [""; "/"; "f"; "oo"; "/"; "baz"; "/"; "wildcard"; "iles"; "/"; "rest"] /\
  (* the route with path_params on the single wildcard: asked with its own name and the segment *)
  ex_serve ex_ops (w_req "GET" "h" "/foo/baz/1")
    = Some (ORule 1 [("x", "1")] false, [{| k_vid := 1; k_keys := ["x"]; k_vals := ["1"]; k_res := MYes |}]) /\
  ex_serve ex_ops (w_req "GET" "h" "/foo/baz/2")
    = Some (ONone, [{| k_vid := 1; k_keys := ["x"]; k_vals := ["2"]; k_res := MNo |}]) /\
  (* ... and on the free wildcard *)
  ex_serve ex_ops (w_req "GET" "h" "/files/a/b")
    = Some (ORule 1 [("rest", "a/b")] false, [{| k_vid := 2; k_keys := ["rest"]; k_vals := ["a/b"]; k_res := MYes |}]) /\
  (* the deleted route is gone, before the delete it was served *)
  ex_serve ex_ops (w_req "GET" "h" "/foo/bar") = Some (ONone, []) /\
  ex_serve (firstn 2 ex_ops) (w_req "GET" "h" "/foo/bar")
    = Some (ORule 0 [] false, [{| k_vid := 0; k_keys := []; k_vals := []; k_res := MYes |}]).
Proof. vm_compute. repeat split. Qed.

(** the requests of the example satisfy the hypotheses of the [_now] theorems
    ([hist_selected_only_if_documented]): a non-empty, validly encoded RawPath *)
Lemma hist_example_hyps :
  String.eqb (q_rawpath (w_req "GET" "h" "/foo/baz/1")) "" = false /\
  valid_enc (q_rawpath (w_req "GET" "h" "/foo/baz/1")).
Proof. split; [reflexivity | apply valid_encb_spec; reflexivity]. Qed.

(** non-vacuity of the Add-only lookup theorems for the code as it is (all repairs, D8): the same
    rule set loaded by ONE AddRuleSet through C03's own transcription of Add, and a request that
    selects a rule through a path_params condition on a wildcard *)
Lemma lookup_nonvacuous :
  exists es t,
    load true true ex_ds = Loaded es t /\
    String.eqb (q_rawpath (w_req "GET" "h" "/foo/baz/1")) "" = false /\
    valid_enc (q_rawpath (w_req "GET" "h" "/foo/baz/1")) /\
    serve true true true true D8 eng_none es t (w_req "GET" "h" "/foo/baz/1")
      = (ORule 1 [("x", "1")] false, [{| k_vid := 1; k_keys := ["x"]; k_vals := ["1"]; k_res := MYes |}]) /\
    serve true true true true D8 eng_none es t (w_req "GET" "h" "/files/a/b")
      = (ORule 1 [("rest", "a/b")] false, [{| k_vid := 2; k_keys := ["rest"]; k_vals := ["a/b"]; k_res := MYes |}]).
Proof.
  destruct (load true true ex_ds) as [| | |es t] eqn:E; try (vm_compute in E; discriminate).
  exists es, t. split; [reflexivity|]. destruct hist_example_hyps as [H1 H2]. split; [exact H1|]. split; [exact H2|].
  vm_compute in E. inversion E; subst. split; vm_compute; reflexivity.
Qed.

(** a methods list is rejected by the code as it is exactly when it contains an empty string or is
    non-empty and - by the SPECIFICATION [spec_method] - allows no method at all *)
Lemma method_list_rejected_spec ms :
  create_method_matcher true ms = Rejected <-> In "" ms \/ (ms <> [] /\ forall m, spec_method ms m = false).
Proof.
  destruct (method_list_rejected ms) as [Hf Ht]. rewrite Ht. clear Ht.
  assert (Hg : In "" ms \/ (guard_F4 false ms = true <-> ms <> [] /\ forall m, spec_method ms m = false)).
  { destruct (in_dec string_dec "" ms) as [Hin|Hnin]; [left; exact Hin | right].
    unfold guard_F4. cbn [negb andb].
    destruct (create_method_matcher false ms) as [l|] eqn:Ec; [|exfalso; apply Hnin; apply Hf; reflexivity].
    pose proof (created_methods false ms l Ec) as Hm.
    destruct ms as [|m0 mr]; [cbn [is_nil negb andb]; split; [discriminate | intros [H _]; congruence]|].
    cbn [is_nil negb andb]. split.
    - intro H. destruct l; [|discriminate]. split; [discriminate|].
      intro m. rewrite spec_method_unfold. cbn [is_nil orb]. rewrite <- Hm. reflexivity.
    - intros [_ H]. destruct l as [|x l']; [reflexivity|]. exfalso.
      specialize (H x). rewrite spec_method_unfold in H. cbn [is_nil orb] in H. rewrite <- Hm in H.
      unfold mem in H. cbn [existsb] in H. rewrite String.eqb_refl in H. discriminate. }
  destruct Hg as [Hin|Hiff]; [tauto|]. rewrite Hiff. reflexivity.
Qed.
