(** C03 — model of the match conditions of a route and of the captured path
    values, faithful to the Go code, parametric in the repair of each finding (all flags true / D8 =
    the code as it is now; a flag false / D0, D7 = the tree before the fix: commit named at the flag):

    - internal/rules/route_matcher.go   createMethodMatcher, schemeMatcher, methodMatcher,
                                         hostMatcher, pathParamMatcher, compositeMatcher,
                                         createHostMatcher, createPathParamsMatcher
    - internal/rules/typed_matcher.go   exact (modelled), glob / regex (oracle [eng], compile flag is data)
    - internal/rules/rule_factory_impl.go  CreateRule: matcher assembly, default slash setting
    - internal/x/radixtree/tree.go      addNode, splitCommonPrefix, Add, findNode, Find  (no priorities; Delete:
                                         C06/TreeDel.v on the shared tree, read by C03/ReachConv.v [conv])
    - internal/rules/repository_impl.go FindRule (lookup path choice, Captures := the entry's name/value map), addRulesTo
    - internal/rules/rule_impl.go       Execute (encoded-slash switch, capture decoding), unescape

    Go panics are explicit ([MPanic], [FPanic]).  Nothing is proved here. *)
From HV Require Import Base.Prelude.
Open Scope string_scope.
Open Scope list_scope.

(* ------------------------------------------------------------------ strings *)

Fixpoint sdrop (n : nat) (s : string) : string :=
  match n, s with
  | O, _ => s
  | S k, String _ r => sdrop k r
  | S _, EmptyString => EmptyString
  end.

Fixpoint stake (n : nat) (s : string) : string :=
  match n, s with
  | S k, String c r => String c (stake k r)
  | _, _ => EmptyString
  end.

Definition slen := String.length.

(** strings.IndexByte *)
Fixpoint index_byte (c : ascii) (s : string) : option nat :=
  match s with
  | EmptyString => None
  | String d r => if Ascii.eqb c d then Some O else option_map S (index_byte c r)
  end.

(** strings.Contains (for a non-empty [sub]; [prefix "" s = true] makes it total) *)
Fixpoint contains (sub s : string) : bool :=
  prefix sub s || match s with EmptyString => false | String _ r => contains sub r end.

(** strings.ReplaceAll for a non-empty [old]: non-overlapping occurrences, left to right.
    [skip] = bytes of an occurrence that still have to be dropped. *)
Fixpoint replace_aux (old new : string) (skip : nat) (s : string) : string :=
  match s with
  | EmptyString => EmptyString
  | String c r =>
    match skip with
    | S k => replace_aux old new k r
    | O => if prefix old s then (new ++ replace_aux old new (slen old - 1) r)%string
           else String c (replace_aux old new O r)
    end
  end.
Definition replace_all (s old new : string) : string := replace_aux old new O s.

Definition mem (x : string) (l : list string) : bool := existsb (String.eqb x) l.

(** slices.Index *)
Fixpoint index_of (x : string) (l : list string) : option nat :=
  match l with
  | [] => None
  | y :: r => if String.eqb x y then Some O else option_map S (index_of x r)
  end.

(* ------------------------------------------------------------------ net/url PathUnescape *)

Definition hexval (c : ascii) : option N :=
  let n := N_of_ascii c in
  if (48 <=? n)%N && (n <=? 57)%N then Some (n - 48)%N
  else if (65 <=? n)%N && (n <=? 70)%N then Some (n - 55)%N
  else if (97 <=? n)%N && (n <=? 102)%N then Some (n - 87)%N
  else None.

(** [url.unescape s encodePathSegment]: [None] is the EscapeError *)
Fixpoint pct_decode (s : string) : option string :=
  match s with
  | EmptyString => Some EmptyString
  | String "%" (String a (String b r)) =>
    match hexval a, hexval b with
    | Some x, Some y => option_map (String (ascii_of_N (16 * x + y))) (pct_decode r)
    | _, _ => None
    end
  | String "%" _ => None
  | String c r => option_map (String c) (pct_decode r)
  end.

(** [v, _ := url.PathUnescape(s)] — the error is dropped, the value is then "" *)
Definition path_unescape (s : string) : string :=
  match pct_decode s with Some d => d | None => EmptyString end.

Definition marker : string := "$$$escaped-slash$$$".

Inductive slash := SOff | SOn | SNoDecode.

Definition slash_eqb (a b : slash) : bool :=
  match a, b with SOff, SOff | SOn, SOn | SNoDecode, SNoDecode => true | _, _ => false end.

(** [encodedSlashProtector.Replace] = strings.NewReplacer("%2F", marker, "%2f", marker): one pass,
    left to right, non-overlapping ([skip] = bytes of an occurrence still to be dropped) *)
Fixpoint protect2_aux (skip : nat) (s : string) : string :=
  match s with
  | EmptyString => EmptyString
  | String c r =>
    match skip with
    | S k => protect2_aux k r
    | O => if prefix "%2F" s || prefix "%2f" s then (marker ++ protect2_aux 2 r)%string
           else String c (protect2_aux O r)
    end
  end.

(** The variants of the slash-preserving decoder.  [D0]: the pinned tree (only "%2F" is
    recognised, place-holder technique).  [D7]: after the repair of C03-F7 / C08-F2 (commit
    a779db8): both spellings of an encoded slash are recognised.  [D8]: additionally the repair of
    C03-F8 (= C08-F5, commit 6d0a3af; the code as it is): no place-holder; the value is cut at the encoded slashes,
    the pieces are decoded and joined with "%2F".  The parameter is called [fx7] throughout. *)
Inductive dec := D0 | D7 | D8.
Definition is7 (d : dec) : bool := match d with D0 => false | _ => true end.
Definition is8 (d : dec) : bool := match d with D8 => true | _ => false end.

Definition protect (b7 : bool) (v : string) : string :=
  if b7 then protect2_aux O v else replace_all v "%2F" marker.

(** [containsEncodedSlash] (pinned: strings.Contains(path, "%2F")) *)
Definition contains_enc_slash (fx7 : dec) (p : string) : bool :=
  contains "%2F" p || (is7 fx7 && contains "%2f" p).

(** the "keep %2F" decoding with the place-holder *)
Definition nd_old (b7 : bool) (v : string) : string :=
  replace_all (path_unescape (protect b7 v)) marker "%2F".

(** strings.Split(s, sep) for a non-empty [sep] ([skip] = bytes of an occurrence still to be dropped) *)
Fixpoint split_on_aux (sep : string) (skip : nat) (s : string) : list string :=
  match s with
  | EmptyString => [EmptyString]
  | String c r =>
    match skip with
    | S k => split_on_aux sep k r
    | O => if prefix sep s then EmptyString :: split_on_aux sep (slen sep - 1) r
           else match split_on_aux sep O r with
                | x :: xs => String c x :: xs
                | [] => [String c EmptyString]      (* never: the result is not empty *)
                end
    end
  end.
Definition split_on (sep s : string) : list string := split_on_aux sep O s.

(** strings.Join *)
Fixpoint join_with (sep : string) (l : list string) : string :=
  match l with
  | [] => EmptyString
  | [x] => x
  | x :: r => (x ++ sep ++ join_with sep r)%string
  end.

Fixpoint decode_parts (l : list string) : option (list string) :=
  match l with
  | [] => Some []
  | x :: r => match pct_decode x, decode_parts r with
              | Some d, Some ds => Some (d :: ds)
              | _, _ => None
              end
  end.

(** [unescapeExceptSlashes] (since commit 6d0a3af) *)
Definition nd_split (v : string) : string :=
  match decode_parts (split_on "%2F" (replace_all v "%2f" "%2F")) with
  | Some ds => join_with "%2F" ds
  | None => EmptyString
  end.

(** the "keep %2F" decoding used by [unescape] and by [pathParamMatcher] *)
Definition nd_unescape (fx7 : dec) (v : string) : string :=
  match fx7 with D8 => nd_split v | _ => nd_old (is7 fx7) v end.

(** rule_impl.go [unescape] *)
Definition unescape (fx7 : dec) (v : string) (h : slash) : string :=
  match h with SOn => path_unescape v | _ => nd_unescape fx7 v end.

(* ------------------------------------------------------------------ createMethodMatcher *)

Inductive res (A : Type) := Ok (a : A) | Rejected.
Arguments Ok {A} a. Arguments Rejected {A}.

Definition nine : list string :=
  ["GET"; "HEAD"; "POST"; "PUT"; "PATCH"; "DELETE"; "CONNECT"; "OPTIONS"; "TRACE"].

Fixpoint insert_sorted (x : string) (l : list string) : list string :=
  match l with
  | [] => [x]
  | y :: r => if String.leb x y then x :: l else y :: insert_sorted x r
  end.

(** slices.SortFunc(methods, strings.Compare): any sorting algorithm yields this
    list, equal strings being indistinguishable *)
Definition sort_strings (l : list string) : list string := fold_right insert_sorted [] l.

(** slices.Compact *)
Fixpoint compact (l : list string) : list string :=
  match l with
  | a :: (b :: _) as r => if String.eqb a b then compact r else a :: compact r
  | _ => l
  end.

Definition has_bang (s : string) : bool := prefix "!" s.
Definition trim_bang (s : string) : string :=
  match s with String "!" r => r | _ => s end.

(** slicex.Subtract *)
Definition subtract (a b : list string) : list string := filter (fun x => negb (mem x b)) a.

Definition expand_all (ms : list string) : list string :=
  if mem "ALL" ms then filter (fun m => negb (String.eqb m "ALL")) ms ++ nine else ms.

(** [fx4]: the repair of C03-F4, commit 22bae5e (a non-empty list that allows no method is
    a configuration error instead of an empty matcher, which allows every method) *)
Definition create_method_matcher (fx4 : bool) (ms : list string) : res (list string) :=
  if is_nil ms then Ok [] else
  let ms2 := compact (sort_strings (expand_all ms)) in
  if mem "" ms2 then Rejected else
  let tbr := filter has_bang ms2 in
  let pos := subtract ms2 tbr in
  let l := subtract pos (map trim_bang tbr) in
  if fx4 && is_nil l then Rejected else Ok l.

(* ------------------------------------------------------------------ typed matchers *)

Inductive mtype := TExact | TGlob | TRegex | TOther.

Definition mtype_eqb (a b : mtype) : bool :=
  match a, b with TExact, TExact | TGlob, TGlob | TRegex, TRegex | TOther, TOther => true | _, _ => false end.

(** a typed matching expression as configured; [tm_compiles] is the observed answer
    of glob.Compile / regexp.Compile for a non-empty pattern (data, not modelled) *)
Record tmdef := { tm_type : mtype; tm_value : string; tm_compiles : bool }.

(** does the expression survive newGlobMatcher / newRegexMatcher / newExactMatcher *)
Definition tm_ok (d : tmdef) : bool :=
  match tm_type d with
  | TExact => true
  | TGlob | TRegex => negb (String.eqb (tm_value d) "") && tm_compiles d
  | TOther => false
  end.

(** The glob / regex engines: [eng for_host type pattern value].  [for_host]
    selects the glob separator ('.' for hosts, '/' for path parameters). *)
Definition engine := bool -> mtype -> string -> string -> bool.

Definition tm_match (eng : engine) (for_host : bool) (d : tmdef) (v : string) : bool :=
  match tm_type d with
  | TExact => String.eqb (tm_value d) v
  | t => eng for_host t (tm_value d) v
  end.

(* ------------------------------------------------------------------ rule definitions, requests *)

Record param := { pp_name : string; pp_tm : tmdef }.
Record route := { rt_path : string; rt_params : list param }.
Record ruledef := {
  rl_scheme : string; rl_methods : list string; rl_hosts : list tmdef;
  rl_routes : list route; rl_slash : slash; rl_bt : bool }.

(** the request view handed to the rules: heimdall.Request.Method and URL.{Scheme,Host,Path,RawPath} *)
Record request := {
  q_method : string; q_scheme : string; q_host : string; q_path : string; q_rawpath : string }.

(** what CreateRule assembles per route: compositeMatcher{sm, mm, hm, ppm} *)
Record cmatcher := {
  cm_scheme : string; cm_methods : list string; cm_hosts : list tmdef;
  cm_params : list param; cm_slash : slash }.

(** created rule: per route its path expression and matcher *)
Record crule := { cr_slash : slash; cr_bt : bool; cr_routes : list (string * cmatcher) }.

Definition create_rule (fx4 : bool) (r : ruledef) : res crule :=
  match create_method_matcher fx4 (rl_methods r) with
  | Rejected => Rejected
  | Ok mm =>
    if negb (forallb tm_ok (rl_hosts r)) then Rejected else
    if negb (forallb (fun rt => forallb (fun p => tm_ok (pp_tm p)) (rt_params rt)) (rl_routes r)) then Rejected else
    Ok {| cr_slash := rl_slash r; cr_bt := rl_bt r;
          cr_routes := map (fun rt => (rt_path rt,
                         {| cm_scheme := rl_scheme r; cm_methods := mm; cm_hosts := rl_hosts r;
                            cm_params := rt_params rt; cm_slash := rl_slash r |})) (rl_routes r) |}
  end.

(* ------------------------------------------------------------------ matching *)

Inductive mres := MYes | MNo | MPanic.

Definition mres_eqb (a b : mres) : bool :=
  match a, b with MYes, MYes | MNo, MNo | MPanic, MPanic => true | _, _ => false end.

Definition of_bool (b : bool) : mres := if b then MYes else MNo.

Definition scheme_match (s : string) (q : request) : bool :=
  String.eqb s "" || String.eqb s (q_scheme q).

Definition method_match (l : list string) (q : request) : bool :=
  is_nil l || mem (q_method q) l.

(** createHostMatcher returns a compositeMatcher: EVERY host expression must match.
    [fx1]: the repair of C03-F1, commit 6793b33 (two or more expressions are wrapped into an
    anyOfMatcher: ONE of them must match) *)
Definition hosts_match (fx1 : bool) (eng : engine) (hs : list tmdef) (q : request) : bool :=
  if fx1 && (2 <=? length hs)%nat then existsb (fun h => tm_match eng true h (q_host q)) hs
  else forallb (fun h => tm_match eng true h (q_host q)) hs.

(** pathParamMatcher.Matches *)
Definition param_match (fx6 : bool) (fx7 : dec) (eng : engine) (sl : slash) (q : request) (keys vals : list string) (p : param) : mres :=
  match index_of (pp_name p) keys with
  | None => MNo
  | Some i =>
    match nth_error vals i with
    | None => MPanic                       (* values[idx]: index out of range *)
    | Some v =>
      if String.eqb (q_rawpath q) "" then of_bool (tm_match eng false (pp_tm p) v) else
      match sl with
      | SOff => if contains_enc_slash fx7 (q_rawpath q) then MNo
                else of_bool (tm_match eng false (pp_tm p) (if fx6 then path_unescape v else v))
      | SOn => of_bool (tm_match eng false (pp_tm p) (path_unescape v))
      | SNoDecode => of_bool (tm_match eng false (pp_tm p) (nd_unescape fx7 v))
      end
    end
  end.

Fixpoint params_match (fx6 : bool) (fx7 : dec) (eng : engine) (sl : slash) (q : request) (keys vals : list string) (ps : list param) : mres :=
  match ps with
  | [] => MYes
  | p :: r => match param_match fx6 fx7 eng sl q keys vals p with
              | MYes => params_match fx6 fx7 eng sl q keys vals r
              | x => x
              end
  end.

(** compositeMatcher{sm, mm, hm, ppm}.Matches — in this order, first failure wins *)
Definition route_matches (fx1 fx6 : bool) (fx7 : dec) (eng : engine) (m : cmatcher) (q : request) (keys vals : list string) : mres :=
  if negb (scheme_match (cm_scheme m) q) then MNo else
  if negb (method_match (cm_methods m) q) then MNo else
  if negb (hosts_match fx1 eng (cm_hosts m) q) then MNo else
  params_match fx6 fx7 eng (cm_slash m) q keys vals (cm_params m).

(* ------------------------------------------------------------------ radix tree: Add *)

(** values are route ids (index into the table of created routes) *)
Inductive tree := Node {
  t_path : string; t_statics : list (ascii * tree); t_wild : option tree; t_catch : option tree;
  t_values : list nat; t_keys : list string; t_bt : bool }.

Definition leaf (p : string) : tree :=
  {| t_path := p; t_statics := []; t_wild := None; t_catch := None; t_values := []; t_keys := []; t_bt := false |}.

Definition set_keys (n : tree) (k : list string) : tree :=
  {| t_path := t_path n; t_statics := t_statics n; t_wild := t_wild n; t_catch := t_catch n;
     t_values := t_values n; t_keys := k; t_bt := t_bt n |}.
Definition set_path (n : tree) (p : string) : tree :=
  {| t_path := p; t_statics := t_statics n; t_wild := t_wild n; t_catch := t_catch n;
     t_values := t_values n; t_keys := t_keys n; t_bt := t_bt n |}.
Definition set_statics (n : tree) (l : list (ascii * tree)) : tree :=
  {| t_path := t_path n; t_statics := l; t_wild := t_wild n; t_catch := t_catch n;
     t_values := t_values n; t_keys := t_keys n; t_bt := t_bt n |}.
Definition set_wild (n : tree) (w : tree) : tree :=
  {| t_path := t_path n; t_statics := t_statics n; t_wild := Some w; t_catch := t_catch n;
     t_values := t_values n; t_keys := t_keys n; t_bt := t_bt n |}.
Definition set_catch (n : tree) (c : tree) : tree :=
  {| t_path := t_path n; t_statics := t_statics n; t_wild := t_wild n; t_catch := Some c;
     t_values := t_values n; t_keys := t_keys n; t_bt := t_bt n |}.
(** "if len(n.values) == 0 { n.backtrackingEnabled = true }" on creating a child *)
Definition child_created (n : tree) : tree :=
  {| t_path := t_path n; t_statics := t_statics n; t_wild := t_wild n; t_catch := t_catch n;
     t_values := t_values n; t_keys := t_keys n;
     t_bt := if is_nil (t_values n) then true else t_bt n |}.
(** Add: options applied to the node, value appended *)
Definition put_value (flag : bool) (v : nat) (n : tree) : tree :=
  {| t_path := t_path n; t_statics := t_statics n; t_wild := t_wild n; t_catch := t_catch n;
     t_values := t_values n ++ [v]; t_keys := t_keys n; t_bt := flag |}.

Fixpoint common_prefix_len (a b : string) : nat :=
  match a, b with
  | String x r, String y s => if Ascii.eqb x y then S (common_prefix_len r s) else O
  | _, _ => O
  end.

Inductive ares := AOk (t : tree) | AInvalid | AFuel.

Fixpoint find_static (c : ascii) (l : list (ascii * tree)) : option tree :=
  match l with
  | [] => None
  | (d, t) :: r => if Ascii.eqb c d then Some t else find_static c r
  end.

Fixpoint replace_static (c : ascii) (t' : tree) (l : list (ascii * tree)) : list (ascii * tree) :=
  match l with
  | [] => []
  | (d, t) :: r => if Ascii.eqb c d then (d, t') :: r else (d, t) :: replace_static c t' r
  end.

(** splitCommonPrefix: the (possibly new intermediate) child to descend into and
    the number of bytes of [tok] it consumes *)
Definition split_common_prefix (child : tree) (tok : string) : tree * nat :=
  if prefix (t_path child) tok then (child, slen (t_path child)) else
  let i := common_prefix_len (t_path child) tok in
  let rest := sdrop i (t_path child) in
  match rest with
  | EmptyString => (child, i)             (* unreachable: then the first branch applies *)
  | String c _ =>
    ({| t_path := stake i tok; t_statics := [(c, set_path child rest)]; t_wild := None; t_catch := None;
        t_values := []; t_keys := []; t_bt := false |}, i)
  end.

Definition is_special (c : ascii) : bool :=
  Ascii.eqb c "*" || Ascii.eqb c ":" || Ascii.eqb c "\".

(** addNode; [fin] is what [Add] does with the node reached (options, append).
    [fx3]: the repair of C03-F3, commit 20f92b3 (a free wildcard whose earlier wildcard
    names differ from the ones recorded at the catch-all child is rejected, as for a leaf). *)
Fixpoint add_node (fx3 : bool) (fuel : nat) (n : tree) (path : string) (wk : list string) (in_static : bool)
         (fin : tree -> tree) : ares :=
  match fuel with
  | O => AFuel
  | S f =>
    match path with
    | EmptyString =>
      if is_nil wk then AOk (fin n) else
      if negb (is_nil (t_keys n)) && negb (list_eqb String.eqb (t_keys n) wk) then AInvalid
      else AOk (fin (set_keys n wk))
    | String token _ =>
      let next_slash := index_byte "/" path in
      let tok_end := if Ascii.eqb token "/" then 1 else
                     match next_slash with Some k => k | None => slen path end in
      let this_token := stake tok_end path in
      let remaining := sdrop tok_end path in
      if negb in_static && Ascii.eqb token "*" then
        let name := sdrop 1 this_token in
        match next_slash with
        | Some _ => AInvalid                         (* '/' after a free wildcard *)
        | None =>
          let '(n1, c) := match t_catch n with
                          | Some c => (n, c)
                          | None => (child_created n, leaf name)
                          end in
          if negb (String.eqb (sdrop 1 path) (t_path c)) then AInvalid else
          if fx3 && negb (is_nil (t_keys c)) && negb (list_eqb String.eqb (t_keys c) (wk ++ [name])) then AInvalid else
          AOk (set_catch n1 (fin (set_keys c (wk ++ [name]))))
        end
      else if negb in_static && Ascii.eqb token ":" then
        let '(n1, w) := match t_wild n with
                        | Some w => (n, w)
                        | None => (child_created n, leaf "wildcard")
                        end in
        match add_node fx3 f w remaining (wk ++ [sdrop 1 this_token]) false fin with
        | AOk w' => AOk (set_wild n1 w')
        | e => e
        end
      else
        let esc := negb in_static &&
                   match this_token with
                   | String "\" (String c2 _) => is_special c2
                   | _ => false
                   end in
        let token' := if esc then match this_token with String _ (String c2 _) => c2 | _ => token end else token in
        let this_token' := if esc then sdrop 1 this_token else this_token in
        match find_static token' (t_statics n) with
        | Some child =>
          let '(child1, split) := split_common_prefix child this_token' in
          let split' := if esc then S split else split in
          match add_node fx3 f child1 (sdrop split' path) wk (negb (Ascii.eqb token' "/")) fin with
          | AOk child2 => AOk (set_statics n (replace_static token' child2 (t_statics n)))
          | e => e
          end
        | None =>
          let n1 := child_created n in
          match add_node fx3 f (leaf this_token') remaining wk (negb (Ascii.eqb token' "/")) fin with
          | AOk child' => AOk (set_statics n1 (t_statics n ++ [(token', child')]))
          | e => e
          end
        end
    end
  end.

Definition empty_tree : tree := leaf "".

(** Tree.Add(path, value, WithBacktracking(flag)); the repository's constraint
    function (same rule set per node) always holds for a single rule set *)
Definition tree_add (fx3 : bool) (t : tree) (path : string) (v : nat) (flag : bool) : ares :=
  add_node fx3 (S (S (slen path))) t path [] false (put_value flag v).

(* ------------------------------------------------------------------ radix tree: findNode / Find *)

(** one call of the lookup matcher: route id, keys and values handed over, answer *)
Record call := { k_vid : nat; k_keys : list string; k_vals : list string; k_res : mres }.

Inductive fres :=
| FPanic
| FRes (found : option (list string * nat)) (caps : list string) (backtrack : bool).

(** "for idx, value = range values { if matcher.Match(value, keys, captures) ..." *)
Fixpoint try_values (m : nat -> list string -> list string -> mres) (keys caps : list string)
         (vs : list nat) : option (option nat) * list call :=   (* None = panic; Some None = none matched *)
  match vs with
  | [] => (Some None, [])
  | v :: r =>
    let a := m v keys caps in
    let c := {| k_vid := v; k_keys := keys; k_vals := caps; k_res := a |} in
    match a with
    | MYes => (Some (Some v), [c])
    | MPanic => (None, [c])
    | MNo => let '(x, cs) := try_values m keys caps r in (x, c :: cs)
    end
  end.

(** strings before / from the next '/' *)
Definition next_sep (path : string) : nat :=
  match index_byte "/" path with Some k => k | None => slen path end.

(** "for i, staticIndex := range n.staticIndices { if staticIndex == firstChar { ...; break } }":
    the first child with that index byte is handed to [k], [dflt] if there is none *)
Definition pick_static {A} (first : ascii) (k : tree -> A) (dflt : A) : list (ascii * tree) -> A :=
  fix go (l : list (ascii * tree)) : A :=
    match l with
    | [] => dflt
    | (d, child) :: r => if Ascii.eqb d first then k child else go r
    end.

(** what findNode does with the answer of the wildcard child: found or "do not backtrack"
    end the search ([Some]), otherwise the catch-all child is tried next ([None]) *)
Definition wild_res (r : fres * list call) : option fres * list call :=
  match r with
  | (FPanic, cs) => (Some FPanic, cs)
  | (FRes (Some x) tmp b, cs) => (Some (FRes (Some x) tmp b), cs)
  | (FRes None _ false, cs) => (Some (FRes None [] false), cs)
  | (FRes None _ true, cs) => (None, cs)
  end.

(** the catch-all child [c] of node [n]: its values are tried with (pinned) THIS node's keys
    and the captures so far, (repaired, [fx2]) its own keys and the captures plus the rest of
    the path; a failure consults the child's own flag (after the repair of C02-F1) *)
Definition catch_part (fx2 : bool) (m : nat -> list string -> list string -> mres) (n c : tree)
           (path : string) (caps1 : list string) : fres * list call :=
  match try_values m (if fx2 then t_keys c else t_keys n)
                   (if fx2 then caps1 ++ [path] else caps1) (t_values c) with
  | (None, cs3) => (FPanic, cs3)
  | (Some (Some v), cs3) => (FRes (Some (t_keys c, v)) (caps1 ++ [path]) false, cs3)
  | (Some None, cs3) => (FRes None caps1 (t_bt c), cs3)
  end.

(** the node itself, reached with the whole path consumed *)
Definition here_part (fx5 : bool) (m : nat -> list string -> list string -> mres) (n : tree)
           (caps : list string) : fres * list call :=
  if is_nil (t_values n) then (FRes None (if fx5 then caps else []) true, []) else
  match try_values m (t_keys n) caps (t_values n) with
  | (None, cs) => (FPanic, cs)
  | (Some (Some v), cs) => (FRes (Some (t_keys n, v)) caps false, cs)
  | (Some None, cs) => (FRes None (if fx5 then caps else []) (t_bt n), cs)
  end.

(** [fx2], [fx5]: the repairs of C03-F2 (the catch-all child's values are matched with the
    child's own keys and the captures including the rest of the path) and C03-F5 (a dead end
    at a node returns the captures it was given instead of nil).  [false false] is the pinned tree. *)
Fixpoint find_node (fx2 fx5 : bool) (m : nat -> list string -> list string -> mres) (n : tree) (path : string)
         (caps : list string) {struct n} : fres * list call :=
  match path with
  | EmptyString => here_part fx5 m n caps
  | String first _ =>
    (* static child *)
    let st :=
      pick_static first
        (fun child => if prefix (t_path child) path
                      then find_node fx2 fx5 m child (sdrop (slen (t_path child)) path) caps
                      else (FRes None caps true, []))
        (FRes None caps true, []) (t_statics n) in
    match st with
    | (FPanic, cs) => (FPanic, cs)
    | (FRes (Some x) caps1 b, cs) => (FRes (Some x) caps1 b, cs)
    | (FRes None caps1 false, cs) => (FRes None caps1 false, cs)
    | (FRes None caps1 true, cs1) =>
      (* captures is now what the static branch returned (pinned: nil after a dead end at a node) *)
      let wl :=
        match t_wild n with
        | None => (None, [])
        | Some w =>
          let k := next_sep path in
          if Nat.eqb k 0 then (None, []) else
          wild_res (find_node fx2 fx5 m w (sdrop k path) (caps1 ++ [stake k path]))
        end in
      match wl with
      | (Some r, cs2) => (r, cs1 ++ cs2)
      | (None, cs2) =>
        match t_catch n with
        | None => (FRes None caps1 true, cs1 ++ cs2)
        | Some c => let '(r, cs3) := catch_part fx2 m n c path caps1 in (r, cs1 ++ cs2 ++ cs3)
        end
      end
    end
  end.

(** the name/value map of the entry [Find] returns, as an association list in insertion order (a later equal key wins) *)
Fixpoint params_of (keys params : list string) : option (list (string * string)) :=
  match params with
  | [] => Some []
  | p :: pr =>
    match keys with
    | [] => None                             (* found.wildcardKeys[i]: index out of range *)
    | k :: kr =>
      match params_of kr pr with
      | None => None
      | Some l => Some (if String.eqb k "*" then l else (k, p) :: l)
      end
    end
  end.

Inductive lookup :=
| LPanic
| LNone
| LFound (vid : nat) (params : list (string * string)).

Definition tree_find (fx2 fx5 : bool) (m : nat -> list string -> list string -> mres) (t : tree) (path : string)
  : lookup * list call :=
  match find_node fx2 fx5 m t path [] with
  | (FPanic, cs) => (LPanic, cs)
  | (FRes None _ _, cs) => (LNone, cs)
  | (FRes (Some (keys, v)) params _, cs) =>
    match params_of keys params with
    | None => (LPanic, cs)
    | Some l => (LFound v l, cs)
    end
  end.

(* ------------------------------------------------------------------ repository, Execute *)

(** the table of created routes: route id -> (rule index, path expression, matcher) *)
Record centry := { ce_rule : nat; ce_path : string; ce_m : cmatcher; ce_bt : bool }.

Fixpoint entries_of (i : nat) (rs : list crule) : list centry :=
  match rs with
  | [] => []
  | r :: rest =>
    map (fun pm => {| ce_rule := i; ce_path := fst pm; ce_m := snd pm; ce_bt := cr_bt r |}) (cr_routes r)
    ++ entries_of (S i) rest
  end.

Fixpoint create_rules (fx4 : bool) (ds : list ruledef) : res (list crule) :=
  match ds with
  | [] => Ok []
  | d :: r => match create_rule fx4 d with
              | Rejected => Rejected
              | Ok c => match create_rules fx4 r with Rejected => Rejected | Ok cs => Ok (c :: cs) end
              end
  end.

(** addRulesTo: every route of every rule, in order, into (a clone of) the tree *)
Fixpoint add_entries (fx3 : bool) (t : tree) (vid : nat) (es : list centry) : ares :=
  match es with
  | [] => AOk t
  | e :: r => match tree_add fx3 t (ce_path e) vid (ce_bt e) with
              | AOk t' => add_entries fx3 t' (S vid) r
              | x => x
              end
  end.

Inductive loaded :=
| CreateFailed                 (* some CreateRule returned an error *)
| AddFailed                    (* AddRuleSet returned an error *)
| ModelFuel                    (* never: the fuel of add_node is sufficient *)
| Loaded (es : list centry) (t : tree).

Definition load (fx3 fx4 : bool) (ds : list ruledef) : loaded :=
  match create_rules fx4 ds with
  | Rejected => CreateFailed
  | Ok cs =>
    let es := entries_of 0 cs in
    match add_entries fx3 empty_tree 0 es with
    | AOk t => Loaded es t
    | AInvalid => AddFailed
    | AFuel => ModelFuel
    end
  end.

(** ---- two rule sets from two sources: AddRuleSet(src1, first [k] rules), AddRuleSet(src2, the others).
    Each AddRuleSet works on a clone of the tree and is all-or-nothing; values of different sources
    must not share a node ([canAdd]: "only rules from the same rule set can be placed in one node"). *)

(** the values of the node value [v] is stored at *)
Fixpoint values_with (v : nat) (t : tree) {struct t} : option (list nat) :=
  if existsb (Nat.eqb v) (t_values t) then Some (t_values t) else
  let st := (fix go (l : list (ascii * tree)) : option (list nat) :=
               match l with
               | [] => None
               | (_, child) :: r => match values_with v child with Some x => Some x | None => go r end
               end) (t_statics t) in
  match st with
  | Some x => Some x
  | None =>
    match match t_wild t with Some w => values_with v w | None => None end with
    | Some x => Some x
    | None => match t_catch t with
              | Some c => if existsb (Nat.eqb v) (t_values c) then Some (t_values c) else None
              | None => None
              end
    end
  end.

(** addRulesTo for the second source: every value must land on a node without values of the first *)
Fixpoint add_entries_src (fx3 : bool) (n1 : nat) (t : tree) (vid : nat) (es : list centry) : ares :=
  match es with
  | [] => AOk t
  | e :: r => match tree_add fx3 t (ce_path e) vid (ce_bt e) with
              | AOk t' =>
                match values_with vid t' with
                | Some vs => if forallb (Nat.leb n1) vs then add_entries_src fx3 n1 t' (S vid) r else AInvalid
                | None => AInvalid
                end
              | x => x
              end
  end.

(** [k] = number of rules in the first rule set ([k >= length ds]: one rule set only) *)
Definition load2 (fx3 fx4 : bool) (k : nat) (ds : list ruledef) : loaded :=
  match create_rules fx4 ds with
  | Rejected => CreateFailed
  | Ok cs =>
    let es := entries_of 0 cs in
    let es1 := filter (fun e => Nat.ltb (ce_rule e) k) es in
    let es2 := filter (fun e => negb (Nat.ltb (ce_rule e) k)) es in
    match add_entries fx3 empty_tree 0 es1 with
    | AOk t1 =>
      if is_nil es2 then Loaded es t1 else
      match add_entries_src fx3 (length es1) t1 (length es1) es2 with
      | AOk t2 => Loaded es t2
      | AInvalid => Loaded es t1          (* the second rule set is refused, the first stays *)
      | AFuel => ModelFuel
      end
    | AInvalid => AddFailed
    | AFuel => ModelFuel
    end
  end.

Definition lookup_path (q : request) : string :=
  if String.eqb (q_rawpath q) "" then q_path q else q_rawpath q.

Definition matcher_of (fx1 fx6 : bool) (fx7 : dec) (eng : engine) (es : list centry) (q : request) : nat -> list string -> list string -> mres :=
  fun vid keys vals =>
    match nth_error es vid with
    | Some e => route_matches fx1 fx6 fx7 eng (ce_m e) q keys vals
    | None => MNo
    end.

(** insertion of a key into a sorted association list, a later equal key replaces the earlier *)
Fixpoint map_put (k v : string) (l : list (string * string)) : list (string * string) :=
  match l with
  | [] => [(k, v)]
  | (k', v') :: r =>
    if String.eqb k k' then (k, v) :: r
    else if String.leb k k' then (k, v) :: l
    else (k', v') :: map_put k v r
  end.

(** a Go map built by successive assignments, rendered sorted by key *)
Definition map_of (l : list (string * string)) : list (string * string) :=
  fold_left (fun acc kv => map_put (fst kv) (snd kv) acc) l [].

(** what is observed for one request: the matcher calls, the rule selected, and the
    captures after ruleImpl.Execute (or the encoded-slash rejection of Execute) *)
Inductive outcome :=
| OPanic
| ONone
| ORule (rule : nat) (captures : list (string * string)) (exec_rejected : bool).

Definition execute (fx7 : dec) (sl : slash) (q : request) (caps : list (string * string)) : list (string * string) * bool :=
  match sl with
  | SOff => if contains_enc_slash fx7 (q_rawpath q) then (caps, true)
            else (map (fun kv => (fst kv, unescape fx7 (snd kv) sl)) caps, false)
  | _ => (map (fun kv => (fst kv, unescape fx7 (snd kv) sl)) caps, false)
  end.

Definition serve (fx1 fx2 fx5 fx6 : bool) (fx7 : dec) (eng : engine) (es : list centry) (t : tree) (q : request) : outcome * list call :=
  match tree_find fx2 fx5 (matcher_of fx1 fx6 fx7 eng es q) t (lookup_path q) with
  | (LPanic, cs) => (OPanic, cs)
  | (LNone, cs) => (ONone, cs)
  | (LFound vid params, cs) =>
    match nth_error es vid with
    | None => (OPanic, cs)
    | Some e =>
      let '(caps, rej) := execute fx7 (cm_slash (ce_m e)) q (map_of params) in
      (ORule (ce_rule e) caps rej, cs)
    end
  end.

(* ------------------------------------------------------------------ equality of observations *)

Definition strs_eqb := list_eqb String.eqb.
Definition call_eqb (a b : call) : bool :=
  Nat.eqb (k_vid a) (k_vid b) && strs_eqb (k_keys a) (k_keys b) && strs_eqb (k_vals a) (k_vals b) &&
  mres_eqb (k_res a) (k_res b).
Definition kv_eqb (a b : string * string) : bool := String.eqb (fst a) (fst b) && String.eqb (snd a) (snd b).
Definition caps_eqb := list_eqb kv_eqb.
Definition outcome_eqb (a b : outcome) : bool :=
  match a, b with
  | OPanic, OPanic | ONone, ONone => true
  | ORule r c x, ORule r' c' x' => Nat.eqb r r' && caps_eqb c c' && Bool.eqb x x'
  | _, _ => false
  end.

(* ------------------------------------------------------------------ a sequence of requests *)

(** Requests served one after the other by ONE instance of the loaded rule set.  The code keeps no state
    between lookups (matchers, tree and rules are read-only after AddRuleSet), so the model of a sequence
    is the map of the model of one request; that the implementation really behaves like this - that no
    matcher remembers anything - is what the check observes on every case (same instance vs instance built anew). *)
Definition serve_seq (fx1 fx2 fx5 fx6 : bool) (fx7 : dec) (eng : engine) (es : list centry) (t : tree)
           (qs : list request) : list (outcome * list call) :=
  map (serve fx1 fx2 fx5 fx6 fx7 eng es t) qs.
