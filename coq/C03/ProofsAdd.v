(** C03 — the insertion side of the lookup tree: where [Add] puts the value of a path
    expression and which wildcard names it records there, for all trees built by [Add]
    (prefix splitting included).  Positions are byte-level: a static byte, a single wildcard,
    a free wildcard. *)
From HV Require Import Base.Prelude C03.Model C03.Spec C03.Proofs C03.ProofsTree.
Open Scope string_scope.
Open Scope list_scope.
Local Arguments Ascii.eqb : simpl never.

(* ------------------------------------------------------------------ positions of path expressions *)

(** one step of a path expression as [addNode] reads it *)
Inductive epiece := EC (c : ascii) | EW (name : string) | EX (name : string).

(** a step of a position in the tree *)
Inductive fpiece := FC (c : ascii) | FW | FX.

Definition erase1 (p : epiece) : fpiece :=
  match p with EC c => FC c | EW _ => FW | EX _ => FX end.
Definition erase (l : list epiece) : list fpiece := map erase1 l.

Fixpoint enames (l : list epiece) : list string :=
  match l with
  | [] => []
  | EC _ :: r => enames r
  | EW n :: r => n :: enames r
  | EX n :: r => n :: enames r
  end.

Fixpoint count_wild (l : list fpiece) : nat :=
  match l with
  | [] => 0
  | FC _ :: r => count_wild r
  | _ :: r => S (count_wild r)
  end.

Lemma enames_count l : length (enames l) = count_wild (erase l).
Proof. induction l as [|[c|n|n] r IH]; simpl; congruence. Qed.

Lemma enames_app a b : enames (a ++ b) = enames a ++ enames b.
Proof. induction a as [|[c|n|n] r IH]; simpl; congruence. Qed.

Lemma erase_app a b : erase (a ++ b) = erase a ++ erase b.
Proof. apply map_app. Qed.

Fixpoint chars (s : string) : list ascii :=
  match s with EmptyString => [] | String c r => c :: chars r end.

Definition ecs (s : string) : list epiece := map EC (chars s).
Definition fcs (s : string) : list fpiece := map FC (chars s).

Lemma erase_ecs s : erase (ecs s) = fcs s.
Proof. unfold erase, ecs, fcs. rewrite map_map. reflexivity. Qed.

Lemma enames_ecs s : enames (ecs s) = [].
Proof. induction s; simpl; auto. Qed.

Lemma chars_app a b : chars (a ++ b)%string = chars a ++ chars b.
Proof. induction a; simpl; congruence. Qed.

Lemma fcs_app a b : fcs (a ++ b)%string = fcs a ++ fcs b.
Proof. unfold fcs. rewrite chars_app, map_app. reflexivity. Qed.

(** how [addNode] reads the rest of an expression: at the start of a segment ([MSeg],
    wildcards and escapes are recognised), inside a static token ([MStat]), and — only to make
    the definition structural — while skipping the name of a single wildcard ([MName]) *)
Inductive mode := MSeg | MStat | MName.

Definition slash : ascii := "/"%char.

Definition after (c : ascii) : mode := if Ascii.eqb c slash then MSeg else MStat.

Fixpoint fposm (md : mode) (s : string) : list epiece :=
  match s with
  | EmptyString => []
  | String c r =>
    match md with
    | MName => if Ascii.eqb c slash then EC c :: fposm MSeg r else fposm MName r
    | MStat => EC c :: fposm (after c) r
    | MSeg =>
      if Ascii.eqb c "*" then [EX r]
      else if Ascii.eqb c ":" then EW (stake (next_sep r) r) :: fposm MName r
      else if Ascii.eqb c "\" then
        match r with
        | String c2 r2 => if is_special c2 then EC c2 :: fposm MStat r2 else EC c :: fposm MStat r
        | EmptyString => [EC c]
        end
      else EC c :: fposm (after c) r
    end
  end.

Lemma fposm_name c r :
  fposm MName (String c r) = if Ascii.eqb c slash then EC c :: fposm MSeg r else fposm MName r.
Proof. reflexivity. Qed.
Lemma fposm_stat c r : fposm MStat (String c r) = EC c :: fposm (after c) r.
Proof. reflexivity. Qed.
Lemma fposm_seg c r :
  fposm MSeg (String c r) =
  if Ascii.eqb c "*" then [EX r]
  else if Ascii.eqb c ":" then EW (stake (next_sep r) r) :: fposm MName r
  else if Ascii.eqb c "\" then
    match r with
    | String c2 r2 => if is_special c2 then EC c2 :: fposm MStat r2 else EC c :: fposm MStat r
    | EmptyString => [EC c]
    end
  else EC c :: fposm (after c) r.
Proof. reflexivity. Qed.

(** the position and the wildcard names of a path expression *)
Definition epos (e : string) : list epiece := fposm MSeg e.

Definition mode_of (in_static : bool) : mode := if in_static then MStat else MSeg.

(* ------------------------------------------------------------------ string arithmetic *)

Lemma slen_cons c s : slen (String c s) = S (slen s).
Proof. reflexivity. Qed.

Lemma stake_sdrop n s : (stake n s ++ sdrop n s)%string = s.
Proof.
  revert s. induction n as [|n IH]; intros [|c r]; simpl; try reflexivity. rewrite IH. reflexivity.
Qed.

Lemma stake_all n s : slen s <= n -> stake n s = s.
Proof.
  revert s. induction n as [|n IH]; intros [|c r] H; simpl in *; try reflexivity; try (unfold slen in H; simpl in H; lia).
  rewrite IH; [reflexivity|]. unfold slen in *. simpl in H. lia.
Qed.

Lemma sdrop_all n s : slen s <= n -> sdrop n s = "".
Proof.
  revert s. induction n as [|n IH]; intros [|c r] H; simpl in *; try reflexivity; try (unfold slen in H; simpl in H; lia).
  apply IH. unfold slen in *. simpl in H. lia.
Qed.

Lemma slen_stake n s : n <= slen s -> slen (stake n s) = n.
Proof.
  revert s. induction n as [|n IH]; intros [|c r] H; simpl in *; try reflexivity; try (unfold slen in H; simpl in H; lia).
  unfold slen in *. simpl in *. rewrite IH; lia.
Qed.

Lemma stake_stake i j s : i <= j -> stake i (stake j s) = stake i s.
Proof.
  revert j s. induction i as [|i IH]; intros [|j] [|c r] H; simpl; try reflexivity; try lia.
  rewrite IH; [reflexivity | lia].
Qed.

Lemma next_sep_cons c r :
  next_sep (String c r) = if Ascii.eqb slash c then 0 else S (next_sep r).
Proof.
  unfold next_sep.
  change (index_byte "/" (String c r)) with (if Ascii.eqb slash c then Some 0 else option_map S (index_byte "/" r)).
  destruct (Ascii.eqb slash c); [reflexivity|].
  destruct (index_byte "/" r); reflexivity.
Qed.

Lemma next_sep_le s : next_sep s <= slen s.
Proof.
  induction s as [|c r IH]; [unfold next_sep; simpl; unfold slen; simpl; lia|].
  rewrite next_sep_cons, slen_cons. destruct (Ascii.eqb slash c); lia.
Qed.

(** index_byte in terms of next_sep *)
Lemma index_byte_next_sep s :
  match index_byte "/" s with Some k => k = next_sep s /\ k < slen s | None => next_sep s = slen s end.
Proof.
  induction s as [|c r IH]; [reflexivity|].
  rewrite next_sep_cons.
  change (index_byte "/" (String c r)) with (if Ascii.eqb slash c then Some 0 else option_map S (index_byte "/" r)).
  destruct (Ascii.eqb slash c) eqn:E.
  - split; [reflexivity | rewrite slen_cons; lia].
  - destruct (index_byte "/" r) as [k|]; cbn [option_map].
    + destruct IH as [-> H]. split; [reflexivity | rewrite slen_cons; lia].
    + rewrite slen_cons. congruence.
Qed.

(* ------------------------------------------------------------------ reading static bytes *)

(** inside a static token the bytes before the next '/' are read one by one *)
Lemma stat_run s i :
  i <= next_sep s -> fposm MStat s = ecs (stake i s) ++ fposm MStat (sdrop i s).
Proof.
  revert s. induction i as [|i IH]; intros s H.
  - destruct s; reflexivity.
  - destruct s as [|c r]; [unfold next_sep in H; simpl in H; unfold slen in H; simpl in H; lia|].
    rewrite next_sep_cons in H. destruct (Ascii.eqb slash c) eqn:E; [lia|].
    rewrite fposm_stat. unfold after. rewrite Ascii.eqb_sym, E. unfold ecs. simpl. f_equal.
    apply IH. lia.
Qed.

(** skipping the name of a single wildcard ends at the next '/' *)
Lemma name_skip s : fposm MName s = fposm MSeg (sdrop (next_sep s) s).
Proof.
  induction s as [|c r IH]; [reflexivity|].
  rewrite next_sep_cons, fposm_name. rewrite (Ascii.eqb_sym c slash).
  destruct (Ascii.eqb slash c) eqn:E.
  - apply Ascii.eqb_eq in E. subst c. reflexivity.
  - exact IH.
Qed.

(* ------------------------------------------------------------------ the token [addNode] works on *)

Definition tok_end (path : string) : nat :=
  match path with
  | String token _ => if Ascii.eqb token "/" then 1 else next_sep path
  | EmptyString => 0
  end.
Definition this_tok (path : string) : string := stake (tok_end path) path.
Definition is_esc (ins : bool) (path : string) : bool :=
  negb ins && match this_tok path with
              | String "\" (String c2 _) => is_special c2
              | _ => false
              end.
Definition head_or (d : ascii) (s : string) : ascii := match s with String c _ => c | _ => d end.
Definition tok' (ins : bool) (path : string) : ascii :=
  if is_esc ins path then match this_tok path with String _ (String c2 _) => c2 | _ => head_or slash path end
  else head_or slash path.
Definition this_tok' (ins : bool) (path : string) : string :=
  if is_esc ins path then sdrop 1 (this_tok path) else this_tok path.

Lemma special_not_slash c : is_special c = true -> Ascii.eqb c slash = false.
Proof.
  unfold is_special. intro H. apply Ascii.eqb_neq. intro E. subst c. vm_compute in H. discriminate.
Qed.

Lemma after_mode_of c : mode_of (negb (Ascii.eqb c "/")) = after c.
Proof. unfold after, mode_of, slash. destruct (Ascii.eqb c "/"); reflexivity. Qed.

(** characterisation of the escape test on the expression itself *)
Lemma is_esc_spec ins token prest :
  is_esc ins (String token prest) =
  negb ins && Ascii.eqb token "\" &&
  match prest with String c2 _ => is_special c2 | EmptyString => false end.
Proof.
  unfold is_esc, this_tok, tok_end. destruct ins; [reflexivity|]. cbn [negb andb].
  destruct (Ascii.eqb token "/") eqn:Es.
  - apply Ascii.eqb_eq in Es. subst token. reflexivity.
  - rewrite next_sep_cons. rewrite Ascii.eqb_sym in Es. unfold slash. rewrite Es.
    cbn [stake].
    destruct (Ascii.eqb token "\") eqn:Eb.
    + apply Ascii.eqb_eq in Eb. subst token.
      destruct prest as [|c2 r2]; [reflexivity|].
      rewrite next_sep_cons. destruct (Ascii.eqb slash c2) eqn:E2.
      * apply Ascii.eqb_eq in E2. subst c2. reflexivity.
      * reflexivity.
    + destruct token as [[] [] [] [] [] [] [] []]; try reflexivity. vm_compute in Eb. discriminate.
Qed.

Lemma tok_end_nonslash token prest :
  Ascii.eqb token "/" = false -> tok_end (String token prest) = S (next_sep prest).
Proof.
  intro H. unfold tok_end. rewrite H, next_sep_cons. unfold slash. rewrite Ascii.eqb_sym, H. reflexivity.
Qed.

(** reading [j] bytes of the static token at the front of an expression: they are static
    bytes of the position (the escaping backslash is not one of them), and reading goes on
    inside the token, or at a segment start after a '/' *)
Lemma static_consume ins token prest j :
  (ins = false -> Ascii.eqb token "*" = false /\ Ascii.eqb token ":" = false) ->
  1 <= j <= slen (this_tok' ins (String token prest)) ->
  fposm (mode_of ins) (String token prest) =
  ecs (stake j (this_tok' ins (String token prest))) ++
  fposm (after (tok' ins (String token prest)))
        (sdrop (if is_esc ins (String token prest) then S j else j) (String token prest)).
Proof.
  intros Hw Hj. set (path := String token prest) in *.
  destruct (Ascii.eqb token "/") eqn:Es.
  - (* the token is the separator itself *)
    apply Ascii.eqb_eq in Es. subst token.
    assert (Ee : is_esc ins path = false).
    { unfold path. rewrite is_esc_spec. destruct ins; reflexivity. }
    unfold this_tok', tok' in *. rewrite Ee in *. unfold this_tok, tok_end, path in *.
    change (Ascii.eqb "/" "/") with true in *. cbn [stake head_or] in *.
    assert (j = 1) by (unfold slen in Hj; simpl in Hj; lia). subst j.
    cbn [stake sdrop]. destruct ins; reflexivity.
  - assert (Hte := tok_end_nonslash token prest Es).
    assert (Hk := next_sep_le prest). set (k := next_sep prest) in *.
    assert (Htt : this_tok path = String token (stake k prest)).
    { unfold this_tok, path. rewrite Hte. reflexivity. }
    destruct (is_esc ins path) eqn:Ee.
    + (* escaped special byte *)
      unfold path in Ee. rewrite is_esc_spec in Ee.
      apply andb_true_iff in Ee as [Ee Esp]. apply andb_true_iff in Ee as [Ei Eb].
      destruct ins; [discriminate|]. apply Ascii.eqb_eq in Eb. subst token.
      destruct prest as [|c2 r2]; [discriminate|].
      assert (Ens := special_not_slash _ Esp).
      assert (Hk2 := next_sep_le r2).
      assert (Ek : k = S (next_sep r2)).
      { unfold k. rewrite next_sep_cons, Ascii.eqb_sym, Ens. reflexivity. }
      assert (Eesc : is_esc false path = true).
      { unfold path. rewrite is_esc_spec. simpl. exact Esp. }
      unfold this_tok', tok' in *. rewrite Eesc in *. rewrite Htt in *. rewrite Ek in *.
      cbn [stake sdrop] in *.
      assert (Hl : slen (String c2 (stake (next_sep r2) r2)) = S (next_sep r2)).
      { rewrite slen_cons, slen_stake; [reflexivity | assumption]. }
      rewrite Hl in Hj. destruct j as [|j0]; [lia|].
      cbn [stake]. rewrite stake_stake by lia.
      unfold path. cbn [sdrop mode_of]. rewrite fposm_seg.
      change (Ascii.eqb "\" "*") with false. change (Ascii.eqb "\" ":") with false.
      change (Ascii.eqb "\" "\") with true. cbv iota. rewrite Esp.
      unfold after. rewrite Ens. unfold ecs. cbn [chars map app]. f_equal.
      apply stat_run. lia.
    + (* plain static bytes *)
      unfold this_tok', tok' in *. rewrite Ee in *. rewrite Htt in *.
      unfold path. cbn [head_or]. fold path.
      assert (Hl : slen (String token (stake k prest)) = S k).
      { rewrite slen_cons, slen_stake; [reflexivity | assumption]. }
      rewrite Hl in Hj. destruct j as [|j0]; [lia|].
      cbn [stake]. rewrite stake_stake by lia. unfold path. cbn [sdrop].
      unfold after at 1. unfold slash. rewrite Es.
      unfold ecs. cbn [chars map app].
      assert (Hrun : fposm MStat prest = ecs (stake j0 prest) ++ fposm MStat (sdrop j0 prest)).
      { apply stat_run. fold k. lia. }
      destruct ins; cbn [mode_of].
      * rewrite fposm_stat. unfold after, slash. rewrite Es. f_equal. exact Hrun.
      * destruct (Hw eq_refl) as [Hs Hc]. rewrite fposm_seg, Hs, Hc.
        unfold path in Ee. rewrite is_esc_spec in Ee. cbn [negb andb] in Ee.
        destruct (Ascii.eqb token "\") eqn:Eb.
        -- destruct prest as [|c2 r2].
           ++ unfold k in *. assert (j0 = 0) by (unfold next_sep in Hj; simpl in Hj; unfold slen in Hj; simpl in Hj; lia).
              subst j0. reflexivity.
           ++ cbn [andb] in Ee. rewrite Ee. f_equal. exact Hrun.
        -- unfold after, slash. rewrite Es. f_equal. exact Hrun.
Qed.

(* ------------------------------------------------------------------ addNode, one step *)

Lemma add_node_cons fx3 f n token prest wk ins fin :
  add_node fx3 (S f) n (String token prest) wk ins fin =
  let path := String token prest in
  if negb ins && Ascii.eqb token "*" then
    match index_byte "/" path with
    | Some _ => AInvalid
    | None =>
      let name := sdrop 1 (this_tok path) in
      let '(n1, c) := match t_catch n with
                      | Some c => (n, c)
                      | None => (child_created n, leaf name)
                      end in
      if negb (String.eqb (sdrop 1 path) (t_path c)) then AInvalid else
      if fx3 && negb (is_nil (t_keys c)) && negb (list_eqb String.eqb (t_keys c) (wk ++ [name])) then AInvalid else
      AOk (set_catch n1 (fin (set_keys c (wk ++ [name]))))
    end
  else if negb ins && Ascii.eqb token ":" then
    let '(n1, w) := match t_wild n with
                    | Some w => (n, w)
                    | None => (child_created n, leaf "wildcard")
                    end in
    match add_node fx3 f w (sdrop (tok_end path) path) (wk ++ [sdrop 1 (this_tok path)]) false fin with
    | AOk w' => AOk (set_wild n1 w')
    | e => e
    end
  else
    match find_static (tok' ins path) (t_statics n) with
    | Some child =>
      let '(child1, split) := split_common_prefix child (this_tok' ins path) in
      match add_node fx3 f child1 (sdrop (if is_esc ins path then S split else split) path) wk
                     (negb (Ascii.eqb (tok' ins path) "/")) fin with
      | AOk child2 => AOk (set_statics n (replace_static (tok' ins path) child2 (t_statics n)))
      | e => e
      end
    | None =>
      match add_node fx3 f (leaf (this_tok' ins path)) (sdrop (tok_end path) path) wk
                     (negb (Ascii.eqb (tok' ins path) "/")) fin with
      | AOk child' => AOk (set_statics (child_created n) (t_statics n ++ [(tok' ins path, child')]))
      | e => e
      end
    end.
Proof. reflexivity. Qed.

(* ------------------------------------------------------------------ well-formed trees, and what they store *)

Definition head_is (c : ascii) (s : string) : Prop := exists r, s = String c r.

(** every static child's path starts with the byte it is indexed by *)
Inductive WF : tree -> Prop :=
| wf_node n :
    Forall (fun ct => head_is (fst ct) (t_path (snd ct)) /\ WF (snd ct)) (t_statics n) ->
    (forall w, t_wild n = Some w -> WF w) ->
    WF n.

(** value [v] stored under [keys] at position [pos] is route [v] of the table: the
    position is that route's expression, the keys are the names it declares *)
Definition entry_ok (es : list centry) (pos : list fpiece) (keys : list string) (v : nat) : Prop :=
  exists e, nth_error es v = Some e /\ erase (epos (ce_path e)) = pos /\ keys = enames (epos (ce_path e)).

Inductive Inv (es : list centry) : list fpiece -> tree -> Prop :=
| inv_node pos n :
    (forall v, In v (t_values n) -> entry_ok es pos (t_keys n) v) ->
    (t_values n = [] -> t_keys n = []) ->
    Forall (fun ct => Inv es (pos ++ fcs (t_path (snd ct))) (snd ct)) (t_statics n) ->
    (forall w, t_wild n = Some w -> Inv es (pos ++ [FW]) w) ->
    (forall c, t_catch n = Some c -> forall v, In v (t_values c) -> entry_ok es (pos ++ [FX]) (t_keys c) v) ->
    Inv es pos n.

Lemma entry_ok_mono es e pos keys v : entry_ok es pos keys v -> entry_ok (es ++ [e]) pos keys v.
Proof.
  intros (e0 & H1 & H2 & H3). exists e0. split; [|auto].
  rewrite nth_error_app1; [exact H1|]. apply nth_error_Some. congruence.
Qed.

Lemma entry_ok_count es pos keys v : entry_ok es pos keys v -> length keys = count_wild pos.
Proof. intros (e0 & _ & <- & ->). apply enames_count. Qed.

Lemma Inv_mono es e n : forall pos, Inv es pos n -> Inv (es ++ [e]) pos n.
Proof.
  induction n as [p st w c vs ks bt IHs IHw IHc] using tree_ind'.
  intros pos H. inversion H as [pos0 n0 Hv Hk Hst Hw Hc]; subst. simpl in *.
  constructor; simpl.
  - intros v Hin. apply entry_ok_mono. auto.
  - exact Hk.
  - rewrite Forall_forall in *. intros ct Hin. apply (IHs ct Hin). apply (Hst ct Hin).
  - intros w0 E. apply (IHw w0 E). apply Hw. exact E.
  - intros c0 E v Hin. apply entry_ok_mono. eapply Hc; eauto.
Qed.

(** the node's own path plays no role *)
Lemma Inv_set_path es pos n p : Inv es pos n -> Inv es pos (set_path n p).
Proof. intro H. inversion H; subst. constructor; assumption. Qed.

Lemma WF_set_path n p : WF n -> WF (set_path n p).
Proof. intro H. inversion H; subst. constructor; assumption. Qed.

Lemma WF_leaf p : WF (leaf p).
Proof. constructor; simpl; [constructor | discriminate]. Qed.

Lemma Inv_leaf es pos p : Inv es pos (leaf p).
Proof. constructor; simpl; try tauto; try discriminate. constructor. Qed.

(* ---- common prefixes *)

Lemma common_prefix_stake a b :
  stake (common_prefix_len a b) a = stake (common_prefix_len a b) b.
Proof.
  revert b. induction a as [|x r IH]; intros [|y s]; simpl; try reflexivity.
  destruct (Ascii.eqb x y) eqn:E; [|reflexivity].
  apply Ascii.eqb_eq in E. subst y. simpl. rewrite IH. reflexivity.
Qed.

Lemma common_prefix_le a b : common_prefix_len a b <= slen a /\ common_prefix_len a b <= slen b.
Proof.
  revert b. induction a as [|x r IH]; intros [|y s]; simpl; unfold slen in *; simpl; try lia.
  destruct (Ascii.eqb x y); simpl; [|lia]. destruct (IH s). lia.
Qed.

Lemma common_prefix_head c r s : 1 <= common_prefix_len (String c r) (String c s).
Proof. simpl. rewrite Ascii.eqb_refl. lia. Qed.

Lemma prefix_slen a b : prefix a b = true -> slen a <= slen b.
Proof.
  intro H. apply prefix_split in H as (t & ->). unfold slen.
  induction a as [|c a IH]; simpl; lia.
Qed.

Lemma prefix_stake a b : prefix a b = true -> stake (slen a) b = a.
Proof.
  intro H. apply prefix_split in H as (t & ->).
  induction a as [|c a IH]; simpl; [destruct t; reflexivity|]. unfold slen in *. simpl. rewrite IH. reflexivity.
Qed.

(** splitCommonPrefix keeps what is stored below the child, at the same positions: the node to
    descend into stands for the first [split] bytes of the token *)
Lemma split_inv es pos child tok c r1 r2 :
  t_path child = String c r1 -> tok = String c r2 ->
  WF child -> Inv es (pos ++ fcs (t_path child)) child ->
  forall child1 split, split_common_prefix child tok = (child1, split) ->
  1 <= split <= slen tok /\ t_path child1 = stake split tok /\
  WF child1 /\ Inv es (pos ++ fcs (t_path child1)) child1.
Proof.
  intros Hp Ht Hwf Hinv child1 split. unfold split_common_prefix.
  destruct (prefix (t_path child) tok) eqn:Epre.
  - intro H. inversion H; subst child1 split. clear H.
    split; [split; [rewrite Hp, slen_cons; lia | apply prefix_slen; assumption]|].
    split; [symmetry; apply prefix_stake; assumption|]. split; assumption.
  - set (i := common_prefix_len (t_path child) tok).
    assert (Hi1 : 1 <= i) by (unfold i; rewrite Hp, Ht; apply common_prefix_head).
    destruct (common_prefix_le (t_path child) tok) as [Hia Hib]. fold i in Hia, Hib.
    assert (Hst : stake i (t_path child) = stake i tok) by apply common_prefix_stake.
    destruct (sdrop i (t_path child)) as [|c0 rest0] eqn:Erest.
    + (* the whole path of the child is a prefix of the token: excluded by the first test *)
      exfalso. assert (E : t_path child = stake i tok).
      { rewrite <- Hst. rewrite <- (stake_sdrop i (t_path child)) at 1. rewrite Erest.
        clear. generalize (stake i (t_path child)). intro s. induction s; simpl; congruence. }
      assert (P : prefix (t_path child) tok = true).
      { rewrite E. rewrite <- (stake_sdrop i tok) at 2. apply prefix_app. }
      congruence.
    + intro H. inversion H; subst child1 split. clear H. simpl.
      split; [lia|]. split; [reflexivity|].
      assert (Ecat : (stake i tok ++ String c0 rest0)%string = t_path child).
      { rewrite <- Hst, <- Erest. apply stake_sdrop. }
      split.
      * constructor; simpl; [|discriminate]. constructor; [|constructor]. simpl. split.
        -- exists rest0. reflexivity.
        -- apply WF_set_path. assumption.
      * constructor; simpl; try tauto; try discriminate.
        constructor; [|constructor]. simpl.
        rewrite <- app_assoc, <- fcs_app, Ecat. apply Inv_set_path. assumption.
Qed.

(* ------------------------------------------------------------------ Add keeps the invariant *)

Lemma count_wild_app a b : count_wild (a ++ b) = count_wild a + count_wild b.
Proof. induction a as [|[c| |] r IH]; simpl; lia. Qed.

Lemma strs_eqb_eq a b : list_eqb String.eqb a b = true <-> a = b.
Proof. apply list_eqb_spec. apply String.eqb_eq. Qed.

Lemma replace_static_Forall (P : ascii * tree -> Prop) c t' l :
  Forall P l -> (forall t, find_static c l = Some t -> P (c, t')) ->
  Forall P (replace_static c t' l).
Proof.
  induction l as [|[d t] r IH]; intros HF Hn; simpl; [constructor|].
  inversion HF as [|x y Hx Hr]; subst. simpl in Hn.
  destruct (Ascii.eqb c d) eqn:E.
  - apply Ascii.eqb_eq in E. subst d. constructor; [apply (Hn t); reflexivity | assumption].
  - constructor; [assumption | apply IH; assumption].
Qed.

Lemma this_tok'_head ins token prest :
  head_is (tok' ins (String token prest)) (this_tok' ins (String token prest)).
Proof.
  unfold this_tok', tok'. destruct (is_esc ins (String token prest)) eqn:Ee.
  - rewrite is_esc_spec in Ee. apply andb_true_iff in Ee as [Ee Esp]. apply andb_true_iff in Ee as [_ Eb].
    apply Ascii.eqb_eq in Eb. subst token. destruct prest as [|c2 r2]; [discriminate|].
    assert (Ens := special_not_slash _ Esp).
    unfold this_tok. rewrite tok_end_nonslash by reflexivity.
    rewrite next_sep_cons, Ascii.eqb_sym, Ens. cbn [stake sdrop]. eexists. reflexivity.
  - cbn [head_or]. destruct (Ascii.eqb token "/") eqn:Es.
    + unfold this_tok, tok_end. rewrite Es. cbn [stake]. eexists. reflexivity.
    + unfold this_tok. rewrite (tok_end_nonslash _ _ Es). cbn [stake]. eexists. reflexivity.
Qed.

Lemma tok_end_le token prest : 1 <= tok_end (String token prest) <= slen (String token prest).
Proof.
  unfold tok_end. destruct (Ascii.eqb token "/") eqn:E.
  - rewrite slen_cons. lia.
  - assert (H := next_sep_le (String token prest)). rewrite next_sep_cons in *.
    assert (E2 : Ascii.eqb slash token = false) by (unfold slash; rewrite Ascii.eqb_sym; exact E).
    rewrite E2 in *. lia.
Qed.

Lemma slen_sdrop1 s : slen (sdrop 1 s) = slen s - 1.
Proof. destruct s; unfold slen; simpl; lia. Qed.

Lemma this_tok'_len ins token prest :
  (if is_esc ins (String token prest) then S (slen (this_tok' ins (String token prest)))
   else slen (this_tok' ins (String token prest))) = tok_end (String token prest).
Proof.
  assert (Hte := tok_end_le token prest).
  assert (Hl : slen (this_tok (String token prest)) = tok_end (String token prest)).
  { unfold this_tok. apply slen_stake. lia. }
  unfold this_tok'. destruct (is_esc ins (String token prest)) eqn:Ee; [|exact Hl].
  rewrite slen_sdrop1, Hl. lia.
Qed.

Section AddOne.
Variable es : list centry.
Variable e : centry.
Variable flag : bool.
Let newv := length es.
Let es' := es ++ [e].
Let fin := put_value flag newv.

Lemma new_entry_ok pos keys :
  pos = erase (epos (ce_path e)) -> keys = enames (epos (ce_path e)) -> entry_ok es' pos keys newv.
Proof.
  intros -> ->. exists e. split; [|auto]. unfold es', newv.
  rewrite nth_error_app2 by lia. rewrite Nat.sub_diag. reflexivity.
Qed.

(** the value is appended at a node: the keys of the node (old or just set) are the names of the
    new route, and the old values agree *)
Lemma fin_inv pos n keys :
  pos = erase (epos (ce_path e)) -> keys = enames (epos (ce_path e)) ->
  (t_keys n = keys \/ t_keys n = []) ->
  Inv es pos n -> Inv es' pos (fin (set_keys n keys)).
Proof.
  intros Hp Hk Hold H. inversion H as [pos0 n0 Hv Hk0 Hst Hw Hc]; subst pos0 n0.
  constructor; simpl.
  - intros v Hin. apply in_app_or in Hin as [Hin|[<-|[]]].
    + assert (Hok := Hv v Hin). apply entry_ok_mono.
      destruct Hold as [Hold|Hold]; [rewrite <- Hold; exact Hok|].
      (* old keys empty: then the position has no wildcard, so the new keys are empty as well *)
      assert (Hc0 := entry_ok_count _ _ _ _ Hok). rewrite Hold in Hc0. simpl in Hc0.
      assert (Hn : length keys = 0).
      { rewrite Hk, enames_count, <- Hp. symmetry. exact Hc0. }
      destruct keys; [|discriminate]. rewrite <- Hold. exact Hok.
    + apply new_entry_ok; assumption.
  - intro E. destruct (t_values n); discriminate.
  - rewrite Forall_forall in *. intros ct Hin. apply Inv_mono. auto.
  - intros w E. apply Inv_mono. auto.
  - intros c E v Hin. apply entry_ok_mono. eauto.
Qed.

Lemma Inv_same_children es0 pos n n2 :
  t_values n2 = t_values n -> t_keys n2 = t_keys n -> t_statics n2 = t_statics n ->
  t_wild n2 = t_wild n -> t_catch n2 = t_catch n -> Inv es0 pos n -> Inv es0 pos n2.
Proof.
  intros E1 E2 E3 E4 E5 H. inversion H; subst. constructor; rewrite ?E1, ?E2, ?E3, ?E4, ?E5; assumption.
Qed.

Lemma add_node_inv : forall fuel n path wk ins pos n',
  pos ++ erase (fposm (mode_of ins) path) = erase (epos (ce_path e)) ->
  wk ++ enames (fposm (mode_of ins) path) = enames (epos (ce_path e)) ->
  WF n -> Inv es pos n ->
  add_node true fuel n path wk ins fin = AOk n' ->
  WF n' /\ Inv es' pos n' /\ t_path n' = t_path n.
Proof.
  induction fuel as [|f IH]; intros n path wk ins pos n' Hpos Hnames Hwf Hinv Hadd; [discriminate|].
  destruct path as [|token prest].
  - (* the node is reached *)
    simpl in Hpos, Hnames. rewrite app_nil_r in Hpos, Hnames. simpl in Hadd.
    assert (Hwf' : forall k, WF (fin (set_keys n k))).
    { intro k. inversion Hwf as [n00 Hwfs0 Hwfw0]; subst n00. constructor; assumption. }
    destruct (is_nil wk) eqn:En.
    + apply is_nil_true in En. rewrite En in *. clear En. inversion Hadd; subst n'. clear Hadd.
      assert (Hk : t_keys n = []).
      { inversion Hinv as [pos0 n0 Hv Hk0 _ _ _]; subst pos0 n0.
        destruct (t_values n) as [|v0 vs] eqn:Ev; [apply Hk0; reflexivity|].
        assert (Hok := Hv v0 (or_introl eq_refl)). apply entry_ok_count in Hok.
        rewrite Hpos, <- enames_count, <- Hnames in Hok. destruct (t_keys n); [reflexivity | discriminate]. }
      replace (fin n) with (fin (set_keys n [])) by (destruct n; simpl in *; subst; reflexivity).
      split; [apply Hwf'|]. split; [|reflexivity].
      apply fin_inv; auto.
    + destruct (negb (is_nil (t_keys n)) && negb (list_eqb String.eqb (t_keys n) wk)) eqn:Ek; [discriminate|].
      inversion Hadd; subst n'. clear Hadd.
      split; [apply Hwf'|]. split; [|reflexivity].
      apply fin_inv; auto.
      apply andb_false_iff in Ek as [Ek|Ek]; apply negb_false_iff in Ek.
      * right. apply is_nil_true. exact Ek.
      * left. apply strs_eqb_eq. exact Ek.
  - rewrite add_node_cons in Hadd. cbv zeta in Hadd.
    set (path := String token prest) in *.
    destruct (negb ins && Ascii.eqb token "*") eqn:Estar.
    + (* free wildcard *)
      apply andb_true_iff in Estar as [Ei Et]. apply negb_true_iff in Ei. subst ins.
      apply Ascii.eqb_eq in Et. subst token.
      assert (Hnosl := index_byte_next_sep path).
      destruct (index_byte "/" path) as [k|] eqn:Eib; [discriminate|].
      assert (Hname : sdrop 1 (this_tok path) = prest).
      { unfold this_tok, path. rewrite tok_end_nonslash by reflexivity. fold path.
        unfold path in Hnosl. rewrite next_sep_cons in Hnosl. change (Ascii.eqb slash "*") with false in Hnosl.
        rewrite slen_cons in Hnosl. inversion Hnosl as [Hn]. rewrite Hn. cbn [stake sdrop].
        apply stake_all. lia. }
      rewrite Hname in Hadd.
      unfold path in Hpos, Hnames. cbn [mode_of] in Hpos, Hnames. rewrite fposm_seg in Hpos, Hnames.
      change (Ascii.eqb "*" "*") with true in Hpos, Hnames. cbv iota in Hpos, Hnames.
      cbn [erase map erase1 enames] in Hpos, Hnames.
      inversion Hinv as [pos0 n0 Hv Hk0 Hst Hw Hc]; subst pos0 n0.
      set (c0 := match t_catch n with Some c => c | None => leaf prest end).
      set (n1 := match t_catch n with Some c => n | None => child_created n end).
      assert (Hadd' : (if negb (String.eqb (sdrop 1 path) (t_path c0)) then AInvalid else
                       if true && negb (is_nil (t_keys c0)) && negb (list_eqb String.eqb (t_keys c0) (wk ++ [prest]))
                       then AInvalid else AOk (set_catch n1 (fin (set_keys c0 (wk ++ [prest]))))) = AOk n').
      { unfold c0, n1. destruct (t_catch n); exact Hadd. }
      clear Hadd. destruct (negb (String.eqb (sdrop 1 path) (t_path c0))); [discriminate|].
      destruct (true && negb (is_nil (t_keys c0)) && negb (list_eqb String.eqb (t_keys c0) (wk ++ [prest]))) eqn:Ek;
        [discriminate|].
      inversion Hadd'; subst n'. clear Hadd'.
      assert (Hold : forall v, In v (t_values c0) -> entry_ok es (pos ++ [FX]) (t_keys c0) v).
      { unfold c0. destruct (t_catch n) as [cc|] eqn:Ec; [apply (Hc cc eq_refl) | intros v []]. }
      assert (Hn1 : t_values n1 = t_values n /\ t_keys n1 = t_keys n /\ t_statics n1 = t_statics n /\
                    t_wild n1 = t_wild n /\ t_path n1 = t_path n).
      { unfold n1. destruct (t_catch n); simpl; repeat split. }
      destruct Hn1 as (E1 & E2 & E3 & E4 & E5).
      split; [|split].
      * inversion Hwf as [n00 Hwfs0 Hwfw0]; subst n00. constructor; simpl; rewrite ?E3, ?E4; assumption.
      * constructor; simpl; rewrite ?E1, ?E2, ?E3, ?E4.
        -- intros v Hin. apply entry_ok_mono. auto.
        -- exact Hk0.
        -- rewrite Forall_forall in *. intros ct Hin. apply Inv_mono. auto.
        -- intros w E. apply Inv_mono. auto.
        -- intros c E v Hin. inversion E; subst c. clear E. simpl in *.
           apply in_app_or in Hin as [Hin|[<-|[]]].
           ++ assert (Hok := Hold v Hin). apply entry_ok_mono.
              cbn [andb] in Ek. apply andb_false_iff in Ek as [Ek|Ek]; apply negb_false_iff in Ek.
              ** apply is_nil_true in Ek. apply entry_ok_count in Hok. rewrite Ek, count_wild_app in Hok.
                 simpl in Hok. lia.
              ** apply strs_eqb_eq in Ek. rewrite <- Ek. exact Hok.
           ++ apply new_entry_ok; auto.
      * simpl. exact E5.
    + destruct (negb ins && Ascii.eqb token ":") eqn:Ecolon.
      * (* single wildcard *)
        apply andb_true_iff in Ecolon as [Ei Et]. apply negb_true_iff in Ei. subst ins.
        apply Ascii.eqb_eq in Et. subst token.
        assert (Hte : tok_end path = S (next_sep prest)) by (apply tok_end_nonslash; reflexivity).
        assert (Hname : sdrop 1 (this_tok path) = stake (next_sep prest) prest).
        { unfold this_tok. rewrite Hte. reflexivity. }
        rewrite Hname, Hte in Hadd. unfold path in Hadd. cbn [sdrop] in Hadd.
        unfold path in Hpos, Hnames. cbn [mode_of] in Hpos, Hnames. rewrite fposm_seg in Hpos, Hnames.
        change (Ascii.eqb ":" "*") with false in Hpos, Hnames. change (Ascii.eqb ":" ":") with true in Hpos, Hnames.
        cbv iota in Hpos, Hnames. rewrite name_skip in Hpos, Hnames.
        cbn [erase map erase1 enames] in Hpos, Hnames.
        inversion Hinv as [pos0 n0 Hv Hk0 Hst Hw Hc]; subst pos0 n0.
        set (w0 := match t_wild n with Some w => w | None => leaf "wildcard" end).
        set (n1 := match t_wild n with Some w => n | None => child_created n end).
        assert (Hadd' : match add_node true f w0 (sdrop (next_sep prest) prest)
                                (wk ++ [stake (next_sep prest) prest]) false fin with
                        | AOk w' => AOk (set_wild n1 w') | x => x end = AOk n').
        { unfold w0, n1. destruct (t_wild n); exact Hadd. }
        clear Hadd.
        destruct (add_node true f w0 (sdrop (next_sep prest) prest) (wk ++ [stake (next_sep prest) prest]) false fin)
          as [w'| |] eqn:Erec; try discriminate.
        inversion Hadd'; subst n'. clear Hadd'.
        assert (Hw0 : WF w0 /\ Inv es (pos ++ [FW]) w0).
        { unfold w0. destruct (t_wild n) as [ww|] eqn:Ew.
          - inversion Hwf as [n00 Hwfs0 Hwfw0]; subst n00. split; [auto | apply Hw; reflexivity].
          - split; [apply WF_leaf | apply Inv_leaf]. }
        destruct Hw0 as [Hw0wf Hw0inv].
        destruct (IH w0 (sdrop (next_sep prest) prest) (wk ++ [stake (next_sep prest) prest]) false (pos ++ [FW]) w')
          as (R1 & R2 & R3); try assumption.
        { cbn [mode_of]. rewrite <- app_assoc. exact Hpos. }
        { cbn [mode_of]. rewrite <- app_assoc. exact Hnames. }
        assert (Hn1 : t_values n1 = t_values n /\ t_keys n1 = t_keys n /\ t_statics n1 = t_statics n /\
                      t_catch n1 = t_catch n /\ t_path n1 = t_path n).
        { unfold n1. destruct (t_wild n); simpl; repeat split. }
        destruct Hn1 as (E1 & E2 & E3 & E4 & E5).
        split; [|split].
        -- inversion Hwf as [n00 Hwfs0 Hwfw0]; subst n00. constructor; simpl; rewrite ?E3; [assumption|].
           intros w E. inversion E; subst. assumption.
        -- constructor; simpl; rewrite ?E1, ?E2, ?E3, ?E4.
           ++ intros v Hin. apply entry_ok_mono. auto.
           ++ exact Hk0.
           ++ rewrite Forall_forall in *. intros ct Hin. apply Inv_mono. auto.
           ++ intros w E. inversion E; subst. assumption.
           ++ intros c E v Hin. apply entry_ok_mono. eauto.
        -- simpl. exact E5.
      * (* static token *)
        assert (Hnw : ins = false -> Ascii.eqb token "*" = false /\ Ascii.eqb token ":" = false).
        { intros ->. cbn [negb andb] in Estar, Ecolon. auto. }
        inversion Hinv as [pos0 n0 Hv Hk0 Hst Hw Hc]; subst pos0 n0.
        assert (Hhead := this_tok'_head ins token prest). fold path in Hhead.
        destruct Hhead as (trest & Htok).
        destruct (find_static (tok' ins path) (t_statics n)) as [child|] eqn:Efs.
        -- (* an existing child, possibly split *)
           assert (Hin := find_static_In _ _ _ Efs).
           inversion Hwf as [n0 Hwfs Hwfw]; subst n0.
           assert (Hch : head_is (tok' ins path) (t_path child) /\ WF child).
           { rewrite Forall_forall in Hwfs. apply (Hwfs _ Hin). }
           destruct Hch as [(crest & Hcp) Hcwf].
           assert (Hcinv : Inv es (pos ++ fcs (t_path child)) child).
           { rewrite Forall_forall in Hst. apply (Hst _ Hin). }
           destruct (split_common_prefix child (this_tok' ins path)) as [child1 split] eqn:Esp.
           destruct (split_inv es pos child _ _ _ _ Hcp Htok Hcwf Hcinv _ _ Esp) as (Hsplit & Hp1 & Hwf1 & Hinv1).
           destruct (add_node true f child1 (sdrop (if is_esc ins path then S split else split) path) wk
                              (negb (Ascii.eqb (tok' ins path) "/")) fin) as [child2| |] eqn:Erec; try discriminate.
           inversion Hadd; subst n'. clear Hadd.
           assert (Hcons := static_consume ins token prest split Hnw Hsplit). fold path in Hcons.
           destruct (IH child1 (sdrop (if is_esc ins path then S split else split) path) wk
                        (negb (Ascii.eqb (tok' ins path) "/")) (pos ++ fcs (t_path child1)) child2) as (R1 & R2 & R3); try assumption.
           { rewrite after_mode_of, <- app_assoc, Hp1, <- erase_ecs, <- erase_app, <- Hcons. exact Hpos. }
           { rewrite after_mode_of. rewrite Hcons, enames_app, enames_ecs in Hnames. exact Hnames. }
           split; [|split; [|reflexivity]].
           ++ constructor; simpl; [|assumption].
              apply replace_static_Forall; [assumption|]. intros t _. simpl. split; [|assumption].
              rewrite R3, Hp1, Htok. destruct split as [|s0]; [lia|]. cbn [stake]. eexists. reflexivity.
           ++ constructor; simpl.
              ** intros v Hin'. apply entry_ok_mono. auto.
              ** exact Hk0.
              ** apply replace_static_Forall.
                 --- rewrite Forall_forall in *. intros ct Hin'. apply Inv_mono. auto.
                 --- intros t _. simpl. rewrite R3. exact R2.
              ** intros w E. apply Inv_mono. auto.
              ** intros c E v Hin'. apply entry_ok_mono. eauto.
        -- (* a new child for the whole token *)
           destruct (add_node true f (leaf (this_tok' ins path)) (sdrop (tok_end path) path) wk
                              (negb (Ascii.eqb (tok' ins path) "/")) fin) as [child'| |] eqn:Erec; try discriminate.
           inversion Hadd; subst n'. clear Hadd.
           assert (Hlen : 1 <= slen (this_tok' ins path) <= slen (this_tok' ins path)).
           { rewrite Htok, slen_cons. lia. }
           assert (Hcons := static_consume ins token prest _ Hnw Hlen). fold path in Hcons.
           rewrite stake_all in Hcons by lia.
           assert (Hdrop : sdrop (if is_esc ins path then S (slen (this_tok' ins path)) else slen (this_tok' ins path)) path
                           = sdrop (tok_end path) path).
           { f_equal. apply this_tok'_len. }
           rewrite Hdrop in Hcons.
           destruct (IH (leaf (this_tok' ins path)) (sdrop (tok_end path) path) wk (negb (Ascii.eqb (tok' ins path) "/"))
                        (pos ++ fcs (this_tok' ins path)) child') as (R1 & R2 & R3);
             try assumption.
           { rewrite after_mode_of, <- app_assoc, <- erase_ecs, <- erase_app, <- Hcons. exact Hpos. }
           { rewrite after_mode_of. rewrite Hcons, enames_app, enames_ecs in Hnames. exact Hnames. }
           { apply WF_leaf. }
           { apply Inv_leaf. }
           simpl in R3.
           split; [|split; [|reflexivity]].
           ++ inversion Hwf as [n0 Hwfs Hwfw]; subst n0. constructor; simpl; [|assumption].
              apply Forall_app. split; [assumption|]. constructor; [|constructor]. simpl.
              split; [|assumption]. rewrite R3, Htok. eexists. reflexivity.
           ++ constructor; simpl.
              ** intros v Hin'. apply entry_ok_mono. auto.
              ** exact Hk0.
              ** apply Forall_app. split.
                 --- rewrite Forall_forall in *. intros ct Hin'. apply Inv_mono. auto.
                 --- constructor; [|constructor]. simpl. rewrite R3. exact R2.
              ** intros w E. apply Inv_mono. auto.
              ** intros c E v Hin'. apply entry_ok_mono. eauto.
Qed.

End AddOne.

Lemma split_wf child tok c r1 r2 :
  t_path child = String c r1 -> tok = String c r2 -> WF child ->
  forall child1 split, split_common_prefix child tok = (child1, split) ->
  1 <= split <= slen tok /\ t_path child1 = stake split tok /\ WF child1.
Proof.
  intros Hp Ht Hwf child1 split. unfold split_common_prefix.
  destruct (prefix (t_path child) tok) eqn:Epre.
  - intro H. inversion H; subst child1 split. clear H.
    split; [split; [rewrite Hp, slen_cons; lia | apply prefix_slen; assumption]|].
    split; [symmetry; apply prefix_stake; assumption | assumption].
  - set (i := common_prefix_len (t_path child) tok).
    assert (Hi1 : 1 <= i) by (unfold i; rewrite Hp, Ht; apply common_prefix_head).
    destruct (common_prefix_le (t_path child) tok) as [Hia Hib]. fold i in Hia, Hib.
    assert (Hst : stake i (t_path child) = stake i tok) by apply common_prefix_stake.
    destruct (sdrop i (t_path child)) as [|c0 rest0] eqn:Erest.
    + exfalso. assert (E : t_path child = stake i tok).
      { rewrite <- Hst. rewrite <- (stake_sdrop i (t_path child)) at 1. rewrite Erest.
        clear. generalize (stake i (t_path child)). intro s. induction s; simpl; congruence. }
      assert (P : prefix (t_path child) tok = true).
      { rewrite E. rewrite <- (stake_sdrop i tok) at 2. apply prefix_app. }
      congruence.
    + intro H. inversion H; subst child1 split. clear H. simpl.
      split; [lia|]. split; [reflexivity|].
      constructor; simpl; [|discriminate]. constructor; [|constructor]. simpl. split.
      * exists rest0. reflexivity.
      * apply WF_set_path. assumption.
Qed.

(* ------------------------------------------------------------------ accepted expressions are valid *)

(** "no segments are allowed after a free wildcard": the name of a free wildcard contains no '/' *)
Definition no_slash (s : string) : Prop := next_sep s = slen s.
Definition valid_from (md : mode) (s : string) : Prop :=
  forall n, In (EX n) (fposm md s) -> no_slash n.
Definition valid_expr (e : string) : Prop := valid_from MSeg e.

Lemma In_EX_ecs n s : ~ In (EX n) (ecs s).
Proof. unfold ecs. induction (chars s) as [|c r IH]; simpl; [tauto|]. intros [H|H]; [discriminate | auto]. Qed.

(** [Add] accepts only valid expressions (the same walk as [add_node_inv], without the stored entries) *)
Lemma add_node_valid flag v : forall fuel n path wk ins n',
  WF n -> add_node true fuel n path wk ins (put_value flag v) = AOk n' ->
  WF n' /\ t_path n' = t_path n /\ valid_from (mode_of ins) path.
Proof.
  set (fin := put_value flag v).
  induction fuel as [|f IH]; intros n path wk ins n' Hwf Hadd; [discriminate|].
  assert (Hwf' : forall k, WF (fin (set_keys n k))).
  { intro k. inversion Hwf as [n00 Hwfs0 Hwfw0]; subst n00. constructor; assumption. }
  destruct path as [|token prest].
  - simpl in Hadd. split; [|split; [|intros x []]].
    + destruct (is_nil wk).
      * inversion Hadd; subst n'. replace (fin n) with (fin (set_keys n (t_keys n))) by (destruct n; reflexivity). apply Hwf'.
      * destruct (negb (is_nil (t_keys n)) && negb (list_eqb String.eqb (t_keys n) wk)); [discriminate|].
        inversion Hadd; subst n'. apply Hwf'.
    + destruct (is_nil wk).
      * inversion Hadd; subst n'. reflexivity.
      * destruct (negb (is_nil (t_keys n)) && negb (list_eqb String.eqb (t_keys n) wk)); [discriminate|].
        inversion Hadd; subst n'. reflexivity.
  - rewrite add_node_cons in Hadd. cbv zeta in Hadd.
    set (path := String token prest) in *.
    destruct (negb ins && Ascii.eqb token "*") eqn:Estar.
    + apply andb_true_iff in Estar as [Ei Et]. apply negb_true_iff in Ei. subst ins.
      apply Ascii.eqb_eq in Et. subst token.
      assert (Hnosl := index_byte_next_sep path).
      destruct (index_byte "/" path) as [k|] eqn:Eib; [discriminate|].
      set (c0 := match t_catch n with Some c => c | None => leaf (sdrop 1 (this_tok path)) end).
      set (n1 := match t_catch n with Some c => n | None => child_created n end).
      assert (Hadd' : (if negb (String.eqb (sdrop 1 path) (t_path c0)) then AInvalid else
                       if true && negb (is_nil (t_keys c0)) &&
                          negb (list_eqb String.eqb (t_keys c0) (wk ++ [sdrop 1 (this_tok path)]))
                       then AInvalid else AOk (set_catch n1 (fin (set_keys c0 (wk ++ [sdrop 1 (this_tok path)]))))) = AOk n').
      { unfold c0, n1. destruct (t_catch n); exact Hadd. }
      clear Hadd. destruct (negb (String.eqb (sdrop 1 path) (t_path c0))); [discriminate|].
      destruct (true && _ && _); [discriminate|]. inversion Hadd'; subst n'. clear Hadd'.
      assert (Hn1 : t_statics n1 = t_statics n /\ t_wild n1 = t_wild n /\ t_path n1 = t_path n).
      { unfold n1. destruct (t_catch n); simpl; repeat split. }
      destruct Hn1 as (E3 & E4 & E5).
      split; [|split].
      * inversion Hwf as [n00 Hwfs0 Hwfw0]; subst n00. constructor; simpl; rewrite ?E3, ?E4; assumption.
      * simpl. exact E5.
      * intros x Hx. unfold path in Hx. cbn [mode_of] in Hx. rewrite fposm_seg in Hx.
        change (Ascii.eqb "*" "*") with true in Hx. cbv iota in Hx. destruct Hx as [Hx|[]]. inversion Hx; subst x.
        unfold no_slash. unfold path in Hnosl. rewrite next_sep_cons in Hnosl.
        change (Ascii.eqb slash "*") with false in Hnosl. rewrite slen_cons in Hnosl. lia.
    + destruct (negb ins && Ascii.eqb token ":") eqn:Ecolon.
      * apply andb_true_iff in Ecolon as [Ei Et]. apply negb_true_iff in Ei. subst ins.
        apply Ascii.eqb_eq in Et. subst token.
        assert (Hte : tok_end path = S (next_sep prest)) by (apply tok_end_nonslash; reflexivity).
        rewrite Hte in Hadd. unfold path in Hadd. cbn [sdrop] in Hadd.
        set (w0 := match t_wild n with Some w => w | None => leaf "wildcard" end).
        set (n1 := match t_wild n with Some w => n | None => child_created n end).
        set (wk' := wk ++ [sdrop 1 (this_tok (String ":" prest))]) in *.
        assert (Hadd' : match add_node true f w0 (sdrop (next_sep prest) prest) wk' false fin with
                        | AOk w' => AOk (set_wild n1 w') | x => x end = AOk n').
        { unfold w0, n1. destruct (t_wild n); exact Hadd. }
        clear Hadd.
        destruct (add_node true f w0 (sdrop (next_sep prest) prest) wk' false fin) as [w'| |] eqn:Erec; try discriminate.
        inversion Hadd'; subst n'. clear Hadd'.
        assert (Hw0 : WF w0).
        { unfold w0. destruct (t_wild n) as [ww|] eqn:Ew; [|apply WF_leaf].
          inversion Hwf as [n00 Hwfs0 Hwfw0]; subst n00. auto. }
        destruct (IH w0 _ _ false w' Hw0 Erec) as (R1 & R3 & R4).
        assert (Hn1 : t_statics n1 = t_statics n /\ t_path n1 = t_path n).
        { unfold n1. destruct (t_wild n); simpl; repeat split. }
        destruct Hn1 as (E3 & E5).
        split; [|split].
        -- inversion Hwf as [n00 Hwfs0 Hwfw0]; subst n00. constructor; simpl; rewrite ?E3; [assumption|].
           intros w E. inversion E; subst. assumption.
        -- simpl. exact E5.
        -- intros x Hx. unfold path in Hx. cbn [mode_of] in Hx. rewrite fposm_seg in Hx.
           change (Ascii.eqb ":" "*") with false in Hx. change (Ascii.eqb ":" ":") with true in Hx.
           cbv iota in Hx. rewrite name_skip in Hx. destruct Hx as [Hx|Hx]; [discriminate|].
           apply (R4 x). exact Hx.
      * assert (Hnw : ins = false -> Ascii.eqb token "*" = false /\ Ascii.eqb token ":" = false).
        { intros ->. cbn [negb andb] in Estar, Ecolon. auto. }
        assert (Hhead := this_tok'_head ins token prest). fold path in Hhead.
        destruct Hhead as (trest & Htok).
        destruct (find_static (tok' ins path) (t_statics n)) as [child|] eqn:Efs.
        -- assert (Hin := find_static_In _ _ _ Efs).
           inversion Hwf as [n0 Hwfs Hwfw]; subst n0.
           assert (Hch : head_is (tok' ins path) (t_path child) /\ WF child).
           { rewrite Forall_forall in Hwfs. apply (Hwfs _ Hin). }
           destruct Hch as [(crest & Hcp) Hcwf].
           destruct (split_common_prefix child (this_tok' ins path)) as [child1 split] eqn:Esp.
           destruct (split_wf child _ _ _ _ Hcp Htok Hcwf _ _ Esp) as (Hsplit & Hp1 & Hwf1).
           destruct (add_node true f child1 (sdrop (if is_esc ins path then S split else split) path) wk
                              (negb (Ascii.eqb (tok' ins path) "/")) fin) as [child2| |] eqn:Erec; try discriminate.
           inversion Hadd; subst n'. clear Hadd.
           assert (Hcons := static_consume ins token prest split Hnw Hsplit). fold path in Hcons.
           destruct (IH child1 _ _ _ child2 Hwf1 Erec) as (R1 & R3 & R4).
           split; [|split; [reflexivity|]].
           ++ constructor; simpl; [|assumption].
              apply replace_static_Forall; [assumption|]. intros t _. simpl. split; [|assumption].
              rewrite R3, Hp1, Htok. destruct split as [|s0]; [lia|]. cbn [stake]. eexists. reflexivity.
           ++ intros x Hx. rewrite Hcons in Hx. apply in_app_or in Hx as [Hx|Hx]; [exfalso; exact (In_EX_ecs _ _ Hx)|].
              rewrite <- after_mode_of in Hx. apply (R4 x Hx).
        -- destruct (add_node true f (leaf (this_tok' ins path)) (sdrop (tok_end path) path) wk
                              (negb (Ascii.eqb (tok' ins path) "/")) fin) as [child'| |] eqn:Erec; try discriminate.
           inversion Hadd; subst n'. clear Hadd.
           assert (Hlen : 1 <= slen (this_tok' ins path) <= slen (this_tok' ins path)).
           { rewrite Htok, slen_cons. lia. }
           assert (Hcons := static_consume ins token prest _ Hnw Hlen). fold path in Hcons.
           rewrite stake_all in Hcons by lia.
           assert (Hdrop : sdrop (if is_esc ins path then S (slen (this_tok' ins path)) else slen (this_tok' ins path)) path
                           = sdrop (tok_end path) path).
           { f_equal. apply this_tok'_len. }
           rewrite Hdrop in Hcons.
           destruct (IH (leaf (this_tok' ins path)) _ _ _ child' (WF_leaf _) Erec) as (R1 & R3 & R4).
           simpl in R3.
           split; [|split; [reflexivity|]].
           ++ inversion Hwf as [n0 Hwfs Hwfw]; subst n0. constructor; simpl; [|assumption].
              apply Forall_app. split; [assumption|]. constructor; [|constructor]. simpl.
              split; [|assumption]. rewrite R3, Htok. eexists. reflexivity.
           ++ intros x Hx. rewrite Hcons in Hx. apply in_app_or in Hx as [Hx|Hx]; [exfalso; exact (In_EX_ecs _ _ Hx)|].
              rewrite <- after_mode_of in Hx. apply (R4 x Hx).
Qed.

(* ------------------------------------------------------------------ the whole table *)

Lemma add_entries_inv : forall rest done t t',
  WF t -> Inv done [] t ->
  add_entries true t (length done) rest = AOk t' ->
  WF t' /\ Inv (done ++ rest) [] t'.
Proof.
  induction rest as [|e r IH]; intros done t t' Hwf Hinv Hadd; simpl in Hadd.
  - inversion Hadd; subst. rewrite app_nil_r. auto.
  - unfold tree_add in Hadd.
    destruct (add_node true (S (S (slen (ce_path e)))) t (ce_path e) [] false (put_value (ce_bt e) (length done)))
      as [t1| |] eqn:E1; try discriminate.
    destruct (add_node_inv done e (ce_bt e) (S (S (slen (ce_path e)))) t (ce_path e) [] false [] t1) as (W1 & I1 & _); auto.
    replace (S (length done)) with (length (done ++ [e])) in Hadd by (rewrite app_length; simpl; lia).
    destruct (IH (done ++ [e]) t1 t' W1 I1 Hadd) as (W2 & I2).
    rewrite <- app_assoc in I2. auto.
Qed.

Lemma loaded_inv fx4 ds es t : load true fx4 ds = Loaded es t -> WF t /\ Inv es [] t.
Proof.
  unfold load. destruct (create_rules fx4 ds) as [cs|]; [|discriminate].
  destruct (add_entries true empty_tree 0 (entries_of 0 cs)) as [t0| |] eqn:E; try discriminate.
  intro H. inversion H; subst. clear H.
  apply (add_entries_inv (entries_of 0 cs) [] empty_tree t); [apply WF_leaf | apply Inv_leaf | exact E].
Qed.

(* ------------------------------------------------------------------ from positions of nodes to entries *)

Fixpoint flat (pi : list piece) : list fpiece :=
  match pi with
  | [] => []
  | PS s :: r => fcs s ++ flat r
  | PW :: r => FW :: flat r
  | PC :: r => FX :: flat r
  end.

Lemma at_pos_entry es : forall t pi node, at_pos t pi node ->
  forall pos v, Inv es pos t -> In v (t_values node) -> entry_ok es (pos ++ flat pi) (t_keys node) v.
Proof.
  intros t pi node H. induction H as [t|t c child pi n Hin Hat IH|t w pi n Hw Hat IH|t c Hc];
    intros pos v Hinv Hv; inversion Hinv as [pos0 n0 Hvs Hk0 Hst Hww Hcc]; subst pos0 n0.
  - simpl. rewrite app_nil_r. auto.
  - simpl. rewrite app_assoc. apply IH; [|assumption].
    rewrite Forall_forall in Hst. apply (Hst _ Hin).
  - simpl. change (FW :: flat pi) with ([FW] ++ flat pi). rewrite app_assoc. apply IH; [|assumption]. auto.
  - simpl. eauto.
Qed.

(** every expression of a loaded table is valid *)
Lemma add_entries_valid : forall rest vid t t',
  WF t -> add_entries true t vid rest = AOk t' -> Forall (fun e => valid_expr (ce_path e)) rest.
Proof.
  induction rest as [|e r IH]; intros vid t t' Hwf Hadd; [constructor|]. simpl in Hadd. unfold tree_add in Hadd.
  destruct (add_node true (S (S (slen (ce_path e)))) t (ce_path e) [] false (put_value (ce_bt e) vid))
    as [t1| |] eqn:E1; try discriminate.
  destruct (add_node_valid _ _ _ _ _ _ _ _ Hwf E1) as (W1 & _ & V1).
  constructor; [exact V1 | exact (IH _ _ _ W1 Hadd)].
Qed.

Lemma loaded_valid fx4 ds es t :
  load true fx4 ds = Loaded es t -> Forall (fun e => valid_expr (ce_path e)) es.
Proof.
  unfold load. destruct (create_rules fx4 ds) as [cs|]; [|discriminate].
  destruct (add_entries true empty_tree 0 (entries_of 0 cs)) as [t0| |] eqn:E; try discriminate.
  intro H. inversion H; subst. clear H.
  apply (add_entries_valid _ _ _ _ (WF_leaf "") E).
Qed.
