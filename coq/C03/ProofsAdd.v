(** C03 — the insertion side of the lookup tree: where [Add] puts the value of a path
    expression and which wildcard names it records there, for all trees built by [Add]
    (prefix splitting included).  Positions are byte-level: a static byte, a single wildcard,
    a free wildcard. *)
From HV Require Import Base.Prelude C03.Model C03.Spec C03.Proofs.
Open Scope string_scope.
Open Scope list_scope.
Local Arguments Ascii.eqb : simpl never.

(* ------------------------------------------------------------------ positions of path expressions *)

(** one step of a path expression as [addNode] reads it *)
Inductive epiece := EC (c : ascii) | EW (name : string) | EX (name : string).

(** a step of a position in the tree *)
Inductive fpiece := FC (c : ascii) | FW | FX.

Definition erase1 (p : epiece) : fpiece :=
  match p with EC c => FC c | EW _ => FW | EX _ => FX end.
Definition erase (l : list epiece) : list fpiece := map erase1 l.

Fixpoint enames (l : list epiece) : list string :=
  match l with
  | [] => []
  | EC _ :: r => enames r
  | EW n :: r => n :: enames r
  | EX n :: r => n :: enames r
  end.

Fixpoint count_wild (l : list fpiece) : nat :=
  match l with
  | [] => 0
  | FC _ :: r => count_wild r
  | _ :: r => S (count_wild r)
  end.

Lemma enames_count l : length (enames l) = count_wild (erase l).
Proof. induction l as [|[c|n|n] r IH]; simpl; congruence. Qed.

Lemma enames_app a b : enames (a ++ b) = enames a ++ enames b.
Proof. induction a as [|[c|n|n] r IH]; simpl; congruence. Qed.

Lemma erase_app a b : erase (a ++ b) = erase a ++ erase b.
Proof. apply map_app. Qed.

Fixpoint chars (s : string) : list ascii :=
  match s with EmptyString => [] | String c r => c :: chars r end.

Definition ecs (s : string) : list epiece := map EC (chars s).
Definition fcs (s : string) : list fpiece := map FC (chars s).

Lemma erase_ecs s : erase (ecs s) = fcs s.
Proof. unfold erase, ecs, fcs. rewrite map_map. reflexivity. Qed.

Lemma enames_ecs s : enames (ecs s) = [].
Proof. induction s; simpl; auto. Qed.

Lemma chars_app a b : chars (a ++ b)%string = chars a ++ chars b.
Proof. induction a; simpl; congruence. Qed.

Lemma fcs_app a b : fcs (a ++ b)%string = fcs a ++ fcs b.
Proof. unfold fcs. rewrite chars_app, map_app. reflexivity. Qed.

(** how [addNode] reads the rest of an expression: at the start of a segment ([MSeg],
    wildcards and escapes are recognised), inside a static token ([MStat]), and — only to make
    the definition structural — while skipping the name of a single wildcard ([MName]) *)
Inductive mode := MSeg | MStat | MName.

Definition slash : ascii := "/"%char.

Definition after (c : ascii) : mode := if Ascii.eqb c slash then MSeg else MStat.

Fixpoint fposm (md : mode) (s : string) : list epiece :=
  match s with
  | EmptyString => []
  | String c r =>
    match md with
    | MName => if Ascii.eqb c slash then EC c :: fposm MSeg r else fposm MName r
    | MStat => EC c :: fposm (after c) r
    | MSeg =>
      if Ascii.eqb c "*" then [EX r]
      else if Ascii.eqb c ":" then EW (stake (next_sep r) r) :: fposm MName r
      else if Ascii.eqb c "\" then
        match r with
        | String c2 r2 => if is_special c2 then EC c2 :: fposm MStat r2 else EC c :: fposm MStat r
        | EmptyString => [EC c]
        end
      else EC c :: fposm (after c) r
    end
  end.

Lemma fposm_name c r :
  fposm MName (String c r) = if Ascii.eqb c slash then EC c :: fposm MSeg r else fposm MName r.
Proof. reflexivity. Qed.
Lemma fposm_stat c r : fposm MStat (String c r) = EC c :: fposm (after c) r.
Proof. reflexivity. Qed.
Lemma fposm_seg c r :
  fposm MSeg (String c r) =
  if Ascii.eqb c "*" then [EX r]
  else if Ascii.eqb c ":" then EW (stake (next_sep r) r) :: fposm MName r
  else if Ascii.eqb c "\" then
    match r with
    | String c2 r2 => if is_special c2 then EC c2 :: fposm MStat r2 else EC c :: fposm MStat r
    | EmptyString => [EC c]
    end
  else EC c :: fposm (after c) r.
Proof. reflexivity. Qed.

(** the position and the wildcard names of a path expression *)
Definition epos (e : string) : list epiece := fposm MSeg e.

Definition mode_of (in_static : bool) : mode := if in_static then MStat else MSeg.

(* ------------------------------------------------------------------ string arithmetic *)

Lemma slen_cons c s : slen (String c s) = S (slen s).
Proof. reflexivity. Qed.

Lemma stake_sdrop n s : (stake n s ++ sdrop n s)%string = s.
Proof.
  revert s. induction n as [|n IH]; intros [|c r]; simpl; try reflexivity. rewrite IH. reflexivity.
Qed.

Lemma stake_all n s : slen s <= n -> stake n s = s.
Proof.
  revert s. induction n as [|n IH]; intros [|c r] H; simpl in *; try reflexivity; try (unfold slen in H; simpl in H; lia).
  rewrite IH; [reflexivity|]. unfold slen in *. simpl in H. lia.
Qed.

Lemma sdrop_all n s : slen s <= n -> sdrop n s = "".
Proof.
  revert s. induction n as [|n IH]; intros [|c r] H; simpl in *; try reflexivity; try (unfold slen in H; simpl in H; lia).
  apply IH. unfold slen in *. simpl in H. lia.
Qed.

Lemma slen_stake n s : n <= slen s -> slen (stake n s) = n.
Proof.
  revert s. induction n as [|n IH]; intros [|c r] H; simpl in *; try reflexivity; try (unfold slen in H; simpl in H; lia).
  unfold slen in *. simpl in *. rewrite IH; lia.
Qed.

Lemma stake_stake i j s : i <= j -> stake i (stake j s) = stake i s.
Proof.
  revert j s. induction i as [|i IH]; intros [|j] [|c r] H; simpl; try reflexivity; try lia.
  rewrite IH; [reflexivity | lia].
Qed.

Lemma next_sep_cons c r :
  next_sep (String c r) = if Ascii.eqb slash c then 0 else S (next_sep r).
Proof.
  unfold next_sep.
  change (index_byte "/" (String c r)) with (if Ascii.eqb slash c then Some 0 else option_map S (index_byte "/" r)).
  destruct (Ascii.eqb slash c); [reflexivity|].
  destruct (index_byte "/" r); reflexivity.
Qed.

Lemma next_sep_le s : next_sep s <= slen s.
Proof.
  induction s as [|c r IH]; [unfold next_sep; simpl; unfold slen; simpl; lia|].
  rewrite next_sep_cons, slen_cons. destruct (Ascii.eqb slash c); lia.
Qed.

(** index_byte in terms of next_sep *)
Lemma index_byte_next_sep s :
  match index_byte "/" s with Some k => k = next_sep s /\ k < slen s | None => next_sep s = slen s end.
Proof.
  induction s as [|c r IH]; [reflexivity|].
  rewrite next_sep_cons.
  change (index_byte "/" (String c r)) with (if Ascii.eqb slash c then Some 0 else option_map S (index_byte "/" r)).
  destruct (Ascii.eqb slash c) eqn:E.
  - split; [reflexivity | rewrite slen_cons; lia].
  - destruct (index_byte "/" r) as [k|]; cbn [option_map].
    + destruct IH as [-> H]. split; [reflexivity | rewrite slen_cons; lia].
    + rewrite slen_cons. congruence.
Qed.

(* ------------------------------------------------------------------ reading static bytes *)

(** inside a static token the bytes before the next '/' are read one by one *)
Lemma stat_run s i :
  i <= next_sep s -> fposm MStat s = ecs (stake i s) ++ fposm MStat (sdrop i s).
Proof.
  revert s. induction i as [|i IH]; intros s H.
  - destruct s; reflexivity.
  - destruct s as [|c r]; [unfold next_sep in H; simpl in H; unfold slen in H; simpl in H; lia|].
    rewrite next_sep_cons in H. destruct (Ascii.eqb slash c) eqn:E; [lia|].
    rewrite fposm_stat. unfold after. rewrite Ascii.eqb_sym, E. unfold ecs. simpl. f_equal.
    apply IH. lia.
Qed.

(** skipping the name of a single wildcard ends at the next '/' *)
Lemma name_skip s : fposm MName s = fposm MSeg (sdrop (next_sep s) s).
Proof.
  induction s as [|c r IH]; [reflexivity|].
  rewrite next_sep_cons, fposm_name. rewrite (Ascii.eqb_sym c slash).
  destruct (Ascii.eqb slash c) eqn:E.
  - apply Ascii.eqb_eq in E. subst c. reflexivity.
  - exact IH.
Qed.

(* ------------------------------------------------------------------ the token [addNode] works on *)

Definition tok_end (path : string) : nat :=
  match path with
  | String token _ => if Ascii.eqb token "/" then 1 else next_sep path
  | EmptyString => 0
  end.
Definition this_tok (path : string) : string := stake (tok_end path) path.
Definition is_esc (ins : bool) (path : string) : bool :=
  negb ins && match this_tok path with
              | String "\" (String c2 _) => is_special c2
              | _ => false
              end.
Definition head_or (d : ascii) (s : string) : ascii := match s with String c _ => c | _ => d end.
Definition tok' (ins : bool) (path : string) : ascii :=
  if is_esc ins path then match this_tok path with String _ (String c2 _) => c2 | _ => head_or slash path end
  else head_or slash path.
Definition this_tok' (ins : bool) (path : string) : string :=
  if is_esc ins path then sdrop 1 (this_tok path) else this_tok path.

Lemma special_not_slash c : is_special c = true -> Ascii.eqb c slash = false.
Proof.
  unfold is_special. intro H. apply Ascii.eqb_neq. intro E. subst c. vm_compute in H. discriminate.
Qed.

Lemma after_mode_of c : mode_of (negb (Ascii.eqb c "/")) = after c.
Proof. unfold after, mode_of, slash. destruct (Ascii.eqb c "/"); reflexivity. Qed.

(** characterisation of the escape test on the expression itself *)
Lemma is_esc_spec ins token prest :
  is_esc ins (String token prest) =
  negb ins && Ascii.eqb token "\" &&
  match prest with String c2 _ => is_special c2 | EmptyString => false end.
Proof.
  unfold is_esc, this_tok, tok_end. destruct ins; [reflexivity|]. cbn [negb andb].
  destruct (Ascii.eqb token "/") eqn:Es.
  - apply Ascii.eqb_eq in Es. subst token. reflexivity.
  - rewrite next_sep_cons. rewrite Ascii.eqb_sym in Es. unfold slash. rewrite Es.
    cbn [stake].
    destruct (Ascii.eqb token "\") eqn:Eb.
    + apply Ascii.eqb_eq in Eb. subst token.
      destruct prest as [|c2 r2]; [reflexivity|].
      rewrite next_sep_cons. destruct (Ascii.eqb slash c2) eqn:E2.
      * apply Ascii.eqb_eq in E2. subst c2. reflexivity.
      * reflexivity.
    + destruct token as [[] [] [] [] [] [] [] []]; try reflexivity. vm_compute in Eb. discriminate.
Qed.

Lemma tok_end_nonslash token prest :
  Ascii.eqb token "/" = false -> tok_end (String token prest) = S (next_sep prest).
Proof.
  intro H. unfold tok_end. rewrite H, next_sep_cons. unfold slash. rewrite Ascii.eqb_sym, H. reflexivity.
Qed.

(** reading [j] bytes of the static token at the front of an expression: they are static
    bytes of the position (the escaping backslash is not one of them), and reading goes on
    inside the token, or at a segment start after a '/' *)
Lemma static_consume ins token prest j :
  (ins = false -> Ascii.eqb token "*" = false /\ Ascii.eqb token ":" = false) ->
  1 <= j <= slen (this_tok' ins (String token prest)) ->
  fposm (mode_of ins) (String token prest) =
  ecs (stake j (this_tok' ins (String token prest))) ++
  fposm (after (tok' ins (String token prest)))
        (sdrop (if is_esc ins (String token prest) then S j else j) (String token prest)).
Proof.
  intros Hw Hj. set (path := String token prest) in *.
  destruct (Ascii.eqb token "/") eqn:Es.
  - (* the token is the separator itself *)
    apply Ascii.eqb_eq in Es. subst token.
    assert (Ee : is_esc ins path = false).
    { unfold path. rewrite is_esc_spec. destruct ins; reflexivity. }
    unfold this_tok', tok' in *. rewrite Ee in *. unfold this_tok, tok_end, path in *.
    change (Ascii.eqb "/" "/") with true in *. cbn [stake head_or] in *.
    assert (j = 1) by (unfold slen in Hj; simpl in Hj; lia). subst j.
    cbn [stake sdrop]. destruct ins; reflexivity.
  - assert (Hte := tok_end_nonslash token prest Es).
    assert (Hk := next_sep_le prest). set (k := next_sep prest) in *.
    assert (Htt : this_tok path = String token (stake k prest)).
    { unfold this_tok, path. rewrite Hte. reflexivity. }
    destruct (is_esc ins path) eqn:Ee.
    + (* escaped special byte *)
      unfold path in Ee. rewrite is_esc_spec in Ee.
      apply andb_true_iff in Ee as [Ee Esp]. apply andb_true_iff in Ee as [Ei Eb].
      destruct ins; [discriminate|]. apply Ascii.eqb_eq in Eb. subst token.
      destruct prest as [|c2 r2]; [discriminate|].
      assert (Ens := special_not_slash _ Esp).
      assert (Hk2 := next_sep_le r2).
      assert (Ek : k = S (next_sep r2)).
      { unfold k. rewrite next_sep_cons, Ascii.eqb_sym, Ens. reflexivity. }
      assert (Eesc : is_esc false path = true).
      { unfold path. rewrite is_esc_spec. simpl. exact Esp. }
      unfold this_tok', tok' in *. rewrite Eesc in *. rewrite Htt in *. rewrite Ek in *.
      cbn [stake sdrop] in *.
      assert (Hl : slen (String c2 (stake (next_sep r2) r2)) = S (next_sep r2)).
      { rewrite slen_cons, slen_stake; [reflexivity | assumption]. }
      rewrite Hl in Hj. destruct j as [|j0]; [lia|].
      cbn [stake]. rewrite stake_stake by lia.
      unfold path. cbn [sdrop mode_of]. rewrite fposm_seg.
      change (Ascii.eqb "\" "*") with false. change (Ascii.eqb "\" ":") with false.
      change (Ascii.eqb "\" "\") with true. cbv iota. rewrite Esp.
      unfold after. rewrite Ens. unfold ecs. cbn [chars map app]. f_equal.
      apply stat_run. lia.
    + (* plain static bytes *)
      unfold this_tok', tok' in *. rewrite Ee in *. rewrite Htt in *.
      unfold path. cbn [head_or]. fold path.
      assert (Hl : slen (String token (stake k prest)) = S k).
      { rewrite slen_cons, slen_stake; [reflexivity | assumption]. }
      rewrite Hl in Hj. destruct j as [|j0]; [lia|].
      cbn [stake]. rewrite stake_stake by lia. unfold path. cbn [sdrop].
      unfold after at 1. unfold slash. rewrite Es.
      unfold ecs. cbn [chars map app].
      assert (Hrun : fposm MStat prest = ecs (stake j0 prest) ++ fposm MStat (sdrop j0 prest)).
      { apply stat_run. fold k. lia. }
      destruct ins; cbn [mode_of].
      * rewrite fposm_stat. unfold after, slash. rewrite Es. f_equal. exact Hrun.
      * destruct (Hw eq_refl) as [Hs Hc]. rewrite fposm_seg, Hs, Hc.
        unfold path in Ee. rewrite is_esc_spec in Ee. cbn [negb andb] in Ee.
        destruct (Ascii.eqb token "\") eqn:Eb.
        -- destruct prest as [|c2 r2].
           ++ unfold k in *. assert (j0 = 0) by (unfold next_sep in Hj; simpl in Hj; unfold slen in Hj; simpl in Hj; lia).
              subst j0. reflexivity.
           ++ cbn [andb] in Ee. rewrite Ee. f_equal. exact Hrun.
        -- unfold after, slash. rewrite Es. f_equal. exact Hrun.
Qed.
