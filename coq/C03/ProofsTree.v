(** C03 — proofs about the lookup tree of Model.v: what keys and values the tree
    hands to the matcher of a route, and what the pipeline gets as captures. *)
From HV Require Import Base.Prelude C03.Model C03.Spec C03.Proofs.
Open Scope string_scope.
Open Scope list_scope.

(* ------------------------------------------------------------------ the statement, per matcher call *)

(** the matcher of route [k_vid k] is asked with the wildcard names that route
    declares and the segments its wildcards matched *)
Definition call_sees_route (tbl : list sroute) (q : request) (k : call) : Prop :=
  forall s segs, nth_error tbl (k_vid k) = Some s -> sr_segs s q = Some segs ->
    k_keys k = declared_names (sr_tokens s) /\ k_vals k = segs.

(** and answers as the documented conditions say *)
Definition call_answers_spec (eng : engine) (tbl : list sroute) (q : request) (k : call) : Prop :=
  forall s segs, nth_error tbl (k_vid k) = Some s -> sr_segs s q = Some segs ->
    k_res k = spec_answer eng s q segs.

(* ------------------------------------------------------------------ finding guards *)

(** C03-F2 (pinned tree, before commit 88da16a): the route ends in a free wildcard (its
    matcher gets the parent node's keys and the captures without the free wildcard's value) *)
Definition guard_F2 (s : sroute) : bool := ends_in_free (sr_tokens s).

(** ... which changes the answer when the route has path_params *)
Definition guard_F2_params (s : sroute) : bool :=
  ends_in_free (sr_tokens s) && negb (is_nil (rt_params (sr_route s))).

Definition shape (ts : list token) : list token :=
  map (fun t => match t with Lit s => Lit s | Wild _ => Wild "" | Free _ => Free "" end) ts.
Definition token_eqb (a b : token) : bool :=
  match a, b with
  | Lit x, Lit y | Wild x, Wild y | Free x, Free y => String.eqb x y
  | _, _ => false
  end.

(** C03-F3: another route with the same expression up to wildcard names, ending in
    a free wildcard, declares different names *)
Definition guard_F3 (tbl : list sroute) (s : sroute) : bool :=
  ends_in_free (sr_tokens s) &&
  existsb (fun s' => list_eqb token_eqb (shape (sr_tokens s')) (shape (sr_tokens s)) &&
                     negb (strs_eqb (declared_names (sr_tokens s')) (declared_names (sr_tokens s)))) tbl.

Definition calls_eqb := list_eqb call_eqb.

(** C03-F5 (pinned tree, before commit 16cf34b): the request is served differently by the
    tree with and without the repair of [findNode]'s dead-end returns *)
Definition guard_F5 (fx2 fx6 fx7 : bool) (eng : engine) (es : list centry) (t : tree) (q : request) : bool :=
  let a := serve fx2 false fx6 fx7 eng es t q in
  let b := serve fx2 true fx6 fx7 eng es t q in
  negb (outcome_eqb (fst a) (fst b) && calls_eqb (snd a) (snd b)).

(* ------------------------------------------------------------------ findings: witnesses on loaded rule sets *)

Definition served (fx2 fx5 fx6 fx7 : bool) (ds : list ruledef) (q : request) : option (outcome * list call) :=
  match load false ds with Loaded es t => Some (serve fx2 fx5 fx6 fx7 eng_none es t q) | _ => None end.

(** C03-F2: /f/*rest with path_params rest = "x/y"; GET /f/x/y: the matcher is asked
    with no keys and no values, answers no, the request finds no rule *)
Lemma F2_pinned_refuted :
  exists ds q k s segs,
    served false true true true ds q = Some (ONone, [k]) /\
    nth_error (flat_routes 0 ds) (k_vid k) = Some s /\ guard_F2_params s = true /\
    sr_segs s q = Some segs /\
    ~ call_sees_route (flat_routes 0 ds) q k /\
    k_res k = MNo /\ spec_answer eng_none s q segs = MYes.
Proof.
  exists [w_rule [] [] [w_route "/f/*rest" [{| pp_name := "rest"; pp_tm := w_exact "x/y" |}]] SOff].
  exists (w_req "GET" "h" "/f/x/y"). eexists. eexists. eexists.
  split; [vm_compute; reflexivity|]. split; [vm_compute; reflexivity|].
  split; [vm_compute; reflexivity|]. split; [vm_compute; reflexivity|].
  split; [|split; vm_compute; reflexivity].
  intro H. destruct (H _ _ eq_refl eq_refl) as [H1 _]. vm_compute in H1. discriminate.
Qed.

(** C03-F3 (pinned tree, before commit 20f92b3): /:a/*c (GET) then /:b/*c (POST); GET /1/2/3 is served by the first rule
    with the captures {b: 1, c: 2/3} *)
Lemma F3_pinned_refuted :
  exists ds q k s segs caps sc,
    served true true true true ds q = Some (ORule 0 caps false, [k]) /\
    nth_error (flat_routes 0 ds) (k_vid k) = Some s /\ sr_rule s = 0 /\
    guard_F3 (flat_routes 0 ds) s = true /\
    sr_segs s q = Some segs /\
    spec_captures (rl_slash (sr_def s)) (declared_names (sr_tokens s)) segs = Some sc /\
    caps <> sc.
Proof.
  exists [w_rule ["GET"] [] [w_route "/:a/*c" []] SOff; w_rule ["POST"] [] [w_route "/:b/*c" []] SOff].
  exists (w_req "GET" "h" "/1/2/3"). eexists. eexists. eexists. eexists. eexists.
  split; [vm_compute; reflexivity|]. split; [vm_compute; reflexivity|].
  split; [reflexivity|]. split; [vm_compute; reflexivity|]. split; [vm_compute; reflexivity|].
  split; [vm_compute; reflexivity|]. discriminate.
Qed.

(** C03-F5: /:a/b/c and /:a/:x; GET /1/b is served by the second rule with the
    captures {a: b}; with a path_params condition on x the lookup panics *)
Lemma F5_pinned_refuted :
  exists ds q k s segs caps sc es t,
    load false ds = Loaded es t /\ guard_F5 true true true eng_none es t q = true /\
    served true false true true ds q = Some (ORule 1 caps false, [k]) /\
    nth_error (flat_routes 0 ds) (k_vid k) = Some s /\
    sr_segs s q = Some segs /\
    ~ call_sees_route (flat_routes 0 ds) q k /\
    spec_captures (rl_slash (sr_def s)) (declared_names (sr_tokens s)) segs = Some sc /\
    caps <> sc.
Proof.
  exists [w_rule [] [] [w_route "/:a/b/c" []] SOff; w_rule [] [] [w_route "/:a/:x" []] SOff].
  exists (w_req "GET" "h" "/1/b"). do 7 eexists.
  split; [vm_compute; reflexivity|]. split; [vm_compute; reflexivity|].
  split; [vm_compute; reflexivity|]. split; [vm_compute; reflexivity|].
  split; [vm_compute; reflexivity|].
  split; [|split; [vm_compute; reflexivity | discriminate]].
  intro H. destruct (H _ _ eq_refl eq_refl) as [_ H2]. vm_compute in H2. discriminate.
Qed.

Lemma F5_pinned_panic_refuted :
  exists ds q k es t,
    load false ds = Loaded es t /\ guard_F5 true true true eng_none es t q = true /\
    served true false true true ds q = Some (OPanic, [k]) /\ k_res k = MPanic.
Proof.
  exists [w_rule [] [] [w_route "/:a/b/c" []] SOff;
          w_rule [] [] [w_route "/:a/:x" [{| pp_name := "x"; pp_tm := w_exact "b" |}]] SOff].
  exists (w_req "GET" "h" "/1/b"). do 3 eexists.
  split; [vm_compute; reflexivity|]. split; [vm_compute; reflexivity|].
  split; vm_compute; reflexivity.
Qed.
