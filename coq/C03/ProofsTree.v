(** C03 — proofs about the lookup tree of Model.v: what keys and values the tree
    hands to the matcher of a route, and what the pipeline gets as captures. *)
From HV Require Import Base.Prelude C03.Model C03.Spec C03.Proofs.
Open Scope string_scope.
Open Scope list_scope.

(* ------------------------------------------------------------------ the statement, per matcher call *)

(** the matcher of route [k_vid k] is asked with the wildcard names that route
    declares and the segments its wildcards matched *)
Definition call_sees_route (tbl : list sroute) (q : request) (k : call) : Prop :=
  forall s segs, nth_error tbl (k_vid k) = Some s -> sr_segs s q = Some segs ->
    k_keys k = declared_names (sr_tokens s) /\ k_vals k = segs.

(** and answers as the documented conditions say *)
Definition call_answers_spec (eng : engine) (tbl : list sroute) (q : request) (k : call) : Prop :=
  forall s segs, nth_error tbl (k_vid k) = Some s -> sr_segs s q = Some segs ->
    k_res k = spec_answer eng s q segs.

(* ------------------------------------------------------------------ finding guards *)

(** C03-F2 (pinned tree, before commit 88da16a): the route ends in a free wildcard (its
    matcher gets the parent node's keys and the captures without the free wildcard's value) *)
Definition guard_F2 (s : sroute) : bool := ends_in_free (sr_tokens s).

(** ... which changes the answer when the route has path_params *)
Definition guard_F2_params (s : sroute) : bool :=
  ends_in_free (sr_tokens s) && negb (is_nil (rt_params (sr_route s))).

Definition shape (ts : list token) : list token :=
  map (fun t => match t with Lit s => Lit s | Wild _ => Wild "" | Free _ => Free "" end) ts.
Definition token_eqb (a b : token) : bool :=
  match a, b with
  | Lit x, Lit y | Wild x, Wild y | Free x, Free y => String.eqb x y
  | _, _ => false
  end.

(** C03-F3: another route with the same expression up to wildcard names, ending in
    a free wildcard, declares different names *)
Definition guard_F3 (tbl : list sroute) (s : sroute) : bool :=
  ends_in_free (sr_tokens s) &&
  existsb (fun s' => list_eqb token_eqb (shape (sr_tokens s')) (shape (sr_tokens s)) &&
                     negb (strs_eqb (declared_names (sr_tokens s')) (declared_names (sr_tokens s)))) tbl.

Definition calls_eqb := list_eqb call_eqb.

(** C03-F5 (pinned tree, before commit 16cf34b): the request is served differently by the
    tree with and without the repair of [findNode]'s dead-end returns *)
Definition guard_F5 (fx1 fx2 fx6 : bool) (fx7 : dec) (eng : engine) (es : list centry) (t : tree) (q : request) : bool :=
  let a := serve fx1 fx2 false fx6 fx7 eng es t q in
  let b := serve fx1 fx2 true fx6 fx7 eng es t q in
  negb (outcome_eqb (fst a) (fst b) && calls_eqb (snd a) (snd b)).

(* ------------------------------------------------------------------ findings: witnesses on loaded rule sets *)

Definition served (fx2 fx3 fx5 fx6 : bool) (fx7 : dec) (ds : list ruledef) (q : request) : option (outcome * list call) :=
  match load fx3 false ds with Loaded es t => Some (serve false fx2 fx5 fx6 fx7 eng_none es t q) | _ => None end.

(** C03-F2: /f/*rest with path_params rest = "x/y"; GET /f/x/y: the matcher is asked
    with no keys and no values, answers no, the request finds no rule *)
Lemma F2_pinned_refuted :
  exists ds q k s segs,
    served false true true true D7 ds q = Some (ONone, [k]) /\
    nth_error (flat_routes 0 ds) (k_vid k) = Some s /\ guard_F2_params s = true /\
    sr_segs s q = Some segs /\
    ~ call_sees_route (flat_routes 0 ds) q k /\
    k_res k = MNo /\ spec_answer eng_none s q segs = MYes.
Proof.
  exists [w_rule [] [] [w_route "/f/*rest" [{| pp_name := "rest"; pp_tm := w_exact "x/y" |}]] SOff].
  exists (w_req "GET" "h" "/f/x/y"). eexists. eexists. eexists.
  split; [vm_compute; reflexivity|]. split; [vm_compute; reflexivity|].
  split; [vm_compute; reflexivity|]. split; [vm_compute; reflexivity|].
  split; [|split; vm_compute; reflexivity].
  intro H. destruct (H _ _ eq_refl eq_refl) as [H1 _]. vm_compute in H1. discriminate.
Qed.

(** C03-F3 (pinned tree, before commit 20f92b3): /:a/*c (GET) then /:b/*c (POST); GET /1/2/3 is served by the first rule
    with the captures {b: 1, c: 2/3} *)
Lemma F3_pinned_refuted :
  exists ds q k s segs caps sc,
    served true false true true D7 ds q = Some (ORule 0 caps false, [k]) /\
    nth_error (flat_routes 0 ds) (k_vid k) = Some s /\ sr_rule s = 0 /\
    guard_F3 (flat_routes 0 ds) s = true /\
    sr_segs s q = Some segs /\
    spec_captures (rl_slash (sr_def s)) (declared_names (sr_tokens s)) segs = Some sc /\
    caps <> sc.
Proof.
  exists [w_rule ["GET"] [] [w_route "/:a/*c" []] SOff; w_rule ["POST"] [] [w_route "/:b/*c" []] SOff].
  exists (w_req "GET" "h" "/1/2/3"). eexists. eexists. eexists. eexists. eexists.
  split; [vm_compute; reflexivity|]. split; [vm_compute; reflexivity|].
  split; [reflexivity|]. split; [vm_compute; reflexivity|]. split; [vm_compute; reflexivity|].
  split; [vm_compute; reflexivity|]. discriminate.
Qed.

(** C03-F5: /:a/b/c and /:a/:x; GET /1/b is served by the second rule with the
    captures {a: b}; with a path_params condition on x the lookup panics *)
Lemma F5_pinned_refuted :
  exists ds q k s segs caps sc es t,
    load true false ds = Loaded es t /\ guard_F5 false true true D7 eng_none es t q = true /\
    served true true false true D7 ds q = Some (ORule 1 caps false, [k]) /\
    nth_error (flat_routes 0 ds) (k_vid k) = Some s /\
    sr_segs s q = Some segs /\
    ~ call_sees_route (flat_routes 0 ds) q k /\
    spec_captures (rl_slash (sr_def s)) (declared_names (sr_tokens s)) segs = Some sc /\
    caps <> sc.
Proof.
  exists [w_rule [] [] [w_route "/:a/b/c" []] SOff; w_rule [] [] [w_route "/:a/:x" []] SOff].
  exists (w_req "GET" "h" "/1/b"). do 7 eexists.
  split; [vm_compute; reflexivity|]. split; [vm_compute; reflexivity|].
  split; [vm_compute; reflexivity|]. split; [vm_compute; reflexivity|].
  split; [vm_compute; reflexivity|].
  split; [|split; [vm_compute; reflexivity | discriminate]].
  intro H. destruct (H _ _ eq_refl eq_refl) as [_ H2]. vm_compute in H2. discriminate.
Qed.

Lemma F5_pinned_panic_refuted :
  exists ds q k es t,
    load true false ds = Loaded es t /\ guard_F5 false true true D7 eng_none es t q = true /\
    served true true false true D7 ds q = Some (OPanic, [k]) /\ k_res k = MPanic.
Proof.
  exists [w_rule [] [] [w_route "/:a/b/c" []] SOff;
          w_rule [] [] [w_route "/:a/:x" [{| pp_name := "x"; pp_tm := w_exact "b" |}]] SOff].
  exists (w_req "GET" "h" "/1/b"). do 3 eexists.
  split; [vm_compute; reflexivity|]. split; [vm_compute; reflexivity|].
  split; vm_compute; reflexivity.
Qed.

(* ================================================================== the lookup: what the matcher is asked with *)

(** induction on trees (children through the static list, the wildcard and the catch-all option) *)
Fixpoint tree_ind' (P : tree -> Prop)
  (H : forall p st w c vs ks bt,
       Forall (fun ct => P (snd ct)) st ->
       (forall x, w = Some x -> P x) -> (forall x, c = Some x -> P x) ->
       P (Node p st w c vs ks bt)) (t : tree) {struct t} : P t :=
  match t with
  | Node p st w c vs ks bt =>
    H p st w c vs ks bt
      ((fix go (l : list (ascii * tree)) : Forall (fun ct => P (snd ct)) l :=
          match l with
          | [] => Forall_nil _
          | ct :: r => Forall_cons ct (tree_ind' P H (snd ct)) (go r)
          end) st)
      (fun x E => match w as w0 return w0 = Some x -> P x with
                  | Some y => fun E0 => match E0 in _ = o return match o with Some z => P z | None => True end with
                                        | eq_refl => tree_ind' P H y end
                  | None => fun E0 => match E0 with end
                  end E)
      (fun x E => match c as c0 return c0 = Some x -> P x with
                  | Some y => fun E0 => match E0 in _ = o return match o with Some z => P z | None => True end with
                                        | eq_refl => tree_ind' P H y end
                  | None => fun E0 => match E0 with end
                  end E)
  end.

(** the edges from a node down to one of its descendants: static children (with the bytes of
    the child's path), the single-wildcard child, the free-wildcard (catch-all) child *)
Inductive piece := PS (s : string) | PW | PC.

Inductive at_pos : tree -> list piece -> tree -> Prop :=
| ap_here t : at_pos t [] t
| ap_static t c child pi n :
    In (c, child) (t_statics t) -> at_pos child pi n -> at_pos t (PS (t_path child) :: pi) n
| ap_wild t w pi n : t_wild t = Some w -> at_pos w pi n -> at_pos t (PW :: pi) n
| ap_catch t c : t_catch t = Some c -> at_pos t [PC] c.

(** the values a path gives to the wildcards of a position: a static edge consumes its
    bytes, a single wildcard a non-empty run of bytes up to the next '/', a free wildcard the
    non-empty rest *)
Fixpoint pos_match (pi : list piece) (path : string) : option (list string) :=
  match pi with
  | [] => if String.eqb path "" then Some [] else None
  | PS s :: r => if prefix s path then pos_match r (sdrop (slen s) path) else None
  | PW :: r =>
    let k := next_sep path in
    if Nat.eqb k 0 then None else option_map (cons (stake k path)) (pos_match r (sdrop k path))
  | PC :: _ => if String.eqb path "" then None else Some [path]
  end.

(** a matcher call made for a value stored at a node below [n], reached along a position
    that the looked-up path matches: the keys are that node's keys, the values the captures
    on entry followed by the matched values *)
Definition call_at (n : tree) (path : string) (caps : list string) (k : call) : Prop :=
  exists pi node vals,
    at_pos n pi node /\ In (k_vid k) (t_values node) /\ pos_match pi path = Some vals /\
    k_keys k = t_keys node /\ k_vals k = (caps ++ vals)%list.

(** the recorded answer is the matcher's answer on the recorded keys and values *)
Definition call_res (m : nat -> list string -> list string -> mres) (k : call) : Prop :=
  k_res k = m (k_vid k) (k_keys k) (k_vals k).

Definition found_at (n : tree) (path : string) (caps : list string)
           (keys : list string) (v : nat) (params : list string) : Prop :=
  exists pi node vals,
    at_pos n pi node /\ In v (t_values node) /\ pos_match pi path = Some vals /\
    keys = t_keys node /\ params = (caps ++ vals)%list.

Definition good (n : tree) (path : string) (caps : list string) (r : fres * list call) : Prop :=
  (forall k, In k (snd r) -> call_at n path caps k) /\
  match fst r with
  | FRes (Some (keys, v)) params _ => found_at n path caps keys v params
  | FRes None caps' true => caps' = caps
  | _ => True
  end.

Lemma try_values_calls m keys caps vs k :
  In k (snd (try_values m keys caps vs)) ->
  In (k_vid k) vs /\ k_keys k = keys /\ k_vals k = caps.
Proof.
  induction vs as [|v r IH]; simpl; [tauto|].
  destruct (m v keys caps) eqn:E.
  - simpl. intros [<-|[]]. simpl. auto.
  - destruct (try_values m keys caps r) as [x cs]. simpl in *. intros [<-|H].
    + simpl. auto.
    + destruct (IH H) as (A & B & C). auto.
  - simpl. intros [<-|[]]. simpl. auto.
Qed.

Lemma try_values_found m keys caps vs v :
  fst (try_values m keys caps vs) = Some (Some v) -> In v vs.
Proof.
  induction vs as [|x r IH]; simpl; [discriminate|].
  destruct (m x keys caps).
  - simpl. intro H. inversion H. auto.
  - destruct (try_values m keys caps r) as [y cs]. simpl in *. auto.
  - discriminate.
Qed.

Lemma pick_static_eq {A} first (k : tree -> A) d l :
  pick_static first k d l = match find_static first l with Some c => k c | None => d end.
Proof.
  induction l as [|[c t] r IH]; simpl; [reflexivity|].
  rewrite (Ascii.eqb_sym c first). destruct (Ascii.eqb first c); [reflexivity | exact IH].
Qed.

Lemma find_static_In c l t : find_static c l = Some t -> In (c, t) l.
Proof.
  induction l as [|[d u] r IH]; simpl; [discriminate|].
  destruct (Ascii.eqb c d) eqn:E.
  - apply Ascii.eqb_eq in E. subst d. intro H. inversion H. auto.
  - auto.
Qed.

Lemma call_at_static n c child path caps k :
  In (c, child) (t_statics n) -> prefix (t_path child) path = true ->
  call_at child (sdrop (slen (t_path child)) path) caps k -> call_at n path caps k.
Proof.
  intros Hin Hp (pi & node & vals & Ha & Hv & Hm & Hk & Hvs).
  exists (PS (t_path child) :: pi), node, vals. repeat split; try assumption.
  - econstructor; eassumption.
  - simpl. rewrite Hp. exact Hm.
Qed.

Lemma found_at_static n c child path caps keys v params :
  In (c, child) (t_statics n) -> prefix (t_path child) path = true ->
  found_at child (sdrop (slen (t_path child)) path) caps keys v params -> found_at n path caps keys v params.
Proof.
  intros Hin Hp (pi & node & vals & Ha & Hv & Hm & Hk & Hvs).
  exists (PS (t_path child) :: pi), node, vals. repeat split; try assumption.
  - econstructor; eassumption.
  - simpl. rewrite Hp. exact Hm.
Qed.

Lemma call_at_wild n w path caps k :
  t_wild n = Some w -> Nat.eqb (next_sep path) 0 = false ->
  call_at w (sdrop (next_sep path) path) (caps ++ [stake (next_sep path) path])%list k ->
  call_at n path caps k.
Proof.
  intros Hw Hk0 (pi & node & vals & Ha & Hv & Hm & Hk & Hvs).
  exists (PW :: pi), node, (stake (next_sep path) path :: vals). repeat split; try assumption.
  - econstructor; eassumption.
  - simpl. rewrite Hk0, Hm. reflexivity.
  - rewrite Hvs, <- app_assoc. reflexivity.
Qed.

Lemma found_at_wild n w path caps keys v params :
  t_wild n = Some w -> Nat.eqb (next_sep path) 0 = false ->
  found_at w (sdrop (next_sep path) path) (caps ++ [stake (next_sep path) path])%list keys v params ->
  found_at n path caps keys v params.
Proof.
  intros Hw Hk0 (pi & node & vals & Ha & Hv & Hm & Hk & Hvs).
  exists (PW :: pi), node, (stake (next_sep path) path :: vals). repeat split; try assumption.
  - econstructor; eassumption.
  - simpl. rewrite Hk0, Hm. reflexivity.
  - rewrite Hvs, <- app_assoc. reflexivity.
Qed.

Lemma good_here m n caps : good n "" caps (here_part true m n caps).
Proof.
  unfold good, here_part. destruct (is_nil (t_values n)); [simpl; tauto|].
  destruct (try_values m (t_keys n) caps (t_values n)) as [x cs] eqn:E.
  assert (Hc : forall k, In k cs -> call_at n "" caps k).
  { intros k Hk. replace cs with (snd (try_values m (t_keys n) caps (t_values n))) in Hk by (rewrite E; reflexivity).
    destruct (try_values_calls _ _ _ _ _ Hk) as (A & B & C).
    exists [], n, []. repeat split; try assumption; [constructor | rewrite app_nil_r; assumption]. }
  destruct x as [[v|]|]; simpl; split; try assumption; try tauto.
  - exists [], n, []. repeat split; [constructor | | rewrite app_nil_r; reflexivity].
    apply (try_values_found m (t_keys n) caps). rewrite E. reflexivity.
  - destruct (t_bt n); reflexivity || exact I.
Qed.

Lemma good_catch m n c path caps first rest :
  path = String first rest -> t_catch n = Some c ->
  let r := catch_part true m n c path caps in
  (forall k, In k (snd r) -> call_at n path caps k) /\
  match fst r with
  | FRes (Some (keys, v)) params _ => found_at n path caps keys v params
  | FRes None caps' _ => caps' = caps
  | _ => True
  end.
Proof.
  intros Hp Hc. unfold catch_part. cbv zeta.
  destruct (try_values m (t_keys c) (caps ++ [path]) (t_values c)) as [x cs] eqn:E.
  assert (Hm : pos_match [PC] path = Some [path]) by (subst path; reflexivity).
  assert (Hcalls : forall k, In k cs -> call_at n path caps k).
  { intros k Hk. replace cs with (snd (try_values m (t_keys c) (caps ++ [path]) (t_values c))) in Hk by (rewrite E; reflexivity).
    destruct (try_values_calls _ _ _ _ _ Hk) as (A & B & C).
    exists [PC], c, [path]. repeat split; try assumption. constructor. assumption. }
  destruct x as [[v|]|]; simpl; split; try assumption; try tauto.
  exists [PC], c, [path]. repeat split; try assumption; [constructor; assumption|].
  apply (try_values_found m (t_keys c) (caps ++ [path])%list). rewrite E. reflexivity.
Qed.

Definition static_part (fx2 fx5 : bool) m (n : tree) (first : ascii) (rest : string) (caps : list string) :=
  match find_static first (t_statics n) with
  | Some child =>
    if prefix (t_path child) (String first rest)
    then find_node fx2 fx5 m child (sdrop (slen (t_path child)) (String first rest)) caps
    else (FRes None caps true, [])
  | None => (FRes None caps true, [])
  end.

Definition wild_part (fx2 fx5 : bool) m (n : tree) (path : string) (caps1 : list string) :=
  match t_wild n with
  | None => (None, [])
  | Some w =>
    if Nat.eqb (next_sep path) 0 then (None, []) else
    wild_res (find_node fx2 fx5 m w (sdrop (next_sep path) path) (caps1 ++ [stake (next_sep path) path]))
  end.

Lemma find_node_cons fx2 fx5 m n first rest caps :
  find_node fx2 fx5 m n (String first rest) caps =
  match static_part fx2 fx5 m n first rest caps with
  | (FPanic, cs) => (FPanic, cs)
  | (FRes (Some x) caps1 b, cs) => (FRes (Some x) caps1 b, cs)
  | (FRes None caps1 false, cs) => (FRes None caps1 false, cs)
  | (FRes None caps1 true, cs1) =>
    match wild_part fx2 fx5 m n (String first rest) caps1 with
    | (Some r, cs2) => (r, cs1 ++ cs2)
    | (None, cs2) =>
      match t_catch n with
      | None => (FRes None caps1 true, cs1 ++ cs2)
      | Some c => let '(r, cs3) := catch_part fx2 m n c (String first rest) caps1 in (r, cs1 ++ cs2 ++ cs3)
      end
    end
  end.
Proof.
  destruct n as [p st w c vs ks bt]. unfold static_part, wild_part.
  rewrite <- (pick_static_eq first
    (fun child => if prefix (t_path child) (String first rest)
                  then find_node fx2 fx5 m child (sdrop (slen (t_path child)) (String first rest)) caps
                  else (FRes None caps true, [])) (FRes None caps true, [])).
  reflexivity.
Qed.

Definition IHP m (t : tree) : Prop :=
  forall path caps, good t path caps (find_node true true m t path caps).

Lemma good_static m n first rest caps :
  Forall (fun ct => IHP m (snd ct)) (t_statics n) ->
  good n (String first rest) caps (static_part true true m n first rest caps).
Proof.
  intro IH. unfold static_part.
  destruct (find_static first (t_statics n)) as [child|] eqn:Ef; [|split; [intros k []| reflexivity]].
  apply find_static_In in Ef.
  destruct (prefix (t_path child) (String first rest)) eqn:Ep; [|split; [intros k []| reflexivity]].
  rewrite Forall_forall in IH. specialize (IH _ Ef (sdrop (slen (t_path child)) (String first rest)) caps).
  simpl snd in IH. destruct IH as [IH1 IH2]. split.
  - intros k Hk. eapply call_at_static; eauto.
  - destruct (fst (find_node true true m child _ caps)) as [|[[keys v]|] params b]; try exact I.
    + eapply found_at_static; eauto.
    + exact IH2.
Qed.

Lemma good_wild m n path caps :
  (forall w, t_wild n = Some w -> IHP m w) ->
  let r := wild_part true true m n path caps in
  (forall k, In k (snd r) -> call_at n path caps k) /\
  match fst r with
  | Some (FRes (Some (keys, v)) params _) => found_at n path caps keys v params
  | Some (FRes None _ true) => False          (* the answer of the wildcard child ends the search or is dropped *)
  | _ => True
  end.
Proof.
  intro IH. unfold wild_part. cbv zeta.
  destruct (t_wild n) as [w|] eqn:Ew; [|split; [intros k []| exact I]].
  destruct (Nat.eqb (next_sep path) 0) eqn:Ek; [split; [intros k []| exact I]|].
  specialize (IH w eq_refl (sdrop (next_sep path) path) (caps ++ [stake (next_sep path) path])%list).
  destruct IH as [IH1 IH2].
  destruct (find_node true true m w (sdrop (next_sep path) path) (caps ++ [stake (next_sep path) path]))
    as [[|[[keys v]|] params b] cs]; simpl in *.
  - split; [|exact I]. intros k Hk. eapply call_at_wild; eauto.
  - split; [intros k Hk; eapply call_at_wild; eauto|]. eapply found_at_wild; eauto.
  - destruct b; simpl; (split; [intros k Hk; eapply call_at_wild; eauto | exact I]).
Qed.

(** every matcher call of a lookup (repaired tree) is made with the keys of the node the
    value is stored at and with the values the looked-up path gives to the wildcards on the
    way to that node; the same for the entry returned; a failed search returns the captures
    it was given *)
Lemma find_node_good m n : IHP m n.
Proof.
  induction n as [p st w c vs ks bt IHs IHw IHc] using tree_ind'.
  set (n := Node p st w c vs ks bt) in *.
  intros path caps. destruct path as [|first rest].
  - change (find_node true true m n "" caps) with (here_part true m n caps). apply good_here.
  - rewrite find_node_cons.
    assert (Gs := good_static m n first rest caps IHs).
    destruct (static_part true true m n first rest caps) as [[|[[keys v]|] caps1 b] cs1].
    + destruct Gs as [G1 _]. split; [exact G1 | exact I].
    + exact Gs.
    + destruct Gs as [G1 G2]. simpl in G1, G2. destruct b.
      * (* backtrack into the wildcard child, with the captures given *)
        subst caps1.
        assert (Gw := good_wild m n (String first rest) caps IHw). cbv zeta in Gw.
        destruct (wild_part true true m n (String first rest) caps) as [[r|] cs2].
        -- destruct Gw as [W1 W2]. simpl in W1, W2. split.
           ++ simpl. intros k Hk. apply in_app_or in Hk as [Hk|Hk]; auto.
           ++ simpl. destruct r as [|[[keys v]|] params b]; try exact I; [exact W2|].
              (* wild_res never yields "not found, backtrack" *)
              destruct b; [destruct W2 | exact I].
        -- destruct Gw as [W1 _]. simpl in W1.
           destruct (t_catch n) as [cc|] eqn:Ec.
           ++ assert (Gc := good_catch m n cc (String first rest) caps first rest eq_refl Ec). cbv zeta in Gc.
              destruct (catch_part true m n cc (String first rest) caps) as [r cs3].
              destruct Gc as [C1 C2]. simpl in C1, C2. split.
              ** simpl. intros k Hk. apply in_app_or in Hk as [Hk|Hk]; [auto|].
                 apply in_app_or in Hk as [Hk|Hk]; auto.
              ** simpl. destruct r as [|[[keys v]|] params b]; try exact I; [exact C2|].
                 destruct b; [exact C2 | exact I].
           ++ split; [|reflexivity]. simpl. intros k Hk. apply in_app_or in Hk as [Hk|Hk]; auto.
      * split; [exact G1 | exact I].
Qed.

(** every recorded call carries the matcher's answer on what it was asked with (any variant of the tree) *)
Lemma try_values_res m keys caps vs k :
  In k (snd (try_values m keys caps vs)) -> call_res m k.
Proof.
  unfold call_res. induction vs as [|v r IH]; simpl; [tauto|].
  destruct (m v keys caps) eqn:E.
  - simpl. intros [<-|[]]. simpl. congruence.
  - destruct (try_values m keys caps r) as [x cs]. simpl in *. intros [<-|H]; [simpl; congruence | auto].
  - simpl. intros [<-|[]]. simpl. congruence.
Qed.

Lemma find_node_res fx2 fx5 m n :
  forall path caps k, In k (snd (find_node fx2 fx5 m n path caps)) -> call_res m k.
Proof.
  induction n as [p st w c vs ks bt IHs IHw IHc] using tree_ind'.
  set (n := Node p st w c vs ks bt) in *.
  intros path caps k. destruct path as [|first rest].
  - change (find_node fx2 fx5 m n "" caps) with (here_part fx5 m n caps). unfold here_part.
    destruct (is_nil (t_values n)); [intros []|].
    destruct (try_values m (t_keys n) caps (t_values n)) as [x cs] eqn:E.
    assert (H : forall k, In k cs -> call_res m k).
    { intros k0 Hk. apply (try_values_res m (t_keys n) caps (t_values n)). rewrite E. exact Hk. }
    destruct x as [[v|]|]; simpl; apply H.
  - rewrite find_node_cons.
    assert (Hs : forall k, In k (snd (static_part fx2 fx5 m n first rest caps)) -> call_res m k).
    { unfold static_part. destruct (find_static first (t_statics n)) as [child|] eqn:Ef; [|intros k0 []].
      apply find_static_In in Ef. destruct (prefix (t_path child) (String first rest)); [|intros k0 []].
      rewrite Forall_forall in IHs. intros k0. apply (IHs _ Ef). }
    destruct (static_part fx2 fx5 m n first rest caps) as [[|[x|] caps1 b] cs1]; cbn [snd] in Hs; cbn [snd]; try apply Hs.
    destruct b; [|cbn [snd]; apply Hs].
    assert (Hw : forall k, In k (snd (wild_part fx2 fx5 m n (String first rest) caps1)) -> call_res m k).
    { unfold wild_part. destruct (t_wild n) as [ww|] eqn:Ew; [|intros k0 []].
      destruct (Nat.eqb (next_sep (String first rest)) 0); [intros k0 []|].
      intros k0 Hk. apply (IHw ww Ew (sdrop (next_sep (String first rest)) (String first rest))
                               (caps1 ++ [stake (next_sep (String first rest)) (String first rest)])).
      destruct (find_node fx2 fx5 m ww _ _) as [[|[y|] cc bb] cs]; simpl in *; try exact Hk.
      destruct bb; exact Hk. }
    destruct (wild_part fx2 fx5 m n (String first rest) caps1) as [[r|] cs2]; cbn [snd] in Hw.
    + cbn [snd]. intros Hk. apply in_app_or in Hk as [Hk|Hk]; auto.
    + destruct (t_catch n) as [cc|] eqn:Ec.
      * assert (Hc : forall k, In k (snd (catch_part fx2 m n cc (String first rest) caps1)) -> call_res m k).
        { unfold catch_part. destruct (try_values m _ _ (t_values cc)) as [x cs] eqn:E.
          assert (H : forall k, In k cs -> call_res m k).
          { intros k0 Hk. eapply try_values_res. rewrite E. exact Hk. }
          destruct x as [[v|]|]; simpl; apply H. }
        destruct (catch_part fx2 m n cc (String first rest) caps1) as [r cs3]. cbn [snd] in Hc. cbn [snd].
        intros Hk. apply in_app_or in Hk as [Hk|Hk]; [auto|]. apply in_app_or in Hk as [Hk|Hk]; auto.
      * cbn [snd]. intros Hk. apply in_app_or in Hk as [Hk|Hk]; auto.
Qed.
