(** C03/ReachConv.v — from the shared compressed tree (Radix/Tree.v, byte lists, any values)
    to the tree C03's lookup model runs on (C03/Model.v: strings, route ids, call trace, panics).

      [conv]           the Radix tree over route ids read as a C03 tree (same nodes, same edges;
                       byte lists become strings)
      [at_pos_abs]     a node of [conv T] that holds values, reached along the edges [pi], is an
                       entry of the abstraction [abs T] — the content of the pattern-map machine —
                       under the pattern [pat_of pi], with the same values and key names
      [parse_fposm]    Radix/Spec.v's parser of path expressions and C03's byte-level reading
                       [fposm] of the same expression (C03/ProofsAdd.v) are the same function:
                       same tokens, same wildcard names; and what the parser accepts is a
                       valid expression in C03's sense
      [reach_stored]   hence on every tree reachable by Add and Delete (C03/ReachKeys.v) every
                       stored value sits at the position of ITS route's expression under the names
                       that route declares — the fact C03's private insertion invariant
                       ([Inv], C03/ProofsAdd.v) provided for trees built by Add alone *)
From HV Require Import Base.Prelude C03.Model C03.Spec C03.Proofs C03.ProofsTree C03.ProofsAdd C03.ProofsSpec.
From HV Require Radix.Spec Radix.SpecProofs Radix.Machine Radix.MachineProofs Radix.Load Radix.LoadProofs C02.Reach
  Radix.Tree Radix.TreeProofs C06.TreeDel C03.ReachKeys.
Open Scope string_scope.
Open Scope list_scope.
Local Arguments Ascii.eqb : simpl never.

Module RS := HV.Radix.Spec.
Module RT := HV.Radix.Tree.
Module RP := HV.Radix.TreeProofs.

(* ------------------------------------------------------------------ strings and byte lists *)

Fixpoint l2s (l : list ascii) : string :=
  match l with [] => EmptyString | c :: r => String c (l2s r) end.

Lemma chars_l2s l : chars (l2s l) = l.
Proof. induction l as [|c r IH]; simpl; congruence. Qed.

Lemma l2s_chars s : l2s (chars s) = s.
Proof. induction s as [|c r IH]; simpl; congruence. Qed.

Lemma map_l2s_chars l : map l2s (map chars l) = l.
Proof. rewrite map_map. induction l as [|x r IH]; simpl; [reflexivity|]. rewrite l2s_chars, IH. reflexivity. Qed.

(* ------------------------------------------------------------------ the tree *)

Fixpoint conv (T : RT.tree nat) : tree :=
  match T with
  | RT.Node p st w c vs ks bt =>
    {| t_path := l2s p;
       t_statics := (fix go (l : list (ascii * RT.tree nat)) : list (ascii * tree) :=
                       match l with [] => [] | (ch, x) :: r => (ch, conv x) :: go r end) st;
       t_wild := match w with Some x => Some (conv x) | None => None end;
       t_catch := match c with Some x => Some (conv x) | None => None end;
       t_values := vs; t_keys := map l2s ks; t_bt := bt |}
  end.

Lemma conv_statics T : t_statics (conv T) = map (fun x => (fst x, conv (snd x))) (RT.t_statics T).
Proof.
  destruct T as [p st w c vs ks bt]. cbn [conv t_statics RT.t_statics].
  induction st as [|[ch x] r IH]; [reflexivity|]. cbn [map fst snd]. rewrite IH. reflexivity.
Qed.

Lemma conv_wild T : t_wild (conv T) = option_map conv (RT.t_wild T).
Proof. destruct T as [p st [w|] c vs ks bt]; reflexivity. Qed.
Lemma conv_catch T : t_catch (conv T) = option_map conv (RT.t_catch T).
Proof. destruct T as [p st w [c|] vs ks bt]; reflexivity. Qed.
Lemma conv_values T : t_values (conv T) = RT.t_vals T.
Proof. destruct T; reflexivity. Qed.
Lemma conv_keys T : t_keys (conv T) = map l2s (RT.t_keys T).
Proof. destruct T; reflexivity. Qed.
Lemma conv_path T : t_path (conv T) = l2s (RT.t_path T).
Proof. destruct T; reflexivity. Qed.

(* ------------------------------------------------------------------ positions and patterns *)

Definition tokf (f : fpiece) : RS.tok :=
  match f with FC c => RS.L c | FW => RS.W | FX => RS.C end.

Fixpoint pat_of (pi : list piece) : RS.pat :=
  match pi with
  | [] => []
  | PS s :: r => RS.lits (chars s) ++ pat_of r
  | PW :: r => RS.W :: pat_of r
  | PC :: r => RS.C :: pat_of r
  end.

Lemma pat_of_flat pi : pat_of pi = map tokf (flat pi).
Proof.
  induction pi as [|[s| |] r IH]; cbn [pat_of flat map]; [reflexivity| |rewrite IH; reflexivity|rewrite IH; reflexivity].
  rewrite map_app, IH. f_equal. unfold RS.lits, fcs. rewrite map_map. reflexivity.
Qed.

Lemma map_tokf_inj a b : map tokf a = map tokf b -> a = b.
Proof.
  revert b. induction a as [|x a IH]; intros [|y b] H; try discriminate; [reflexivity|].
  cbn [map] in H. inversion H as [[H1 H2]]. f_equal; [|apply IH; exact H2].
  destruct x, y; cbn [tokf] in H1; try discriminate; congruence.
Qed.

(** a node holding values is an entry of the abstraction of the tree *)
Lemma here_entry_in (T : RT.tree nat) : RT.t_vals T <> [] ->
  RT.here_entry T = [([], {| RS.vals := RT.t_vals T; RS.flag := RT.t_bt T; RS.keys := RT.t_keys T |})].
Proof. unfold RT.here_entry. destruct (RT.t_vals T); [congruence | reflexivity]. Qed.

Lemma at_pos_abs : forall T pi node, at_pos (conv T) pi node -> t_values node <> [] ->
  exists N, In (pat_of pi, N) (RT.abs T) /\ RS.vals N = t_values node /\ t_keys node = map l2s (RS.keys N).
Proof.
  intro T. induction T as [p st w c vs ks bt IHs IHw IHc] using RP.tree_ind'.
  set (T := RT.Node p st w c vs ks bt) in *.
  intros pi node Hat Hne. rewrite (RP.abs_unfold nat T).
  inversion Hat as [t0|t0 ch child pi' n0 Hin Hat'|t0 w0 pi' n0 Hw Hat'|t0 c0 Hc]; subst.
  - (* the node itself *)
    rewrite conv_values in Hne. eexists. split; [|split].
    + apply in_or_app. left. rewrite (here_entry_in T Hne). left. reflexivity.
    + cbn [RS.vals]. rewrite conv_values. reflexivity.
    + cbn [RS.keys]. apply conv_keys.
  - (* below a static child *)
    rewrite conv_statics in Hin. apply in_map_iff in Hin as ([ch' Child] & E & HinT). cbn [fst snd] in E.
    inversion E; subst ch' child. clear E.
    rewrite Forall_forall in IHs. destruct (IHs _ HinT pi' node Hat' Hne) as (N & HN & Hv & Hk).
    exists N. split; [|split; assumption].
    apply in_or_app. right. apply in_or_app. left. unfold RP.abs_statics. apply in_flat_map.
    exists (ch, Child). split; [exact HinT|]. cbn [snd]. apply in_map_iff. exists (pat_of pi', N).
    split; [|exact HN]. unfold RT.pre. cbn [fst snd pat_of]. rewrite conv_path, chars_l2s. reflexivity.
  - (* below the single-wildcard child *)
    rewrite conv_wild in Hw. unfold T in Hw, IHw. cbn [RT.t_wild] in Hw.
    destruct w as [W|]; [|discriminate]. cbn [option_map] in Hw. inversion Hw; subst w0. clear Hw.
    cbn [RP.opt_P] in IHw. destruct (IHw pi' node Hat' Hne) as (N & HN & Hv & Hk).
    exists N. split; [|split; assumption].
    apply in_or_app. right. apply in_or_app. right. apply in_or_app. left.
    unfold T. cbn [RT.t_wild RP.abs_wild]. apply in_map_iff. exists (pat_of pi', N). split; [reflexivity | exact HN].
  - (* the free-wildcard child *)
    rewrite conv_catch in Hc. unfold T in Hc. cbn [RT.t_catch] in Hc.
    destruct c as [Cc|]; [|discriminate]. cbn [option_map] in Hc. inversion Hc; subst node. clear Hc.
    rewrite conv_values in Hne. eexists. split; [|split].
    + apply in_or_app. right. apply in_or_app. right. apply in_or_app. right.
      unfold T. cbn [RT.t_catch RP.abs_catch]. rewrite (here_entry_in Cc Hne). left. reflexivity.
    + cbn [RS.vals]. rewrite conv_values. reflexivity.
    + cbn [RS.keys]. apply conv_keys.
Qed.

(* ------------------------------------------------------------------ the two readings of a path expression *)

Definition mdc (md : RS.pmode) : mode :=
  match md with RS.SegStart => MSeg | RS.InSeg => MStat | RS.InName => MName end.

Lemma is_special_same c : RS.is_special c = is_special c.
Proof.
  unfold RS.is_special, is_special, RS.ch_colon, RS.ch_star, RS.ch_bslash.
  destruct (Ascii.eqb c ":"), (Ascii.eqb c "*"), (Ascii.eqb c "\"); reflexivity.
Qed.

Lemma has_slash_no_slash s : RS.has_slash (chars s) = false -> no_slash s.
Proof.
  unfold no_slash. induction s as [|c r IH]; [reflexivity|].
  cbn [chars RS.has_slash]. intro H. apply orb_false_iff in H as [H1 H2].
  rewrite next_sep_cons, slen_cons. unfold slash. rewrite Ascii.eqb_sym. unfold RS.ch_slash in H1. rewrite H1.
  f_equal. apply IH. exact H2.
Qed.

Definition valid_cons_ec md c md' r : valid_from md' r ->
  (forall x, In x (fposm md (String c r)) -> x = EC c \/ In x (fposm md' r)) -> valid_from md (String c r).
Proof. intros Hv Hin n Hn. destruct (Hin _ Hn) as [E|H]; [discriminate | exact (Hv n H)]. Qed.

Ltac four := split; [|split; [|split]].

Lemma parse_fposm_n n : forall s md p cur ks, slen s <= n ->
  RS.parse_go md (chars s) = Some (p, cur, ks) ->
  p = map tokf (erase (fposm (mdc md) s)) /\ ks = map chars (enames (fposm (mdc md) s)) /\
  (forall x, In (EX x) (fposm (mdc md) s) -> no_slash x) /\ (md = RS.InName -> cur = chars (stake (next_sep s) s)).
Proof.
  induction n as [|n IH]; intros s md p cur ks Hl H.
  - destruct s; [|rewrite slen_cons in Hl; lia]. cbn [chars RS.parse_go] in H. inversion H; subst.
    four; [reflexivity | reflexivity | intros x [] | intros _; reflexivity].
  - destruct s as [|c r].
    { cbn [chars RS.parse_go] in H. inversion H; subst.
      four; [reflexivity | reflexivity | intros x [] | intros _; reflexivity]. }
    rewrite slen_cons in Hl. cbn [chars RS.parse_go] in H.
    (* a literal byte [c'] followed by the rest [r'] read inside a segment *)
    assert (Hlit : forall c' r', slen r' <= n ->
              match RS.parse_go RS.InSeg (chars r') with
              | Some (p0, _, ks0) => Some (RS.L c' :: p0, @nil ascii, ks0)
              | None => None
              end = Some (p, cur, ks) ->
              p = RS.L c' :: map tokf (erase (fposm MStat r')) /\ ks = map chars (enames (fposm MStat r')) /\
              (forall x, In (EX x) (fposm MStat r') -> no_slash x) /\ cur = []).
    { intros c' r' Hl' H'. destruct (RS.parse_go RS.InSeg (chars r')) as [[[p0 cur0] ks0]|] eqn:E; [|discriminate].
      inversion H'; subst. destruct (IH r' RS.InSeg _ _ _ Hl' E) as (I1 & I2 & I3 & _). cbn [mdc] in *.
      four; [f_equal; exact I1 | exact I2 | exact I3 | reflexivity]. }
    unfold RS.ch_slash in H. destruct (Ascii.eqb c "/") eqn:Esl.
    { (* a separator, in every mode *)
      destruct (RS.parse_go RS.SegStart (chars r)) as [[[p0 cur0] ks0]|] eqn:E; [|discriminate]. inversion H; subst.
      destruct (IH r RS.SegStart _ _ _ ltac:(lia) E) as (I1 & I2 & I3 & _). cbn [mdc] in *.
      apply Ascii.eqb_eq in Esl. subst c.
      assert (Hf : fposm (mdc md) (String "/" r) = EC "/" :: fposm MSeg r) by (destruct md; reflexivity).
      rewrite Hf. cbn [erase map erase1 tokf enames]. four.
      - f_equal. exact I1.
      - exact I2.
      - intros x Hx. destruct Hx as [Hx|Hx]; [discriminate | exact (I3 x Hx)].
      - intros _. rewrite next_sep_cons. reflexivity. }
    assert (Hns : next_sep (String c r) = S (next_sep r)).
    { rewrite next_sep_cons. unfold slash. rewrite Ascii.eqb_sym, Esl. reflexivity. }
    assert (Hafter : after c = MStat) by (unfold after, slash; rewrite Esl; reflexivity).
    destruct md; cbn [mdc].
    + (* at the start of a segment *)
      unfold RS.ch_star, RS.ch_colon, RS.ch_bslash in H. rewrite fposm_seg.
      destruct (Ascii.eqb c "*") eqn:Est.
      { destruct (RS.has_slash (chars r)) eqn:Ehs; [discriminate|]. inversion H; subst.
        four; [reflexivity | reflexivity | | discriminate].
        intros x [Hx|[]]. inversion Hx; subst. apply has_slash_no_slash. exact Ehs. }
      destruct (Ascii.eqb c ":") eqn:Eco.
      { destruct (RS.parse_go RS.InName (chars r)) as [[[p0 cur0] ks0]|] eqn:E; [|discriminate]. inversion H; subst.
        destruct (IH r RS.InName _ _ _ ltac:(lia) E) as (I1 & I2 & I3 & I4). cbn [mdc] in *.
        cbn [erase map erase1 tokf enames]. rewrite (I4 eq_refl).
        four; [f_equal; exact I1 | f_equal; exact I2 | | discriminate].
        intros x [Hx|Hx]; [discriminate | exact (I3 x Hx)]. }
      destruct (Ascii.eqb c "\") eqn:Ebs.
      * destruct r as [|c2 r2].
        { destruct (Hlit c "" ltac:(unfold slen; simpl; lia) H) as (L1 & L2 & L3 & L4).
          cbn [erase map erase1 tokf enames fposm] in *.
          four; [exact L1 | exact L2 | | discriminate].
          intros x [Hx|[]]. discriminate. }
        cbn [chars] in H. rewrite is_special_same in H. destruct (is_special c2) eqn:Esp.
        -- rewrite slen_cons in Hl. destruct (Hlit c2 r2 ltac:(lia) H) as (L1 & L2 & L3 & L4).
           cbn [erase map erase1 tokf enames].
           four; [exact L1 | exact L2 | | discriminate].
           intros x [Hx|Hx]; [discriminate | exact (L3 x Hx)].
        -- destruct (Hlit c (String c2 r2) ltac:(lia) H) as (L1 & L2 & L3 & L4).
           cbn [erase map erase1 tokf enames].
           four; [exact L1 | exact L2 | | discriminate].
           intros x [Hx|Hx]; [discriminate | exact (L3 x Hx)].
      * destruct (Hlit c r ltac:(lia) H) as (L1 & L2 & L3 & L4). rewrite Hafter.
        cbn [erase map erase1 tokf enames].
        four; [exact L1 | exact L2 | | discriminate].
        intros x [Hx|Hx]; [discriminate | exact (L3 x Hx)].
    + (* inside a static segment *)
      destruct (Hlit c r ltac:(lia) H) as (L1 & L2 & L3 & L4). rewrite fposm_stat, Hafter.
      cbn [erase map erase1 tokf enames].
      four; [exact L1 | exact L2 | | discriminate].
      intros x [Hx|Hx]; [discriminate | exact (L3 x Hx)].
    + (* inside the name of a single wildcard *)
      destruct (RS.parse_go RS.InName (chars r)) as [[[p0 cur0] ks0]|] eqn:E; [|discriminate]. inversion H; subst.
      destruct (IH r RS.InName _ _ _ ltac:(lia) E) as (I1 & I2 & I3 & I4). cbn [mdc] in *.
      rewrite fposm_name. unfold slash. rewrite Esl.
      four; [exact I1 | exact I2 | exact I3 |].
      intros _. rewrite Hns. cbn [stake chars]. rewrite (I4 eq_refl). reflexivity.
Qed.

(** the shared parser accepts [e] with tokens [p] and names [ks]: C03's byte-level reading of [e]
    has the same tokens and names, and [e] is a valid expression *)
Theorem parse_fposm e p ks : RS.parse_expr (chars e) = Some (p, ks) ->
  p = map tokf (erase (epos e)) /\ ks = map chars (enames (epos e)) /\ valid_expr e.
Proof.
  unfold RS.parse_expr. destruct (RS.parse_go RS.SegStart (chars e)) as [[[p0 cur] ks0]|] eqn:E; [|discriminate].
  intro H. inversion H; subst. destruct (parse_fposm_n (slen e) e RS.SegStart _ _ _ (le_n _) E) as (H1 & H2 & H3 & _).
  repeat split; assumption.
Qed.

(* ------------------------------------------------------------------ reachable trees *)

(** the expression route [v] of the table of created routes is added with *)
Definition route_expr (es : list centry) (v : nat) : option RS.str :=
  option_map (fun e => chars (ce_path e)) (nth_error es v).

Definition reach_tree (can_add : list nat -> nat -> bool) (es : list centry) (T : RT.tree nat) : Prop :=
  ReachKeys.reach can_add (route_expr es) T.

(** what C03's lookup theorems need of a tree: every stored value sits at the position of its
    route's expression, under the names that route declares, and that expression is valid *)
Definition stored_ok (es : list centry) (t : tree) : Prop :=
  forall pi node v, at_pos t pi node -> In v (t_values node) ->
    exists e, nth_error es v = Some e /\ erase (epos (ce_path e)) = flat pi /\
              t_keys node = enames (epos (ce_path e)) /\ valid_expr (ce_path e).

Theorem reach_stored can_add es T : reach_tree can_add es T -> stored_ok es (conv T).
Proof.
  intros Hr pi node v Hat Hv.
  assert (Hne : t_values node <> []) by (intro E; rewrite E in Hv; exact Hv).
  destruct (at_pos_abs T pi node Hat Hne) as (N & HN & Hvals & Hkeys).
  rewrite <- Hvals in Hv.
  destruct (ReachKeys.reach_entry nat can_add (route_expr es) T _ N v Hr HN Hv) as (e' & He' & Hp).
  unfold route_expr in He'. destruct (nth_error es v) as [e|] eqn:Ee; [|discriminate].
  cbn [option_map] in He'. inversion He'; subst e'. clear He'.
  destruct (parse_fposm _ _ _ Hp) as (P1 & P2 & P3).
  exists e. split; [reflexivity|]. split; [|split; [|exact P3]].
  - rewrite pat_of_flat in P1. symmetry. apply map_tokf_inj. exact P1.
  - rewrite Hkeys, P2. apply map_l2s_chars.
Qed.

(** a reachable tree is a reachable index in the sense of C02/Reach.v, satisfies the invariant of
    Find / Add / Delete, and the content of the pattern-map machine it represents holds, per pattern,
    only routes whose own expression parses to that pattern with the node's key names *)
Theorem reach_content can_add es T : reach_tree can_add es T ->
  C02.Reach.reachable can_add T /\ C06.TreeDel.wfd T = true /\
  forall p N v, In (p, N) (RT.abs T) -> In v (RS.vals N) ->
    exists e, nth_error es v = Some e /\ RS.parse_expr (chars (ce_path e)) = Some (p, RS.keys N).
Proof.
  intro Hr. split; [apply ReachKeys.reach_reachable with (expr_of := route_expr es); exact Hr|].
  split; [apply (ReachKeys.reach_wfd _ _ _ _ Hr)|].
  intros p N v HN Hv.
  destruct (ReachKeys.reach_entry nat can_add (route_expr es) T p N v Hr HN Hv) as (e' & He' & Hp).
  unfold route_expr in He'. destruct (nth_error es v) as [e|]; [|discriminate].
  cbn [option_map] in He'. inversion He'; subst e'. exists e. split; [reflexivity | exact Hp].
Qed.
