(** C03 — from the byte-level positions of the tree (ProofsAdd.v) to the documentation's
    path expressions (Spec.v): if an expression matches a path segment by segment, the
    position [Add] stores it at matches the path byte by byte with the same values, and the
    wildcard names recorded are the names the expression declares. *)
From HV Require Import Base.Prelude C03.Model C03.Spec C03.Proofs C03.ProofsTree C03.ProofsAdd.
Open Scope string_scope.
Open Scope list_scope.
Local Arguments Ascii.eqb : simpl never.

(* ------------------------------------------------------------------ matching a byte-level position *)

Fixpoint fmatch (l : list fpiece) (path : string) : option (list string) :=
  match l with
  | [] => if String.eqb path "" then Some [] else None
  | FC c :: r =>
    match path with
    | String d p => if Ascii.eqb c d then fmatch r p else None
    | EmptyString => None
    end
  | FW :: r =>
    let k := next_sep path in
    if Nat.eqb k 0 then None else option_map (cons (stake k path)) (fmatch r (sdrop k path))
  | FX :: _ => if String.eqb path "" then None else Some [path]
  end.

Lemma fmatch_fcs s r path :
  fmatch (fcs s ++ r) path = if prefix s path then fmatch r (sdrop (slen s) path) else None.
Proof.
  revert path. induction s as [|c s IH]; intro path.
  - simpl. rewrite prefix_nil_l. destruct path; reflexivity.
  - destruct path as [|d p]; [reflexivity|].
    change (fcs (String c s) ++ r) with (FC c :: (fcs s ++ r)). cbn [fmatch].
    rewrite prefix_cons. destruct (Ascii.eqb c d); [|reflexivity]. rewrite IH. reflexivity.
Qed.

(** the positions of nodes (ProofsTree.v) and their byte-level form agree on every path *)
Lemma pos_match_flat pi path : pos_match pi path = fmatch (flat pi) path.
Proof.
  revert path. induction pi as [|[s| |] r IH]; intro path; simpl.
  - reflexivity.
  - rewrite fmatch_fcs. destruct (prefix s path); [apply IH | reflexivity].
  - destruct (Nat.eqb (next_sep path) 0); [reflexivity|]. rewrite IH. reflexivity.
  - reflexivity.
Qed.

(* ------------------------------------------------------------------ segments *)

Definition seg1 (s : string) : string := stake (next_sep s) s.
Definition has_more (s : string) : bool := Nat.ltb (next_sep s) (slen s).
Definition rest_of (s : string) : string := sdrop (S (next_sep s)) s.

Lemma split_slash_aux_eq cur s :
  split_slash_aux cur s = cur (seg1 s) :: (if has_more s then split_slash (rest_of s) else []).
Proof.
  revert cur. induction s as [|c r IH]; intro cur; [reflexivity|].
  unfold seg1, has_more, rest_of. rewrite next_sep_cons, slen_cons.
  simpl split_slash_aux. rewrite (Ascii.eqb_sym c "/"). fold slash.
  destruct (Ascii.eqb slash c) eqn:E.
  - reflexivity.
  - rewrite IH. unfold seg1, has_more, rest_of. reflexivity.
Qed.

Lemma split_slash_eq s :
  split_slash s = seg1 s :: (if has_more s then split_slash (rest_of s) else []).
Proof. apply split_slash_aux_eq. Qed.

(** the byte at [next_sep], if any, is the separator *)
Lemma sdrop_next_sep s :
  sdrop (next_sep s) s = if has_more s then String slash (rest_of s) else "".
Proof.
  unfold has_more, rest_of. induction s as [|c r IH]; [reflexivity|].
  rewrite next_sep_cons, slen_cons. destruct (Ascii.eqb slash c) eqn:E.
  - apply Ascii.eqb_eq in E. subst c. reflexivity.
  - cbn [sdrop]. rewrite IH. reflexivity.
Qed.

Lemma slen_sdrop k s : slen (sdrop k s) = slen s - k.
Proof.
  revert s. induction k as [|k IH]; intros [|c r]; unfold slen in *; simpl; try lia. apply IH.
Qed.

Lemma rest_shorter s : has_more s = true -> slen (rest_of s) < slen s.
Proof.
  unfold has_more, rest_of. intro H. apply Nat.ltb_lt in H. rewrite slen_sdrop. lia.
Qed.

Lemma seg1_no_slash s : next_sep (seg1 s) = slen (seg1 s).
Proof.
  unfold seg1. induction s as [|c r IH]; [reflexivity|].
  rewrite next_sep_cons. destruct (Ascii.eqb slash c) eqn:E; [reflexivity|].
  cbn [stake]. rewrite next_sep_cons, E, slen_cons, IH. reflexivity.
Qed.

Lemma join_cons x l : l <> [] -> join_slash (x :: l) = (x ++ "/" ++ join_slash l)%string.
Proof. destruct l; [congruence | reflexivity]. Qed.

Lemma split_nonempty s : split_slash s <> [].
Proof. rewrite split_slash_eq. discriminate. Qed.

Lemma seg1_rest s : has_more s = true -> (seg1 s ++ "/" ++ rest_of s)%string = s.
Proof.
  intro Hm. assert (E := stake_sdrop (next_sep s) s). rewrite sdrop_next_sep, Hm in E. exact E.
Qed.

Lemma seg1_all s : has_more s = false -> seg1 s = s.
Proof.
  intro Hm. unfold seg1. apply stake_all. unfold has_more in Hm. apply Nat.ltb_ge in Hm. exact Hm.
Qed.

Lemma join_split s : join_slash (split_slash s) = s.
Proof.
  remember (slen s) as n eqn:Hn. revert s Hn.
  induction n as [n IH] using lt_wf_ind. intros s Hn.
  rewrite (split_slash_eq s). destruct (has_more s) eqn:Hm.
  - assert (Hr := rest_shorter s Hm).
    rewrite join_cons by apply split_nonempty.
    rewrite (IH (slen (rest_of s)) ltac:(lia) (rest_of s) eq_refl). apply seg1_rest. exact Hm.
  - simpl. apply seg1_all. exact Hm.
Qed.

(* ------------------------------------------------------------------ tokens *)

Lemma token_of_cons c s :
  token_of (String c s) =
  if Ascii.eqb c ":" then Wild s
  else if Ascii.eqb c "*" then Free s
  else if Ascii.eqb c "\" then
    match s with
    | String c2 r => if is_special c2 then Lit (String c2 r) else Lit (String c s)
    | EmptyString => Lit (String c s)
    end
  else Lit (String c s).
Proof.
  destruct c as [[] [] [] [] [] [] [] []]; try reflexivity.
Qed.

(* ------------------------------------------------------------------ an expression, segment by segment *)

Definition etail (e : string) : list epiece :=
  if has_more e then EC slash :: fposm MSeg (rest_of e) else [].

Lemma stat_tail r : fposm MStat (sdrop (next_sep r) r) = etail r.
Proof.
  unfold etail. rewrite sdrop_next_sep. destruct (has_more r); [|reflexivity].
  rewrite fposm_stat. unfold after. rewrite Ascii.eqb_refl. reflexivity.
Qed.

Lemma seg_tail r : fposm MSeg (sdrop (next_sep r) r) = etail r.
Proof.
  unfold etail. rewrite sdrop_next_sep. destruct (has_more r); [|reflexivity].
  rewrite fposm_seg. unfold slash, after. reflexivity.
Qed.

Lemma stat_seg r : fposm MStat r = ecs (seg1 r) ++ etail r.
Proof. rewrite <- stat_tail. apply stat_run. lia. Qed.

Lemma nonslash_facts c r :
  Ascii.eqb slash c = false ->
  seg1 (String c r) = String c (seg1 r) /\ has_more (String c r) = has_more r /\
  rest_of (String c r) = rest_of r /\ etail (String c r) = etail r.
Proof.
  intro E. unfold etail, seg1, has_more, rest_of. rewrite next_sep_cons, E, slen_cons.
  repeat split.
Qed.

(** the position of an expression: the pieces of its first segment, then the rest *)
Lemma epos_seg e :
  fposm MSeg e = match token_of (seg1 e) with
                 | Lit s => ecs s ++ etail e
                 | Wild n => EW n :: etail e
                 | Free n => [EX (sdrop 1 e)]
                 end.
Proof.
  destruct e as [|c r]; [reflexivity|].
  destruct (Ascii.eqb slash c) eqn:Es.
  - apply Ascii.eqb_eq in Es. subst c. reflexivity.
  - destruct (nonslash_facts c r Es) as (H1 & H2 & H3 & H4). rewrite H1, H4, token_of_cons, fposm_seg.
    assert (Hafter : after c = MStat).
    { unfold after. rewrite Ascii.eqb_sym, Es. reflexivity. }
    destruct (Ascii.eqb c "*") eqn:Estar.
    + apply Ascii.eqb_eq in Estar. subst c. reflexivity.
    + destruct (Ascii.eqb c ":") eqn:Ecolon.
      * apply Ascii.eqb_eq in Ecolon. subst c. rewrite name_skip, seg_tail. reflexivity.
      * destruct (Ascii.eqb c "\") eqn:Eb.
        -- apply Ascii.eqb_eq in Eb. subst c.
           destruct r as [|c2 r2]; [reflexivity|].
           destruct (Ascii.eqb slash c2) eqn:Es2.
           ++ apply Ascii.eqb_eq in Es2. subst c2. reflexivity.
           ++ destruct (nonslash_facts c2 r2 Es2) as (G1 & G2 & G3 & G4). rewrite G1.
              destruct (is_special c2) eqn:Esp.
              ** rewrite G4, stat_seg. reflexivity.
              ** rewrite stat_seg, G1, G4. reflexivity.
        -- rewrite Hafter, stat_seg. reflexivity.
Qed.

(* ------------------------------------------------------------------ expr_match, unfolded *)

Lemma em_lit s tr x sr :
  expr_match (Lit s :: tr) (x :: sr) = if String.eqb s x then expr_match tr sr else None.
Proof. reflexivity. Qed.

Lemma em_wild n tr x sr :
  expr_match (Wild n :: tr) (x :: sr) =
  if String.eqb x "" then None else option_map (cons x) (expr_match tr sr).
Proof. reflexivity. Qed.

Lemma em_free_last n x sr :
  expr_match [Free n] (x :: sr) =
  if String.eqb (join_slash (x :: sr)) "" then None else Some [join_slash (x :: sr)].
Proof. reflexivity. Qed.

Lemma em_free_more n t tr segs : expr_match (Free n :: t :: tr) segs = None.
Proof. destruct segs; reflexivity. Qed.

Lemma em_nil_r ts vs : expr_match ts [] = Some vs -> ts = [] /\ vs = [].
Proof.
  destruct ts as [|[s|n|n] [|t tr]]; simpl; try discriminate. intro H. inversion H. auto.
Qed.

Lemma em_nil_l segs vs : expr_match [] segs = Some vs -> segs = [] /\ vs = [].
Proof. destruct segs; simpl; try discriminate. intro H. inversion H. auto. Qed.

Lemma parse_expr_eq e :
  parse_expr e = token_of (seg1 e) :: (if has_more e then parse_expr (rest_of e) else []).
Proof.
  unfold parse_expr. rewrite (split_slash_eq e). simpl. destruct (has_more e); reflexivity.
Qed.

Lemma parse_nonempty e : parse_expr e <> [].
Proof. rewrite parse_expr_eq. discriminate. Qed.

Lemma token_free_inv s n : token_of s = Free n -> s = String "*" n.
Proof.
  destruct s as [|c s']; [discriminate|]. rewrite token_of_cons.
  destruct (Ascii.eqb c ":"); [discriminate|].
  destruct (Ascii.eqb c "*") eqn:E.
  - apply Ascii.eqb_eq in E. subst c. intro H. inversion H. reflexivity.
  - destruct (Ascii.eqb c "\"); [|discriminate].
    destruct s' as [|c2 r]; [discriminate|]. destruct (is_special c2); discriminate.
Qed.

Lemma seg1_prefix path : prefix (seg1 path) path = true /\ slen (seg1 path) = next_sep path.
Proof.
  unfold seg1. split.
  - assert (E := stake_sdrop (next_sep path) path).
    assert (P := prefix_app (stake (next_sep path) path) (sdrop (next_sep path) path)).
    rewrite E in P. exact P.
  - apply slen_stake. apply next_sep_le.
Qed.

Lemma seg1_empty path : String.eqb (seg1 path) "" = Nat.eqb (next_sep path) 0.
Proof.
  destruct (seg1_prefix path) as [_ H]. destruct (next_sep path) eqn:E.
  - unfold seg1. rewrite E. destruct path; reflexivity.
  - destruct (seg1 path); [unfold slen in H; simpl in H; lia | reflexivity].
Qed.

(* ------------------------------------------------------------------ the connection *)

(** if the expression matches the path segment by segment, the position its value is stored at
    matches the path byte by byte with the same values, and the recorded names are the declared ones *)
Lemma expr_to_pos : forall e path segs,
  expr_match (parse_expr e) (split_slash path) = Some segs ->
  fmatch (erase (epos e)) path = Some segs /\ enames (epos e) = declared_names (parse_expr e).
Proof.
  intro e. remember (slen e) as n eqn:Hn. revert e Hn.
  induction n as [n IH] using lt_wf_ind. intros e Hn path segs.
  (* the rest of the expression against the rest of the path *)
  assert (Htail : forall vs,
    expr_match (if has_more e then parse_expr (rest_of e) else [])
               (if has_more path then split_slash (rest_of path) else []) = Some vs ->
    fmatch (erase (etail e)) (sdrop (next_sep path) path) = Some vs /\
    enames (etail e) = declared_names (if has_more e then parse_expr (rest_of e) else [])).
  { intros vs Hm. unfold etail. rewrite sdrop_next_sep. destruct (has_more e) eqn:He.
    - destruct (has_more path) eqn:Hp.
      + assert (Hr := rest_shorter e He).
        destruct (IH (slen (rest_of e)) ltac:(lia) (rest_of e) eq_refl (rest_of path) vs Hm) as [I1 I2].
        split; [|exact I2]. cbn [erase map erase1 fmatch]. rewrite Ascii.eqb_refl. exact I1.
      + apply em_nil_r in Hm as [Hm _]. exfalso. exact (parse_nonempty _ Hm).
    - apply em_nil_l in Hm as [Hm ->]. destruct (has_more path).
      + exfalso. exact (split_nonempty _ Hm).
      + split; reflexivity. }
  unfold epos. rewrite epos_seg, parse_expr_eq, (split_slash_eq path).
  destruct (seg1_prefix path) as [Hpre Hlen].
  destruct (token_of (seg1 e)) as [s|nm|nm] eqn:Et.
  - (* literal segment *)
    rewrite em_lit. destruct (String.eqb s (seg1 path)) eqn:Es; [|discriminate].
    apply String.eqb_eq in Es. subst s. intro Hm. destruct (Htail _ Hm) as [T1 T2].
    split.
    + rewrite erase_app, erase_ecs, fmatch_fcs, Hpre, Hlen. exact T1.
    + rewrite enames_app, enames_ecs. exact T2.
  - (* single wildcard *)
    rewrite em_wild, seg1_empty. destruct (Nat.eqb (next_sep path) 0) eqn:Ek; [discriminate|].
    destruct (expr_match _ _) as [vs|] eqn:Hm; [|discriminate].
    intro H. inversion H; subst segs. clear H. destruct (Htail _ eq_refl) as [T1 T2].
    split.
    + cbn [erase map erase1 fmatch]. rewrite Ek. fold (erase (etail e)). rewrite T1. reflexivity.
    + cbn [enames declared_names]. rewrite T2. reflexivity.
  - (* free wildcard: only as the last segment *)
    destruct (has_more e) eqn:He.
    + assert (Hne := parse_nonempty (rest_of e)). destruct (parse_expr (rest_of e)) as [|t tr]; [congruence|].
      rewrite em_free_more. discriminate.
    + rewrite em_free_last.
      assert (Hj : join_slash (seg1 path :: (if has_more path then split_slash (rest_of path) else [])) = path).
      { rewrite <- (split_slash_eq path). apply join_split. }
      rewrite Hj. destruct (String.eqb path "") eqn:Ep; [discriminate|].
      intro H. inversion H; subst segs. clear H. split.
      * cbn [erase map erase1 fmatch]. rewrite Ep. reflexivity.
      * cbn [enames declared_names]. apply token_free_inv in Et.
        rewrite (seg1_all e He) in Et. rewrite Et. reflexivity.
Qed.

(* ------------------------------------------------------------------ the table of created routes vs the rule set *)

(** entry [e] of the created table is route [s] of the rule set *)
Definition entry_of (fx4 : bool) (e : centry) (s : sroute) : Prop :=
  exists cr, create_rule fx4 (sr_def s) = Ok cr /\ In (ce_path e, ce_m e) (cr_routes cr) /\
    ce_rule e = sr_rule s /\ ce_path e = rt_path (sr_route s) /\
    cm_params (ce_m e) = rt_params (sr_route s) /\ cm_slash (ce_m e) = rl_slash (sr_def s).

Lemma Forall2_map_same {A B C} (R : B -> C -> Prop) (f : A -> B) (g : A -> C) l :
  (forall a, In a l -> R (f a) (g a)) -> Forall2 R (map f l) (map g l).
Proof.
  induction l as [|a r IH]; intro H; simpl; constructor.
  - apply H. left. reflexivity.
  - apply IH. intros x Hx. apply H. right. exact Hx.
Qed.

Lemma entries_flat fx4 : forall ds cs i,
  create_rules fx4 ds = Ok cs -> Forall2 (entry_of fx4) (entries_of i cs) (flat_routes i ds).
Proof.
  induction ds as [|d r IH]; intros cs i H; simpl in H.
  - inversion H; subst. constructor.
  - destruct (create_rule fx4 d) as [c|] eqn:Ec; [|discriminate].
    destruct (create_rules fx4 r) as [cs'|] eqn:Er; [|discriminate].
    inversion H; subst cs. clear H. simpl.
    apply Forall2_app; [|apply IH; reflexivity].
    destruct (create_rule_inv _ _ _ Ec) as (mm & Hm & _ & _ & Hs & Hb & Hr).
    rewrite Hr, map_map. apply Forall2_map_same. intros rt Hin. simpl.
    exists c. simpl. split; [exact Ec|]. split; [|repeat split].
    rewrite Hr. apply in_map_iff. exists rt. split; [reflexivity | exact Hin].
Qed.

Lemma Forall2_nth {A B} (R : A -> B -> Prop) l1 l2 : Forall2 R l1 l2 ->
  forall i a b, nth_error l1 i = Some a -> nth_error l2 i = Some b -> R a b.
Proof.
  intro H. induction H as [|x y l1 l2 Hxy H IH]; intros [|i] a b; simpl; try discriminate.
  - intros E1 E2. inversion E1; inversion E2; subst. exact Hxy.
  - apply IH.
Qed.

Lemma loaded_table fx4 ds es t :
  load true fx4 ds = Loaded es t -> Forall2 (entry_of fx4) es (flat_routes 0 ds).
Proof.
  unfold load. destruct (create_rules fx4 ds) as [cs|] eqn:Ec; [|discriminate].
  destruct (add_entries true empty_tree 0 (entries_of 0 cs)); try discriminate.
  intro H. inversion H; subst. apply entries_flat. exact Ec.
Qed.

(* ------------------------------------------------------------------ the matcher sees the route's keys *)

Lemma serve_calls fx1 fx2 fx5 fx6 fx7 eng es t q :
  snd (serve fx1 fx2 fx5 fx6 fx7 eng es t q) =
  snd (find_node fx2 fx5 (matcher_of fx1 fx6 fx7 eng es q) t (lookup_path q) []).
Proof.
  unfold serve, tree_find.
  destruct (find_node fx2 fx5 (matcher_of fx1 fx6 fx7 eng es q) t (lookup_path q) []) as [[|[[keys v]|] params b] cs];
    try reflexivity.
  destruct (params_of keys params); [|reflexivity].
  destruct (nth_error es v); [|reflexivity].
  destruct (execute fx7 _ q _). reflexivity.
Qed.

(** every matcher call of a lookup in a loaded rule set (the tree as it is now: C03-F2, F3, F5
    repaired) is made with the wildcard names the route declares and the segments its
    wildcards match, free wildcard included — for all rule sets, insertion orders (prefix
    splitting included), requests *)
Theorem matcher_sees_route_keys : forall fx1 fx4 fx6 fx7 eng ds es t q,
  load true fx4 ds = Loaded es t ->
  forall k, In k (snd (serve fx1 true true fx6 fx7 eng es t q)) ->
    call_sees_route (flat_routes 0 ds) q k.
Proof.
  intros fx1 fx4 fx6 fx7 eng ds es t q Hload k Hk. rewrite serve_calls in Hk.
  destruct (find_node_good (matcher_of fx1 fx6 fx7 eng es q) t (lookup_path q) []) as [Hcalls _].
  destruct (Hcalls k Hk) as (pi & node & vals & Hat & Hv & Hm & Hkeys & Hvals).
  destruct (loaded_inv _ _ _ _ Hload) as [_ Hinv].
  destruct (at_pos_entry es t pi node Hat [] (k_vid k) Hinv Hv) as (e & He & Hpos & Hnames).
  intros s segs Hs Hsegs.
  assert (Hent := Forall2_nth _ _ _ (loaded_table _ _ _ _ Hload) _ _ _ He Hs).
  destruct Hent as (cr & _ & _ & _ & Hpath & _ & _).
  unfold sr_segs, sr_tokens in Hsegs. rewrite <- Hpath in Hsegs.
  destruct (expr_to_pos _ _ _ Hsegs) as [F1 F2].
  rewrite pos_match_flat in Hm. simpl in Hpos. rewrite <- Hpos, F1 in Hm. inversion Hm; subst vals.
  unfold sr_tokens. rewrite <- Hpath, <- F2, Hkeys, Hnames, Hvals. auto.
Qed.

(* ------------------------------------------------------------------ and answers as documented *)

Lemma em_length : forall ts segs vs, expr_match ts segs = Some vs -> length vs = length (declared_names ts).
Proof.
  induction ts as [|[s|n|n] tr IH]; intros segs vs.
  - intro H. apply em_nil_l in H as [_ ->]. reflexivity.
  - destruct segs as [|x sr]; [intro H; apply em_nil_r in H as [H _]; discriminate|].
    rewrite em_lit. destruct (String.eqb s x); [|discriminate]. simpl. apply IH.
  - destruct segs as [|x sr]; [intro H; apply em_nil_r in H as [H _]; discriminate|].
    rewrite em_wild. destruct (String.eqb x ""); [discriminate|].
    destruct (expr_match tr sr) as [v0|] eqn:E; [|discriminate]. intro H. inversion H. simpl.
    rewrite (IH _ _ E). reflexivity.
  - destruct tr as [|t tr']; [|rewrite em_free_more; discriminate].
    destruct segs as [|x sr]; [discriminate|]. rewrite em_free_last.
    destruct (String.eqb _ ""); [discriminate|]. intro H. inversion H. reflexivity.
Qed.

Lemma route_semantics_cm fx1 fx4 fx6 fx7 eng r cr path cm :
  create_rule fx4 r = Ok cr -> In (path, cm) (cr_routes cr) ->
  forall q keys vals,
    length keys = length vals -> Forall valid_enc vals -> Forall (from_path q) vals ->
    guard_F1 fx1 eng (rl_hosts r) q = false ->
    guard_F4 fx4 (rl_methods r) = false ->
    on_params (guard_F6 fx6) (rl_slash r) q keys vals (cm_params cm) = false ->
    on_params (guard_F7 fx7) (rl_slash r) q keys vals (cm_params cm) = false ->
    on_params (guard_F8 fx7) (rl_slash r) q keys vals (cm_params cm) = false ->
    route_matches fx1 fx6 fx7 eng cm q keys vals = of_bool (spec_route_ok eng r (cm_params cm) q keys vals).
Proof.
  intros Hc Hin.
  destruct (create_rule_inv _ _ _ Hc) as (mm & Hm & _ & _ & _ & _ & Hr).
  rewrite Hr in Hin. apply in_map_iff in Hin as (rt & E & Hrt). inversion E; subst path cm. clear E.
  intros q keys vals Hl Hv Hfp H1 H4 H6 H7 H8. simpl in *.
  unfold route_matches, spec_route_ok. simpl.
  rewrite scheme_semantics, (method_list_semantics _ _ _ q Hm H4), (hosts_semantics _ _ _ _ H1).
  rewrite (params_semantics fx6 fx7 eng _ q keys vals _ Hl Hv Hfp H6 H7 H8).
  destruct (spec_scheme (rl_scheme r) q); [|reflexivity].
  destruct (spec_method (rl_methods r) (q_method q)); [|reflexivity].
  destruct (spec_hosts eng (rl_hosts r) q); reflexivity.
Qed.

(** the finding guards of a route on a request, on the names and segments of the specification *)
Definition route_guards (fx1 fx4 fx6 : bool) (fx7 : dec) (eng : engine) (s : sroute) (q : request)
           (segs : list string) : bool :=
  let d := sr_def s in
  let names := declared_names (sr_tokens s) in
  let ps := rt_params (sr_route s) in
  guard_F1 fx1 eng (rl_hosts d) q || guard_F4 fx4 (rl_methods d) ||
  on_params (guard_F6 fx6) (rl_slash d) q names segs ps ||
  on_params (guard_F7 fx7) (rl_slash d) q names segs ps ||
  on_params (guard_F8 fx7) (rl_slash d) q names segs ps.

(** end to end: in a loaded rule set every matcher call made for a route whose expression
    matches the request path answers exactly as the documented conditions say *)
Theorem lookup_answers_spec : forall fx1 fx4 fx6 fx7 eng ds es t q,
  load true fx4 ds = Loaded es t ->
  forall k, In k (snd (serve fx1 true true fx6 fx7 eng es t q)) ->
  forall s segs, nth_error (flat_routes 0 ds) (k_vid k) = Some s -> sr_segs s q = Some segs ->
    Forall valid_enc segs -> Forall (from_path q) segs ->
    route_guards fx1 fx4 fx6 fx7 eng s q segs = false ->
    k_res k = spec_answer eng s q segs.
Proof.
  intros fx1 fx4 fx6 fx7 eng ds es t q Hload k Hk s segs Hs Hsegs Hv Hfp Hg.
  destruct (matcher_sees_route_keys fx1 fx4 fx6 fx7 eng ds es t q Hload k Hk s segs Hs Hsegs) as [Hkeys Hvals].
  assert (Hres : call_res (matcher_of fx1 fx6 fx7 eng es q) k).
  { rewrite serve_calls in Hk. eapply find_node_res. exact Hk. }
  unfold call_res, matcher_of in Hres.
  destruct (nth_error es (k_vid k)) as [e|] eqn:He.
  2:{ (* the table and the rule set have the same length *)
      exfalso. assert (HF := loaded_table _ _ _ _ Hload).
      apply nth_error_None in He. assert (Hlen : length es = length (flat_routes 0 ds)) by (clear -HF; induction HF; simpl; congruence).
      assert (Hs' : nth_error (flat_routes 0 ds) (k_vid k) <> None) by congruence.
      apply nth_error_Some in Hs'. lia. }
  destruct (Forall2_nth _ _ _ (loaded_table _ _ _ _ Hload) _ _ _ He Hs)
    as (cr & Hcr & Hin & _ & Hpath & Hparams & Hslash).
  unfold route_guards in Hg. cbv zeta in Hg.
  repeat (apply orb_false_iff in Hg as [Hg ?]).
  rewrite Hres, Hkeys, Hvals. unfold spec_answer. rewrite <- Hparams.
  apply (route_semantics_cm fx1 fx4 fx6 fx7 eng (sr_def s) cr (ce_path e) (ce_m e) Hcr Hin);
    try assumption; try (rewrite Hparams; assumption).
  unfold sr_segs in Hsegs. symmetry. exact (em_length _ _ _ Hsegs).
Qed.

(* ------------------------------------------------------------------ the matched segments come from the path *)

(** a property of the path that passes to its first segment and to the rest after the first
    separator holds of every value an expression gives to its wildcards *)
Lemma em_values (P : string -> Prop) :
  (forall p, P p -> P (seg1 p)) -> (forall p, has_more p = true -> P p -> P (rest_of p)) ->
  forall ts path vs, P path -> expr_match ts (split_slash path) = Some vs -> Forall P vs.
Proof.
  intros H1 H2. induction ts as [|t tr IH]; intros path vs HP.
  - intro H. apply em_nil_l in H as [_ ->]. constructor.
  - rewrite (split_slash_eq path).
    assert (Htl : forall vs0, expr_match tr (if has_more path then split_slash (rest_of path) else []) = Some vs0 ->
                              Forall P vs0).
    { intros vs0 Hm. destruct (has_more path) eqn:Hp.
      - apply (IH (rest_of path)); [apply H2; assumption | exact Hm].
      - apply em_nil_r in Hm as [_ ->]. constructor. }
    destruct t as [s|n|n].
    + rewrite em_lit. destruct (String.eqb s (seg1 path)); [|discriminate]. apply Htl.
    + rewrite em_wild. destruct (String.eqb (seg1 path) ""); [discriminate|].
      destruct (expr_match tr _) as [v0|] eqn:E; [|discriminate]. intro H. inversion H; subst.
      constructor; [apply H1; assumption | apply Htl; reflexivity].
    + destruct tr as [|t' tr']; [|rewrite em_free_more; discriminate].
      rewrite em_free_last.
      assert (Hj : join_slash (seg1 path :: (if has_more path then split_slash (rest_of path) else [])) = path).
      { rewrite <- (split_slash_eq path). apply join_split. }
      rewrite Hj. destruct (String.eqb path ""); [discriminate|]. intro H. inversion H; subst.
      constructor; [assumption | constructor].
Qed.

Lemma prefix_app_r sub v b : prefix sub v = true -> prefix sub (v ++ b) = true.
Proof.
  revert v. induction sub as [|c s IH]; intros v H; [apply prefix_nil_l|].
  destruct v as [|d v']; [discriminate|]. simpl String.append. rewrite prefix_cons in *.
  apply andb_true_iff in H as [E H]. rewrite E. simpl. apply IH. exact H.
Qed.

Lemma contains_app_l sub v b : contains sub v = true -> contains sub (v ++ b) = true.
Proof.
  induction v as [|c v IH]; intro H.
  - simpl in H. rewrite orb_false_r in H. destruct sub; [|discriminate].
    destruct b; reflexivity.
  - simpl String.append. rewrite contains_cons in *. apply orb_true_iff in H as [H|H].
    + assert (P := prefix_app_r sub (String c v) b H).
      change (String c v ++ b)%string with (String c (v ++ b)) in P. rewrite P. reflexivity.
    + rewrite (IH H). apply orb_true_r.
Qed.

Lemma contains_app_r sub a s : contains sub s = true -> contains sub (a ++ s) = true.
Proof.
  intro H. induction a as [|c a IH]; [exact H|]. simpl String.append. rewrite contains_cons, IH. apply orb_true_r.
Qed.

Lemma has_enc_slash_app_l v b : has_enc_slash v = true -> has_enc_slash (v ++ b) = true.
Proof.
  unfold has_enc_slash. intro H. apply orb_true_iff in H as [H|H];
    rewrite (contains_app_l _ _ _ H); [reflexivity | apply orb_true_r].
Qed.

Lemma has_enc_slash_app_r a s : has_enc_slash s = true -> has_enc_slash (a ++ s) = true.
Proof.
  unfold has_enc_slash. intro H. apply orb_true_iff in H as [H|H];
    rewrite (contains_app_r _ a _ H); [reflexivity | apply orb_true_r].
Qed.

Lemma has_enc_slash_seg1 p : has_enc_slash (seg1 p) = true -> has_enc_slash p = true.
Proof.
  intro H. rewrite <- (stake_sdrop (next_sep p) p). apply has_enc_slash_app_l. exact H.
Qed.

Lemma has_enc_slash_rest p : has_more p = true -> has_enc_slash (rest_of p) = true -> has_enc_slash p = true.
Proof.
  intros Hm H. rewrite <- (seg1_rest p Hm). apply has_enc_slash_app_r, has_enc_slash_app_r. exact H.
Qed.

(** cutting a validly encoded path at a '/' gives validly encoded pieces *)
Lemma valid_enc_cut a b : valid_enc (a ++ "/" ++ b) -> valid_enc a /\ valid_enc b.
Proof.
  unfold valid_enc.
  induction a as [| c r Hc IH | x y r IH | | x] using pct_ind; intro H.
  - split; [discriminate|]. simpl in H. destruct (pct_decode b); [discriminate | exact H].
  - change (String c r ++ "/" ++ b)%string with (String c (r ++ "/" ++ b)) in H.
    rewrite (pct_decode_nonpct c (r ++ "/" ++ b)) in H by assumption. rewrite (pct_decode_nonpct c r) by assumption.
    destruct (pct_decode (r ++ "/" ++ b)) eqn:E; [|simpl in H; congruence].
    destruct IH as [I1 I2]; [congruence|]. split; [|exact I2].
    destruct (pct_decode r); [discriminate | congruence].
  - change (String pct (String x (String y r)) ++ "/" ++ b)%string
      with (String pct (String x (String y (r ++ "/" ++ b)))) in H.
    destruct (hexval x) as [hx|] eqn:Hx; [|unfold pct in H; simpl in H; rewrite Hx in H; congruence].
    destruct (hexval y) as [hy|] eqn:Hy; [|unfold pct in H; simpl in H; rewrite Hx, Hy in H; congruence].
    rewrite (pct_decode_esc _ _ _ _ (r ++ "/" ++ b) Hx Hy) in H. rewrite (pct_decode_esc _ _ _ _ r Hx Hy).
    destruct (pct_decode (r ++ "/" ++ b)) eqn:E; [|simpl in H; congruence].
    destruct IH as [I1 I2]; [congruence|]. split; [|exact I2].
    destruct (pct_decode r); [discriminate | congruence].
  - exfalso. apply H. destruct b; reflexivity.
  - exfalso. apply H. unfold pct. simpl. destruct (hexval x); reflexivity.
Qed.

Lemma valid_enc_seg1 p : valid_enc p -> valid_enc (seg1 p).
Proof.
  intro H. destruct (has_more p) eqn:Hm.
  - rewrite <- (seg1_rest p Hm) in H. apply valid_enc_cut in H. tauto.
  - rewrite (seg1_all p Hm). exact H.
Qed.

Lemma valid_enc_rest p : has_more p = true -> valid_enc p -> valid_enc (rest_of p).
Proof. intros Hm H. rewrite <- (seg1_rest p Hm) in H. apply valid_enc_cut in H. tauto. Qed.

(** the tree as it is now, and a request view with RawPath (what every entry point produces):
    no guard is left *)
Lemma route_guards_now eng s q segs :
  String.eqb (q_rawpath q) "" = false -> route_guards true true true D8 eng s q segs = false.
Proof.
  intro Hr. unfold route_guards. cbv zeta.
  assert (G : forall g, (forall v, g (rl_slash (sr_def s)) q v = false) ->
              on_params g (rl_slash (sr_def s)) q (declared_names (sr_tokens s)) segs (rt_params (sr_route s)) = false).
  { intros g Hg. unfold on_params. induction (rt_params (sr_route s)) as [|p r IH]; [reflexivity|].
    cbn [existsb]. rewrite IH, orb_false_r. unfold on_param.
    destruct (assoc_first _ _ _); [apply Hg | reflexivity]. }
  rewrite !G.
  - unfold guard_F1, guard_F4. reflexivity.
  - intro v. unfold guard_F8, guard_F8_val. cbn [is8 negb andb].
    destruct (spec_decode true v); [|apply andb_false_r]. apply andb_false_r.
  - intro v. unfold guard_F7, guard_F7_val, guard_F7b. cbn [is7 negb andb].
    destruct (rl_slash (sr_def s)); apply andb_false_r.
  - intro v. unfold guard_F6. cbn [negb andb orb]. rewrite Hr. reflexivity.
Qed.

Theorem lookup_answers_spec_now : forall eng ds es t q,
  load true true ds = Loaded es t ->
  String.eqb (q_rawpath q) "" = false -> valid_enc (q_rawpath q) ->
  forall k, In k (snd (serve true true true true D8 eng es t q)) ->
  forall s segs, nth_error (flat_routes 0 ds) (k_vid k) = Some s -> sr_segs s q = Some segs ->
    k_res k = spec_answer eng s q segs.
Proof.
  intros eng ds es t q Hload Hr Hvalid k Hk s segs Hs Hsegs.
  assert (Hlp : lookup_path q = q_rawpath q) by (unfold lookup_path; rewrite Hr; reflexivity).
  apply (lookup_answers_spec true true true D8 eng ds es t q Hload k Hk s segs Hs Hsegs).
  - unfold sr_segs in Hsegs. rewrite Hlp in Hsegs.
    apply (em_values valid_enc valid_enc_seg1 valid_enc_rest _ _ _ Hvalid Hsegs).
  - unfold sr_segs in Hsegs. rewrite Hlp in Hsegs. unfold from_path.
    refine (em_values (fun v => has_enc_slash v = true -> has_enc_slash (q_rawpath q) = true) _ _ _ _ _ _ Hsegs).
    + intros p Hp H. apply Hp. apply has_enc_slash_seg1. exact H.
    + intros p Hm Hp H. apply Hp. apply has_enc_slash_rest; assumption.
    + tauto.
  - apply route_guards_now. exact Hr.
Qed.

(* ------------------------------------------------------------------ the entry returned, and no panic *)

(** positions of nodes end at a free wildcard: counted on the pieces actually walked *)
Fixpoint walked (pi : list piece) : nat :=
  match pi with
  | [] => 0
  | PS _ :: r => walked r
  | PW :: r => S (walked r)
  | PC :: _ => 1
  end.

Lemma pos_match_length : forall pi path vals, pos_match pi path = Some vals -> length vals = walked pi.
Proof.
  induction pi as [|[s| |] r IH]; intros path vals; simpl.
  - destruct (String.eqb path ""); [|discriminate]. intro H. inversion H. reflexivity.
  - destruct (prefix s path); [apply IH | discriminate].
  - destruct (Nat.eqb (next_sep path) 0); [discriminate|].
    destruct (pos_match r (sdrop (next_sep path) path)) as [v|] eqn:E; [|discriminate].
    intro H. inversion H. simpl. rewrite (IH _ _ E). reflexivity.
  - destruct (String.eqb path ""); [discriminate|]. intro H. inversion H. reflexivity.
Qed.

(** for the positions that exist in a tree the free wildcard is last, so both counts agree *)
Lemma at_pos_walked t pi node : at_pos t pi node -> walked pi = count_wild (flat pi).
Proof.
  intro H. induction H; simpl; try reflexivity.
  - unfold fcs. rewrite count_wild_app. rewrite IHat_pos.
    assert (E : count_wild (map FC (chars (t_path child))) = 0) by (induction (chars (t_path child)); simpl; auto).
    rewrite E. reflexivity.
  - rewrite IHat_pos. reflexivity.
Qed.

Lemma param_match_no_panic fx6 fx7 eng sl q (keys vals : list string) p :
  length keys = length vals -> param_match fx6 fx7 eng sl q keys vals p <> MPanic.
Proof.
  intro Hl. unfold param_match. destruct (index_of (pp_name p) keys) as [i|] eqn:Ei; [|discriminate].
  destruct (index_in_range _ _ _ _ Hl Ei) as (v & Ev). rewrite Ev.
  destruct (String.eqb (q_rawpath q) ""); [destruct (tm_match _ _ _ _); discriminate|].
  destruct sl.
  - destruct (contains_enc_slash fx7 (q_rawpath q)); [discriminate|]. destruct (tm_match _ _ _ _); discriminate.
  - destruct (tm_match _ _ _ _); discriminate.
  - destruct (tm_match _ _ _ _); discriminate.
Qed.

Lemma route_matches_no_panic fx1 fx6 fx7 eng cm q (keys vals : list string) :
  length keys = length vals -> route_matches fx1 fx6 fx7 eng cm q keys vals <> MPanic.
Proof.
  intro Hl. unfold route_matches.
  destruct (negb (scheme_match _ q)); [discriminate|].
  destruct (negb (method_match _ q)); [discriminate|].
  destruct (negb (hosts_match _ _ _ q)); [discriminate|].
  induction (cm_params cm) as [|p r IH]; simpl; [discriminate|].
  destruct (param_match fx6 fx7 eng (cm_slash cm) q keys vals p) eqn:E; try discriminate; [exact IH|].
  exfalso. exact (param_match_no_panic _ _ _ _ _ _ _ _ Hl E).
Qed.

Lemma try_values_panic m keys caps vs :
  fst (try_values m keys caps vs) = None -> exists k, In k (snd (try_values m keys caps vs)) /\ k_res k = MPanic.
Proof.
  induction vs as [|v r IH]; simpl; [discriminate|].
  destruct (m v keys caps) eqn:E.
  - discriminate.
  - destruct (try_values m keys caps r) as [x cs]. simpl in *. intro H.
    destruct (IH H) as (k & Hk & Hr). exists k. auto.
  - intros _. eexists. split; [left; reflexivity | reflexivity].
Qed.

(** a lookup panics only through a panicking matcher call *)
Lemma find_node_panic fx2 fx5 m n :
  forall path caps, fst (find_node fx2 fx5 m n path caps) = FPanic ->
    exists k, In k (snd (find_node fx2 fx5 m n path caps)) /\ k_res k = MPanic.
Proof.
  induction n as [p st w c vs ks bt IHs IHw IHc] using tree_ind'.
  set (n := Node p st w c vs ks bt) in *.
  intros path caps. destruct path as [|first rest].
  - change (find_node fx2 fx5 m n "" caps) with (here_part fx5 m n caps). unfold here_part.
    destruct (is_nil (t_values n)); [discriminate|].
    assert (P := try_values_panic m (t_keys n) caps (t_values n)).
    destruct (try_values m (t_keys n) caps (t_values n)) as [[[v|]|] cs]; try discriminate.
    intros _. apply P. reflexivity.
  - rewrite find_node_cons.
    assert (Hs : fst (static_part fx2 fx5 m n first rest caps) = FPanic ->
                 exists k, In k (snd (static_part fx2 fx5 m n first rest caps)) /\ k_res k = MPanic).
    { unfold static_part. destruct (find_static first (t_statics n)) as [child|] eqn:Ef; [|discriminate].
      apply find_static_In in Ef. destruct (prefix (t_path child) (String first rest)); [|discriminate].
      rewrite Forall_forall in IHs. apply (IHs _ Ef). }
    destruct (static_part fx2 fx5 m n first rest caps) as [[|[x|] caps1 b] cs1]; cbn [fst snd] in Hs |- *;
      try discriminate; [intros _; apply Hs; reflexivity|].
    destruct b; [|discriminate].
    assert (Hw : fst (wild_part fx2 fx5 m n (String first rest) caps1) = Some FPanic ->
                 exists k, In k (snd (wild_part fx2 fx5 m n (String first rest) caps1)) /\ k_res k = MPanic).
    { unfold wild_part. destruct (t_wild n) as [ww|] eqn:Ew; [|discriminate].
      destruct (Nat.eqb (next_sep (String first rest)) 0); [discriminate|].
      assert (I := IHw ww Ew (sdrop (next_sep (String first rest)) (String first rest))
                       (caps1 ++ [stake (next_sep (String first rest)) (String first rest)])).
      destruct (find_node fx2 fx5 m ww _ _) as [[|[y|] cc bb] cs]; cbn [fst snd wild_res] in *;
        try discriminate; [intros _; apply I; reflexivity|].
      destruct bb; discriminate. }
    destruct (wild_part fx2 fx5 m n (String first rest) caps1) as [[r|] cs2]; cbn [fst snd] in Hw |- *.
    + intro E. subst r. destruct (Hw eq_refl) as (k & Hk & Hr). exists k. split; [apply in_or_app; auto | exact Hr].
    + destruct (t_catch n) as [cc|] eqn:Ec; [|discriminate].
      assert (Hc : fst (catch_part fx2 m n cc (String first rest) caps1) = FPanic ->
                   exists k, In k (snd (catch_part fx2 m n cc (String first rest) caps1)) /\ k_res k = MPanic).
      { unfold catch_part.
        assert (P := try_values_panic m (if fx2 then t_keys cc else t_keys n)
                       (if fx2 then caps1 ++ [String first rest] else caps1) (t_values cc)).
        destruct (try_values m _ _ (t_values cc)) as [[[v|]|] cs]; try discriminate.
        intros _. apply P. reflexivity. }
      destruct (catch_part fx2 m n cc (String first rest) caps1) as [r cs3]. cbn [fst snd] in Hc |- *.
      intro E. destruct (Hc E) as (k & Hk & Hr). exists k. split; [|exact Hr].
      apply in_or_app. right. apply in_or_app. auto.
Qed.

Lemma Forall2_nth_ex {A B} (R : A -> B -> Prop) l1 l2 : Forall2 R l1 l2 ->
  forall i a, nth_error l1 i = Some a -> exists b, nth_error l2 i = Some b /\ R a b.
Proof.
  intro H. induction H as [|x y l1 l2 Hxy H IH]; intros [|i] a; simpl; try discriminate.
  - intro E. inversion E; subst. exists y. auto.
  - apply IH.
Qed.

(** what a node reached by a lookup stores, in terms of the rule set *)
Lemma node_entry fx4 ds es t q pi node vals v :
  load true fx4 ds = Loaded es t ->
  at_pos t pi node -> In v (t_values node) -> pos_match pi (lookup_path q) = Some vals ->
  exists e s, nth_error es v = Some e /\ nth_error (flat_routes 0 ds) v = Some s /\ entry_of fx4 e s /\
    length (t_keys node) = length vals /\
    (forall segs, sr_segs s q = Some segs -> t_keys node = declared_names (sr_tokens s) /\ vals = segs).
Proof.
  intros Hload Hat Hv Hm.
  destruct (loaded_inv _ _ _ _ Hload) as [_ Hinv].
  destruct (at_pos_entry es t pi node Hat [] v Hinv Hv) as (e & He & Hpos & Hnames).
  destruct (Forall2_nth_ex _ _ _ (loaded_table _ _ _ _ Hload) _ _ He) as (s & Hs & Hent).
  exists e, s. repeat split; try assumption.
  - rewrite Hnames, enames_count, Hpos. simpl. rewrite <- (at_pos_walked _ _ _ Hat).
    symmetry. exact (pos_match_length _ _ _ Hm).
  - destruct Hent as (cr & _ & _ & _ & Hpath & _ & _).
    unfold sr_segs, sr_tokens in H. rewrite <- Hpath in H.
    destruct (expr_to_pos _ _ _ H) as [F1 F2].
    unfold sr_tokens. rewrite <- Hpath, <- F2. exact Hnames.
  - destruct Hent as (cr & _ & _ & _ & Hpath & _ & _).
    unfold sr_segs, sr_tokens in H. rewrite <- Hpath in H.
    destruct (expr_to_pos _ _ _ H) as [F1 F2].
    rewrite pos_match_flat in Hm. simpl in Hpos. rewrite <- Hpos, F1 in Hm. inversion Hm. reflexivity.
Qed.

(** no request makes the lookup of a loaded rule set panic (the tree as it is now) *)
Theorem lookup_no_panic : forall fx1 fx4 fx6 fx7 eng ds es t q,
  load true fx4 ds = Loaded es t -> fst (serve fx1 true true fx6 fx7 eng es t q) <> OPanic.
Proof.
  intros fx1 fx4 fx6 fx7 eng ds es t q Hload.
  set (m := matcher_of fx1 fx6 fx7 eng es q).
  destruct (find_node_good m t (lookup_path q) []) as [Hcalls Hfound].
  assert (Hpan := find_node_panic true true m t (lookup_path q) []).
  unfold serve, tree_find. fold m.
  destruct (find_node true true m t (lookup_path q) []) as [[|[[keys v]|] params b] cs] eqn:Efn;
    cbn [fst snd] in *.
  - (* a panicking matcher call: impossible, keys and values have the same length *)
    exfalso. destruct (Hpan eq_refl) as (k & Hk & Hr).
    destruct (Hcalls k Hk) as (pi & node & vals & Hat & Hv & Hm & Hkeys & Hvals).
    destruct (node_entry fx4 ds es t q pi node vals (k_vid k) Hload Hat Hv Hm) as (e & s & He & _ & _ & Hlen & _).
    assert (Hres : call_res m k).
    { apply (find_node_res true true m t (lookup_path q) []). rewrite Efn. exact Hk. }
    unfold call_res, m, matcher_of in Hres. rewrite He, Hr in Hres. symmetry in Hres.
    revert Hres. apply route_matches_no_panic. rewrite Hkeys, Hvals. exact Hlen.
  - destruct Hfound as (pi & node & vals & Hat & Hv & Hm & Hkeys & Hparams).
    destruct (node_entry fx4 ds es t q pi node vals v Hload Hat Hv Hm) as (e & s & He & _ & _ & Hlen & _).
    simpl in Hparams. subst keys params.
    rewrite (params_of_named _ _ Hlen), He.
    destruct (execute fx7 (cm_slash (ce_m e)) q _). discriminate.
  - discriminate.
Qed.

(** the entry a lookup returns: the rule of a route of the rule set, and — if that route's
    expression matches the request path with the segments [segs] — the captures Execute
    produces from exactly the named segments *)
Theorem lookup_entry : forall fx1 fx4 fx6 fx7 eng ds es t q r caps rej cs,
  load true fx4 ds = Loaded es t ->
  serve fx1 true true fx6 fx7 eng es t q = (ORule r caps rej, cs) ->
  exists v s, nth_error (flat_routes 0 ds) v = Some s /\ sr_rule s = r /\
    forall segs, sr_segs s q = Some segs ->
      execute fx7 (rl_slash (sr_def s)) q (map_of (named_pairs (declared_names (sr_tokens s)) segs)) = (caps, rej).
Proof.
  intros fx1 fx4 fx6 fx7 eng ds es t q r caps rej cs Hload.
  set (m := matcher_of fx1 fx6 fx7 eng es q).
  destruct (find_node_good m t (lookup_path q) []) as [_ Hfound].
  unfold serve, tree_find. fold m.
  destruct (find_node true true m t (lookup_path q) []) as [[|[[keys v]|] params b] cs0]; cbn [fst] in *;
    try discriminate.
  destruct Hfound as (pi & node & vals & Hat & Hv & Hm & Hkeys & Hparams).
  destruct (node_entry fx4 ds es t q pi node vals v Hload Hat Hv Hm) as (e & s & He & Hs & Hent & Hlen & Hspec).
  simpl in Hparams. subst keys params.
  rewrite (params_of_named _ _ Hlen), He.
  destruct (execute fx7 (cm_slash (ce_m e)) q (map_of (named_pairs (t_keys node) vals))) as [caps0 rej0] eqn:Eex.
  intro H. inversion H; subst. clear H.
  destruct Hent as (cr & _ & _ & Hrule & _ & _ & Hslash).
  exists v, s. split; [exact Hs|]. split; [symmetry; exact Hrule|].
  intros segs Hsegs. destruct (Hspec segs Hsegs) as [<- <-]. rewrite <- Hslash. exact Eex.
Qed.

(* ------------------------------------------------------------------ the converse: stored position => documented match *)

Lemma sdrop_app s p : sdrop (slen s) (s ++ p) = p.
Proof. induction s as [|c s IH]; simpl; [destruct p; reflexivity | exact IH]. Qed.

Lemma stake_app s p : stake (slen s) (s ++ p) = s.
Proof. induction s as [|c s IH]; simpl; [destruct p; reflexivity | unfold slen in *; simpl; rewrite IH; reflexivity]. Qed.

Lemma next_sep_app_noslash s p : no_slash s -> next_sep (s ++ p) = slen s + next_sep p.
Proof.
  unfold no_slash. induction s as [|c s IH]; intro H; [reflexivity|].
  rewrite next_sep_cons, slen_cons in H. simpl String.append. rewrite next_sep_cons, slen_cons.
  destruct (Ascii.eqb slash c); [lia|]. rewrite IH; lia.
Qed.

Lemma noslash_is_seg1 s path :
  prefix s path = true -> no_slash s ->
  (sdrop (slen s) path = "" \/ exists r, sdrop (slen s) path = String slash r) ->
  s = seg1 path /\ slen s = next_sep path.
Proof.
  intros Hp Hs Hrest. apply prefix_split in Hp as (p' & ->). rewrite sdrop_app in Hrest.
  assert (Hn : next_sep (s ++ p') = slen s).
  { rewrite (next_sep_app_noslash _ _ Hs). destruct Hrest as [->|(r & ->)].
    - unfold next_sep. simpl. unfold slen. simpl. lia.
    - rewrite next_sep_cons, Ascii.eqb_refl. lia. }
  split; [|symmetry; exact Hn]. unfold seg1. rewrite Hn, stake_app. reflexivity.
Qed.

Lemma no_slash_cons c s : no_slash (String c s) -> Ascii.eqb slash c = false /\ no_slash s.
Proof.
  unfold no_slash. rewrite next_sep_cons, slen_cons. destruct (Ascii.eqb slash c); [lia|]. split; [reflexivity | lia].
Qed.

Lemma token_lit_noslash seg s : token_of seg = Lit s -> no_slash seg -> no_slash s.
Proof.
  destruct seg as [|c s']; [simpl; intro H; inversion H; auto|].
  rewrite token_of_cons. intros H Hn. destruct (no_slash_cons _ _ Hn) as [_ Hn'].
  destruct (Ascii.eqb c ":"); [discriminate|]. destruct (Ascii.eqb c "*"); [discriminate|].
  destruct (Ascii.eqb c "\").
  - destruct s' as [|c2 r]; [inversion H; subst; exact Hn|].
    destruct (is_special c2); inversion H; subst; assumption.
  - inversion H; subst. exact Hn.
Qed.

Lemma valid_rest e : valid_expr e -> has_more e = true ->
  (forall n, token_of (seg1 e) <> Free n) -> valid_expr (rest_of e).
Proof.
  intros Hv Hm Hnf n Hin. apply Hv. unfold valid_expr, valid_from in *. rewrite epos_seg.
  unfold etail. rewrite Hm. destruct (token_of (seg1 e)) as [s|w|f].
  - apply in_or_app. right. right. exact Hin.
  - right. right. exact Hin.
  - exfalso. exact (Hnf f eq_refl).
Qed.

Lemma valid_free e n : valid_expr e -> token_of (seg1 e) = Free n -> has_more e = false.
Proof.
  intros Hv Ht. assert (Hs := token_free_inv _ _ Ht).
  destruct e as [|c r]; [reflexivity|].
  assert (Hc : c = "*"%char).
  { unfold seg1 in Hs. rewrite next_sep_cons in Hs. destruct (Ascii.eqb slash c); [discriminate|].
    cbn [stake] in Hs. inversion Hs. reflexivity. }
  subst c. assert (Hn : no_slash r).
  { apply Hv. unfold valid_from. rewrite fposm_seg. change (Ascii.eqb "*" "*") with true. left. reflexivity. }
  unfold has_more. rewrite next_sep_cons, slen_cons. change (Ascii.eqb slash "*") with false.
  unfold no_slash in Hn. rewrite Hn. apply Nat.ltb_irrefl.
Qed.

(** a valid expression whose stored position matches the path byte by byte matches it segment
    by segment, with the same values *)
Lemma pos_to_expr : forall e path vals,
  valid_expr e -> fmatch (erase (epos e)) path = Some vals ->
  expr_match (parse_expr e) (split_slash path) = Some vals.
Proof.
  intro e. remember (slen e) as n eqn:Hn. revert e Hn.
  induction n as [n IH] using lt_wf_ind. intros e Hn path vals Hvalid.
  assert (Htail : (forall f, token_of (seg1 e) <> Free f) -> forall p' vs,
    (p' = "" -> has_more path = false) ->
    (forall r, p' = String slash r -> has_more path = true /\ r = rest_of path) ->
    fmatch (erase (etail e)) p' = Some vs ->
    expr_match (if has_more e then parse_expr (rest_of e) else [])
               (if has_more path then split_slash (rest_of path) else []) = Some vs).
  { intros Hnf p' vs Hp0 Hp1 Hm. unfold etail in Hm. destruct (has_more e) eqn:He.
    - cbn [erase map erase1 fmatch] in Hm. destruct p' as [|d p'']; [discriminate|].
      destruct (Ascii.eqb slash d) eqn:Ed; [|discriminate]. apply Ascii.eqb_eq in Ed. subst d.
      destruct (Hp1 p'' eq_refl) as [Hp ->]. rewrite Hp.
      assert (Hr := rest_shorter e He).
      apply (IH (slen (rest_of e)) ltac:(lia) (rest_of e) eq_refl); [apply valid_rest; assumption | exact Hm].
    - simpl in Hm. destruct (String.eqb p' "") eqn:Ep; [|discriminate]. apply String.eqb_eq in Ep.
      inversion Hm; subst vs. rewrite (Hp0 Ep). reflexivity. }
  unfold epos. rewrite epos_seg, parse_expr_eq, (split_slash_eq path).
  assert (Hrest : forall k, k = next_sep path ->
            (sdrop k path = "" -> has_more path = false) /\
            (forall r, sdrop k path = String slash r -> has_more path = true /\ r = rest_of path)).
  { intros k ->. rewrite sdrop_next_sep. destruct (has_more path); split; try discriminate; auto.
    intros r H. inversion H. auto. }
  destruct (token_of (seg1 e)) as [s|nm|nm] eqn:Et.
  - (* literal segment *)
    rewrite erase_app, erase_ecs, fmatch_fcs. destruct (prefix s path) eqn:Hpre; [|discriminate].
    intro Hm.
    assert (Hns : no_slash s) by (apply (token_lit_noslash _ _ Et); apply seg1_no_slash).
    assert (Hshape : sdrop (slen s) path = "" \/ exists r, sdrop (slen s) path = String slash r).
    { unfold etail in Hm. destruct (has_more e).
      - cbn [erase map erase1 fmatch] in Hm. destruct (sdrop (slen s) path) as [|d p'']; [discriminate|].
        destruct (Ascii.eqb slash d) eqn:Ed; [|discriminate]. apply Ascii.eqb_eq in Ed. subst d. right. eauto.
      - simpl in Hm. destruct (String.eqb (sdrop (slen s) path) "") eqn:Ep; [|discriminate].
        apply String.eqb_eq in Ep. auto. }
    destruct (noslash_is_seg1 _ _ Hpre Hns Hshape) as [Hs1 Hl].
    rewrite em_lit, <- Hs1, String.eqb_refl.
    destruct (Hrest (slen s) Hl) as [R0 R1].
    apply (Htail ltac:(intros f; discriminate) (sdrop (slen s) path) vals R0 R1 Hm).
  - (* single wildcard *)
    cbn [erase map erase1 fmatch]. fold (erase (etail e)).
    destruct (Nat.eqb (next_sep path) 0) eqn:Ek; [discriminate|].
    destruct (fmatch (erase (etail e)) (sdrop (next_sep path) path)) as [vs|] eqn:Hm; [|discriminate].
    intro H. inversion H; subst vals. clear H.
    rewrite em_wild, seg1_empty, Ek.
    destruct (Hrest (next_sep path) eq_refl) as [R0 R1].
    rewrite (Htail ltac:(intros f; discriminate) _ vs R0 R1 Hm). reflexivity.
  - (* free wildcard: valid, so it is the last segment *)
    rewrite (valid_free e nm Hvalid Et). cbn [erase map erase1 fmatch].
    destruct (String.eqb path "") eqn:Ep; [discriminate|]. intro H. inversion H; subst vals.
    rewrite em_free_last.
    assert (Hj : join_slash (seg1 path :: (if has_more path then split_slash (rest_of path) else [])) = path).
    { rewrite <- (split_slash_eq path). apply join_split. }
    rewrite Hj, Ep. reflexivity.
Qed.

(* ------------------------------------------------------------------ unconditional forms *)

Lemma Forall_nth {A} (P : A -> Prop) l i a : Forall P l -> nth_error l i = Some a -> P a.
Proof. intros H E. rewrite Forall_forall in H. apply H. eapply nth_error_In. exact E. Qed.

(** a node reached by a lookup belongs to a route whose expression matches the request path as
    documented, with exactly the values walked, and carries that route's declared names *)
Lemma node_entry_strong fx4 ds es t q pi node vals v :
  load true fx4 ds = Loaded es t ->
  at_pos t pi node -> In v (t_values node) -> pos_match pi (lookup_path q) = Some vals ->
  exists e s, nth_error es v = Some e /\ nth_error (flat_routes 0 ds) v = Some s /\ entry_of fx4 e s /\
    sr_segs s q = Some vals /\ t_keys node = declared_names (sr_tokens s) /\ length (t_keys node) = length vals.
Proof.
  intros Hload Hat Hv Hm.
  destruct (node_entry fx4 ds es t q pi node vals v Hload Hat Hv Hm) as (e & s & He & Hs & Hent & Hlen & Hspec).
  assert (Hsegs : sr_segs s q = Some vals).
  { destruct (loaded_inv _ _ _ _ Hload) as [_ Hinv].
    destruct (at_pos_entry es t pi node Hat [] v Hinv Hv) as (e' & He' & Hpos & _).
    rewrite He in He'. inversion He'; subst e'. clear He'.
    assert (Hvalid := Forall_nth _ _ _ _ (loaded_valid _ _ _ _ Hload) He).
    destruct Hent as (cr & _ & _ & _ & Hpath & _ & _).
    unfold sr_segs, sr_tokens. rewrite <- Hpath. apply pos_to_expr; [exact Hvalid|].
    rewrite pos_match_flat in Hm. simpl in Hpos. rewrite Hpos. exact Hm. }
  exists e, s. repeat split; try assumption. destruct (Hspec vals Hsegs) as [Hk _]. exact Hk.
Qed.

(** every matcher call of a lookup is made for a route whose expression matches the request path
    (as documented), with the names that route declares and the segments its wildcards match *)
Theorem matcher_sees_route_keys_strong : forall fx1 fx4 fx6 fx7 eng ds es t q,
  load true fx4 ds = Loaded es t ->
  forall k, In k (snd (serve fx1 true true fx6 fx7 eng es t q)) ->
  exists s, nth_error (flat_routes 0 ds) (k_vid k) = Some s /\
    sr_segs s q = Some (k_vals k) /\ k_keys k = declared_names (sr_tokens s).
Proof.
  intros fx1 fx4 fx6 fx7 eng ds es t q Hload k Hk. rewrite serve_calls in Hk.
  destruct (find_node_good (matcher_of fx1 fx6 fx7 eng es q) t (lookup_path q) []) as [Hcalls _].
  destruct (Hcalls k Hk) as (pi & node & vals & Hat & Hv & Hm & Hkeys & Hvals).
  destruct (node_entry_strong fx4 ds es t q pi node vals (k_vid k) Hload Hat Hv Hm)
    as (e & s & _ & Hs & _ & Hsegs & Hnames & _).
  exists s. simpl in Hvals. rewrite Hvals, Hkeys. auto.
Qed.

Lemma try_values_found_call m keys caps vs v :
  fst (try_values m keys caps vs) = Some (Some v) ->
  exists k, In k (snd (try_values m keys caps vs)) /\ k_vid k = v /\ k_res k = MYes.
Proof.
  induction vs as [|x r IH]; simpl; [discriminate|].
  destruct (m x keys caps) eqn:E.
  - simpl. intro H. inversion H; subst. eexists. split; [left; reflexivity|]. simpl. auto.
  - destruct (try_values m keys caps r) as [y cs]. simpl in *. intro H.
    destruct (IH H) as (k & Hk & Hr). exists k. auto.
  - discriminate.
Qed.

(** the entry found was asked, and its matcher said yes *)
Lemma find_node_found_call fx2 fx5 m n :
  forall path caps keys v params b, fst (find_node fx2 fx5 m n path caps) = FRes (Some (keys, v)) params b ->
    exists k, In k (snd (find_node fx2 fx5 m n path caps)) /\ k_vid k = v /\ k_res k = MYes.
Proof.
  induction n as [p st w c vs ks bt IHs IHw IHc] using tree_ind'.
  set (n := Node p st w c vs ks bt) in *.
  intros path caps keys v params b. destruct path as [|first rest].
  - change (find_node fx2 fx5 m n "" caps) with (here_part fx5 m n caps). unfold here_part.
    destruct (is_nil (t_values n)); [discriminate|].
    assert (P := try_values_found_call m (t_keys n) caps (t_values n)).
    destruct (try_values m (t_keys n) caps (t_values n)) as [[[v0|]|] cs]; try discriminate.
    cbn [fst snd]. intro H. inversion H; subst. apply P. reflexivity.
  - rewrite find_node_cons.
    assert (Hs : forall keys v params b, fst (static_part fx2 fx5 m n first rest caps) = FRes (Some (keys, v)) params b ->
                 exists k, In k (snd (static_part fx2 fx5 m n first rest caps)) /\ k_vid k = v /\ k_res k = MYes).
    { unfold static_part. destruct (find_static first (t_statics n)) as [child|] eqn:Ef; [|discriminate].
      apply find_static_In in Ef. destruct (prefix (t_path child) (String first rest)); [|discriminate].
      rewrite Forall_forall in IHs. apply (IHs _ Ef). }
    destruct (static_part fx2 fx5 m n first rest caps) as [[|[x|] caps1 b1] cs1]; cbn [fst snd] in Hs |- *;
      try discriminate.
    + apply Hs.
    + destruct b1; [|discriminate].
      assert (Hw : forall keys v params b, fst (wild_part fx2 fx5 m n (String first rest) caps1) = Some (FRes (Some (keys, v)) params b) ->
                   exists k, In k (snd (wild_part fx2 fx5 m n (String first rest) caps1)) /\ k_vid k = v /\ k_res k = MYes).
      { unfold wild_part. destruct (t_wild n) as [ww|] eqn:Ew; [|discriminate].
        destruct (Nat.eqb (next_sep (String first rest)) 0); [discriminate|].
        assert (I := IHw ww Ew (sdrop (next_sep (String first rest)) (String first rest))
                         (caps1 ++ [stake (next_sep (String first rest)) (String first rest)])).
        destruct (find_node fx2 fx5 m ww _ _) as [[|[y|] cc bb] cs]; cbn [fst snd wild_res] in *; try discriminate.
        - intros k0 v0 p0 b0 H. inversion H; subst. apply (I k0 v0 p0 b0). reflexivity.
        - destruct bb; discriminate. }
      destruct (wild_part fx2 fx5 m n (String first rest) caps1) as [[r|] cs2]; cbn [fst snd] in Hw |- *.
      * intro E. subst r. destruct (Hw _ _ _ _ eq_refl) as (k & Hk & Hr). exists k. split; [apply in_or_app; auto | exact Hr].
      * destruct (t_catch n) as [cc|] eqn:Ec; [|discriminate].
        assert (Hc : forall keys v params b, fst (catch_part fx2 m n cc (String first rest) caps1) = FRes (Some (keys, v)) params b ->
                     exists k, In k (snd (catch_part fx2 m n cc (String first rest) caps1)) /\ k_vid k = v /\ k_res k = MYes).
        { unfold catch_part.
          assert (P := try_values_found_call m (if fx2 then t_keys cc else t_keys n)
                         (if fx2 then caps1 ++ [String first rest] else caps1) (t_values cc)).
          destruct (try_values m _ _ (t_values cc)) as [[[v0|]|] cs]; try discriminate.
          cbn [fst snd]. intros k0 v1 p0 b0 H. inversion H; subst. apply P. reflexivity. }
        destruct (catch_part fx2 m n cc (String first rest) caps1) as [r cs3]. cbn [fst snd] in Hc |- *.
        intro E. destruct (Hc _ _ _ _ E) as (k & Hk & Hr). exists k. split; [|exact Hr].
        apply in_or_app. right. apply in_or_app. auto.
Qed.

(** the rule a lookup selects: one of its routes has an expression that matches the request path
    as documented, that route's matcher was asked and said yes, and the captures are what Execute
    makes of exactly the named segments *)
Theorem lookup_selected : forall fx1 fx4 fx6 fx7 eng ds es t q r caps rej cs,
  load true fx4 ds = Loaded es t ->
  serve fx1 true true fx6 fx7 eng es t q = (ORule r caps rej, cs) ->
  exists v s segs k, nth_error (flat_routes 0 ds) v = Some s /\ sr_rule s = r /\ sr_segs s q = Some segs /\
    In k cs /\ k_vid k = v /\ k_res k = MYes /\
    execute fx7 (rl_slash (sr_def s)) q (map_of (named_pairs (declared_names (sr_tokens s)) segs)) = (caps, rej).
Proof.
  intros fx1 fx4 fx6 fx7 eng ds es t q r caps rej cs Hload Hserve.
  assert (Hcs : snd (serve fx1 true true fx6 fx7 eng es t q) = cs) by (rewrite Hserve; reflexivity).
  rewrite serve_calls in Hcs.
  set (m := matcher_of fx1 fx6 fx7 eng es q) in *.
  destruct (find_node_good m t (lookup_path q) []) as [_ Hfound].
  assert (Hcall := find_node_found_call true true m t (lookup_path q) []).
  unfold serve, tree_find in Hserve. fold m in Hserve.
  destruct (find_node true true m t (lookup_path q) []) as [[|[[keys v]|] params b] cs0]; cbn [fst snd] in *;
    try discriminate.
  destruct Hfound as (pi & node & vals & Hat & Hv & Hm & Hkeys & Hparams).
  destruct (node_entry_strong fx4 ds es t q pi node vals v Hload Hat Hv Hm)
    as (e & s & He & Hs & Hent & Hsegs & Hnames & Hlen).
  simpl in Hparams. subst keys params cs0.
  rewrite (params_of_named _ _ Hlen), He in Hserve.
  destruct (execute fx7 (cm_slash (ce_m e)) q (map_of (named_pairs (t_keys node) vals))) as [caps0 rej0] eqn:Eex.
  inversion Hserve; subst. clear Hserve.
  destruct Hent as (cr & _ & _ & Hrule & _ & _ & Hslash).
  destruct (Hcall _ _ _ _ eq_refl) as (k & Hk & Hkv & Hkr).
  exists v, s, vals, k. repeat split; try assumption; [symmetry; exact Hrule|].
  rewrite <- Hnames, <- Hslash. exact Eex.
Qed.

(* ------------------------------------------------------------------ the statement, end to end, for the tree as it is *)

Lemma named_pairs_valid names segs :
  Forall valid_enc segs -> Forall (fun kv => valid_enc (snd kv)) (named_pairs names segs).
Proof.
  revert segs. induction names as [|n nr IH]; intros [|v vr] H; simpl; try constructor.
  inversion H; subst. destruct (String.eqb n "*"); [apply IH; assumption|].
  constructor; [assumption | apply IH; assumption].
Qed.

Lemma decode_all_some keep pairs :
  Forall (fun kv => valid_enc (snd kv)) pairs -> exists dec, decode_all keep pairs = Some dec.
Proof.
  induction pairs as [|[k v] r IH]; intro H; [exists []; reflexivity|].
  inversion H as [|x y Hv Hr]; subst. simpl in Hv. destruct (IH Hr) as (dec & Hd).
  apply (spec_decode_valid keep) in Hv. simpl. destruct (spec_decode keep v) as [d|]; [|congruence].
  rewrite Hd. eexists. reflexivity.
Qed.

Lemma caps_guards_D8 sl pairs : caps_guard_F7 D8 sl pairs = false /\ caps_guard_F8 D8 sl pairs = false.
Proof.
  unfold caps_guard_F7, caps_guard_F8, guard_F7_val, guard_F7b, guard_F8_val. cbn [is7 is8 negb andb].
  split; destruct (negb (slash_eqb sl SOn)); try reflexivity; cbn [andb].
  - apply existsb_const_false.
  - induction pairs as [|kv r IH]; [reflexivity|]. simpl. rewrite IH.
    destruct (spec_decode true (snd kv)); reflexivity.
Qed.

(** THE STATEMENT, for the tree as it is now and every request view with a validly encoded
    RawPath: if the lookup selects a rule, then one of its routes has an expression that matches the
    request path, for that route scheme, method, host and every path_params expression hold as
    documented, the request is refused exactly for an encoded slash under `off`, and otherwise the
    values exposed are exactly the decoded segments under the wildcard names *)
Theorem lookup_selected_now : forall eng ds es t q r caps rej cs,
  load true true ds = Loaded es t ->
  String.eqb (q_rawpath q) "" = false -> valid_enc (q_rawpath q) ->
  serve true true true true D8 eng es t q = (ORule r caps rej, cs) ->
  exists v s segs, nth_error (flat_routes 0 ds) v = Some s /\ sr_rule s = r /\ sr_segs s q = Some segs /\
    spec_route_ok eng (sr_def s) (rt_params (sr_route s)) q (declared_names (sr_tokens s)) segs = true /\
    rej = spec_rejected (rl_slash (sr_def s)) q /\
    (rej = false -> exists sc, spec_captures (rl_slash (sr_def s)) (declared_names (sr_tokens s)) segs = Some sc /\ caps = sc).
Proof.
  intros eng ds es t q r caps rej cs Hload Hr Hvalid Hserve.
  destruct (lookup_selected true true true D8 eng ds es t q r caps rej cs Hload Hserve)
    as (v & s & segs & k & Hs & Hrule & Hsegs & Hk & Hkv & Hkr & Hex).
  exists v, s, segs. repeat split; try assumption.
  - assert (Hin : In k (snd (serve true true true true D8 eng es t q))) by (rewrite Hserve; exact Hk).
    subst v. assert (Ha := lookup_answers_spec_now eng ds es t q Hload Hr Hvalid k Hin s segs Hs Hsegs).
    rewrite Hkr in Ha. unfold spec_answer in Ha. destruct (spec_route_ok _ _ _ _ _ _); [reflexivity | discriminate].
  - destruct (captures_exact D8 _ q _ _ _ _ eq_refl Hex) as [H1 _]. exact H1.
  - intro Hrej. destruct (captures_exact D8 _ q _ _ _ _ eq_refl Hex) as [_ H2].
    assert (Hlp : lookup_path q = q_rawpath q) by (unfold lookup_path; rewrite Hr; reflexivity).
    assert (Hvs : Forall valid_enc segs).
    { unfold sr_segs in Hsegs. rewrite Hlp in Hsegs.
      apply (em_values valid_enc valid_enc_seg1 valid_enc_rest _ _ _ Hvalid Hsegs). }
    destruct (decode_all_some (keep_slash_of (rl_slash (sr_def s))) _
                (named_pairs_valid (declared_names (sr_tokens s)) segs Hvs)) as (dec & Hd).
    exists (map_of dec). unfold spec_captures at 1. rewrite Hd. split; [reflexivity|].
    destruct (caps_guards_D8 (rl_slash (sr_def s)) (named_pairs (declared_names (sr_tokens s)) segs)) as [G7 G8].
    apply (H2 Hrej (map_of dec)); [|exact G7 | exact G8]. unfold spec_captures. rewrite Hd. reflexivity.
Qed.

(** unnamed wildcards are not exposed by a lookup *)
Lemma map_put_In k v l x : In x (map_put k v l) -> x = (k, v) \/ In x l.
Proof.
  induction l as [|[k' v'] r IH]; simpl.
  - intros [H|[]]. left. symmetry. exact H.
  - destruct (String.eqb k k').
    + intros [H|H]; [left; symmetry; exact H | right; right; exact H].
    + destruct (String.leb k k').
      * intros [H|H]; [left; symmetry; exact H | right; exact H].
      * intros [H|H]; [right; left; exact H|]. destruct (IH H) as [H1|H1]; [left; exact H1 | right; right; exact H1].
Qed.

Lemma map_of_In l x : In x (map_of l) -> In x l.
Proof.
  unfold map_of. assert (G : forall l acc, In x (fold_left (fun acc kv => map_put (fst kv) (snd kv) acc) l acc) -> In x acc \/ In x l).
  { clear l. induction l as [|[k v] r IH]; intro acc; simpl; [tauto|].
    intro H. destruct (IH _ H) as [H1|H1]; [|tauto]. apply map_put_In in H1 as [->|H1]; tauto. }
  intro H. destruct (G l [] H) as [[]|H1]. exact H1.
Qed.

Theorem lookup_unnamed_not_exposed : forall fx1 fx4 fx6 fx7 eng ds es t q r caps rej cs,
  load true fx4 ds = Loaded es t ->
  serve fx1 true true fx6 fx7 eng es t q = (ORule r caps rej, cs) ->
  forall k v, In (k, v) caps -> k <> "*".
Proof.
  intros fx1 fx4 fx6 fx7 eng ds es t q r caps rej cs Hload Hserve k v Hin.
  destruct (lookup_selected fx1 fx4 fx6 fx7 eng ds es t q r caps rej cs Hload Hserve)
    as (v0 & s & segs & k0 & _ & _ & _ & _ & _ & _ & Hex).
  assert (Hkeys : exists v', In (k, v') (named_pairs (declared_names (sr_tokens s)) segs)).
  { unfold execute in Hex.
    assert (G : forall f, In (k, v) (map (fun kv : string * string => (fst kv, f (snd kv))) (map_of (named_pairs (declared_names (sr_tokens s)) segs))) ->
                          exists v', In (k, v') (named_pairs (declared_names (sr_tokens s)) segs)).
    { intros f H. apply in_map_iff in H as ([k1 v1] & E & H1). inversion E; subst. exists v1. apply map_of_In. exact H1. }
    destruct (rl_slash (sr_def s)).
    - destruct (contains_enc_slash fx7 (q_rawpath q)); inversion Hex; subst.
      + exists v. apply map_of_In. exact Hin.
      + eapply G. exact Hin.
    - inversion Hex; subst. eapply G. exact Hin.
    - inversion Hex; subst. eapply G. exact Hin. }
  destruct Hkeys as (v' & Hv'). exact (unnamed_not_exposed _ _ _ _ Hv').
Qed.

(* ------------------------------------------------------------------ the evaluator's loader *)

Lemma entries_of_rule : forall cs i e, In e (entries_of i cs) -> i <= ce_rule e < i + length cs.
Proof.
  induction cs as [|c r IH]; intros i e H; simpl in H; [destruct H|].
  apply in_app_or in H as [H|H].
  - apply in_map_iff in H as (pm & <- & _). simpl. lia.
  - specialize (IH _ _ H). simpl. lia.
Qed.

Lemma create_rules_length fx4 : forall ds cs, create_rules fx4 ds = Ok cs -> length cs = length ds.
Proof.
  induction ds as [|d r IH]; intros cs H; simpl in H; [inversion H; reflexivity|].
  destruct (create_rule fx4 d); [|discriminate]. destruct (create_rules fx4 r) as [cs'|] eqn:E; [|discriminate].
  inversion H; subst. simpl. rewrite (IH cs' eq_refl). reflexivity.
Qed.

(** with one rule set the loader the check evaluates ([load2]) is the loader of the theorems *)
Lemma load2_single fx3 fx4 k ds : length ds <= k -> load2 fx3 fx4 k ds = load fx3 fx4 ds.
Proof.
  intro Hk. unfold load2, load. destruct (create_rules fx4 ds) as [cs|] eqn:Ec; [|reflexivity].
  assert (Hl := create_rules_length _ _ _ Ec).
  assert (Hall : forall e, In e (entries_of 0 cs) -> Nat.ltb (ce_rule e) k = true).
  { intros e He. apply entries_of_rule in He. apply Nat.ltb_lt. lia. }
  assert (E1 : filter (fun e => Nat.ltb (ce_rule e) k) (entries_of 0 cs) = entries_of 0 cs).
  { clear -Hall. induction (entries_of 0 cs) as [|e r IH]; [reflexivity|]. simpl.
    rewrite (Hall e (or_introl eq_refl)). f_equal. apply IH. intros x Hx. apply Hall. right. exact Hx. }
  assert (E2 : filter (fun e => negb (Nat.ltb (ce_rule e) k)) (entries_of 0 cs) = []).
  { clear -Hall. induction (entries_of 0 cs) as [|e r IH]; [reflexivity|]. simpl.
    rewrite (Hall e (or_introl eq_refl)). simpl. apply IH. intros x Hx. apply Hall. right. exact Hx. }
  rewrite E1, E2. destruct (add_entries fx3 empty_tree 0 (entries_of 0 cs)); reflexivity.
Qed.

(* ------------------------------------------------------------------ sequences *)

(** history independence of the model: the answer to the i-th request of a sequence is the answer to that
    request alone, whatever was served before and after *)
Lemma serve_seq_independent fx1 fx2 fx5 fx6 fx7 eng es t qs i :
  nth_error (serve_seq fx1 fx2 fx5 fx6 fx7 eng es t qs) i =
  option_map (serve fx1 fx2 fx5 fx6 fx7 eng es t) (nth_error qs i).
Proof.
  unfold serve_seq. revert i. induction qs as [|q r IH]; intros [|i]; simpl; try reflexivity. apply IH.
Qed.

Lemma serve_seq_same_request fx1 fx2 fx5 fx6 fx7 eng es t qs1 qs2 i j q :
  nth_error qs1 i = Some q -> nth_error qs2 j = Some q ->
  nth_error (serve_seq fx1 fx2 fx5 fx6 fx7 eng es t qs1) i = nth_error (serve_seq fx1 fx2 fx5 fx6 fx7 eng es t qs2) j.
Proof. intros H1 H2. rewrite !serve_seq_independent, H1, H2. reflexivity. Qed.
