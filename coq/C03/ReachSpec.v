(** C03/ReachSpec.v — the C03 lookup theorems for EVERY tree the repository can reach.

    C03/ProofsSpec.v proves them for [load] (one AddRuleSet on the empty tree) from two facts
    about the loaded pair (table of created routes [es], tree [t]):
      [table_ok]   the table of created routes is, entry by entry, the rule set's list of routes
      [stored_ok]  every value stored in the tree sits at the byte-level position of ITS route's
                   expression, under the wildcard names that route declares, and that
                   expression is valid (C03/ReachConv.v)
    The first part of this file ([Section Generic]) proves the same theorems from these two facts
    alone, for any tree.  The second part instantiates them with the trees reachable by Tree.Add
    and Tree.Delete ([reach_tree]: C03/ReachKeys.v on top of Radix/, C06/TreeDel*.v, C02/Reach.v),
    read as C03 trees by [conv].

    What had to be generalised: only the SOURCE of [stored_ok].  C03's lookup side
    ([find_node_good]: what every matcher call is made with) never needed an invariant; the
    insertion invariant [Inv] of C03/ProofsAdd.v (preserved by C03's own transcription of Add) is
    replaced by the content invariant of the shared tree: [abs] of a reachable tree holds, per
    pattern, only values whose own expression parses to that pattern with the node's key names. *)
From HV Require Import Base.Prelude C03.Model C03.Spec C03.Proofs C03.ProofsTree C03.ProofsAdd C03.ProofsSpec
  C03.ReachConv.
From HV Require C03.ReachKeys.
Open Scope string_scope.
Open Scope list_scope.

Definition table_ok (fx4 : bool) (es : list centry) (ds : list ruledef) : Prop :=
  Forall2 (entry_of fx4) es (flat_routes 0 ds).

Lemma created_table fx4 ds cs : create_rules fx4 ds = Ok cs -> table_ok fx4 (entries_of 0 cs) ds.
Proof. apply entries_flat. Qed.

Lemma Forall2_len {A B} (R : A -> B -> Prop) l1 l2 : Forall2 R l1 l2 -> length l1 = length l2.
Proof. induction 1; simpl; congruence. Qed.

Section Generic.
Variable fx4 : bool.
Variable ds : list ruledef.
Variable es : list centry.
Variable t : tree.
Hypothesis Htab : table_ok fx4 es ds.
Hypothesis Hst : stored_ok es t.

(** a node reached by a lookup belongs to a route whose expression matches the request path as
    documented, with exactly the values walked, and carries that route's declared names *)
Lemma g_node_entry q pi node vals v :
  at_pos t pi node -> In v (t_values node) -> pos_match pi (lookup_path q) = Some vals ->
  exists e s, nth_error es v = Some e /\ nth_error (flat_routes 0 ds) v = Some s /\ entry_of fx4 e s /\
    sr_segs s q = Some vals /\ t_keys node = declared_names (sr_tokens s) /\ length (t_keys node) = length vals.
Proof.
  intros Hat Hv Hm.
  destruct (Hst pi node v Hat Hv) as (e & He & Hpos & Hnames & Hvalid).
  destruct (Forall2_nth_ex _ _ _ Htab _ _ He) as (s & Hs & Hent).
  assert (Hpath : ce_path e = rt_path (sr_route s)) by (destruct Hent as (cr & _ & _ & _ & Hp & _ & _); exact Hp).
  assert (Hsegs : sr_segs s q = Some vals).
  { unfold sr_segs, sr_tokens. rewrite <- Hpath. apply pos_to_expr; [exact Hvalid|].
    rewrite pos_match_flat in Hm. rewrite Hpos. exact Hm. }
  assert (Hk : t_keys node = declared_names (sr_tokens s)).
  { unfold sr_segs, sr_tokens in Hsegs. rewrite <- Hpath in Hsegs.
    destruct (expr_to_pos _ _ _ Hsegs) as [_ F2]. unfold sr_tokens. rewrite <- Hpath, <- F2. exact Hnames. }
  exists e, s. repeat split; try assumption.
  rewrite Hk. unfold sr_segs in Hsegs. symmetry. exact (em_length _ _ _ Hsegs).
Qed.

Theorem g_matcher_sees_route_keys fx1 fx6 fx7 eng q :
  forall k, In k (snd (serve fx1 true true fx6 fx7 eng es t q)) ->
  exists s, nth_error (flat_routes 0 ds) (k_vid k) = Some s /\
    sr_segs s q = Some (k_vals k) /\ k_keys k = declared_names (sr_tokens s).
Proof.
  intros k Hk. rewrite serve_calls in Hk.
  destruct (find_node_good (matcher_of fx1 fx6 fx7 eng es q) t (lookup_path q) []) as [Hcalls _].
  destruct (Hcalls k Hk) as (pi & node & vals & Hat & Hv & Hm & Hkeys & Hvals).
  destruct (g_node_entry q pi node vals (k_vid k) Hat Hv Hm) as (e & s & _ & Hs & _ & Hsegs & Hnames & _).
  exists s. simpl in Hvals. rewrite Hvals, Hkeys. auto.
Qed.

Theorem g_lookup_answers_spec fx1 fx6 fx7 eng q :
  forall k, In k (snd (serve fx1 true true fx6 fx7 eng es t q)) ->
  forall s segs, nth_error (flat_routes 0 ds) (k_vid k) = Some s -> sr_segs s q = Some segs ->
    Forall valid_enc segs -> Forall (from_path q) segs ->
    route_guards fx1 fx4 fx6 fx7 eng s q segs = false ->
    k_res k = spec_answer eng s q segs.
Proof.
  intros k Hk s segs Hs Hsegs Hv Hfp Hg.
  destruct (g_matcher_sees_route_keys fx1 fx6 fx7 eng q k Hk) as (s' & Hs' & Hsegs' & Hkeys).
  rewrite Hs in Hs'. inversion Hs'; subst s'. clear Hs'.
  assert (Hvals : k_vals k = segs) by congruence.
  assert (Hres : call_res (matcher_of fx1 fx6 fx7 eng es q) k).
  { rewrite serve_calls in Hk. eapply find_node_res. exact Hk. }
  unfold call_res, matcher_of in Hres.
  destruct (nth_error es (k_vid k)) as [e|] eqn:He.
  2:{ exfalso. apply nth_error_None in He.
      assert (Hlen : length es = length (flat_routes 0 ds)) by (exact (Forall2_len _ _ _ Htab)).
      assert (Hs' : nth_error (flat_routes 0 ds) (k_vid k) <> None) by congruence.
      apply nth_error_Some in Hs'. lia. }
  destruct (Forall2_nth _ _ _ Htab _ _ _ He Hs) as (cr & Hcr & Hin & _ & Hpath & Hparams & Hslash).
  unfold route_guards in Hg. cbv zeta in Hg.
  repeat (apply orb_false_iff in Hg as [Hg ?]).
  rewrite Hres, Hkeys, Hvals. unfold spec_answer. rewrite <- Hparams.
  apply (route_semantics_cm fx1 fx4 fx6 fx7 eng (sr_def s) cr (ce_path e) (ce_m e) Hcr Hin);
    try assumption; try (rewrite Hparams; assumption).
  unfold sr_segs in Hsegs. symmetry. exact (em_length _ _ _ Hsegs).
Qed.

Theorem g_lookup_no_panic fx1 fx6 fx7 eng q : fst (serve fx1 true true fx6 fx7 eng es t q) <> OPanic.
Proof.
  set (m := matcher_of fx1 fx6 fx7 eng es q).
  destruct (find_node_good m t (lookup_path q) []) as [Hcalls Hfound].
  assert (Hpan := find_node_panic true true m t (lookup_path q) []).
  unfold serve, tree_find. fold m.
  destruct (find_node true true m t (lookup_path q) []) as [[|[[keys v]|] params b] cs] eqn:Efn;
    cbn [fst snd] in *.
  - exfalso. destruct (Hpan eq_refl) as (k & Hk & Hr).
    destruct (Hcalls k Hk) as (pi & node & vals & Hat & Hv & Hm & Hkeys & Hvals).
    destruct (g_node_entry q pi node vals (k_vid k) Hat Hv Hm) as (e & s & He & _ & _ & _ & _ & Hlen).
    assert (Hres : call_res m k).
    { apply (find_node_res true true m t (lookup_path q) []). rewrite Efn. exact Hk. }
    unfold call_res, m, matcher_of in Hres. rewrite He, Hr in Hres. symmetry in Hres.
    revert Hres. apply route_matches_no_panic. rewrite Hkeys, Hvals. exact Hlen.
  - destruct Hfound as (pi & node & vals & Hat & Hv & Hm & Hkeys & Hparams).
    destruct (g_node_entry q pi node vals v Hat Hv Hm) as (e & s & He & _ & _ & _ & _ & Hlen).
    simpl in Hparams. subst keys params.
    rewrite (params_of_named _ _ Hlen), He.
    destruct (execute fx7 (cm_slash (ce_m e)) q _). discriminate.
  - discriminate.
Qed.

Theorem g_lookup_selected fx1 fx6 fx7 eng q r caps rej cs :
  serve fx1 true true fx6 fx7 eng es t q = (ORule r caps rej, cs) ->
  exists v s segs k, nth_error (flat_routes 0 ds) v = Some s /\ sr_rule s = r /\ sr_segs s q = Some segs /\
    In k cs /\ k_vid k = v /\ k_res k = MYes /\
    execute fx7 (rl_slash (sr_def s)) q (map_of (named_pairs (declared_names (sr_tokens s)) segs)) = (caps, rej).
Proof.
  intros Hserve.
  assert (Hcs : snd (serve fx1 true true fx6 fx7 eng es t q) = cs) by (rewrite Hserve; reflexivity).
  rewrite serve_calls in Hcs.
  set (m := matcher_of fx1 fx6 fx7 eng es q) in *.
  destruct (find_node_good m t (lookup_path q) []) as [_ Hfound].
  assert (Hcall := find_node_found_call true true m t (lookup_path q) []).
  unfold serve, tree_find in Hserve. fold m in Hserve.
  destruct (find_node true true m t (lookup_path q) []) as [[|[[keys v]|] params b] cs0]; cbn [fst snd] in *;
    try discriminate.
  destruct Hfound as (pi & node & vals & Hat & Hv & Hm & Hkeys & Hparams).
  destruct (g_node_entry q pi node vals v Hat Hv Hm) as (e & s & He & Hs & Hent & Hsegs & Hnames & Hlen).
  simpl in Hparams. subst keys params cs0.
  rewrite (params_of_named _ _ Hlen), He in Hserve.
  destruct (execute fx7 (cm_slash (ce_m e)) q (map_of (named_pairs (t_keys node) vals))) as [caps0 rej0] eqn:Eex.
  inversion Hserve; subst. clear Hserve.
  destruct Hent as (cr & _ & _ & Hrule & _ & _ & Hslash).
  destruct (Hcall _ _ _ _ eq_refl) as (k & Hk & Hkv & Hkr).
  exists v, s, vals, k. repeat split; try assumption; [symmetry; exact Hrule|].
  rewrite <- Hnames, <- Hslash. exact Eex.
Qed.

Theorem g_unnamed_not_exposed fx1 fx6 fx7 eng q r caps rej cs :
  serve fx1 true true fx6 fx7 eng es t q = (ORule r caps rej, cs) ->
  forall k v, In (k, v) caps -> k <> "*".
Proof.
  intros Hserve k v Hin.
  destruct (g_lookup_selected fx1 fx6 fx7 eng q r caps rej cs Hserve)
    as (v0 & s & segs & k0 & _ & _ & _ & _ & _ & _ & Hex).
  assert (Hkeys : exists v', In (k, v') (named_pairs (declared_names (sr_tokens s)) segs)).
  { unfold execute in Hex.
    assert (G : forall f, In (k, v) (map (fun kv : string * string => (fst kv, f (snd kv))) (map_of (named_pairs (declared_names (sr_tokens s)) segs))) ->
                          exists v', In (k, v') (named_pairs (declared_names (sr_tokens s)) segs)).
    { intros f H. apply in_map_iff in H as ([k1 v1] & E & H1). inversion E; subst. exists v1. apply map_of_In. exact H1. }
    destruct (rl_slash (sr_def s)).
    - destruct (contains_enc_slash fx7 (q_rawpath q)); inversion Hex; subst.
      + exists v. apply map_of_In. exact Hin.
      + eapply G. exact Hin.
    - inversion Hex; subst. eapply G. exact Hin.
    - inversion Hex; subst. eapply G. exact Hin. }
  destruct Hkeys as (v' & Hv'). exact (unnamed_not_exposed _ _ _ _ Hv').
Qed.

End Generic.

(** the tree as it is now (every finding repaired) and a request view with a validly encoded RawPath *)
Section GenericNow.
Variable ds : list ruledef.
Variable es : list centry.
Variable t : tree.
Hypothesis Htab : table_ok true es ds.
Hypothesis Hst : stored_ok es t.

Theorem g_lookup_answers_spec_now eng q :
  String.eqb (q_rawpath q) "" = false -> valid_enc (q_rawpath q) ->
  forall k, In k (snd (serve true true true true D8 eng es t q)) ->
  forall s segs, nth_error (flat_routes 0 ds) (k_vid k) = Some s -> sr_segs s q = Some segs ->
    k_res k = spec_answer eng s q segs.
Proof.
  intros Hr Hvalid k Hk s segs Hs Hsegs.
  assert (Hlp : lookup_path q = q_rawpath q) by (unfold lookup_path; rewrite Hr; reflexivity).
  apply (g_lookup_answers_spec true ds es t Htab Hst true true D8 eng q k Hk s segs Hs Hsegs).
  - unfold sr_segs in Hsegs. rewrite Hlp in Hsegs.
    apply (em_values valid_enc valid_enc_seg1 valid_enc_rest _ _ _ Hvalid Hsegs).
  - unfold sr_segs in Hsegs. rewrite Hlp in Hsegs. unfold from_path.
    refine (em_values (fun v => has_enc_slash v = true -> has_enc_slash (q_rawpath q) = true) _ _ _ _ _ _ Hsegs).
    + intros p Hp H. apply Hp. apply has_enc_slash_seg1. exact H.
    + intros p Hm Hp H. apply Hp. apply has_enc_slash_rest; assumption.
    + tauto.
  - apply route_guards_now. exact Hr.
Qed.

Theorem g_lookup_selected_now eng q r caps rej cs :
  String.eqb (q_rawpath q) "" = false -> valid_enc (q_rawpath q) ->
  serve true true true true D8 eng es t q = (ORule r caps rej, cs) ->
  exists v s segs, nth_error (flat_routes 0 ds) v = Some s /\ sr_rule s = r /\ sr_segs s q = Some segs /\
    spec_route_ok eng (sr_def s) (rt_params (sr_route s)) q (declared_names (sr_tokens s)) segs = true /\
    rej = spec_rejected (rl_slash (sr_def s)) q /\
    (rej = false -> exists sc, spec_captures (rl_slash (sr_def s)) (declared_names (sr_tokens s)) segs = Some sc /\ caps = sc).
Proof.
  intros Hr Hvalid Hserve.
  destruct (g_lookup_selected true ds es t Htab Hst true true D8 eng q r caps rej cs Hserve)
    as (v & s & segs & k & Hs & Hrule & Hsegs & Hk & Hkv & Hkr & Hex).
  exists v, s, segs. repeat split; try assumption.
  - assert (Hin : In k (snd (serve true true true true D8 eng es t q))) by (rewrite Hserve; exact Hk).
    subst v. assert (Ha := g_lookup_answers_spec_now eng q Hr Hvalid k Hin s segs Hs Hsegs).
    rewrite Hkr in Ha. unfold spec_answer in Ha. destruct (spec_route_ok _ _ _ _ _ _); [reflexivity | discriminate].
  - destruct (captures_exact D8 _ q _ _ _ _ eq_refl Hex) as [H1 _]. exact H1.
  - intro Hrej. destruct (captures_exact D8 _ q _ _ _ _ eq_refl Hex) as [_ H2].
    assert (Hlp : lookup_path q = q_rawpath q) by (unfold lookup_path; rewrite Hr; reflexivity).
    assert (Hvs : Forall valid_enc segs).
    { unfold sr_segs in Hsegs. rewrite Hlp in Hsegs.
      apply (em_values valid_enc valid_enc_seg1 valid_enc_rest _ _ _ Hvalid Hsegs). }
    destruct (decode_all_some (keep_slash_of (rl_slash (sr_def s))) _
                (named_pairs_valid (declared_names (sr_tokens s)) segs Hvs)) as (dec & Hd).
    exists (map_of dec). unfold spec_captures at 1. rewrite Hd. split; [reflexivity|].
    destruct (caps_guards_D8 (rl_slash (sr_def s)) (named_pairs (declared_names (sr_tokens s)) segs)) as [G7 G8].
    apply (H2 Hrej (map_of dec)); [|exact G7 | exact G8]. unfold spec_captures. rewrite Hd. reflexivity.
Qed.

End GenericNow.

(* ================================================================== every reachable tree *)

(** [cs] = what CreateRule made of ALL rule definitions [ds] that ever went into the repository
    (every version of every rule of every rule set); a route is identified by its position in
    [flat_routes 0 ds].  [T] is any tree reached from the empty one by Tree.Add of route ids with
    their routes' expressions and Tree.Delete of valid expressions, in any order, with any
    values constraint [can_add] and any value matchers. *)
Section Reachable.
Variable can_add : list nat -> nat -> bool.
Variable fx4 : bool.
Variable ds : list ruledef.
Variable cs : list crule.
Variable T : RT.tree nat.
Hypothesis Hcreate : create_rules fx4 ds = Ok cs.
Hypothesis Hreach : reach_tree can_add (entries_of 0 cs) T.

Let es := entries_of 0 cs.
Let Htab : table_ok fx4 es ds := created_table fx4 ds cs Hcreate.
Let Hst : stored_ok es (conv T) := reach_stored can_add es T Hreach.

Theorem reach_matcher_sees_route_keys fx1 fx6 fx7 eng q :
  forall k, In k (snd (serve fx1 true true fx6 fx7 eng es (conv T) q)) ->
  exists s, nth_error (flat_routes 0 ds) (k_vid k) = Some s /\
    sr_segs s q = Some (k_vals k) /\ k_keys k = declared_names (sr_tokens s).
Proof. exact (g_matcher_sees_route_keys fx4 ds es (conv T) Htab Hst fx1 fx6 fx7 eng q). Qed.

Theorem reach_lookup_answers_spec fx1 fx6 fx7 eng q :
  forall k, In k (snd (serve fx1 true true fx6 fx7 eng es (conv T) q)) ->
  forall s segs, nth_error (flat_routes 0 ds) (k_vid k) = Some s -> sr_segs s q = Some segs ->
    Forall valid_enc segs -> Forall (from_path q) segs ->
    route_guards fx1 fx4 fx6 fx7 eng s q segs = false ->
    k_res k = spec_answer eng s q segs.
Proof. exact (g_lookup_answers_spec fx4 ds es (conv T) Htab Hst fx1 fx6 fx7 eng q). Qed.

Theorem reach_lookup_no_panic fx1 fx6 fx7 eng q : fst (serve fx1 true true fx6 fx7 eng es (conv T) q) <> OPanic.
Proof. exact (g_lookup_no_panic fx4 ds es (conv T) Htab Hst fx1 fx6 fx7 eng q). Qed.

Theorem reach_lookup_selected fx1 fx6 fx7 eng q r caps rej calls :
  serve fx1 true true fx6 fx7 eng es (conv T) q = (ORule r caps rej, calls) ->
  exists v s segs k, nth_error (flat_routes 0 ds) v = Some s /\ sr_rule s = r /\ sr_segs s q = Some segs /\
    In k calls /\ k_vid k = v /\ k_res k = MYes /\
    execute fx7 (rl_slash (sr_def s)) q (map_of (named_pairs (declared_names (sr_tokens s)) segs)) = (caps, rej).
Proof. exact (g_lookup_selected fx4 ds es (conv T) Htab Hst fx1 fx6 fx7 eng q r caps rej calls). Qed.

Theorem reach_unnamed_not_exposed fx1 fx6 fx7 eng q r caps rej calls :
  serve fx1 true true fx6 fx7 eng es (conv T) q = (ORule r caps rej, calls) ->
  forall k v, In (k, v) caps -> k <> "*".
Proof. exact (g_unnamed_not_exposed fx4 ds es (conv T) Htab Hst fx1 fx6 fx7 eng q r caps rej calls). Qed.

End Reachable.

Section ReachableNow.
Variable can_add : list nat -> nat -> bool.
Variable ds : list ruledef.
Variable cs : list crule.
Variable T : RT.tree nat.
Hypothesis Hcreate : create_rules true ds = Ok cs.
Hypothesis Hreach : reach_tree can_add (entries_of 0 cs) T.

Let es := entries_of 0 cs.
Let Htab : table_ok true es ds := created_table true ds cs Hcreate.
Let Hst : stored_ok es (conv T) := reach_stored can_add es T Hreach.

Theorem reach_lookup_answers_spec_now eng q :
  String.eqb (q_rawpath q) "" = false -> valid_enc (q_rawpath q) ->
  forall k, In k (snd (serve true true true true D8 eng es (conv T) q)) ->
  forall s segs, nth_error (flat_routes 0 ds) (k_vid k) = Some s -> sr_segs s q = Some segs ->
    k_res k = spec_answer eng s q segs.
Proof. exact (g_lookup_answers_spec_now ds es (conv T) Htab Hst eng q). Qed.

Theorem reach_selected_only_if_documented eng q r caps rej calls :
  String.eqb (q_rawpath q) "" = false -> valid_enc (q_rawpath q) ->
  serve true true true true D8 eng es (conv T) q = (ORule r caps rej, calls) ->
  exists v s segs, nth_error (flat_routes 0 ds) v = Some s /\ sr_rule s = r /\ sr_segs s q = Some segs /\
    spec_route_ok eng (sr_def s) (rt_params (sr_route s)) q (declared_names (sr_tokens s)) segs = true /\
    rej = spec_rejected (rl_slash (sr_def s)) q /\
    (rej = false -> exists sc, spec_captures (rl_slash (sr_def s)) (declared_names (sr_tokens s)) segs = Some sc /\ caps = sc).
Proof. exact (g_lookup_selected_now ds es (conv T) Htab Hst eng q r caps rej calls). Qed.

End ReachableNow.
