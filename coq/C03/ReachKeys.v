(** C03/ReachKeys.v — what a node of the index stores under which wildcard names, in EVERY state
    the index can reach by Add and Delete (not only after Adds).

    Generic in the type of values.  [expr_of v] is the path expression value [v] is added with
    (for C03: the path of route [v] of the table of created routes).

      [reach]        the closure of the empty tree under Tree.Add of a value with ITS expression
                     and Tree.Delete of a valid expression (any value matcher) — a sub-relation
                     of C02/Reach.v's [reachable] ([reach_reachable])
      [content_ok]   every entry (pattern, node) of the abstraction of the tree — the content of
                     the pattern-map machine, Radix/Tree.v [abs] — holds only values whose own
                     expression parses to exactly that pattern with exactly the node's key names
      [reach_inv]    every reachable tree satisfies [wfd] and [content_ok]

    Nothing is re-proved about the tree here: Add and Delete enter through their entry-by-entry
    characterisations on [abs] (C06/TreeRefine.v [tree_add_entries], [tree_delete_entries], which
    are Radix/TreeAddProofs.v [add_node_spec] and C06/TreeDelProofs.v [del_node_spec]). *)
From HV Require Import Base.Prelude Radix.Spec Radix.SpecProofs Radix.Machine Radix.MachineProofs
  Radix.Load Radix.LoadProofs Radix.Tree Radix.TreeProofs Radix.TreeAddProofs
  C06.TreeDel C06.TreeDelFacts C06.TreeDelProofs C06.TreeAddShape C02.Reach.
From HV Require C06.TreeRefine.

Section Keys.
Variable V : Type.
Variable can_add : list V -> V -> bool.
Variable expr_of : V -> option str.
Notation tree := (tree V).
Notation node := (node V).
Notation db := (db V).

(** the values of a node were added with an expression that parses to the node's pattern and key names *)
Definition val_ok (p : pat) (ks : list str) (v : V) : Prop :=
  exists e, expr_of v = Some e /\ parse_expr e = Some (p, ks).

Definition key_ok (p : pat) (N : node) : Prop := Forall (val_ok p (keys N)) (vals N).

Definition content_ok (t : tree) : Prop := forall p N, assoc p (abs t) = Some N -> key_ok p N.

Inductive reach : tree -> Prop :=
| reach_empty : reach empty_tree
| reach_add t v e bt t' : reach t -> expr_of v = Some e -> tree_add can_add t e v bt = TOk t' -> reach t'
| reach_del t e f t' : reach t -> parse_expr e <> None -> tree_delete f t e = Some t' -> reach t'.

Lemma reach_reachable t : reach t -> reachable can_add t.
Proof.
  induction 1 as [|t v e bt t' _ IH He Ha|t e f t' _ IH Hp Hd].
  - constructor.
  - eapply C02.Reach.reach_add; eassumption.
  - eapply C02.Reach.reach_del; eassumption.
Qed.

Lemma reach_wfd t : reach t -> wfd t = true.
Proof. intro H. apply (reachable_wfd V can_add). apply reach_reachable. exact H. Qed.

(** the key-name checks of addNode, on a node whose key names are those of one of its values *)
Lemma merge_keys_same p (N : node) e0 e ks :
  parse_expr e0 = Some (p, keys N) -> parse_expr e = Some (p, ks) ->
  merge_keys' V (ends_C p) N ks = if keys_eqb (keys N) ks then Some ks else None.
Proof.
  intros HF Hv.
  pose proof (C06.TreeRefine.parse_expr_nwild _ _ _ HF) as L1.
  pose proof (C06.TreeRefine.parse_expr_nwild _ _ _ Hv) as L2.
  unfold merge_keys'. destruct (keys_eqb (keys N) ks) eqn:E.
  - apply C06.TreeRefine.keys_eqb_eq in E. rewrite E. destruct (ends_C p).
    + rewrite str_eqb_refl.
      replace (keys_eqb ks ks) with true by (symmetry; apply C06.TreeRefine.keys_eqb_eq; reflexivity).
      rewrite orb_true_r. reflexivity.
    + destruct ks as [|k1 ks1]; [reflexivity|].
      replace (keys_eqb (k1 :: ks1) (k1 :: ks1)) with true by (symmetry; apply C06.TreeRefine.keys_eqb_eq; reflexivity).
      rewrite orb_true_r. reflexivity.
  - destruct (ends_C p) eqn:Ec.
    + apply C06.TreeRefine.ends_C_nwild in Ec. destruct (keys N) as [|k0 kr]; [simpl in L1; lia|].
      cbn [is_nil orb]. rewrite andb_false_r. reflexivity.
    + destruct ks as [|k ks'].
      * destruct (keys N) as [|k0 kr]; [discriminate E | simpl in *; lia].
      * destruct (keys N) as [|k0 kr]; [simpl in *; lia|]. cbn [is_nil orb]. reflexivity.
Qed.

Lemma abs_vals_nonempty (t : tree) p N : assoc p (abs t) = Some N -> vals N <> [].
Proof.
  intro H. apply assoc_in in H. pose proof (abs_nonempty V t) as Hne. unfold nonempty_db in Hne.
  rewrite Forall_forall in Hne. apply (Hne _ H).
Qed.

(** Tree.Add accepts only what the shared parser accepts *)
Lemma add_ok_parses (t t' : tree) e v bt : wfd t = true -> tree_add can_add t e v bt = TOk t' -> parse_expr e <> None.
Proof.
  intros Hwd Ha Hp.
  pose proof (C06.TreeRefine.tree_add_entries V can_add (S (S (length e))) t e v bt Hwd ltac:(lia)) as HA.
  unfold C06.TreeRefine.tree_add_f in HA. change (add_node can_add (S (S (length e))) t e [] false v bt)
    with (tree_add can_add t e v bt) in HA.
  rewrite Hp, Ha in HA. discriminate.
Qed.

Lemma add_content (t t' : tree) v e bt :
  wfd t = true -> content_ok t -> expr_of v = Some e -> tree_add can_add t e v bt = TOk t' -> content_ok t'.
Proof.
  intros Hwd Hc He Ha.
  pose proof (C06.TreeRefine.tree_add_entries V can_add (S (S (length e))) t e v bt Hwd ltac:(lia)) as HA.
  unfold C06.TreeRefine.tree_add_f in HA. change (add_node can_add (S (S (length e))) t e [] false v bt)
    with (tree_add can_add t e v bt) in HA.
  destruct (parse_expr e) as [[p ks]|] eqn:Ep; [|rewrite Ha in HA; discriminate].
  cbv zeta in HA. destruct HA as [_ Hok]. destruct (Hok t' Ha) as [_ Hu].
  intros q N' Hq. rewrite (Hu q) in Hq. destruct (pat_eqb q p) eqn:Eq; [|apply (Hc q N' Hq)].
  apply pat_eqb_eq in Eq. subst q.
  assert (Hnew : val_ok p ks v) by (exists e; split; assumption).
  unfold upd' in Hq. destruct (assoc p (abs t)) as [N|] eqn:EN.
  - pose proof (Hc p N EN) as HkN.
    destruct (vals N) as [|x0 xr] eqn:Ev; [exfalso; exact (abs_vals_nonempty t p N EN Ev)|].
    assert (Hx0 : val_ok p (keys N) x0).
    { unfold key_ok in HkN. rewrite Ev in HkN. inversion HkN; assumption. }
    destruct Hx0 as (e0 & _ & Hp0).
    rewrite (merge_keys_same p N e0 e ks Hp0 Ep) in Hq.
    destruct (keys_eqb (keys N) ks) eqn:Ek.
    + apply C06.TreeRefine.keys_eqb_eq in Ek.
      destruct (can_add (x0 :: xr) v).
      * inversion Hq; subst N'. unfold key_ok. cbn [vals keys].
        change (x0 :: xr ++ [v]) with ((x0 :: xr) ++ [v]). apply Forall_app. split.
        -- rewrite <- Ek. unfold key_ok in HkN. rewrite Ev in HkN. exact HkN.
        -- constructor; [exact Hnew | constructor].
      * inversion Hq; subst N'. exact HkN.
    + inversion Hq; subst N'. exact HkN.
  - destruct (can_add [] v); [|discriminate]. inversion Hq; subst N'.
    unfold key_ok. cbn [vals keys]. constructor; [exact Hnew | constructor].
Qed.

Lemma del_content (t t' : tree) e f :
  wfd t = true -> content_ok t -> parse_expr e <> None -> tree_delete f t e = Some t' -> content_ok t'.
Proof.
  intros Hwd Hc Hp Hd. destruct (parse_expr e) as [[p ks]|] eqn:Ep; [|congruence].
  pose proof (C06.TreeRefine.tree_delete_entries V f t e p ks Hwd Ep) as HD. cbv zeta in HD.
  rewrite Hd in HD. destruct HD as (y & Hy & _ & Hu).
  intros q N' Hq. rewrite (Hu q) in Hq. destruct (pat_eqb q p) eqn:Eq; [|apply (Hc q N' Hq)].
  apply pat_eqb_eq in Eq. subst q y.
  unfold del_upd in Hy. destruct (assoc p (abs t)) as [N|] eqn:EN; [|discriminate].
  pose proof (Hc p N EN) as HkN.
  destruct (Nat.eqb _ _); [discriminate|].
  destruct (filter (fun v => negb (f v)) (vals N)) as [|v0 vs] eqn:Ef; inversion Hy; subst N'.
  unfold key_ok in *. cbn [vals keys]. rewrite <- Ef. rewrite Forall_forall in *.
  intros x Hx. apply filter_In in Hx as [Hx _]. apply HkN. exact Hx.
Qed.

Theorem reach_inv t : reach t -> wfd t = true /\ content_ok t.
Proof.
  intro H. split; [apply reach_wfd; exact H|].
  induction H as [|t v e bt t' Hr IH He Ha|t e f t' Hr IH Hp Hd].
  - intros p N HN. discriminate.
  - eapply add_content; [apply reach_wfd; exact Hr | exact IH | exact He | exact Ha].
  - eapply del_content; [apply reach_wfd; exact Hr | exact IH | exact Hp | exact Hd].
Qed.

(** the form used by the lookup side: an entry of the abstraction, by membership *)
Corollary reach_entry t p N v : reach t -> In (p, N) (abs t) -> In v (vals N) -> val_ok p (keys N) v.
Proof.
  intros Hr Hin Hv. destruct (reach_inv t Hr) as [Hwd Hc].
  assert (HA : assoc p (abs t) = Some N).
  { apply in_assoc; [apply abs_NoDup; apply wfd_leaf_or; exact Hwd | exact Hin]. }
  pose proof (Hc p N HA) as Hk. unfold key_ok in Hk. rewrite Forall_forall in Hk. apply Hk. exact Hv.
Qed.

End Keys.

Arguments val_ok {V}.
Arguments key_ok {V}.
Arguments content_ok {V}.
Arguments reach {V}.
