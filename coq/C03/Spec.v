(** C03 — specification vocabulary, transcribed from the property statement and
    docs/content/docs/rules/regular_rule.adoc.  It does not use the matcher, decoder or tree
    FUNCTIONS of Model.v ([route_matches], [param_match], [unescape], [add_node], [find_node] ...).
    It does share with Model.v: the data types (rule definitions, requests, [slash], [mres]), the
    hex digit table [hexval], small list/string helpers ([mem], [contains], [has_bang], [nine] =
    the nine HTTP methods, [is_nil], [of_bool]), the choice of the lookup path [lookup_path]
    (RawPath if set), the engine dispatch [tm_match] (`exact` = string equality, glob / regex = the
    recorded library answer), and [map_of] (a Go map rendered as a sorted association list; a later
    equal key wins — so for `/:a/:a` a path_params condition sees the FIRST segment named a while
    the map exposes the LAST, which is what the code does and the statement does not exclude). *)
From HV Require Import Base.Prelude C03.Model.
Open Scope string_scope.
Open Scope list_scope.

(* ------------------------------------------------------------------ path expressions *)

(** "A segment must start with : or * to define a wildcard"; "\" escapes a leading : * \ *)
Inductive token := Lit (s : string) | Wild (name : string) | Free (name : string).

(** the segments of a path: the strings between the '/' separators ("/a/b" = ["";"a";"b"]) *)
Fixpoint split_slash_aux (cur : string -> string) (s : string) : list string :=
  match s with
  | EmptyString => [cur EmptyString]
  | String c r => if Ascii.eqb c "/" then cur EmptyString :: split_slash_aux (fun x => x) r
                  else split_slash_aux (fun x => cur (String c x)) r
  end.
Definition split_slash (s : string) : list string := split_slash_aux (fun x => x) s.

Fixpoint join_slash (l : list string) : string :=
  match l with
  | [] => EmptyString
  | [x] => x
  | x :: r => (x ++ "/" ++ join_slash r)%string
  end.

Definition token_of (seg : string) : token :=
  match seg with
  | String ":" r => Wild r
  | String "*" r => Free r
  | String "\" (String c r) =>
    if Ascii.eqb c "*" || Ascii.eqb c ":" || Ascii.eqb c "\" then Lit (String c r) else Lit seg
  | _ => Lit seg
  end.

Definition parse_expr (e : string) : list token := map token_of (split_slash e).

(** the wildcard names a route declares, in path order ("*" = unnamed) *)
Fixpoint declared_names (ts : list token) : list string :=
  match ts with
  | [] => []
  | Lit _ :: r => declared_names r
  | Wild n :: r => n :: declared_names r
  | Free n :: r => n :: declared_names r
  end.

Definition ends_in_free (ts : list token) : bool :=
  match last ts (Lit "") with Free _ => true | _ => false end.

(** [expr_match ts segs] = the segments matched by the wildcards of [ts], if the
    expression matches the path: a literal matches the equal segment, a single
    wildcard one non-empty segment, a free wildcard the non-empty rest *)
Fixpoint expr_match (ts : list token) (segs : list string) : option (list string) :=
  match ts, segs with
  | [], [] => Some []
  | Lit s :: tr, x :: sr => if String.eqb s x then expr_match tr sr else None
  | Wild _ :: tr, x :: sr =>
    if String.eqb x "" then None else option_map (cons x) (expr_match tr sr)
  | [Free _], _ :: _ =>
    let rest := join_slash segs in if String.eqb rest "" then None else Some [rest]
  | _, _ => None
  end.

(* ------------------------------------------------------------------ decoding *)

(** percent-decoding of a captured value; with [keep_slash] an encoded slash (in
    either hex case) stays an encoded slash, written in the canonical upper-case
    spelling "%2F" (RFC 3986 2.1: the two spellings are equivalent; the repair of
    C03-F7 / C08-F2 normalises to it).  [None]: not a valid percent-encoding (the
    property says nothing about such values). *)
Fixpoint spec_decode (keep_slash : bool) (s : string) : option string :=
  match s with
  | EmptyString => Some EmptyString
  | String "%" (String a (String b r)) =>
    match hexval a, hexval b with
    | Some x, Some y =>
      let c := ascii_of_N (16 * x + y) in
      option_map (fun d => if keep_slash && Ascii.eqb c "/" then String "%" (String "2" (String "F" d))
                           else String c d) (spec_decode keep_slash r)
    | _, _ => None
    end
  | String "%" _ => None
  | String c r => option_map (String c) (spec_decode keep_slash r)
  end.

Definition keep_slash_of (sl : slash) : bool := negb (slash_eqb sl SOn).

(** an encoded slash, in either hex case *)
Definition has_enc_slash (s : string) : bool := contains "%2F" s || contains "%2f" s.

(* ------------------------------------------------------------------ conditions *)

(** methods: not specified = all; otherwise the listed methods, `ALL` standing for the
    nine HTTP methods, minus the methods excluded with `!` *)
Definition spec_method (ms : list string) (m : string) : bool :=
  is_nil ms ||
  ((negb (has_bang m) && negb (String.eqb m "ALL") && mem m ms) || (mem "ALL" ms && mem m nine))
  && negb (mem ("!" ++ m)%string ms).

Definition spec_scheme (s : string) (q : request) : bool :=
  String.eqb s "" || String.eqb s (q_scheme q).

(** hosts: any one of the listed expressions *)
Definition spec_hosts (eng : engine) (hs : list tmdef) (q : request) : bool :=
  is_nil hs || existsb (fun h => tm_match eng true h (q_host q)) hs.

Fixpoint assoc_first (k : string) (names vals : list string) : option string :=
  match names, vals with
  | n :: nr, v :: vr => if String.eqb k n then Some v else assoc_first k nr vr
  | _, _ => None
  end.

(** a path_params condition refers to a declared wildcard and holds on the decoded
    segment; under `off` a request with an encoded slash satisfies no such condition
    (such requests are rejected) *)
Definition spec_param (eng : engine) (sl : slash) (q : request) (names segs : list string) (p : param) : bool :=
  match assoc_first (pp_name p) names segs with
  | None => false
  | Some v =>
    match spec_decode (keep_slash_of sl) v with
    | None => false
    | Some d =>
      negb (slash_eqb sl SOff && has_enc_slash (q_rawpath q)) && tm_match eng false (pp_tm p) d
    end
  end.

Definition spec_route_ok (eng : engine) (r : ruledef) (ps : list param) (q : request)
           (names segs : list string) : bool :=
  spec_scheme (rl_scheme r) q && spec_method (rl_methods r) (q_method q) &&
  spec_hosts eng (rl_hosts r) q && forallb (spec_param eng (rl_slash r) q names segs) ps.

(* ------------------------------------------------------------------ captures *)

(** the values exposed under the wildcard names: named wildcards only *)
Fixpoint named_pairs (names segs : list string) : list (string * string) :=
  match names, segs with
  | n :: nr, v :: vr => if String.eqb n "*" then named_pairs nr vr else (n, v) :: named_pairs nr vr
  | _, _ => []
  end.

Fixpoint decode_all (keep : bool) (l : list (string * string)) : option (list (string * string)) :=
  match l with
  | [] => Some []
  | (k, v) :: r =>
    match spec_decode keep v, decode_all keep r with
    | Some d, Some r' => Some ((k, d) :: r')
    | _, _ => None
    end
  end.

(** [None] = some captured segment is not validly encoded (no requirement) *)
Definition spec_captures (sl : slash) (names segs : list string) : option (list (string * string)) :=
  option_map map_of (decode_all (keep_slash_of sl) (named_pairs names segs)).

(** `off`: requests with encoded slashes are rejected *)
Definition spec_rejected (sl : slash) (q : request) : bool :=
  slash_eqb sl SOff && has_enc_slash (q_rawpath q).

(* ------------------------------------------------------------------ a rule set, seen from the documentation *)

(** the routes of a rule set in rule-set order, with the rule they belong to;
    a route is identified by its position in this list *)
Record sroute := { sr_rule : nat; sr_def : ruledef; sr_route : route }.

Fixpoint flat_routes (i : nat) (rs : list ruledef) : list sroute :=
  match rs with
  | [] => []
  | r :: rest => map (fun rt => {| sr_rule := i; sr_def := r; sr_route := rt |}) (rl_routes r)
                 ++ flat_routes (S i) rest
  end.

Definition sr_tokens (s : sroute) := parse_expr (rt_path (sr_route s)).
Definition sr_segs (s : sroute) (q : request) := expr_match (sr_tokens s) (split_slash (lookup_path q)).

Definition spec_answer (eng : engine) (s : sroute) (q : request) (segs : list string) : mres :=
  of_bool (spec_route_ok eng (sr_def s) (rt_params (sr_route s)) q (declared_names (sr_tokens s)) segs).

