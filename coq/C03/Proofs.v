(** C03 — proofs about the matcher model (Model.v) against the specification
    vocabulary (Spec.v).  Part 1: the conditions of a route (scheme, methods,
    hosts, path_params) and the decoding of captured values.  The lookup tree is
    in ProofsTree.v. *)
From HV Require Import Base.Prelude C03.Model C03.Spec.
Open Scope list_scope.
Open Scope string_scope.   (* [++] is string append here; list append is written [(_ ++ _)%list] *)

(* ------------------------------------------------------------------ small facts *)

Lemma is_nil_true {A} (l : list A) : is_nil l = true <-> l = [].
Proof. destruct l; simpl; split; congruence. Qed.

Lemma is_nil_false {A} (l : list A) : is_nil l = false <-> l <> [].
Proof. destruct l; simpl; split; congruence. Qed.

Lemma mem_In x l : mem x l = true <-> In x l.
Proof.
  unfold mem. rewrite existsb_exists. split.
  - intros (y & Hy & E). apply String.eqb_eq in E. subst. assumption.
  - intro H. exists x. split; [assumption | apply String.eqb_refl].
Qed.

Lemma mem_false x l : mem x l = false <-> ~ In x l.
Proof. rewrite <- mem_In. destruct (mem x l); split; congruence. Qed.

Lemma mem_app x a b : mem x (a ++ b)%list = mem x a || mem x b.
Proof. unfold mem. apply existsb_app. Qed.

Lemma bool_eq_iff (a b : bool) : (a = true <-> b = true) -> a = b.
Proof. destruct a, b; intuition congruence. Qed.

Lemma prefix_cons a s b t :
  prefix (String a s) (String b t) = Ascii.eqb a b && prefix s t.
Proof.
  simpl. destruct (ascii_dec a b) as [E|E].
  - subst. rewrite Ascii.eqb_refl. reflexivity.
  - apply Ascii.eqb_neq in E. rewrite E. reflexivity.
Qed.

Lemma prefix_nil_r a s : prefix (String a s) "" = false.
Proof. reflexivity. Qed.

Lemma prefix_nil_l s : prefix "" s = true.
Proof. destruct s; reflexivity. Qed.

Lemma prefix_app s t : prefix s (s ++ t) = true.
Proof.
  induction s as [|a s IH]; simpl.
  - apply prefix_nil_l.
  - destruct (ascii_dec a a); [assumption | congruence].
Qed.

Lemma prefix_split s u : prefix s u = true -> exists t, u = s ++ t.
Proof.
  revert u. induction s as [|a s IH]; intros u H.
  - exists u. reflexivity.
  - destruct u as [|b u]; [discriminate|]. rewrite prefix_cons in H.
    apply andb_true_iff in H as [E H]. apply Ascii.eqb_eq in E. subst b.
    destruct (IH _ H) as (t & ->). exists t. reflexivity.
Qed.

(* ------------------------------------------------------------------ methods *)

Lemma In_insert_sorted y x l : In y (insert_sorted x l) <-> y = x \/ In y l.
Proof.
  induction l as [|z r IH]; simpl.
  - intuition.
  - destruct (String.leb x z); simpl; rewrite ?IH; intuition.
Qed.

Lemma In_sort y l : In y (sort_strings l) <-> In y l.
Proof.
  unfold sort_strings. induction l as [|x r IH]; simpl; [tauto|].
  rewrite In_insert_sorted, IH. intuition.
Qed.

Lemma compact_cons2 a b r :
  compact (a :: b :: r) = if String.eqb a b then compact (b :: r) else a :: compact (b :: r).
Proof. reflexivity. Qed.

Lemma In_compact y l : In y (compact l) <-> In y l.
Proof.
  induction l as [|a r IH]; [simpl; tauto|].
  destruct r as [|b r]; [simpl; tauto|].
  rewrite compact_cons2. destruct (String.eqb a b) eqn:E.
  - apply String.eqb_eq in E. subst b. rewrite IH. simpl. intuition.
  - change (In y (a :: compact (b :: r))) with (a = y \/ In y (compact (b :: r))).
    rewrite IH. simpl. tauto.
Qed.

Lemma In_subtract y a b : In y (subtract a b) <-> In y a /\ ~ In y b.
Proof.
  unfold subtract. rewrite filter_In, negb_true_iff, mem_false. tauto.
Qed.

Lemma has_bang_inv s : has_bang s = true -> s = "!" ++ trim_bang s.
Proof.
  unfold has_bang. destruct s as [|c r]; [discriminate|].
  change (prefix "!" (String c r)) with (if ascii_dec "!" c then prefix "" r else false).
  destruct (ascii_dec "!" c) as [E|E]; [|discriminate]. subst c. reflexivity.
Qed.

Lemma has_bang_bang m : has_bang ("!" ++ m) = true.
Proof. unfold has_bang. simpl. destruct m; reflexivity. Qed.

Lemma In_trimmed m l : In m (map trim_bang (filter has_bang l)) <-> In ("!" ++ m) l.
Proof.
  rewrite in_map_iff. split.
  - intros (s & E & H). apply filter_In in H as [H B]. apply has_bang_inv in B.
    rewrite E in B. congruence.
  - intro H. exists ("!" ++ m). split; [reflexivity|].
    apply filter_In. split; [assumption | apply has_bang_bang].
Qed.

Lemma nine_no_bang m : In m nine -> has_bang m = false.
Proof. simpl. intuition; subst; reflexivity. Qed.

Lemma In_expand_all y ms :
  In y (expand_all ms) <->
  (In y ms /\ (In "ALL" ms -> y <> "ALL")) \/ (In "ALL" ms /\ In y nine).
Proof.
  unfold expand_all. destruct (mem "ALL" ms) eqn:E.
  - apply mem_In in E. rewrite in_app_iff, filter_In, negb_true_iff, String.eqb_neq. tauto.
  - apply mem_false in E. split; [intro H; left; split; [assumption | tauto] | tauto].
Qed.

(** the methods a non-empty list denotes: listed (or one of the nine when ALL is
    listed), not itself an exclusion or the word ALL, and not excluded *)
Definition spec_listed (ms : list string) (m : string) : bool :=
  ((negb (has_bang m) && negb (String.eqb m "ALL") && mem m ms) || (mem "ALL" ms && mem m nine))
  && negb (mem ("!" ++ m) ms).

Lemma spec_method_unfold ms m : spec_method ms m = is_nil ms || spec_listed ms m.
Proof. reflexivity. Qed.

Lemma bang_ALL_not_nine : ~ In "!ALL" nine.
Proof. simpl. intuition discriminate. Qed.

(** the list computed by createMethodMatcher contains exactly the denoted methods *)
Lemma created_methods fx4 ms l :
  create_method_matcher fx4 ms = Ok l -> forall m, mem m l = spec_listed ms m.
Proof.
  unfold create_method_matcher. destruct (is_nil ms) eqn:En.
  - intro H. inversion H; subst. apply is_nil_true in En. subst ms.
    intro m. unfold spec_listed. simpl. rewrite andb_false_r. reflexivity.
  - set (ms2 := compact (sort_strings (expand_all ms))).
    destruct (mem "" ms2); [discriminate|].
    set (res := subtract (subtract ms2 (filter has_bang ms2)) (map trim_bang (filter has_bang ms2))).
    destruct (fx4 && is_nil res); [discriminate|].
    intro H. inversion H; subst l. clear H. unfold res. clear res.
    intro m. apply bool_eq_iff.
    assert (Hin : forall y, In y ms2 <-> In y (expand_all ms)).
    { intro y. unfold ms2. rewrite In_compact, In_sort. tauto. }
    rewrite mem_In, In_subtract, In_subtract, In_trimmed, !Hin, !In_expand_all.
    unfold spec_listed.
    rewrite andb_true_iff, orb_true_iff, !andb_true_iff, !negb_true_iff, !mem_In, mem_false,
      String.eqb_neq.
    assert (Hb : In m (filter has_bang ms2) <-> has_bang m = true /\ In m ms2).
    { rewrite filter_In. tauto. }
    rewrite Hb, Hin, In_expand_all.
    assert (Hn := nine_no_bang m).
    assert (HbA : "!" ++ m <> "ALL") by (simpl; congruence).
    assert (Hb9 : ~ In ("!" ++ m) nine).
    { intro H9. apply nine_no_bang in H9. rewrite has_bang_bang in H9. discriminate. }
    assert (HA9 : ~ In "ALL" nine) by (simpl; intuition discriminate).
    destruct (string_dec m "ALL") as [EA|EA].
    + subst m. change (has_bang "ALL") with false in *. intuition congruence.
    + destruct (has_bang m) eqn:Eb; intuition congruence.
Qed.

(** C03-F4 (pinned variant, before commit 22bae5e): a non-empty list that denotes no method at
    all (only exclusions, or ALL with every method excluded) *)
Definition guard_F4 (fx4 : bool) (ms : list string) : bool :=
  negb fx4 && negb (is_nil ms) && match create_method_matcher false ms with Ok [] => true | _ => false end.

(** the two variants differ only in rejecting the lists under the guard *)
Lemma create_method_fx4 ms l :
  create_method_matcher true ms = Ok l -> create_method_matcher false ms = Ok l /\ (ms = [] \/ l <> []).
Proof.
  unfold create_method_matcher. destruct (is_nil ms) eqn:En.
  - intro H. split; [exact H|]. left. apply is_nil_true. exact En.
  - destruct (mem "" (compact (sort_strings (expand_all ms)))); [discriminate|].
    cbn [andb].
    match goal with |- context [is_nil (subtract ?a ?b)] => destruct (is_nil (subtract a b)) eqn:E end; [discriminate|].
    intro H. split; [exact H|]. right. inversion H; subst l. apply is_nil_false. exact E.
Qed.

Lemma method_list_semantics fx4 ms l q :
  create_method_matcher fx4 ms = Ok l -> guard_F4 fx4 ms = false ->
  method_match l q = spec_method ms (q_method q).
Proof.
  intros Hc Hg. unfold method_match. rewrite spec_method_unfold, <- (created_methods _ _ _ Hc).
  unfold guard_F4 in Hg.
  assert (Hne : ms = [] \/ l <> []).
  { destruct fx4.
    - apply (create_method_fx4 _ _ Hc).
    - rewrite Hc in Hg. cbn [negb andb] in Hg. destruct ms; [left; reflexivity|].
      right. destruct l; [discriminate | discriminate]. }
  destruct ms as [|m0 ms'].
  - unfold create_method_matcher in Hc. simpl in Hc. inversion Hc. reflexivity.
  - destruct Hne as [Hne | Hne]; [discriminate|]. destruct l; [congruence | reflexivity].
Qed.

(** under the guard of C03-F4 the created matcher accepts every method although the
    list denotes none *)
Lemma F4_behaviour ms q :
  guard_F4 false ms = true ->
  exists l, create_method_matcher false ms = Ok l /\ method_match l q = true /\
            spec_method ms (q_method q) = false.
Proof.
  unfold guard_F4. cbn [negb andb]. intro H. apply andb_true_iff in H as [Hn H].
  destruct (create_method_matcher false ms) as [l|] eqn:Hc; [|discriminate].
  destruct l; [|discriminate]. exists []. split; [reflexivity|]. split; [reflexivity|].
  rewrite spec_method_unfold, <- (created_methods _ _ _ Hc). simpl.
  apply negb_true_iff in Hn. rewrite Hn. reflexivity.
Qed.

Lemma create_method_rejected ms :
  create_method_matcher false ms = Rejected <-> In "" ms.
Proof.
  unfold create_method_matcher. destruct (is_nil ms) eqn:En.
  - apply is_nil_true in En. subst. simpl. split; [discriminate | tauto].
  - destruct (mem "" (compact (sort_strings (expand_all ms)))) eqn:E.
    + apply mem_In in E. rewrite In_compact, In_sort, In_expand_all in E.
      split; [intros _|reflexivity]. destruct E as [[E _]|[_ E]]; [assumption|].
      simpl in E. intuition discriminate.
    + apply mem_false in E. rewrite In_compact, In_sort, In_expand_all in E.
      cbn [andb]. split; [discriminate|]. intro H. exfalso. apply E. left. split; [assumption|].
      intros _. discriminate.
Qed.

(** with the repair: rejected also when the list allows no method *)
Lemma create_method_rejected_fx4 ms :
  create_method_matcher true ms = Rejected <-> In "" ms \/ guard_F4 false ms = true.
Proof.
  rewrite <- create_method_rejected. unfold guard_F4, create_method_matcher. cbn [negb andb].
  destruct (is_nil ms) eqn:En.
  - simpl. split; [discriminate | intros [H|H]; discriminate].
  - destruct (mem "" (compact (sort_strings (expand_all ms)))).
    + simpl. tauto.
    + cbn [andb negb]. destruct (subtract _ _) as [|x l]; simpl.
      * tauto.
      * split; [discriminate | intros [H|H]; discriminate].
Qed.

(* ------------------------------------------------------------------ scheme, hosts *)

Lemma scheme_semantics s q : scheme_match s q = spec_scheme s q.
Proof. reflexivity. Qed.

(** C03-F1 (pinned variant, before commit 6793b33): two or more host expressions that disagree on
    the request's host *)
Definition guard_F1 (fx1 : bool) (eng : engine) (hs : list tmdef) (q : request) : bool :=
  negb fx1 &&
  existsb (fun h => tm_match eng true h (q_host q)) hs &&
  existsb (fun h => negb (tm_match eng true h (q_host q))) hs.

Lemma hosts_semantics_pinned eng hs q :
  guard_F1 false eng hs q = false -> hosts_match false eng hs q = spec_hosts eng hs q.
Proof.
  unfold guard_F1, hosts_match, spec_hosts. cbn [negb andb].
  induction hs as [|h r IH]; simpl; [reflexivity|].
  destruct (tm_match eng true h (q_host q)); simpl.
  - intro H. destruct r as [|h2 r2]; [reflexivity|].
    assert (E : forallb (fun h0 => tm_match eng true h0 (q_host q)) (h2 :: r2) = true).
    { apply forallb_forall. intros x Hx.
      destruct (tm_match eng true x (q_host q)) eqn:Ex; [reflexivity|].
      assert (existsb (fun h0 => negb (tm_match eng true h0 (q_host q))) (h2 :: r2) = true).
      { apply existsb_exists. exists x. rewrite Ex. tauto. }
      congruence. }
    rewrite E. reflexivity.
  - rewrite andb_true_r. intro H. rewrite H. reflexivity.
Qed.

Lemma hosts_semantics_fixed eng hs q : hosts_match true eng hs q = spec_hosts eng hs q.
Proof.
  unfold hosts_match, spec_hosts. cbn [andb].
  destruct hs as [|h [|h2 r]]; simpl; [reflexivity | |reflexivity].
  rewrite andb_true_r, orb_false_r. reflexivity.
Qed.

Lemma hosts_semantics fx1 eng hs q :
  guard_F1 fx1 eng hs q = false -> hosts_match fx1 eng hs q = spec_hosts eng hs q.
Proof.
  destruct fx1; [intros _; apply hosts_semantics_fixed | apply hosts_semantics_pinned].
Qed.

(** under the guard of C03-F1 the route does not match although one host expression holds *)
Lemma F1_behaviour eng hs q :
  guard_F1 false eng hs q = true -> hosts_match false eng hs q = false /\ spec_hosts eng hs q = true.
Proof.
  unfold guard_F1, hosts_match, spec_hosts. cbn [negb andb]. intro H. apply andb_true_iff in H as [H1 H2]. split.
  - apply existsb_exists in H2 as (x & Hx & E). apply negb_true_iff in E.
    destruct (forallb _ hs) eqn:F; [|reflexivity].
    rewrite forallb_forall in F. rewrite (F _ Hx) in E. discriminate.
  - rewrite H1. apply orb_true_r.
Qed.

(* ------------------------------------------------------------------ percent-decoding *)

Definition pct : ascii := "%"%char.

Lemma pct_decode_nonpct c r :
  c <> pct -> pct_decode (String c r) = option_map (String c) (pct_decode r).
Proof.
  intro H. destruct c as [[] [] [] [] [] [] [] []]; try reflexivity. exfalso. apply H. reflexivity.
Qed.

Lemma spec_decode_nonpct k c r :
  c <> pct -> spec_decode k (String c r) = option_map (String c) (spec_decode k r).
Proof.
  intro H. destruct c as [[] [] [] [] [] [] [] []]; try reflexivity. exfalso. apply H. reflexivity.
Qed.

(** induction along the way the decoders consume a string *)
Lemma pct_ind (P : string -> Prop) :
  P "" ->
  (forall c r, c <> pct -> P r -> P (String c r)) ->
  (forall a b r, P r -> P (String pct (String a (String b r)))) ->
  P (String pct "") ->
  (forall a, P (String pct (String a ""))) ->
  forall s, P s.
Proof.
  intros H0 Hc He H1 H2 s.
  assert (G : forall n s, String.length s < n -> P s).
  { induction n as [|n IH]; intros s' Hl; [lia|].
    destruct s' as [|c r]; [exact H0|].
    destruct (ascii_dec c pct) as [E|E].
    - subst c. destruct r as [|a [|b r]]; [exact H1 | apply H2 |].
      apply He. apply IH. simpl in Hl. lia.
    - apply Hc; [exact E|]. apply IH. simpl in Hl. lia. }
  apply (G (S (String.length s))). lia.
Qed.

(** with encoded slashes allowed the captured value is exactly url.PathUnescape *)
Lemma spec_decode_false s : spec_decode false s = pct_decode s.
Proof.
  induction s as [| c r Hc IH | a b r IH | | a] using pct_ind; try reflexivity.
  - rewrite pct_decode_nonpct, spec_decode_nonpct by assumption. rewrite IH. reflexivity.
  - unfold pct. simpl. destruct (hexval a), (hexval b); try reflexivity.
    rewrite IH. reflexivity.
Qed.

Definition valid_enc (s : string) : Prop := pct_decode s <> None.

Definition valid_encb (s : string) : bool := match pct_decode s with Some _ => true | None => false end.

Lemma valid_encb_spec s : valid_encb s = true <-> valid_enc s.
Proof. unfold valid_encb, valid_enc. destruct (pct_decode s); split; congruence. Qed.

Lemma spec_decode_valid k s : spec_decode k s <> None <-> valid_enc s.
Proof.
  unfold valid_enc.
  induction s as [| c r Hc IH | a b r IH | | a] using pct_ind; try (simpl; tauto).
  - rewrite pct_decode_nonpct, spec_decode_nonpct by assumption.
    destruct (spec_decode k r), (pct_decode r); simpl in *; intuition congruence.
  - unfold pct. simpl. destruct (hexval a), (hexval b); try tauto.
    destruct (spec_decode k r), (pct_decode r); simpl in *; intuition congruence.
Qed.

Lemma on_decode fx7 v d :
  spec_decode false v = Some d -> unescape fx7 v SOn = d.
Proof.
  rewrite spec_decode_false. unfold unescape, path_unescape. intros ->. reflexivity.
Qed.

(* ---- the "keep %2F" decoding: replace, unescape, replace back *)

Lemma replace_aux_0 old new c r :
  replace_aux old new 0 (String c r) =
  if prefix old (String c r) then new ++ replace_aux old new (slen old - 1) r
  else String c (replace_aux old new 0 r).
Proof. reflexivity. Qed.

Lemma replace_skip old new t s :
  replace_aux old new (String.length t) (t ++ s) = replace_aux old new 0 s.
Proof. induction t as [|c t IH]; simpl; [destruct s; reflexivity | exact IH]. Qed.

Lemma replace_hit c o new s :
  replace_aux (String c o) new 0 (String c o ++ s) = new ++ replace_aux (String c o) new 0 s.
Proof.
  change (String c o ++ s) with (String c (o ++ s)). rewrite replace_aux_0.
  change (String c (o ++ s)) with (String c o ++ s). rewrite prefix_app.
  replace (slen (String c o) - 1) with (String.length o) by (unfold slen; simpl; lia).
  rewrite replace_skip. reflexivity.
Qed.

Lemma contains_cons sub c r : contains sub (String c r) = prefix sub (String c r) || contains sub r.
Proof. reflexivity. Qed.

Lemma contains_app_false sub t s : contains sub (t ++ s) = false -> contains sub s = false.
Proof.
  induction t as [|c t IH]; [tauto|]. simpl String.append. rewrite contains_cons.
  intro H. apply orb_false_iff in H as [_ H]. exact (IH H).
Qed.

(** [rel u d]: [u] is the text between the two replacements of [nd_unescape],
    [d] the specified decoding — equal except that an encoded slash is the
    place-holder in [u] and "%2F" in [d] *)
Inductive rel : string -> string -> Prop :=
| rel_nil : rel "" ""
| rel_ch c u d : rel u d -> rel (String c u) (String c d)
| rel_sl u d : rel u d -> rel (marker ++ u) ("%2F" ++ d).

Lemma hexval_not_pct a x : hexval a = Some x -> a <> pct.
Proof. intros H E. subst. vm_compute in H. discriminate. Qed.

Lemma hexval_bound a x : hexval a = Some x -> (x < 16)%N.
Proof.
  unfold hexval. set (n := N_of_ascii a).
  destruct ((48 <=? n)%N && (n <=? 57)%N) eqn:E1.
  { apply andb_true_iff in E1 as [A B]. apply N.leb_le in A, B. intro H. inversion H. lia. }
  destruct ((65 <=? n)%N && (n <=? 70)%N) eqn:E2.
  { apply andb_true_iff in E2 as [A B]. apply N.leb_le in A, B. intro H. inversion H. lia. }
  destruct ((97 <=? n)%N && (n <=? 102)%N) eqn:E3; [|discriminate].
  apply andb_true_iff in E3 as [A B]. apply N.leb_le in A, B. intro H. inversion H. lia.
Qed.

Lemma hexval_2 a : hexval a = Some 2%N -> a = "2"%char.
Proof.
  destruct a as [[] [] [] [] [] [] [] []]; intro H; vm_compute in H; try discriminate; reflexivity.
Qed.

Lemma hexval_15 b : hexval b = Some 15%N -> b = "F"%char \/ b = "f"%char.
Proof.
  destruct b as [[] [] [] [] [] [] [] []]; intro H; vm_compute in H; try discriminate; auto.
Qed.

Lemma slash_escape a b x y :
  hexval a = Some x -> hexval b = Some y -> ascii_of_N (16 * x + y) = "/"%char ->
  a = "2"%char /\ (b = "F"%char \/ b = "f"%char).
Proof.
  intros Ha Hb E. assert (Bx := hexval_bound _ _ Ha). assert (By := hexval_bound _ _ Hb).
  assert (E2 : N_of_ascii (ascii_of_N (16 * x + y)) = 47%N) by (rewrite E; reflexivity).
  rewrite N_ascii_embedding in E2 by lia.
  assert (x = 2%N) by lia. assert (y = 15%N) by lia. subst.
  split; [apply hexval_2 | apply hexval_15]; assumption.
Qed.

Lemma pct_decode_marker s : pct_decode (marker ++ s) = option_map (String.append marker) (pct_decode s).
Proof.
  unfold marker. cbn [String.append].
  repeat (match goal with |- context [pct_decode (String ?c ?r)] =>
     change (pct_decode (String c r)) with (option_map (String c) (pct_decode r)) end).
  destruct (pct_decode s); reflexivity.
Qed.

Lemma pct_decode_esc a b x y s :
  hexval a = Some x -> hexval b = Some y ->
  pct_decode (String pct (String a (String b s))) =
  option_map (String (ascii_of_N (16 * x + y))) (pct_decode s).
Proof. intros Ha Hb. unfold pct. simpl. rewrite Ha, Hb. reflexivity. Qed.

Lemma spec_decode_esc k a b x y s :
  hexval a = Some x -> hexval b = Some y ->
  spec_decode k (String pct (String a (String b s))) =
  option_map (fun d => if k && Ascii.eqb (ascii_of_N (16 * x + y)) "/"
                       then String pct (String "2" (String "F" d))
                       else String (ascii_of_N (16 * x + y)) d) (spec_decode k s).
Proof. intros Ha Hb. unfold pct. simpl. rewrite Ha, Hb. reflexivity. Qed.

Lemma prefix_2F_nonpct c r : c <> pct -> prefix "%2F" (String c r) = false.
Proof.
  intro H. rewrite prefix_cons. apply andb_false_iff. left. apply Ascii.eqb_neq.
  intro E. apply H. subst c. reflexivity.
Qed.

Lemma protect2_aux_0 c r :
  protect2_aux 0 (String c r) =
  if prefix "%2F" (String c r) || prefix "%2f" (String c r) then marker ++ protect2_aux 2 r
  else String c (protect2_aux 0 r).
Proof. reflexivity. Qed.

Lemma prefix_2f_nonpct c r : c <> pct -> prefix "%2f" (String c r) = false.
Proof.
  intro H. rewrite prefix_cons. apply andb_false_iff. left. apply Ascii.eqb_neq.
  intro E. apply H. subst c. reflexivity.
Qed.

(** C03-F7, on a value: a lower-case encoded slash (pinned tree only) *)
Definition guard_F7b (b7 : bool) (v : string) : bool := negb b7 && contains "%2f" v.
Definition guard_F7_val (fx7 : dec) (v : string) : bool := guard_F7b (is7 fx7) v.

(** first replacement + PathUnescape, on a validly encoded value (pinned: without a
    lower-case "%2f") *)
Lemma nd_first_half (fx7 : bool) v :
  valid_enc v -> guard_F7b fx7 v = false ->
  exists u d, pct_decode (protect fx7 v) = Some u /\
              spec_decode true v = Some d /\ rel u d.
Proof.
  unfold valid_enc, guard_F7b, protect, replace_all.
  induction v as [| c r Hc IH | a b r IH | | a] using pct_ind; intros Hv Hl.
  - exists "", "". destruct fx7; repeat split; constructor.
  - rewrite pct_decode_nonpct in Hv by assumption.
    assert (Hl' : (negb fx7 && contains "%2f" r) = false).
    { destruct fx7; [reflexivity|]. cbn [negb] in *. rewrite andb_true_l in *. rewrite contains_cons in Hl.
      apply orb_false_iff in Hl as [_ Hl]. exact Hl. }
    destruct (pct_decode r) eqn:Er; [|simpl in Hv; congruence].
    destruct IH as (u & d & Hu & Hd & Hr); [congruence | assumption |].
    exists (String c u), (String c d).
    rewrite spec_decode_nonpct by assumption. rewrite Hd.
    destruct fx7.
    + rewrite protect2_aux_0, (prefix_2F_nonpct c r), (prefix_2f_nonpct c r) by assumption.
      simpl orb. cbv iota. rewrite pct_decode_nonpct by assumption. rewrite Hu.
      repeat split. constructor. assumption.
    + rewrite replace_aux_0, (prefix_2F_nonpct c r) by assumption.
      rewrite pct_decode_nonpct by assumption. rewrite Hu.
      repeat split. constructor. assumption.
  - destruct (hexval a) as [x|] eqn:Ha; [|unfold pct in Hv; simpl in Hv; rewrite Ha in Hv; congruence].
    destruct (hexval b) as [y|] eqn:Hb; [|unfold pct in Hv; simpl in Hv; rewrite Ha, Hb in Hv; congruence].
    rewrite (pct_decode_esc _ _ _ _ _ Ha Hb) in Hv.
    assert (Hl0 : (negb fx7 && prefix "%2f" (String pct (String a (String b r)))) = false).
    { destruct fx7; [reflexivity|]. cbn [negb] in *. rewrite andb_true_l in *. rewrite contains_cons in Hl.
      apply orb_false_iff in Hl as [Hl _]. exact Hl. }
    assert (Hl' : (negb fx7 && contains "%2f" r) = false).
    { destruct fx7; [reflexivity|]. cbn [negb] in *. rewrite andb_true_l in *. rewrite !contains_cons in Hl.
      apply orb_false_iff in Hl as [_ Hl]. apply orb_false_iff in Hl as [_ Hl].
      apply orb_false_iff in Hl as [_ Hl]. exact Hl. }
    destruct (pct_decode r) eqn:Er; [|simpl in Hv; congruence].
    destruct IH as (u & d & Hu & Hd & Hr); [congruence | assumption |].
    rewrite (spec_decode_esc _ _ _ _ _ _ Ha Hb), Hd. cbn [option_map].
    assert (Hna := hexval_not_pct _ _ Ha). assert (Hnb := hexval_not_pct _ _ Hb).
    (* is this escape an encoded slash the tree recognises? *)
    destruct (Ascii.eqb "2" a && (Ascii.eqb "F" b || (fx7 && Ascii.eqb "f" b))) eqn:Erec.
    + (* recognised: place-holder in [u], "%2F" in [d] *)
      apply andb_true_iff in Erec as [Ea Eb]. apply Ascii.eqb_eq in Ea. subst a.
      assert (Esl : Ascii.eqb (ascii_of_N (16 * x + y)) "/" = true).
      { vm_compute in Ha. inversion Ha; subst x.
        apply orb_true_iff in Eb as [Eb|Eb].
        - apply Ascii.eqb_eq in Eb. subst b. vm_compute in Hb. inversion Hb. reflexivity.
        - apply andb_true_iff in Eb as [_ Eb]. apply Ascii.eqb_eq in Eb. subst b.
          vm_compute in Hb. inversion Hb. reflexivity. }
      rewrite Esl. simpl andb. cbv iota.
      exists (marker ++ u), ("%2F" ++ d).
      split; [|split; [reflexivity | constructor; assumption]].
      destruct fx7.
      * rewrite protect2_aux_0.
        replace (prefix "%2F" (String pct (String "2" (String b r))) || prefix "%2f" (String pct (String "2" (String b r)))) with true.
        2:{ symmetry. rewrite !prefix_cons, !prefix_nil_l. rewrite andb_false_r, orb_false_r in Eb || idtac.
            change (Ascii.eqb "%" pct) with true. simpl andb.
            rewrite !andb_true_r. rewrite andb_true_l in Eb. exact Eb. }
        change (protect2_aux 2 (String "2" (String b r))) with (protect2_aux 0 r).
        rewrite pct_decode_marker, Hu. reflexivity.
      * rewrite andb_false_l, orb_false_r in Eb. apply Ascii.eqb_eq in Eb. subst b.
        rewrite replace_aux_0.
        replace (prefix "%2F" (String pct (String "2" (String "F" r)))) with true.
        2:{ symmetry. rewrite !prefix_cons, prefix_nil_l. reflexivity. }
        change (slen "%2F" - 1) with 2.
        change (replace_aux "%2F" marker 2 (String "2" (String "F" r))) with (replace_aux "%2F" marker 0 r).
        rewrite pct_decode_marker, Hu. reflexivity.
    + (* not recognised: then it is not an encoded slash at all *)
      assert (Hns : Ascii.eqb (ascii_of_N (16 * x + y)) "/" = false).
      { apply Ascii.eqb_neq. intro E. destruct (slash_escape _ _ _ _ Ha Hb E) as [-> [-> | ->]].
        - simpl in Erec. discriminate.
        - destruct fx7; [simpl in Erec; discriminate|].
          cbn [negb] in Hl0. rewrite andb_true_l, !prefix_cons, prefix_nil_l in Hl0. discriminate. }
      rewrite Hns. rewrite andb_false_r. cbv iota.
      exists (String (ascii_of_N (16 * x + y)) u), (String (ascii_of_N (16 * x + y)) d).
      split; [|split; [reflexivity | constructor; assumption]].
      destruct fx7.
      * rewrite protect2_aux_0.
        replace (prefix "%2F" (String pct (String a (String b r))) || prefix "%2f" (String pct (String a (String b r)))) with false.
        2:{ symmetry. rewrite !prefix_cons, !prefix_nil_l, !andb_true_r.
            change (Ascii.eqb "%" pct) with true. simpl andb.
            rewrite andb_true_l in Erec. rewrite <- andb_orb_distrib_r. exact Erec. }
        rewrite protect2_aux_0, (prefix_2F_nonpct a), (prefix_2f_nonpct a) by assumption. simpl orb. cbv iota.
        rewrite protect2_aux_0, (prefix_2F_nonpct b), (prefix_2f_nonpct b) by assumption. simpl orb. cbv iota.
        rewrite (pct_decode_esc _ _ _ _ _ Ha Hb), Hu. reflexivity.
      * rewrite replace_aux_0.
        replace (prefix "%2F" (String pct (String a (String b r)))) with false.
        2:{ symmetry. rewrite !prefix_cons, prefix_nil_l, andb_true_r.
            change (Ascii.eqb "%" pct) with true. simpl andb.
            simpl in Erec. rewrite orb_false_r in Erec. exact Erec. }
        rewrite replace_aux_0, (prefix_2F_nonpct a) by assumption.
        rewrite replace_aux_0, (prefix_2F_nonpct b) by assumption.
        rewrite (pct_decode_esc _ _ _ _ _ Ha Hb), Hu. reflexivity.
  - exfalso. apply Hv. reflexivity.
  - exfalso. apply Hv. reflexivity.
Qed.

Definition dollar : ascii := "$"%char.

(** one byte of the place-holder other than '$' can only be matched by the same
    decoded byte *)
Lemma rel_step x p u d :
  rel u d -> prefix (String x p) u = true -> x <> dollar ->
  exists u' d', u = String x u' /\ d = String x d' /\ rel u' d' /\ prefix p u' = true.
Proof.
  intros Hr Hp Hx. destruct Hr as [|c u d Hr|u d Hr].
  - discriminate.
  - rewrite prefix_cons in Hp. apply andb_true_iff in Hp as [E Hp]. apply Ascii.eqb_eq in E. subst c.
    exists u, d. repeat split; assumption.
  - exfalso. unfold marker in Hp. simpl String.append in Hp. rewrite prefix_cons in Hp.
    apply andb_true_iff in Hp as [E _]. apply Ascii.eqb_eq in E. apply Hx. subst x. reflexivity.
Qed.

Ltac rel_steps :=
  repeat match goal with
  | Hr : rel ?u ?d, Hp : prefix (String ?x ?p) ?u = true |- _ =>
    let u' := fresh "u" in let d' := fresh "d" in let Hr' := fresh "Hr" in let Hp' := fresh "Hp" in
    destruct (rel_step x p u d Hr Hp ltac:(discriminate)) as (u' & d' & -> & -> & Hr' & Hp');
    clear Hr Hp
  end.

(** a place-holder found at a decoded byte means that the decoded value itself
    contains "$$$escaped-slash" *)
Lemma marker_at_char c u d :
  rel u d -> prefix marker (String c u) = true -> prefix "$$$escaped-slash" (String c d) = true.
Proof.
  intros Hr Hp. unfold marker in Hp. rewrite prefix_cons in Hp.
  apply andb_true_iff in Hp as [E Hp]. apply Ascii.eqb_eq in E. subst c.
  destruct Hr as [|c1 u1 d1 Hr1|u1 d1 Hr1]; [discriminate| |vm_compute in Hp; discriminate].
  rewrite prefix_cons in Hp. apply andb_true_iff in Hp as [E Hp]. apply Ascii.eqb_eq in E. subst c1.
  destruct Hr1 as [|c2 u2 d2 Hr2|u2 d2 Hr2]; [discriminate| |vm_compute in Hp; discriminate].
  rewrite prefix_cons in Hp. apply andb_true_iff in Hp as [E Hp]. apply Ascii.eqb_eq in E. subst c2.
  rel_steps.
  rewrite !prefix_cons, prefix_nil_l. reflexivity.
Qed.

(** C03-F8, on a value: its decoding contains the beginning of the place-holder *)
Definition guard_F8b (d : string) : bool := contains "$$$escaped-slash" d.
Definition guard_F8_val (fx7 : dec) (d : string) : bool := negb (is8 fx7) && guard_F8b d.

Lemma replace_hit_marker s :
  replace_aux marker "%2F" 0 (marker ++ s) = "%2F" ++ replace_aux marker "%2F" 0 s.
Proof. exact (replace_hit "$" "$$escaped-slash$$$" "%2F" s). Qed.

Lemma nd_second_half u d :
  rel u d -> guard_F8b d = false -> replace_all u marker "%2F" = d.
Proof.
  unfold guard_F8b, replace_all. intro Hr. induction Hr as [|c u d Hr IH|u d Hr IH]; intro Hg.
  - reflexivity.
  - rewrite contains_cons in Hg. apply orb_false_iff in Hg as [Hg0 Hg].
    rewrite replace_aux_0.
    destruct (prefix marker (String c u)) eqn:Ep.
    + rewrite (marker_at_char _ _ _ Hr Ep) in Hg0. discriminate.
    + rewrite (IH Hg). reflexivity.
  - rewrite replace_hit_marker.
    rewrite (IH (contains_app_false _ "%2F" _ Hg)). reflexivity.
Qed.

(** the capture decoding of `off` / `no_decode` with the place-holder: percent-decoded, "%2F" kept *)
Lemma nd_old_decode (b7 : bool) v d :
  spec_decode true v = Some d -> guard_F7b b7 v = false -> guard_F8b d = false ->
  nd_old b7 v = d.
Proof.
  intros Hd H7 H8.
  assert (Hv : valid_enc v) by (apply (spec_decode_valid true); congruence).
  destruct (nd_first_half b7 v Hv H7) as (u & d' & Hu & Hd' & Hr).
  rewrite Hd in Hd'. inversion Hd'; subst d'.
  unfold nd_old, path_unescape. rewrite Hu. apply nd_second_half; assumption.
Qed.

(* ---- the decoding without place-holder (since commit 6d0a3af): cut at the encoded slashes, decode, join *)

Lemma split_on_aux_0 sep c r :
  split_on_aux sep 0 (String c r) =
  if prefix sep (String c r) then "" :: split_on_aux sep (slen sep - 1) r
  else match split_on_aux sep 0 r with
       | x :: xs => String c x :: xs
       | [] => [String c ""]
       end.
Proof. reflexivity. Qed.

(** lower-case encoded slashes are rewritten to upper case; nothing else changes, and the
    specified decoding (which writes kept slashes canonically) is the same *)
Lemma normalise_2f v :
  valid_enc v ->
  valid_enc (replace_all v "%2f" "%2F") /\ contains "%2f" (replace_all v "%2f" "%2F") = false /\
  spec_decode true (replace_all v "%2f" "%2F") = spec_decode true v.
Proof.
  unfold valid_enc, replace_all.
  induction v as [| c r Hc IH | a b r IH | | a] using pct_ind; intro Hv.
  - repeat split; assumption.
  - rewrite pct_decode_nonpct in Hv by assumption.
    destruct (pct_decode r) eqn:Er; [|simpl in Hv; congruence].
    destruct IH as (I1 & I2 & I3); [congruence|].
    rewrite replace_aux_0, (prefix_2f_nonpct c r) by assumption.
    rewrite pct_decode_nonpct, contains_cons, (prefix_2f_nonpct c) by assumption.
    rewrite !spec_decode_nonpct by assumption. rewrite I3.
    destruct (pct_decode (replace_aux "%2f" "%2F" 0 r)); [|congruence].
    repeat split; [simpl; congruence | exact I2].
  - destruct (hexval a) as [x|] eqn:Ha; [|unfold pct in Hv; simpl in Hv; rewrite Ha in Hv; congruence].
    destruct (hexval b) as [y|] eqn:Hb; [|unfold pct in Hv; simpl in Hv; rewrite Ha, Hb in Hv; congruence].
    rewrite (pct_decode_esc _ _ _ _ _ Ha Hb) in Hv.
    destruct (pct_decode r) eqn:Er; [|simpl in Hv; congruence].
    destruct IH as (I1 & I2 & I3); [congruence|].
    assert (Hna := hexval_not_pct _ _ Ha). assert (Hnb := hexval_not_pct _ _ Hb).
    rewrite replace_aux_0, !prefix_cons, prefix_nil_l, andb_true_r.
    change (Ascii.eqb "%" pct) with true. rewrite andb_true_l.
    destruct (Ascii.eqb "2" a && Ascii.eqb "f" b) eqn:E2f.
    + apply andb_true_iff in E2f as [Ea Eb]. apply Ascii.eqb_eq in Ea, Eb. subst a b.
      change (slen "%2f" - 1) with 2.
      change (replace_aux "%2f" "%2F" 2 (String "2" (String "f" r))) with (replace_aux "%2f" "%2F" 0 r).
      change ("%2F" ++ replace_aux "%2f" "%2F" 0 r)
        with (String pct (String "2" (String "F" (replace_aux "%2f" "%2F" 0 r)))).
      assert (HF : hexval "F" = Some 15%N) by reflexivity.
      rewrite (pct_decode_esc _ _ _ _ _ Ha HF), !contains_cons, !prefix_cons.
      rewrite (spec_decode_esc _ _ _ _ _ _ Ha HF), (spec_decode_esc _ _ _ _ _ _ Ha Hb), I3.
      vm_compute in Ha. vm_compute in Hb. inversion Ha; inversion Hb; subst x y.
      destruct (pct_decode (replace_aux "%2f" "%2F" 0 r)); [|congruence].
      split; [simpl; congruence|]. split; [|reflexivity].
      change (Ascii.eqb "%" "2") with false. change (Ascii.eqb "%" "F") with false.
      change (Ascii.eqb "F" "f") with false. rewrite !andb_false_r, !andb_false_l. exact I2.
    + rewrite replace_aux_0, (prefix_2f_nonpct a) by assumption.
      rewrite replace_aux_0, (prefix_2f_nonpct b) by assumption.
      rewrite (pct_decode_esc _ _ _ _ _ Ha Hb), !contains_cons, (prefix_2f_nonpct a), (prefix_2f_nonpct b) by assumption.
      rewrite !(spec_decode_esc _ _ _ _ _ _ Ha Hb), I3.
      rewrite !prefix_cons, prefix_nil_l, andb_true_r. change (Ascii.eqb "%" pct) with true. rewrite andb_true_l, E2f.
      destruct (pct_decode (replace_aux "%2f" "%2F" 0 r)); [|congruence].
      repeat split; [simpl; congruence | exact I2].
  - exfalso. apply Hv. reflexivity.
  - exfalso. apply Hv. reflexivity.
Qed.

Lemma decode_parts_cons x r :
  decode_parts (x :: r) = match pct_decode x, decode_parts r with
                          | Some d, Some ds => Some (d :: ds)
                          | _, _ => None
                          end.
Proof. reflexivity. Qed.

Lemma join_cons_char c x xs : join_with "%2F" (String c x :: xs) = String c (join_with "%2F" (x :: xs)).
Proof. destruct xs; reflexivity. Qed.

(** cutting at "%2F", decoding the pieces and joining them is the specified decoding *)
Lemma split_decode w :
  valid_enc w -> contains "%2f" w = false ->
  exists x xs dx dxs, split_on "%2F" w = x :: xs /\ decode_parts (x :: xs) = Some (dx :: dxs) /\
                      spec_decode true w = Some (join_with "%2F" (dx :: dxs)).
Proof.
  unfold valid_enc, split_on.
  induction w as [| c r Hc IH | a b r IH | | a] using pct_ind; intros Hv Hl.
  - exists "", [], "", []. repeat split.
  - rewrite pct_decode_nonpct in Hv by assumption.
    rewrite contains_cons in Hl. apply orb_false_iff in Hl as [_ Hl].
    destruct (pct_decode r) eqn:Er; [|simpl in Hv; congruence].
    destruct IH as (x & xs & dx & dxs & Hs & Hd & Hsp); [congruence | assumption |].
    rewrite split_on_aux_0, (prefix_2F_nonpct c r) by assumption. rewrite Hs.
    exists (String c x), xs, (String c dx), dxs.
    split; [reflexivity|]. split.
    + rewrite decode_parts_cons in Hd |- *. rewrite pct_decode_nonpct by assumption.
      destruct (pct_decode x); [|discriminate]. destruct (decode_parts xs); [|discriminate].
      inversion Hd; subst. reflexivity.
    + rewrite spec_decode_nonpct by assumption. rewrite Hsp, join_cons_char. reflexivity.
  - destruct (hexval a) as [xa|] eqn:Ha; [|unfold pct in Hv; simpl in Hv; rewrite Ha in Hv; congruence].
    destruct (hexval b) as [yb|] eqn:Hb; [|unfold pct in Hv; simpl in Hv; rewrite Ha, Hb in Hv; congruence].
    rewrite (pct_decode_esc _ _ _ _ _ Ha Hb) in Hv.
    rewrite contains_cons in Hl. apply orb_false_iff in Hl as [Hl0 Hl].
    rewrite !contains_cons in Hl. apply orb_false_iff in Hl as [_ Hl]. apply orb_false_iff in Hl as [_ Hl].
    destruct (pct_decode r) eqn:Er; [|simpl in Hv; congruence].
    destruct IH as (x & xs & dx & dxs & Hs & Hd & Hsp); [congruence | assumption |].
    assert (Hna := hexval_not_pct _ _ Ha). assert (Hnb := hexval_not_pct _ _ Hb).
    rewrite (spec_decode_esc _ _ _ _ _ _ Ha Hb), Hsp. cbn [option_map].
    rewrite split_on_aux_0, !prefix_cons, prefix_nil_l, andb_true_r.
    change (Ascii.eqb "%" pct) with true. rewrite andb_true_l.
    destruct (Ascii.eqb "2" a && Ascii.eqb "F" b) eqn:E2F.
    + apply andb_true_iff in E2F as [Ea Eb]. apply Ascii.eqb_eq in Ea, Eb. subst a b.
      change (slen "%2F" - 1) with 2.
      change (split_on_aux "%2F" 2 (String "2" (String "F" r))) with (split_on_aux "%2F" 0 r).
      rewrite Hs. vm_compute in Ha. vm_compute in Hb. inversion Ha; inversion Hb; subst xa yb.
      exists "", (x :: xs), "", (dx :: dxs). split; [reflexivity|]. split.
      * rewrite decode_parts_cons, Hd. reflexivity.
      * reflexivity.
    + assert (Hns : Ascii.eqb (ascii_of_N (16 * xa + yb)) "/" = false).
      { apply Ascii.eqb_neq. intro E. destruct (slash_escape _ _ _ _ Ha Hb E) as [-> [-> | ->]].
        - discriminate.
        - rewrite !prefix_cons, prefix_nil_l in Hl0. discriminate. }
      rewrite Hns, andb_false_r.
      rewrite split_on_aux_0, (prefix_2F_nonpct a) by assumption.
      rewrite split_on_aux_0, (prefix_2F_nonpct b) by assumption. rewrite Hs.
      exists (String pct (String a (String b x))), xs, (String (ascii_of_N (16 * xa + yb)) dx), dxs.
      split; [reflexivity|]. split.
      * rewrite decode_parts_cons in Hd. destruct (pct_decode x) eqn:Ex; [|discriminate].
        destruct (decode_parts xs) eqn:Exs; [|discriminate]. inversion Hd; subst.
        rewrite decode_parts_cons, (pct_decode_esc _ _ _ _ _ Ha Hb), Ex, Exs. reflexivity.
      * rewrite join_cons_char. reflexivity.
  - exfalso. apply Hv. reflexivity.
  - exfalso. apply Hv. reflexivity.
Qed.

Lemma nd_split_decode v d : spec_decode true v = Some d -> nd_split v = d.
Proof.
  intro Hd.
  assert (Hv : valid_enc v) by (apply (spec_decode_valid true); congruence).
  destruct (normalise_2f v Hv) as (N1 & N2 & N3).
  destruct (split_decode _ N1 N2) as (x & xs & dx & dxs & Hs & Hdp & Hsp).
  unfold nd_split. rewrite Hs, Hdp. rewrite N3, Hd in Hsp. inversion Hsp. reflexivity.
Qed.

(** C03-F7 / F8 on a value, per variant of the decoder *)
Lemma nd_decode fx7 v d :
  spec_decode true v = Some d -> guard_F7_val fx7 v = false -> guard_F8_val fx7 d = false ->
  nd_unescape fx7 v = d.
Proof.
  intros Hd H7 H8. unfold nd_unescape, guard_F7_val, guard_F8_val in *.
  destruct fx7; cbn [is7 is8 negb andb] in *.
  - apply nd_old_decode; assumption.
  - apply nd_old_decode; assumption.
  - apply nd_split_decode; assumption.
Qed.

(* ------------------------------------------------------------------ path_params *)

Lemma assoc_index k (keys vals : list string) :
  length keys = length vals ->
  assoc_first k keys vals =
  match index_of k keys with Some i => nth_error vals i | None => None end.
Proof.
  revert vals. induction keys as [|n nr IH]; intros [|v vr] Hl; try discriminate; [reflexivity|].
  simpl. destruct (String.eqb k n); [reflexivity|].
  simpl in Hl. rewrite (IH vr) by lia.
  destruct (index_of k nr); reflexivity.
Qed.

Lemma index_in_range k (keys vals : list string) i :
  length keys = length vals -> index_of k keys = Some i -> exists v, nth_error vals i = Some v.
Proof.
  revert vals i. induction keys as [|n nr IH]; intros [|v vr] i Hl; try discriminate.
  simpl. destruct (String.eqb k n).
  - intro H. inversion H. exists v. reflexivity.
  - destruct (index_of k nr) as [j|] eqn:Ej; [|discriminate]. intro H. inversion H.
    simpl in Hl. apply (IH vr j); [lia | reflexivity].
Qed.

Lemma assoc_first_In k keys vals v : assoc_first k keys vals = Some v -> In v vals.
Proof.
  revert vals. induction keys as [|n nr IH]; intros [|x vr]; simpl; try discriminate.
  destruct (String.eqb k n); [intro H; inversion H; auto | intro H; right; exact (IH _ H)].
Qed.

(** finding guards on the captured value a path_params condition is evaluated on *)

(** decoding changes the value *)
Definition undecoded_val (keep : bool) (v : string) : bool :=
  match spec_decode keep v with Some d => negb (String.eqb d v) | None => false end.

(** C03-F6: the matcher does not decode a value that decoding changes — pinned tree (before
    commit 72ba5d4): under `off`, or without RawPath; now: only without RawPath (which no
    entry point produces for a non-empty path any more) *)
Definition guard_F6 (fx6 : bool) (sl : slash) (q : request) (v : string) : bool :=
  ((negb fx6 && slash_eqb sl SOff) || String.eqb (q_rawpath q) "") && undecoded_val (keep_slash_of sl) v.

(** the value comes from the request's raw path: an encoded slash in it is one of the path *)
Definition from_path (q : request) (v : string) : Prop :=
  has_enc_slash v = true -> has_enc_slash (q_rawpath q) = true.

(** a value without encoded slash is decoded the same way under every setting *)
Lemma keep_irrelevant v : has_enc_slash v = false -> spec_decode true v = spec_decode false v.
Proof.
  unfold has_enc_slash.
  induction v as [| c r Hc IH | a b r IH | | a] using pct_ind; intro H; try reflexivity.
  - rewrite !spec_decode_nonpct by assumption. rewrite IH; [reflexivity|].
    rewrite !contains_cons in H. apply orb_false_iff in H as [H1 H2].
    apply orb_false_iff in H1 as [_ H1]. apply orb_false_iff in H2 as [_ H2]. rewrite H1, H2. reflexivity.
  - destruct (hexval a) as [x|] eqn:Ha; [|unfold pct; simpl; rewrite Ha; reflexivity].
    destruct (hexval b) as [y|] eqn:Hb; [|unfold pct; simpl; rewrite Ha, Hb; reflexivity].
    rewrite !(spec_decode_esc _ _ _ _ _ _ Ha Hb).
    assert (Hr : contains "%2F" r || contains "%2f" r = false).
    { rewrite !contains_cons in H. apply orb_false_iff in H as [H1 H2].
      apply orb_false_iff in H1 as [_ H1]. apply orb_false_iff in H1 as [_ H1]. apply orb_false_iff in H1 as [_ H1].
      apply orb_false_iff in H2 as [_ H2]. apply orb_false_iff in H2 as [_ H2]. apply orb_false_iff in H2 as [_ H2].
      rewrite H1, H2. reflexivity. }
    rewrite (IH Hr).
    assert (Hns : Ascii.eqb (ascii_of_N (16 * x + y)) "/" = false).
    { apply Ascii.eqb_neq. intro E. destruct (slash_escape _ _ _ _ Ha Hb E) as [-> [-> | ->]].
      - rewrite contains_cons in H. apply orb_false_iff in H as [H _]. apply orb_false_iff in H as [H _].
        rewrite !prefix_cons, prefix_nil_l in H. discriminate.
      - rewrite !contains_cons in H. apply orb_false_iff in H as [_ H]. apply orb_false_iff in H as [H _].
        rewrite !prefix_cons, prefix_nil_l in H. discriminate. }
    rewrite Hns, andb_false_r. reflexivity.
Qed.

(** C03-F7 (pinned tree only): a lower-case encoded slash where the setting keeps or forbids
    encoded slashes *)
Definition guard_F7 (fx7 : dec) (sl : slash) (q : request) (v : string) : bool :=
  negb (String.eqb (q_rawpath q) "") &&
  match sl with
  | SOff => negb (is7 fx7) && contains "%2f" (q_rawpath q)
  | SNoDecode => guard_F7_val fx7 v
  | SOn => false
  end.

(** C03-F8 (decoder with place-holder only): the decoding contains the beginning of the
    place-holder (no_decode) *)
Definition guard_F8 (fx7 : dec) (sl : slash) (q : request) (v : string) : bool :=
  negb (String.eqb (q_rawpath q) "") && slash_eqb sl SNoDecode &&
  match spec_decode true v with Some d => guard_F8_val fx7 d | None => false end.

Definition on_param (g : slash -> request -> string -> bool) (sl : slash) (q : request)
           (keys vals : list string) (p : param) : bool :=
  match assoc_first (pp_name p) keys vals with Some v => g sl q v | None => false end.

Lemma has_enc_slash_unfold s : has_enc_slash s = contains "%2F" s || contains "%2f" s.
Proof. reflexivity. Qed.

Lemma param_semantics fx6 fx7 eng sl q keys vals p :
  length keys = length vals -> Forall valid_enc vals -> Forall (from_path q) vals ->
  on_param (guard_F6 fx6) sl q keys vals p = false ->
  on_param (guard_F7 fx7) sl q keys vals p = false ->
  on_param (guard_F8 fx7) sl q keys vals p = false ->
  param_match fx6 fx7 eng sl q keys vals p = of_bool (spec_param eng sl q keys vals p).
Proof.
  intros Hl Hv Hfp. unfold on_param, param_match, spec_param.
  rewrite (assoc_index _ _ _ Hl).
  destruct (index_of (pp_name p) keys) as [i|] eqn:Ei; [|reflexivity].
  destruct (index_in_range _ _ _ _ Hl Ei) as (v & Ev). rewrite Ev.
  assert (Hvv : valid_enc v).
  { rewrite Forall_forall in Hv. apply Hv. eapply nth_error_In. exact Ev. }
  assert (Hfv : from_path q v).
  { rewrite Forall_forall in Hfp. apply Hfp. eapply nth_error_In. exact Ev. }
  destruct (spec_decode (keep_slash_of sl) v) as [d|] eqn:Ed.
  2:{ exfalso. apply (spec_decode_valid (keep_slash_of sl)) in Hvv. congruence. }
  unfold guard_F6, guard_F7, guard_F8, undecoded_val. rewrite Ed.
  destruct (String.eqb (q_rawpath q) "") eqn:Er.
  - (* no RawPath: the matcher sees the value as it is *)
    apply String.eqb_eq in Er. rewrite Er. rewrite orb_true_r, andb_true_l.
    intros H6 _ _. apply negb_false_iff, String.eqb_eq in H6. subst d.
    change (has_enc_slash "") with false. rewrite andb_false_r. reflexivity.
  - simpl negb. rewrite orb_false_r, !andb_true_l. destruct sl; simpl slash_eqb; simpl keep_slash_of in *.
    + (* off *)
      rewrite !andb_true_r. intros H6 H7 _.
      assert (Ees : is7 fx7 = true \/ contains "%2f" (q_rawpath q) = false).
      { destruct (is7 fx7); [left; reflexivity | right; exact H7]. }
      assert (Ece : contains_enc_slash fx7 (q_rawpath q) = has_enc_slash (q_rawpath q)).
      { unfold contains_enc_slash. rewrite has_enc_slash_unfold.
        destruct Ees as [-> | ->]; [reflexivity | rewrite andb_false_r; reflexivity]. }
      rewrite Ece. destruct (has_enc_slash (q_rawpath q)) eqn:Eh; [reflexivity|].
      destruct fx6; cbn [negb andb] in H6.
      * (* repaired: the value is decoded; it has no encoded slash, so this is the specified decoding *)
        assert (Hnv : has_enc_slash v = false).
        { destruct (has_enc_slash v) eqn:E; [|reflexivity]. rewrite (Hfv E) in Eh. discriminate. }
        change (keep_slash_of SOff) with true in Ed.
        rewrite (keep_irrelevant _ Hnv), spec_decode_false in Ed.
        unfold path_unescape. rewrite Ed. reflexivity.
      * apply negb_false_iff, String.eqb_eq in H6. subst d. reflexivity.
    + (* on *)
      intros _ _ _.
      unfold path_unescape. rewrite spec_decode_false in Ed. rewrite Ed. reflexivity.
    + (* no_decode *)
      rewrite andb_false_r. intros _ H7. rewrite andb_true_l.
      change (keep_slash_of SNoDecode) with true in Ed. rewrite Ed. intro H8.
      rewrite (nd_decode _ _ _ Ed H7 H8). reflexivity.
Qed.

Definition on_params (g : slash -> request -> string -> bool) (sl : slash) (q : request)
           (keys vals : list string) (ps : list param) : bool :=
  existsb (on_param g sl q keys vals) ps.

Lemma params_semantics fx6 fx7 eng sl q keys vals ps :
  length keys = length vals -> Forall valid_enc vals -> Forall (from_path q) vals ->
  on_params (guard_F6 fx6) sl q keys vals ps = false ->
  on_params (guard_F7 fx7) sl q keys vals ps = false ->
  on_params (guard_F8 fx7) sl q keys vals ps = false ->
  params_match fx6 fx7 eng sl q keys vals ps = of_bool (forallb (spec_param eng sl q keys vals) ps).
Proof.
  intros Hl Hv Hfp. unfold on_params. induction ps as [|p r IH]; simpl; [reflexivity|].
  intros H6 H7 H8.
  apply orb_false_iff in H6 as [H6 H6r]. apply orb_false_iff in H7 as [H7 H7r].
  apply orb_false_iff in H8 as [H8 H8r].
  rewrite (param_semantics fx6 fx7 eng sl q keys vals p Hl Hv Hfp H6 H7 H8).
  destruct (spec_param eng sl q keys vals p); simpl; [exact (IH H6r H7r H8r) | reflexivity].
Qed.

(** what CreateRule assembles *)
Lemma create_rule_inv fx4 r cr :
  create_rule fx4 r = Ok cr ->
  exists mm, create_method_matcher fx4 (rl_methods r) = Ok mm /\
    forallb tm_ok (rl_hosts r) = true /\
    forallb (fun rt => forallb (fun p => tm_ok (pp_tm p)) (rt_params rt)) (rl_routes r) = true /\
    cr_slash cr = rl_slash r /\ cr_bt cr = rl_bt r /\
    cr_routes cr = map (fun rt => (rt_path rt,
                         {| cm_scheme := rl_scheme r; cm_methods := mm; cm_hosts := rl_hosts r;
                            cm_params := rt_params rt; cm_slash := rl_slash r |})) (rl_routes r).
Proof.
  unfold create_rule. destruct (create_method_matcher fx4 (rl_methods r)) as [mm|]; [|discriminate].
  destruct (forallb tm_ok (rl_hosts r)); [|discriminate]. simpl.
  destruct (forallb _ (rl_routes r)); [|discriminate]. simpl.
  intro H. inversion H; subst; clear H. exists mm. simpl. repeat split; reflexivity.
Qed.

(** the matcher of a created route answers exactly as the documented conditions
    say, outside the guards of C03-F1, F4, F6, F7, F8, and never panics *)
Lemma route_semantics fx1 fx4 fx6 fx7 eng r cr :
  create_rule fx4 r = Ok cr ->
  forall path cm, In (path, cm) (cr_routes cr) ->
  exists rt, In rt (rl_routes r) /\ path = rt_path rt /\
    forall q keys vals,
      length keys = length vals -> Forall valid_enc vals -> Forall (from_path q) vals ->
      guard_F1 fx1 eng (rl_hosts r) q = false ->
      guard_F4 fx4 (rl_methods r) = false ->
      on_params (guard_F6 fx6) (rl_slash r) q keys vals (rt_params rt) = false ->
      on_params (guard_F7 fx7) (rl_slash r) q keys vals (rt_params rt) = false ->
      on_params (guard_F8 fx7) (rl_slash r) q keys vals (rt_params rt) = false ->
      route_matches fx1 fx6 fx7 eng cm q keys vals =
      of_bool (spec_route_ok eng r (rt_params rt) q keys vals).
Proof.
  intros Hc path cm Hin.
  destruct (create_rule_inv _ _ _ Hc) as (mm & Hm & _ & _ & _ & _ & Hr).
  rewrite Hr in Hin. apply in_map_iff in Hin as (rt & E & Hrt). inversion E; subst path cm. clear E.
  exists rt. split; [assumption|]. split; [reflexivity|].
  intros q keys vals Hl Hv Hfp H1 H4 H6 H7 H8.
  unfold route_matches, spec_route_ok. simpl.
  rewrite scheme_semantics, (method_list_semantics _ _ _ q Hm H4), (hosts_semantics _ _ _ _ H1).
  rewrite (params_semantics fx6 fx7 eng _ q keys vals _ Hl Hv Hfp H6 H7 H8).
  destruct (spec_scheme (rl_scheme r) q); [|reflexivity].
  destruct (spec_method (rl_methods r) (q_method q)); [|reflexivity].
  destruct (spec_hosts eng (rl_hosts r) q); reflexivity.
Qed.

(* ------------------------------------------------------------------ captures after Execute *)

Definition dec_pair (f : string -> string) (kv : string * string) : string * string :=
  (fst kv, f (snd kv)).

Lemma map_put_map f k v l :
  map (dec_pair f) (map_put k v l) = map_put k (f v) (map (dec_pair f) l).
Proof.
  induction l as [|[k' v'] r IH]; simpl; [reflexivity|].
  destruct (String.eqb k k'); [reflexivity|].
  destruct (String.leb k k'); [reflexivity|]. simpl. rewrite IH. reflexivity.
Qed.

Lemma map_of_map f l : map (dec_pair f) (map_of l) = map_of (map (dec_pair f) l).
Proof.
  unfold map_of.
  assert (G : forall l acc, map (dec_pair f) (fold_left (fun acc kv => map_put (fst kv) (snd kv) acc) l acc)
              = fold_left (fun acc kv => map_put (fst kv) (snd kv) acc) (map (dec_pair f) l) (map (dec_pair f) acc)).
  { clear l. induction l as [|[k v] r IH]; intro acc; simpl; [reflexivity|].
    rewrite IH, map_put_map. reflexivity. }
  exact (G l []).
Qed.

(** the guards of C03-F7 / F8 on every exposed value *)
Definition caps_guard_F7 (fx7 : dec) (sl : slash) (pairs : list (string * string)) : bool :=
  negb (slash_eqb sl SOn) && existsb (fun kv => guard_F7_val fx7 (snd kv)) pairs.
Definition caps_guard_F8 (fx7 : dec) (sl : slash) (pairs : list (string * string)) : bool :=
  negb (slash_eqb sl SOn) &&
  existsb (fun kv => match spec_decode true (snd kv) with Some d => guard_F8_val fx7 d | None => false end) pairs.

Lemma decode_all_model fx7 sl pairs dec :
  decode_all (keep_slash_of sl) pairs = Some dec ->
  caps_guard_F7 fx7 sl pairs = false -> caps_guard_F8 fx7 sl pairs = false ->
  map (dec_pair (fun v => unescape fx7 v sl)) pairs = dec.
Proof.
  unfold caps_guard_F7, caps_guard_F8.
  revert dec. induction pairs as [|[k v] r IH]; intros dec; simpl.
  - intro H. inversion H. reflexivity.
  - destruct (spec_decode (keep_slash_of sl) v) as [d|] eqn:Ed; [|discriminate].
    destruct (decode_all (keep_slash_of sl) r) as [r'|] eqn:Er; [|discriminate].
    intro H. inversion H; subst dec. clear H. intros H7 H8.
    unfold dec_pair at 1. simpl fst. simpl snd.
    destruct sl; simpl in *.
    + change (keep_slash_of SOff) with true in Ed.
      apply orb_false_iff in H7 as [H7 H7r]. rewrite Ed in H8. apply orb_false_iff in H8 as [H8 H8r].
      rewrite (nd_decode _ _ _ Ed H7 H8), (IH r' eq_refl H7r H8r). reflexivity.
    + change (keep_slash_of SOn) with false in Ed.
      rewrite spec_decode_false in Ed. unfold path_unescape at 1. rewrite Ed.
      rewrite (IH r' eq_refl eq_refl eq_refl). reflexivity.
    + change (keep_slash_of SNoDecode) with true in Ed.
      apply orb_false_iff in H7 as [H7 H7r]. rewrite Ed in H8. apply orb_false_iff in H8 as [H8 H8r].
      rewrite (nd_decode _ _ _ Ed H7 H8), (IH r' eq_refl H7r H8r). reflexivity.
Qed.

(** what Find hands to the pipeline when the keys are the route's names and the
    parameters the matched segments *)
Lemma params_of_named names segs :
  length names = length segs -> params_of names segs = Some (named_pairs names segs).
Proof.
  revert segs. induction names as [|n nr IH]; intros [|v vr] Hl; try discriminate; [reflexivity|].
  simpl in *. rewrite (IH vr) by lia. destruct (String.eqb n "*"); reflexivity.
Qed.

(** Execute: rejected exactly when the setting is `off` and the raw path contains
    an encoded slash; otherwise the captures are the decoded named segments *)
Definition req_guard_F7 (fx7 : dec) (sl : slash) (q : request) : bool :=
  negb (is7 fx7) && slash_eqb sl SOff && contains "%2f" (q_rawpath q).

Lemma captures_semantics fx7 sl q names segs :
  req_guard_F7 fx7 sl q = false ->          (* C03-F7 on the request *)
  let '(caps, rej) := execute fx7 sl q (map_of (named_pairs names segs)) in
  rej = spec_rejected sl q /\
  (rej = false -> forall sc, spec_captures sl names segs = Some sc ->
     caps_guard_F7 fx7 sl (named_pairs names segs) = false ->
     caps_guard_F8 fx7 sl (named_pairs names segs) = false -> caps = sc).
Proof.
  intro H7q. unfold execute, spec_rejected, spec_captures.
  assert (Hcaps : forall sc,
    option_map map_of (decode_all (keep_slash_of sl) (named_pairs names segs)) = Some sc ->
    caps_guard_F7 fx7 sl (named_pairs names segs) = false ->
    caps_guard_F8 fx7 sl (named_pairs names segs) = false ->
    map (fun kv => (fst kv, unescape fx7 (snd kv) sl)) (map_of (named_pairs names segs)) = sc).
  { intros sc Hs G7 G8.
    destruct (decode_all (keep_slash_of sl) (named_pairs names segs)) as [dec|] eqn:Ed; [|discriminate].
    simpl in Hs. inversion Hs; subst sc.
    change (fun kv : string * string => (fst kv, unescape fx7 (snd kv) sl))
      with (dec_pair (fun v => unescape fx7 v sl)).
    rewrite map_of_map, (decode_all_model _ _ _ _ Ed G7 G8). reflexivity. }
  unfold req_guard_F7 in H7q.
  destruct sl; cbn [slash_eqb andb] in *.
  - rewrite has_enc_slash_unfold. unfold contains_enc_slash.
    assert (E : contains "%2F" (q_rawpath q) || is7 fx7 && contains "%2f" (q_rawpath q)
                = contains "%2F" (q_rawpath q) || contains "%2f" (q_rawpath q)).
    { destruct (is7 fx7); cbn [negb andb] in *; [reflexivity|]. rewrite H7q. reflexivity. }
    rewrite E.
    destruct (contains "%2F" (q_rawpath q) || contains "%2f" (q_rawpath q)).
    + split; [reflexivity | discriminate].
    + split; [reflexivity|]. intros _. exact Hcaps.
  - split; [reflexivity|]. intros _. exact Hcaps.
  - split; [reflexivity|]. intros _. exact Hcaps.
Qed.

(* ------------------------------------------------------------------ findings: witnesses *)

Definition eng_none : engine := fun _ _ _ _ => false.
Definition w_exact v := {| tm_type := TExact; tm_value := v; tm_compiles := true |}.
Definition w_rule m h rs sl :=
  {| rl_scheme := ""; rl_methods := m; rl_hosts := h; rl_routes := rs; rl_slash := sl; rl_bt := false |}.
Definition w_route p ps := {| rt_path := p; rt_params := ps |}.
Definition w_req m h p := {| q_method := m; q_scheme := "http"; q_host := h; q_path := p; q_rawpath := p |}.

(** the matcher CreateRule builds for the only route of a one-route rule *)
Definition only_matcher (fx4 : bool) (r : ruledef) : option cmatcher :=
  match create_rule fx4 r with
  | Ok cr => match cr_routes cr with [(_, cm)] => Some cm | _ => None end
  | Rejected => None
  end.

(** C03-F1: hosts [a.com, b.com]; GET http://a.com/a is not matched *)
Lemma F1_refuted :
  exists r cm q, only_matcher false r = Some cm /\ guard_F1 false eng_none (rl_hosts r) q = true /\
    route_matches false true D8 eng_none cm q [] [] = MNo /\ spec_route_ok eng_none r [] q [] [] = true.
Proof.
  exists (w_rule [] [w_exact "a.com"; w_exact "b.com"] [w_route "/a" []] SOff).
  eexists. exists (w_req "GET" "a.com" "/a").
  split; [vm_compute; reflexivity|]. split; [vm_compute; reflexivity|]. split; vm_compute; reflexivity.
Qed.

(** C03-F4: methods ["!GET"]; GET /a is matched *)
Lemma F4_refuted :
  exists r cm q, only_matcher false r = Some cm /\ guard_F4 false (rl_methods r) = true /\
    route_matches false true D8 eng_none cm q [] [] = MYes /\ spec_route_ok eng_none r [] q [] [] = false.
Proof.
  exists (w_rule ["!GET"] [] [w_route "/a" []] SOff).
  eexists. exists (w_req "GET" "h" "/a").
  split; [vm_compute; reflexivity|]. split; [vm_compute; reflexivity|]. split; vm_compute; reflexivity.
Qed.

(** C03-F6 (pinned tree, before commit 72ba5d4): /file/:name with path_params name = exact "A"
    (off); GET /file/%41 is not matched *)
Lemma F6_pinned_refuted :
  exists r ps cm q keys vals, only_matcher false r = Some cm /\ cm_params cm = ps /\
    length keys = length vals /\ Forall valid_enc vals /\ Forall (from_path q) vals /\
    on_params (guard_F6 false) (rl_slash r) q keys vals ps = true /\
    route_matches false false D7 eng_none cm q keys vals = MNo /\ spec_route_ok eng_none r ps q keys vals = true.
Proof.
  exists (w_rule [] [] [w_route "/file/:name" [{| pp_name := "name"; pp_tm := w_exact "A" |}]] SOff).
  eexists. eexists. exists (w_req "GET" "h" "/file/%41"), ["name"], ["%41"].
  split; [vm_compute; reflexivity|]. split; [reflexivity|]. split; [reflexivity|].
  split; [constructor; [unfold valid_enc; vm_compute; discriminate | constructor]|].
  split; [constructor; [intro H; vm_compute in H; discriminate | constructor]|].
  vm_compute. repeat split.
Qed.

(** C03-F7 (pinned tree, before commit a779db8): /file/:name (off); GET /file/a%2fb is
    accepted and the capture is a/b *)
Lemma F7_pinned_refuted :
  exists sl q names segs caps sc,
    req_guard_F7 D0 sl q = true /\
    execute D0 sl q (map_of (named_pairs names segs)) = (caps, false) /\
    spec_rejected sl q = true /\
    spec_captures sl names segs = Some sc /\ caps <> sc.
Proof.
  exists SOff, (w_req "GET" "h" "/file/a%2fb"), ["name"], ["a%2fb"]. eexists. eexists.
  vm_compute. repeat split. discriminate.
Qed.

(** ... and under no_decode the lower-case encoded slash is decoded *)
Lemma F7_pinned_refuted_nd :
  exists v d, guard_F7_val D0 v = true /\ spec_decode true v = Some d /\ unescape D0 v SNoDecode <> d.
Proof. exists "a%2fb". eexists. vm_compute. repeat split. discriminate. Qed.

(** C03-F8: /file/:name (no_decode); GET /file/$$$escaped-slash$$$ gives the capture %2F *)
Lemma F8_refuted :
  exists sl q names segs caps sc,
    caps_guard_F8 D7 sl (named_pairs names segs) = true /\
    execute D7 sl q (map_of (named_pairs names segs)) = (caps, false) /\
    spec_rejected sl q = false /\
    spec_captures sl names segs = Some sc /\ caps <> sc.
Proof.
  exists SNoDecode, (w_req "GET" "h" "/file/$$$escaped-slash$$$"), ["name"], ["$$$escaped-slash$$$"].
  eexists. eexists. vm_compute. repeat split. discriminate.
Qed.

(** non-vacuity: a rule with scheme, ALL minus one method, one host, a path_params
    condition on a percent-encoded segment (no_decode) satisfies every hypothesis of
    [route_semantics] and matches *)
Lemma route_semantics_nonvacuous :
  exists r cm q keys vals,
    only_matcher false r = Some cm /\ length keys = length vals /\ Forall valid_enc vals /\
    Forall (from_path q) vals /\
    guard_F1 false eng_none (rl_hosts r) q = false /\ guard_F4 false (rl_methods r) = false /\
    on_params (guard_F6 true) (rl_slash r) q keys vals (cm_params cm) = false /\
    on_params (guard_F8 D8) (rl_slash r) q keys vals (cm_params cm) = false /\
    route_matches false true D8 eng_none cm q keys vals = MYes.
Proof.
  exists {| rl_scheme := "http"; rl_methods := ["ALL"; "!TRACE"]; rl_hosts := [w_exact "a.com"];
            rl_routes := [w_route "/file/:name" [{| pp_name := "name"; pp_tm := w_exact "[id]%2Fx" |}]];
            rl_slash := SNoDecode; rl_bt := false |}.
  eexists. exists (w_req "PUT" "a.com" "/file/%5Bid%5D%2Fx"), ["name"], ["%5Bid%5D%2Fx"].
  split; [vm_compute; reflexivity|]. split; [reflexivity|].
  split; [constructor; [unfold valid_enc; vm_compute; discriminate | constructor]|].
  split; [constructor; [intros _; vm_compute; reflexivity | constructor]|].
  vm_compute. repeat split.
Qed.

(* ------------------------------------------------------------------ statements as they appear in Properties/C03.v *)

Lemma existsb_const_false {A} (l : list A) : existsb (fun _ => false) l = false.
Proof. induction l; [reflexivity | assumption]. Qed.

Lemma method_list_semantics_full : forall fx4 ms l,
  create_method_matcher fx4 ms = Ok l ->
  (forall m, mem m l = true <->
     (((has_bang m = false /\ m <> "ALL" /\ In m ms) \/ (In "ALL" ms /\ In m nine)) /\ ~ In ("!" ++ m) ms)) /\
  (forall q, guard_F4 fx4 ms = false -> method_match l q = spec_method ms (q_method q)).
Proof.
  intros fx4 ms l H. split.
  - intro m. rewrite (created_methods _ _ _ H). unfold spec_listed.
    rewrite andb_true_iff, orb_true_iff, !andb_true_iff, !negb_true_iff, !mem_In, mem_false, String.eqb_neq.
    tauto.
  - intros q G. exact (method_list_semantics _ _ _ q H G).
Qed.

Lemma decode_per_setting : forall fx7 sl v d,
  spec_decode (keep_slash_of sl) v = Some d ->
  (sl = SOn \/ (guard_F7_val fx7 v = false /\ guard_F8_val fx7 d = false)) ->
  unescape fx7 v sl = d.
Proof.
  intros fx7 sl v d Hd [->|[H7 H8]].
  - exact (on_decode _ _ _ Hd).
  - destruct sl; [exact (nd_decode _ _ _ Hd H7 H8) | exact (on_decode _ _ _ Hd) | exact (nd_decode _ _ _ Hd H7 H8)].
Qed.

Lemma captures_exact : forall fx7 sl q names segs caps rej,
  req_guard_F7 fx7 sl q = false ->
  execute fx7 sl q (map_of (named_pairs names segs)) = (caps, rej) ->
  rej = spec_rejected sl q /\
  (rej = false -> forall sc, spec_captures sl names segs = Some sc ->
     caps_guard_F7 fx7 sl (named_pairs names segs) = false ->
     caps_guard_F8 fx7 sl (named_pairs names segs) = false -> caps = sc).
Proof.
  intros fx7 sl q names segs caps rej H7 E. generalize (captures_semantics fx7 sl q names segs H7).
  rewrite E. tauto.
Qed.

Lemma unnamed_not_exposed : forall names segs k v,
  In (k, v) (named_pairs names segs) -> k <> "*".
Proof.
  induction names as [|n nr IH]; intros [|s sr] k v; simpl; try tauto.
  destruct (String.eqb n "*") eqn:E.
  - apply IH.
  - intros [H|H]; [inversion H; subst; apply String.eqb_neq; assumption | exact (IH _ _ _ H)].
Qed.

(** the tree as it is now: C03-F6 repaired, every variant of the decoder *)
Lemma route_matches_iff fx1 fx4 fx7 eng r cr :
  create_rule fx4 r = Ok cr ->
  forall path cm, In (path, cm) (cr_routes cr) ->
  exists rt, In rt (rl_routes r) /\ path = rt_path rt /\
    forall q keys vals,
      length keys = length vals -> Forall valid_enc vals -> Forall (from_path q) vals ->
      guard_F1 fx1 eng (rl_hosts r) q = false ->
      guard_F4 fx4 (rl_methods r) = false ->
      on_params (guard_F6 true) (rl_slash r) q keys vals (rt_params rt) = false ->
      on_params (guard_F7 fx7) (rl_slash r) q keys vals (rt_params rt) = false ->
      on_params (guard_F8 fx7) (rl_slash r) q keys vals (rt_params rt) = false ->
      route_matches fx1 true fx7 eng cm q keys vals =
      of_bool (spec_scheme (rl_scheme r) q && spec_method (rl_methods r) (q_method q) &&
               spec_hosts eng (rl_hosts r) q &&
               forallb (spec_param eng (rl_slash r) q keys vals) (rt_params rt)).
Proof. exact (route_semantics fx1 fx4 true fx7 eng r cr). Qed.

Lemma method_list_rejected : forall ms,
  (create_method_matcher false ms = Rejected <-> In "" ms) /\
  (create_method_matcher true ms = Rejected <-> In "" ms \/ guard_F4 false ms = true).
Proof. intro ms. split; [apply create_method_rejected | apply create_method_rejected_fx4]. Qed.

Lemma route_semantics_nonvacuous_live :
  exists r cm q keys vals,
    only_matcher true r = Some cm /\ length keys = length vals /\ Forall valid_enc vals /\
    Forall (from_path q) vals /\
    guard_F1 true eng_none (rl_hosts r) q = false /\ guard_F4 true (rl_methods r) = false /\
    on_params (guard_F6 true) (rl_slash r) q keys vals (cm_params cm) = false /\
    on_params (guard_F7 D8) (rl_slash r) q keys vals (cm_params cm) = false /\
    on_params (guard_F8 D8) (rl_slash r) q keys vals (cm_params cm) = false /\
    route_matches true true D8 eng_none cm q keys vals = MYes.
Proof.
  exists {| rl_scheme := "http"; rl_methods := ["ALL"; "!TRACE"]; rl_hosts := [w_exact "b.com"; w_exact "a.com"];
            rl_routes := [w_route "/file/:name" [{| pp_name := "name"; pp_tm := w_exact "[id]%2Fx" |}]];
            rl_slash := SNoDecode; rl_bt := false |}.
  eexists. exists (w_req "PUT" "a.com" "/file/%5Bid%5D%2fx"), ["name"], ["%5Bid%5D%2fx"].
  split; [vm_compute; reflexivity|]. split; [reflexivity|].
  split; [constructor; [unfold valid_enc; vm_compute; discriminate | constructor]|].
  split; [constructor; [intros _; vm_compute; reflexivity | constructor]|].
  vm_compute. repeat split.
Qed.
