(** C03/ReachHist.v — rule-set histories on the index, for C03: AddRuleSet / UpdateRuleSet /
    DeleteRuleSet of internal/rules/repository_impl.go issue Tree.Add / Tree.Delete on (a clone of)
    the compressed tree; the tree is Radix/Tree.v's with C06/TreeDel.v's Delete (the shared,
    proved transcriptions), the values are route ids: positions in the table [es] of ALL routes
    CreateRule ever made in the case (every version of every rule).

      [hrun]          the repository after a history: the tree and the list of known rules;
                      every operation is all-or-nothing (clone, swap on success)
      [hrun_reach]    after EVERY history the tree is reachable in the sense of C03/ReachKeys.v
                      (hence of C02/Reach.v): the C03 lookup theorems of C03/ReachSpec.v apply
    (the corollaries for C03's lookup and the non-vacuity example - a tree that went through prefix
    splits and a deleteChild merge, routes with path_params on wildcards - are in C03/ReachTheorems.v)

    Which rules an update replaces is computed as the code does, from SameAs (same id, same rule
    set) and EqualTo (additionally the same hash); the equality classes of the hashes are data
    of the case ([rm_hash], read off the created rules by the driver).

    Executable (the evaluator runs [hrun]); the proofs are at the end. *)
From HV Require Import Base.Prelude C03.Model C03.Spec C03.Proofs C03.ProofsTree C03.ProofsAdd C03.ProofsSpec
  C03.ReachConv.
From HV Require C03.ReachKeys C06.TreeDel C06.TreeDelFacts C02.Reach.
Open Scope string_scope.
Open Scope list_scope.

Module TD := HV.C06.TreeDel.

(** per rule: its rule set, its id, the equality class of its hash *)
Record rmeta := { rm_src : nat; rm_id : nat; rm_hash : nat }.

Inductive hop :=
| HAdd (rs : list nat)                 (* AddRuleSet(_, rules): the rules carry their rule set *)
| HUpd (src : nat) (rs : list nat)     (* UpdateRuleSet(src, rules) *)
| HDel (src : nat).                    (* DeleteRuleSet(src) *)

Section Hist.
Variable es : list centry.             (* route id -> created route *)
Variable metas : list rmeta.           (* rule index -> rule set, id, hash class *)

Definition meta_of (r : nat) : rmeta :=
  match nth_error metas r with Some m => m | None => {| rm_src := 0; rm_id := r; rm_hash := 0 |} end.

Definition vid_rule (v : nat) : nat := match nth_error es v with Some e => ce_rule e | None => 0 end.
Definition vid_src (v : nat) : nat := rm_src (meta_of (vid_rule v)).

(** newRepository's values constraint: "only rules from the same rule set can be placed in one node" *)
Definition same_src (olds : list nat) (v : nat) : bool :=
  match olds with [] => true | o :: _ => Nat.eqb (vid_src o) (vid_src v) end.

(** the route ids of rule [r], in the order of its routes *)
Definition vids_of (r : nat) : list nat :=
  filter (fun v => Nat.eqb (vid_rule v) r) (seq 0 (length es)).

(** addRulesTo / removeRulesFrom on the routes [l]: [None] as soon as one operation fails *)
Fixpoint add_vids (T : RT.tree nat) (l : list nat) : option (RT.tree nat) :=
  match l with
  | [] => Some T
  | v :: r =>
    match nth_error es v with
    | None => None
    | Some e =>
      match RT.tree_add same_src T (chars (ce_path e)) v (ce_bt e) with
      | RT.TOk T' => add_vids T' r
      | _ => None
      end
    end
  end.

Fixpoint del_vids (T : RT.tree nat) (l : list nat) : option (RT.tree nat) :=
  match l with
  | [] => Some T
  | v :: r =>
    match nth_error es v with
    | None => None
    | Some e =>
      (* "the very route" *)
      match TD.tree_delete (Nat.eqb v) T (chars (ce_path e)) with
      | Some T' => del_vids T' r
      | None => None
      end
    end
  end.

Definition rules_vids (rs : list nat) : list nat := flat_map vids_of rs.

(** SameAs / EqualTo *)
Definition same_as (a b : nat) : bool :=
  Nat.eqb (rm_id (meta_of a)) (rm_id (meta_of b)) && Nat.eqb (rm_src (meta_of a)) (rm_src (meta_of b)).
Definition equal_to (a b : nat) : bool := same_as a b && Nat.eqb (rm_hash (meta_of a)) (rm_hash (meta_of b)).

Record hstate := { h_tree : RT.tree nat; h_known : list nat }.

Definition h_init : hstate := {| h_tree := RT.empty_tree; h_known := [] |}.

(** what an operation deletes, adds, and the new list of known rules *)
Definition hplan (kn : list nat) (o : hop) : list nat * list nat * list nat :=
  match o with
  | HAdd rs => ([], rs, kn ++ rs)
  | HUpd src rs =>
    let applicable := filter (fun r => Nat.eqb (rm_src (meta_of r)) src) kn in
    let to_add := filter (fun n => negb (existsb (fun x => same_as x n) applicable)
                                   || existsb (fun x => same_as x n && negb (equal_to x n)) applicable) rs in
    let to_del := filter (fun x => negb (existsb (fun n => same_as n x) rs)
                                   || existsb (fun n => same_as n x && negb (equal_to n x)) rs) applicable in
    (to_del, to_add, filter (fun r => negb (existsb (Nat.eqb r) to_del)) kn ++ to_add)
  | HDel src =>
    let applicable := filter (fun r => Nat.eqb (rm_src (meta_of r)) src) kn in
    (applicable, [], filter (fun r => negb (existsb (Nat.eqb r) applicable)) kn)
  end.

(** one operation: the new state and whether the repository accepted it *)
Definition hstep (st : hstate) (o : hop) : hstate * bool :=
  let '(to_del, to_add, kn') := hplan (h_known st) o in
  match del_vids (h_tree st) (rules_vids to_del) with
  | Some T1 =>
    match add_vids T1 (rules_vids to_add) with
    | Some T2 => ({| h_tree := T2; h_known := kn' |}, true)
    | None => (st, false)
    end
  | None => (st, false)
  end.

Fixpoint hrun_from (st : hstate) (ops : list hop) : hstate * list bool :=
  match ops with
  | [] => (st, [])
  | o :: r => let '(st1, ok) := hstep st o in let '(st2, oks) := hrun_from st1 r in (st2, ok :: oks)
  end.

Definition hrun (ops : list hop) : hstate * list bool := hrun_from h_init ops.

(* ------------------------------------------------------------------ every history stays inside the reachable trees *)

Definition parses_vid (v : nat) : Prop :=
  exists e, nth_error es v = Some e /\ Radix.Spec.parse_expr (chars (ce_path e)) <> None.

Definition hinv (st : hstate) : Prop :=
  reach_tree same_src es (h_tree st) /\ Forall (fun r => Forall parses_vid (vids_of r)) (h_known st).

Lemma add_vids_reach l : forall T T', reach_tree same_src es T -> add_vids T l = Some T' ->
  reach_tree same_src es T' /\ Forall parses_vid l.
Proof.
  induction l as [|v r IH]; intros T T' Hr; cbn [add_vids].
  - intro H. inversion H; subst. split; [exact Hr | constructor].
  - destruct (nth_error es v) as [e|] eqn:Ee; [|discriminate].
    destruct (RT.tree_add same_src T (chars (ce_path e)) v (ce_bt e)) as [T1| | |] eqn:Ea; try discriminate.
    intro H.
    assert (Hr1 : reach_tree same_src es T1).
    { eapply ReachKeys.reach_add; [exact Hr | | exact Ea]. unfold route_expr. rewrite Ee. reflexivity. }
    destruct (IH T1 T' Hr1 H) as [Hr' Hp]. split; [exact Hr'|]. constructor; [|exact Hp].
    exists e. split; [exact Ee|]. eapply ReachKeys.add_ok_parses; [|exact Ea]. apply (ReachKeys.reach_wfd _ _ _ _ Hr).
Qed.

Lemma del_vids_reach l : forall T T', reach_tree same_src es T -> Forall parses_vid l -> del_vids T l = Some T' ->
  reach_tree same_src es T'.
Proof.
  induction l as [|v r IH]; intros T T' Hr Hp; cbn [del_vids].
  - intro H. inversion H; subst. exact Hr.
  - inversion Hp as [|x l0 (e' & He' & Hpe) Hpr]; subst.
    rewrite He'. destruct (TD.tree_delete (Nat.eqb v) T (chars (ce_path e'))) as [T1|] eqn:Ed; [|discriminate].
    apply IH; [|exact Hpr]. eapply ReachKeys.reach_del; [exact Hr | exact Hpe | exact Ed].
Qed.

Lemma Forall_flat_map_vids (P : nat -> Prop) rs :
  Forall P (rules_vids rs) <-> Forall (fun r => Forall P (vids_of r)) rs.
Proof.
  unfold rules_vids. induction rs as [|r rs IH]; cbn [flat_map]; [split; constructor|].
  rewrite Forall_app, IH. split.
  - intros [H1 H2]. constructor; assumption.
  - intro H. inversion H; subst. split; assumption.
Qed.

Lemma hplan_known kn o to_del to_add kn' : hplan kn o = (to_del, to_add, kn') ->
  incl to_del kn /\ forall r, In r kn' -> In r kn \/ In r to_add.
Proof.
  destruct o as [rs|src rs|src]; cbn [hplan]; intro H; inversion H; subst; clear H.
  - split; [intros x []|]. intros r Hr. apply in_app_or in Hr. tauto.
  - split.
    + intros x Hx. apply filter_In in Hx as [Hx _]. apply filter_In in Hx as [Hx _]. exact Hx.
    + intros r Hr. apply in_app_or in Hr as [Hr|Hr]; [left; apply filter_In in Hr; tauto | right; exact Hr].
  - split.
    + intros x Hx. apply filter_In in Hx as [Hx _]. exact Hx.
    + intros r Hr. left. apply filter_In in Hr. tauto.
Qed.

Lemma hstep_inv st o : hinv st -> hinv (fst (hstep st o)).
Proof.
  intros [Hr Hk]. unfold hstep.
  destruct (hplan (h_known st) o) as [[to_del to_add] kn'] eqn:Ep.
  destruct (hplan_known _ _ _ _ _ Ep) as [Hdel Hkn].
  destruct (del_vids (h_tree st) (rules_vids to_del)) as [T1|] eqn:Ed; [|split; assumption].
  assert (Hpd : Forall parses_vid (rules_vids to_del)).
  { apply Forall_flat_map_vids. rewrite Forall_forall in *. intros r Hin. apply Hk. apply Hdel. exact Hin. }
  pose proof (del_vids_reach _ _ _ Hr Hpd Ed) as Hr1.
  destruct (add_vids T1 (rules_vids to_add)) as [T2|] eqn:Ea; [|split; assumption].
  destruct (add_vids_reach _ _ _ Hr1 Ea) as [Hr2 Hpa]. apply Forall_flat_map_vids in Hpa.
  split; [exact Hr2|]. cbn [fst h_known]. rewrite Forall_forall in *. intros r Hin.
  destruct (Hkn r Hin) as [H|H]; [apply Hk; exact H | apply Hpa; exact H].
Qed.

Lemma hrun_from_inv ops : forall st, hinv st -> hinv (fst (hrun_from st ops)).
Proof.
  induction ops as [|o r IH]; intros st H; [exact H|]. cbn [hrun_from].
  pose proof (hstep_inv st o H) as H1. destruct (hstep st o) as [st1 ok]. cbn [fst] in H1.
  specialize (IH st1 H1). destruct (hrun_from st1 r) as [st2 oks]. exact IH.
Qed.

(** after every history of AddRuleSet / UpdateRuleSet / DeleteRuleSet the index is a reachable tree *)
Theorem hrun_reach ops : reach_tree same_src es (h_tree (fst (hrun ops))).
Proof. apply (hrun_from_inv ops h_init). split; [constructor | constructor]. Qed.

End Hist.
