(** C02/HistTree.v — rule-set histories (AddRuleSet / UpdateRuleSet / DeleteRuleSet of
    internal/rules/repository_impl.go) on the COMPRESSED TREE: Radix/Tree.v's Add and
    C06/TreeDel.v's Delete (owner of that file: C06), as the repository issues them:

      AddRuleSet     clone, Add every route of every rule, swap only if all succeeded
      UpdateRuleSet  clone, Delete every route of the rules that are gone or changed, Add every
                     route of the rules that are new or changed, swap only if all succeeded
      DeleteRuleSet  clone, Delete every route of the rule set's rules, swap only on success

    A value of the index is a route OBJECT: removeRulesFrom deletes "the very route"
    (pointer identity), so a route is (rule id, rule-set id) plus its position among its rule's
    routes ([uval]); a rule may list one path twice.  Rule ids are unique inside a rule set.

    As in C02/Model.v's machine-level [hstep], which operations the implementation accepted
    and the answers of SameAs / EqualTo are data of the history ([hop]).  [hplan] is the
    bookkeeping both levels share: which rules are deleted, which are added, the new list of
    known rules.  Unlike the machine level nothing is forced here: when an accepted operation
    fails on the model tree, the model has left the implementation; [ts_ok] records that and
    the state is frozen (the evaluator then leaves the tree out of the comparison).

    Definitions only; the theorems are in C02/ReachRepo.v. *)
From HV Require Import Base.Prelude Radix.Spec Radix.Machine Radix.Load Radix.Tree C06.TreeDel C02.Model.

(** a route object: (rule id, rule-set id), index among the routes of its rule *)
Definition uval : Type := (rval * nat)%type.

Definition uval_eqb (a b : uval) : bool := rval_eqb (fst a) (fst b) && Nat.eqb (snd a) (snd b).

(** newRepository's values constraint: an expression holds routes of one rule set only *)
Definition usame_src (olds : list uval) (v : uval) : bool :=
  match olds with
  | [] => true
  | o :: _ => Nat.eqb (snd (fst o)) (snd (fst v))
  end.

Definition rule_uadds (src : nat) (r : rule_def) : list (addop uval) :=
  map (fun ie => {| ao_expr := snd ie; ao_val := ((r_id r, src), fst ie); ao_bt := r_bt r |})
      (combine (seq 0 (length (r_routes r))) (r_routes r)).

Definition ruleset_uadds (src : nat) (rs : list rule_def) : list (addop uval) :=
  flat_map (rule_uadds src) rs.

(** addRulesTo / removeRulesFrom: [None] as soon as one operation fails *)
Fixpoint utree_add_all (t : tree uval) (l : list (addop uval)) : option (tree uval) :=
  match l with
  | [] => Some t
  | a :: r =>
    match tree_add usame_src t (ao_expr a) (ao_val a) (ao_bt a) with
    | TOk t' => utree_add_all t' r
    | _ => None
    end
  end.

Fixpoint utree_del_all (t : tree uval) (l : list (addop uval)) : option (tree uval) :=
  match l with
  | [] => Some t
  | a :: r =>
    match tree_delete (uval_eqb (ao_val a)) t (ao_expr a) with
    | Some t' => utree_del_all t' r
    | None => None
    end
  end.

(** what an accepted operation does: (rule-set id, rules to delete, rules to add, the new
    list of known rules); [None]: the operation was not accepted *)
Definition hplan (kn : known) (o : hop) : option (nat * list rule_def * list rule_def * known) :=
  match o with
  | HCreate src rs true => Some (src, [], rs, kn ++ map (fun r => (src, r)) rs)
  | HUpdate src rs true =>
    let applicable := filter (fun x => Nat.eqb (fst x) src) kn in
    let to_add := map h_rule (filter (fun hr => negb (h_same hr) || negb (h_equal hr)) rs) in
    let doomed (x : nat * rule_def) :=
      Nat.eqb (fst x) src &&
      match has_id (r_id (snd x)) rs with
      | None => true
      | Some hr => negb (h_equal hr)
      end in
    let to_del := map snd (filter doomed applicable) in
    Some (src, to_del, to_add, filter (fun x => negb (doomed x)) kn ++ map (fun r => (src, r)) to_add)
  | HDelete src true =>
    let applicable := map snd (filter (fun x => Nat.eqb (fst x) src) kn) in
    Some (src, applicable, [], filter (fun x => negb (Nat.eqb (fst x) src)) kn)
  | _ => None
  end.

Record tstate := { ts_tree : tree uval; ts_known : known; ts_ok : bool }.

Definition ts_init : tstate := {| ts_tree := empty_tree; ts_known := []; ts_ok := true |}.

Definition thstep (st : tstate) (o : hop) : tstate :=
  if ts_ok st then
    match hplan (ts_known st) o with
    | None => st
    | Some (src, to_del, to_add, kn') =>
      match utree_del_all (ts_tree st) (ruleset_uadds src to_del) with
      | Some t1 =>
        match utree_add_all t1 (ruleset_uadds src to_add) with
        | Some t2 => {| ts_tree := t2; ts_known := kn'; ts_ok := true |}
        | None => {| ts_tree := ts_tree st; ts_known := ts_known st; ts_ok := false |}
        end
      | None => {| ts_tree := ts_tree st; ts_known := ts_known st; ts_ok := false |}
      end
    end
  else st.

Definition hist_tree (ops : list hop) : tstate := fold_left thstep ops ts_init.

(** ** FindRule on that tree: conditions see the rule of a route, not the route object *)

Definition m_u (m : matcher rval) : matcher uval := fun v ks caps => m (fst v) ks caps.

Definition ufound (f : found uval) : found rval :=
  match f with Found v ks caps => Found (fst v) ks caps | NoMatch => NoMatch end.

Definition utree_find_rule (t : tree uval) (has_default : bool) (path : str) (m : matcher rval) : outcome :=
  outcome_of has_default (ufound (tree_find true true true (m_u m) t path)).

(** the content of the tree with the routes seen as (rule id, rule-set id) *)
Definition proj_node (n : node uval) : node rval :=
  {| vals := map fst (vals n); flag := flag n; keys := keys n |}.

Definition proj_db (d : db uval) : db rval := map (fun e => (fst e, proj_node (snd e))) d.
