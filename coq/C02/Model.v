(** C02/Model.v — the rule repository seen by a lookup
    (internal/rules/repository_impl.go: newRepository, AddRuleSet/addRulesTo, FindRule)
    on top of the index of Radix/Machine.v.

    - a value of the index is a route of a rule: here the rule's id and the id of
      the rule set it comes from;
    - the constraint installed by [newRepository]: an expression holds routes of
      one rule set only;
    - [add_ruleset]: clone, add every route of every rule in order, swap only if
      all [Add]s succeeded;
    - [find_rule]: the index lookup, then the default rule or "no rule".

    Definitions only. *)
From HV Require Import Base.Prelude Radix.Spec Radix.Machine Radix.Load Radix.Tree.

(** (rule id, rule-set id) *)
Definition rval : Type := (nat * nat)%type.

Definition same_src (olds : list rval) (v : rval) : bool :=
  match olds with
  | [] => true
  | o :: _ => Nat.eqb (snd o) (snd v)
  end.

(** a rule: id, backtracking flag, the path expressions of its routes *)
Record rule_def := { r_id : nat; r_bt : bool; r_routes : list str }.

Definition rule_adds (src : nat) (r : rule_def) : list (addop rval) :=
  map (fun e => {| ao_expr := e; ao_val := (r_id r, src); ao_bt := r_bt r |}) (r_routes r).

Definition ruleset_adds (src : nat) (rs : list rule_def) : list (addop rval) :=
  flat_map (rule_adds src) rs.

(** all [Add]s in order; [None] as soon as one fails *)
Fixpoint add_all (d : db rval) (l : list (addop rval)) : option (db rval) :=
  match l with
  | [] => Some d
  | a :: r =>
    match add_expr same_src d (ao_expr a) (ao_val a) (ao_bt a) with
    | AOk d' => add_all d' r
    | _ => None
    end
  end.

(** [AddRuleSet]: the new index and whether the rule set was accepted *)
Definition add_ruleset (d : db rval) (src : nat) (rs : list rule_def) : db rval * bool :=
  match add_all d (ruleset_adds src rs) with
  | Some d' => (d', true)
  | None => (d, false)
  end.

(** [FindRule] *)
Inductive outcome := ORule (id : nat) | ODefault | ONoRule.

Definition outcome_eqb (a b : outcome) : bool :=
  match a, b with
  | ORule x, ORule y => Nat.eqb x y
  | ODefault, ODefault | ONoRule, ONoRule => true
  | _, _ => false
  end.

Definition outcome_of (has_default : bool) (f : found rval) : outcome :=
  match f with
  | Found v _ _ => ORule (fst v)
  | NoMatch => if has_default then ODefault else ONoRule
  end.

(** [faithful = true]: the code as it is (C02-F1); [false]: repaired *)
Definition find_rule (faithful : bool) (d : db rval) (has_default : bool) (path : str) (m : matcher rval) : outcome :=
  outcome_of has_default (find_in faithful d path m).

(** what the property demands *)
Definition spec_find_rule (d : db rval) (has_default : bool) (path : str) (m : matcher rval) : outcome :=
  outcome_of has_default (spec_lookup d path m).

(** ** the same on the compressed tree (Radix/Tree.v), as repository_impl.go does it:
    [AddRuleSet] = Clone (the identity here), Add every route, swap only on success *)

Fixpoint tree_add_all (t : tree rval) (l : list (addop rval)) : option (tree rval) :=
  match l with
  | [] => Some t
  | a :: r =>
    match tree_add same_src t (ao_expr a) (ao_val a) (ao_bt a) with
    | TOk t' => tree_add_all t' r
    | _ => None
    end
  end.

Definition tree_add_ruleset (t : tree rval) (src : nat) (rs : list rule_def) : tree rval * bool :=
  match tree_add_all t (ruleset_adds src rs) with
  | Some t' => (t', true)
  | None => (t, false)
  end.

(** [FindRule] on the tree as it is now (all three findNode repairs in) *)
Definition tree_find_rule (t : tree rval) (has_default : bool) (path : str) (m : matcher rval) : outcome :=
  outcome_of has_default (tree_find true true true m t path).
