(** C02/Model.v — the rule repository seen by a lookup
    (internal/rules/repository_impl.go: newRepository, AddRuleSet/addRulesTo, FindRule)
    on top of the index of Radix/Machine.v.

    - a value of the index is a route of a rule: here the rule's id and the id of
      the rule set it comes from;
    - the constraint installed by [newRepository]: an expression holds routes of
      one rule set only;
    - [add_ruleset]: clone, add every route of every rule in order, swap only if
      all [Add]s succeeded;
    - [find_rule]: the index lookup, then the default rule or "no rule".

    Definitions only. *)
From HV Require Import Base.Prelude Radix.Spec Radix.Machine Radix.Load Radix.Tree.

(** (rule id, rule-set id) *)
Definition rval : Type := (nat * nat)%type.

Definition same_src (olds : list rval) (v : rval) : bool :=
  match olds with
  | [] => true
  | o :: _ => Nat.eqb (snd o) (snd v)
  end.

(** a rule: id, backtracking flag, the path expressions of its routes *)
Record rule_def := { r_id : nat; r_bt : bool; r_routes : list str }.

Definition rule_adds (src : nat) (r : rule_def) : list (addop rval) :=
  map (fun e => {| ao_expr := e; ao_val := (r_id r, src); ao_bt := r_bt r |}) (r_routes r).

Definition ruleset_adds (src : nat) (rs : list rule_def) : list (addop rval) :=
  flat_map (rule_adds src) rs.

(** all [Add]s in order; [None] as soon as one fails *)
Fixpoint add_all (d : db rval) (l : list (addop rval)) : option (db rval) :=
  match l with
  | [] => Some d
  | a :: r =>
    match add_expr same_src d (ao_expr a) (ao_val a) (ao_bt a) with
    | AOk d' => add_all d' r
    | _ => None
    end
  end.

(** [AddRuleSet]: the new index and whether the rule set was accepted *)
Definition add_ruleset (d : db rval) (src : nat) (rs : list rule_def) : db rval * bool :=
  match add_all d (ruleset_adds src rs) with
  | Some d' => (d', true)
  | None => (d, false)
  end.

(** [FindRule] *)
Inductive outcome := ORule (id : nat) | ODefault | ONoRule.

Definition outcome_eqb (a b : outcome) : bool :=
  match a, b with
  | ORule x, ORule y => Nat.eqb x y
  | ODefault, ODefault | ONoRule, ONoRule => true
  | _, _ => false
  end.

Definition outcome_of (has_default : bool) (f : found rval) : outcome :=
  match f with
  | Found v _ _ => ORule (fst v)
  | NoMatch => if has_default then ODefault else ONoRule
  end.

(** [faithful = true]: the pinned code before fix e897fef (C02-F1); [false]: the code as it is now *)
Definition find_rule (faithful : bool) (d : db rval) (has_default : bool) (path : str) (m : matcher rval) : outcome :=
  outcome_of has_default (find_in faithful d path m).

(** what the property demands *)
Definition spec_find_rule (d : db rval) (has_default : bool) (path : str) (m : matcher rval) : outcome :=
  outcome_of has_default (spec_lookup d path m).

(** ** the same on the compressed tree (Radix/Tree.v), as repository_impl.go does it:
    [AddRuleSet] = Clone (the identity here), Add every route, swap only on success *)

Fixpoint tree_add_all (t : tree rval) (l : list (addop rval)) : option (tree rval) :=
  match l with
  | [] => Some t
  | a :: r =>
    match tree_add same_src t (ao_expr a) (ao_val a) (ao_bt a) with
    | TOk t' => tree_add_all t' r
    | _ => None
    end
  end.

Definition tree_add_ruleset (t : tree rval) (src : nat) (rs : list rule_def) : tree rval * bool :=
  match tree_add_all t (ruleset_adds src rs) with
  | Some t' => (t', true)
  | None => (t, false)
  end.

(** [FindRule] on the tree as it is now (all three findNode repairs in) *)
Definition tree_find_rule (t : tree rval) (has_default : bool) (path : str) (m : matcher rval) : outcome :=
  outcome_of has_default (tree_find true true true m t path).

(** ** rule-set histories (AddRuleSet / UpdateRuleSet / DeleteRuleSet of repository_impl.go) at the
    level of the pattern-map machine, faithful to the code as it is: an update deletes the routes
    of the rules that are gone or changed and APPENDS the routes of the new or changed ones
    (open finding C06-F1 = C02-F3: rule order on a shared expression differs from a fresh load).
    Which operations are accepted is data (the implementation's answer); an accepted operation is
    applied forcibly.  [h_same] / [h_equal]: the repository's SameAs / EqualTo (id and rule-set id
    equal / definition hash equal), observed. *)

Record hrule := { h_rule : rule_def; h_same : bool; h_equal : bool }.

Inductive hop :=
| HCreate (src : nat) (rs : list rule_def) (accepted : bool)
| HUpdate (src : nat) (rs : list hrule) (accepted : bool)
| HDelete (src : nat) (accepted : bool).

(** forced Add: the value goes to the end of its expression's list *)
Fixpoint upsert (d : db rval) (p : pat) (ks : list str) (v : rval) (bt : bool) : db rval :=
  match d with
  | [] => [(p, {| vals := [v]; flag := bt; keys := ks |})]
  | (q, n) :: r =>
    if pat_eqb p q then (q, {| vals := vals n ++ [v]; flag := bt; keys := ks |}) :: r
    else (q, n) :: upsert r p ks v bt
  end.

Definition upsert_op (d : db rval) (a : addop rval) : db rval :=
  match parse_expr (ao_expr a) with
  | Some (p, ks) => upsert d p ks (ao_val a) (ao_bt a)
  | None => d
  end.

Definition rval_eqb (a b : rval) : bool := Nat.eqb (fst a) (fst b) && Nat.eqb (snd a) (snd b).

Fixpoint remove_one (v : rval) (l : list rval) : list rval :=
  match l with
  | [] => []
  | x :: r => if rval_eqb v x then r else x :: remove_one v r
  end.

(** Delete(path, "the very route"): one occurrence of the value leaves the expression's list;
    an expression without values leaves the index *)
Fixpoint delete_one (d : db rval) (p : pat) (v : rval) : db rval :=
  match d with
  | [] => []
  | (q, n) :: r =>
    if pat_eqb p q then
      match remove_one v (vals n) with
      | [] => r
      | vs => (q, {| vals := vs; flag := flag n; keys := keys n |}) :: r
      end
    else (q, n) :: delete_one r p v
  end.

Definition delete_op (d : db rval) (a : addop rval) : db rval :=
  match parse_expr (ao_expr a) with
  | Some (p, _) => delete_one d p (ao_val a)
  | None => d
  end.

Definition known := list (nat * rule_def).       (* repository.knownRules: (rule-set id, rule) *)

Definition has_id (id : nat) (rs : list hrule) : option hrule :=
  find (fun hr => Nat.eqb (r_id (h_rule hr)) id) rs.

Definition hstep (st : db rval * known) (o : hop) : db rval * known :=
  let (d, kn) := st in
  match o with
  | HCreate src rs true =>
    (fold_left upsert_op (ruleset_adds src rs) d, kn ++ map (fun r => (src, r)) rs)
  | HUpdate src rs true =>
    let applicable := filter (fun x => Nat.eqb (fst x) src) kn in
    let to_add := map h_rule (filter (fun hr => negb (h_same hr) || negb (h_equal hr)) rs) in
    let doomed (x : nat * rule_def) :=
      Nat.eqb (fst x) src &&
      match has_id (r_id (snd x)) rs with
      | None => true                      (* gone *)
      | Some hr => negb (h_equal hr)      (* changed *)
      end in
    let to_del := map snd (filter doomed applicable) in
    let d1 := fold_left delete_op (ruleset_adds src to_del) d in
    let d2 := fold_left upsert_op (ruleset_adds src to_add) d1 in
    (d2, filter (fun x => negb (doomed x)) kn ++ map (fun r => (src, r)) to_add)
  | HDelete src true =>
    let applicable := map snd (filter (fun x => Nat.eqb (fst x) src) kn) in
    (fold_left delete_op (ruleset_adds src applicable) d, filter (fun x => negb (Nat.eqb (fst x) src)) kn)
  | _ => st
  end.

Definition hist_db (ops : list hop) : db rval := fst (fold_left hstep ops ([], [])).

(** the rule sets in force after the history, as their authors wrote them *)
Fixpoint set_assoc (src : nat) (rs : list rule_def) (l : list (nat * list rule_def)) : list (nat * list rule_def) :=
  match l with
  | [] => [(src, rs)]
  | (s, x) :: r => if Nat.eqb s src then (s, rs) :: r else (s, x) :: set_assoc src rs r
  end.

Definition final_step (l : list (nat * list rule_def)) (o : hop) : list (nat * list rule_def) :=
  match o with
  | HCreate src rs true => set_assoc src rs l
  | HUpdate src rs true => set_assoc src (map h_rule rs) l
  | HDelete src true => filter (fun x => negb (Nat.eqb (fst x) src)) l
  | _ => l
  end.

Definition final_sets (ops : list hop) : list (nat * list rule_def) := fold_left final_step ops [].

(** a fresh load of those rule sets *)
Definition fresh_db (ops : list hop) : db rval :=
  fold_left upsert_op (flat_map (fun x => ruleset_adds (fst x) (snd x)) (final_sets ops)) [].

(** finding C02-F3 (= C06-F1 seen from C02) can show only if some expression matching the path
    holds its rules in another order than a fresh load of the rule sets in force.  The guard is an
    over-approximation: it fires on ANY difference between the routes the history left on a
    matching expression and those of the fresh load (other order, other content, or the
    expression missing from the fresh load); it lives in the evaluator and in [C02_F3_refuted]
    only, no positive theorem of C02 is stated under it (C06 owns that statement) *)
Definition guard_F3 (hd fd : db rval) (path : str) : bool :=
  existsb (fun e => matchesb (fst e) path &&
                    match assoc (fst e) fd with
                    | Some n => negb (list_eqb rval_eqb (vals (snd e)) (vals n))
                    | None => true
                    end) hd.
