(** C02/Proofs.v — the property-level statements of C02, assembled from
    Radix/SpecProofs.v, Radix/MachineProofs.v and Radix/LoadProofs.v.

    Part 1 reads the specification [spec_lookup] back as the sentences of the
    property (most specific match wins, first acceptable value in insertion
    order, backtracking only if the failed expression allows it, wildcards are
    non-empty, escapes are literals).  Part 2 ties the search of the index
    ([find_in]) to the specification.  Part 3 is the repository level. *)
From HV Require Import Base.Prelude Radix.Spec Radix.SpecProofs Radix.Machine Radix.MachineProofs
  Radix.Load Radix.LoadProofs Radix.Tree Radix.TreeProofs Radix.TreeAddProofs C02.Model.
From Coq Require Import Permutation Sorted.

(** * Part 1 — what [spec_lookup] says *)

Section SpecReading.
Variable V : Type.
Notation node := (node V).
Notation db := (db V).
Notation matcher := (matcher V).
Variable m : matcher.

(** the entries of [d] other than expression [p] *)
Definition without (p : pat) (d : db) : db := filter (fun e => negb (pat_eqb (fst e) p)) d.

Lemma filter_all {A} (f : A -> bool) l : (forall x, In x l -> f x = true) -> filter f l = l.
Proof.
  induction l as [|x r IH]; intro H; [reflexivity|]. simpl. rewrite (H x (or_introl eq_refl)).
  f_equal. apply IH. intros y Hy. apply H. right. assumption.
Qed.

Lemma find_split {A} (f : A -> bool) l v : find f l = Some v ->
  exists l1 l2, l = l1 ++ v :: l2 /\ f v = true /\ forall x, In x l1 -> f x = false.
Proof.
  induction l as [|x r IH]; simpl; [discriminate|]. destruct (f x) eqn:E.
  - intro H. inversion H; subst. exists [], r. repeat split; [assumption | intros y []].
  - intro H. destruct (IH H) as (l1 & l2 & -> & Hv & Hl). exists (x :: l1), l2. repeat split; [assumption|].
    intros y [<-|Hy]; auto.
Qed.

Lemma scan_sound path (l : list (pat * node)) v ks caps :
  scan m path l = Found v ks caps ->
  exists p n, In (p, n) l /\ ks = keys n /\
    caps = match match_pat p path with Some cs => cs | None => [] end /\
    find (fun x => m x (keys n) caps) (vals n) = Some v.
Proof.
  induction l as [|[p n] r IH]; simpl; [discriminate|].
  destruct (vals n) eqn:Ev.
  - intro H. destruct (IH H) as (p' & n' & Hin & Hr). exists p', n'. split; [right; assumption | exact Hr].
  - rewrite <- Ev. destruct (find _ (vals n)) eqn:Ef.
    + intro H. inversion H; subst. exists p, n. split; [left; reflexivity|]. repeat split. exact Ef.
    + destruct (flag n); [|discriminate]. intro H. destruct (IH H) as (p' & n' & Hin & Hr).
      exists p', n'. split; [right; assumption | exact Hr].
Qed.

(** the answer of a lookup is a value of a loaded expression that matches the
    path, whose conditions hold on the key names and captures of that
    expression, and no value before it in that expression's list is acceptable *)
Theorem spec_lookup_sound (d : db) path v ks caps :
  Forall (fun q => wf_pat q = true) (map fst d) ->
  spec_lookup d path m = Found v ks caps ->
  exists p n, In (p, n) d /\ matches p path caps /\ ks = keys n /\
    exists before after, vals n = before ++ v :: after /\ m v ks caps = true /\
      forall x, In x before -> m x ks caps = false.
Proof.
  intros Hwf H. unfold spec_lookup in H. apply scan_sound in H as (p & n & Hin & -> & Hc & Hf).
  eapply Permutation_in in Hin; [|apply sort_e_perm]. apply filter_In in Hin as [Hin Hm].
  cbn [fst] in Hm. unfold matchesb in Hm. destruct (match_pat p path) as [cs|] eqn:Em; [|discriminate].
  subst caps. exists p, n. split; [assumption|]. split; [apply match_pat_sound; assumption|]. split; [reflexivity|].
  apply find_split in Hf as (l1 & l2 & Hv & Hok & Hl). exists l1, l2. auto.
Qed.

(** ** the most specific matching expression decides *)

Lemma without_perm (d : db) p n : NoDup (map fst d) -> In (p, n) d -> Permutation d ((p, n) :: without p d).
Proof.
  induction d as [|[q a] d IH]; intros Hnd Hin; [destruct Hin|].
  cbn [map fst] in Hnd. inversion Hnd; subst. unfold without. cbn [filter fst]. destruct Hin as [Hin|Hin].
  - inversion Hin; subst. rewrite pat_eqb_refl. cbn [negb]. constructor.
    assert (E : filter (fun e : pat * node => negb (pat_eqb (fst e) p)) d = d).
    { apply filter_all. intros [q' a'] Hq. cbn [fst].
      destruct (pat_eqb q' p) eqn:E; [|reflexivity]. apply pat_eqb_eq in E. subst q'.
      exfalso. apply H1. change p with (fst (p, a')). apply in_map. assumption. }
    rewrite E. reflexivity.
  - destruct (pat_eqb q p) eqn:E.
    + apply pat_eqb_eq in E. subst q. exfalso. apply H1. change p with (fst (p, n)). apply in_map. assumption.
    + cbn [negb]. rewrite perm_swap. constructor. apply IH; assumption.
Qed.

Lemma without_filter (f : pat * node -> bool) p (d : db) : without p (filter f d) = filter f (without p d).
Proof.
  unfold without. induction d as [|x r IH]; [reflexivity|]. cbn [filter].
  destruct (f x) eqn:Ef; cbn [filter]; destruct (negb (pat_eqb (fst x) p)); cbn [filter]; rewrite ?Ef, IH; reflexivity.
Qed.

Lemma without_in (d : db) p e : In e (without p d) -> In e d /\ fst e <> p.
Proof.
  unfold without. intro H. apply filter_In in H as [H1 H2]. split; [assumption|].
  intro E. subst p. rewrite pat_eqb_refl in H2. discriminate.
Qed.

Lemma NoDup_without (d : db) p : NoDup (map fst d) -> NoDup (map fst (without p d)).
Proof. apply NoDup_filter_fst. Qed.

(** [p] is the most specific expression of [d] matching [path] *)
Definition most_specific_match (d : db) (path : str) (p : pat) : Prop :=
  matchesb p path = true /\
  forall q n, In (q, n) d -> matchesb q path = true -> q <> p -> more_specific p q = true.

Lemma sorted_matching_head (d : db) path p n :
  NoDup (map fst d) -> In (p, n) d -> most_specific_match d path p ->
  sort_e (filter (fun e => matchesb (fst e) path) d)
  = (p, n) :: sort_e (filter (fun e => matchesb (fst e) path) (without p d)).
Proof.
  intros Hnd Hin [Hm Hmin]. set (f := fun e : pat * node => matchesb (fst e) path).
  assert (HinF : In (p, n) (filter f d)) by (apply filter_In; split; assumption).
  assert (HndF : NoDup (map fst (filter f d))) by (apply NoDup_filter_fst; assumption).
  apply sort_e_unique; [assumption| |].
  - constructor.
    + apply sort_e_sorted. apply NoDup_filter_fst. apply NoDup_without. assumption.
    + apply Forall_forall. intros [q a] Hq. eapply Permutation_in in Hq; [|apply sort_e_perm].
      apply filter_In in Hq as [Hq Hmq]. apply without_in in Hq as [Hq Hne].
      unfold lt_e. cbn [fst] in *. specialize (Hmin q a Hq Hmq Hne). unfold more_specific in Hmin.
      destruct (pat_cmp p q); try discriminate. reflexivity.
  - rewrite <- without_filter. constructor 2 with (l' := filter f d) || idtac.
    apply Permutation_sym. etransitivity; [apply (without_perm (filter f d) p n HndF HinF)|].
    constructor. apply Permutation_sym. apply sort_e_perm.
Qed.

(** literal beats single wildcard beats free wildcard, position by position:
    the value comes from the most specific matching expression if one of its
    values is acceptable (the first such value, in insertion order) ... *)
Theorem most_specific_wins (d : db) path p n caps v :
  NoDup (map fst d) -> In (p, n) d -> most_specific_match d path p ->
  match_pat p path = Some caps ->
  find (fun x => m x (keys n) caps) (vals n) = Some v ->
  spec_lookup d path m = Found v (keys n) caps.
Proof.
  intros Hnd Hin Hms Hc Hf. unfold spec_lookup. rewrite (sorted_matching_head d path p n Hnd Hin Hms).
  cbn [scan]. rewrite Hc. destruct (vals n) eqn:Ev; [discriminate|]. rewrite Hf. reflexivity.
Qed.

(** ... if none is acceptable and the expression does not allow backtracking,
    there is no rule (whatever less specific expressions would offer) ... *)
Theorem no_backtracking_stops (d : db) path p n caps :
  NoDup (map fst d) -> In (p, n) d -> most_specific_match d path p ->
  match_pat p path = Some caps -> vals n <> [] ->
  find (fun x => m x (keys n) caps) (vals n) = None -> flag n = false ->
  spec_lookup d path m = NoMatch.
Proof.
  intros Hnd Hin Hms Hc Hne Hf Hfl. unfold spec_lookup. rewrite (sorted_matching_head d path p n Hnd Hin Hms).
  cbn [scan]. rewrite Hc. destruct (vals n) eqn:Ev; [congruence|]. rewrite Hf, Hfl. reflexivity.
Qed.

(** ... and if it does, the lookup goes on as if the expression were not loaded *)
Theorem backtracking_continues (d : db) path p n caps :
  NoDup (map fst d) -> In (p, n) d -> most_specific_match d path p ->
  match_pat p path = Some caps ->
  find (fun x => m x (keys n) caps) (vals n) = None -> flag n = true ->
  spec_lookup d path m = spec_lookup (without p d) path m.
Proof.
  intros Hnd Hin Hms Hc Hf Hfl. unfold spec_lookup. rewrite (sorted_matching_head d path p n Hnd Hin Hms).
  cbn [scan]. rewrite Hc. destruct (vals n) eqn:Ev; [reflexivity|]. rewrite Hf, Hfl. reflexivity.
Qed.

(** nothing matches: no rule *)
Theorem nothing_matches (d : db) path :
  (forall p n, In (p, n) d -> matchesb p path = false) -> spec_lookup d path m = NoMatch.
Proof.
  intro H. unfold spec_lookup.
  assert (E : filter (fun e : pat * node => matchesb (fst e) path) d = []).
  { induction d as [|[p n] r IH]; [reflexivity|]. cbn [filter fst]. rewrite (H p n (or_introl eq_refl)).
    apply IH. intros q a Hq. apply (H q a). right. assumption. }
  rewrite E. reflexivity.
Qed.

End SpecReading.

(** ** wildcards are never empty, the free wildcard takes the non-empty rest *)

Theorem wildcard_takes_segment p s caps :
  matches (W :: p) s caps <->
  exists seg rest caps', s = seg ++ rest /\ caps = seg :: caps' /\ seg <> [] /\ has_slash seg = false /\ matches p rest caps'.
Proof.
  split.
  - intro H. inversion H as [| | p0 seg s0 caps0 H1 H2 H3 |]. exists seg, s0, caps0. auto.
  - intros (seg & rest & caps' & -> & -> & H1 & H2 & H3). constructor; assumption.
Qed.

Theorem wildcard_not_empty_segment p s caps :
  ~ matches (W :: p) [] caps /\ ~ matches (W :: p) (ch_slash :: s) caps.
Proof.
  split; intro H; apply wildcard_takes_segment in H as (seg & rest & caps' & Hs & _ & Hne & Hsl & _).
  - destruct seg; [congruence | discriminate].
  - destruct seg as [|x seg]; [congruence|]. simpl in Hs. inversion Hs; subst x.
    simpl in Hsl. try rewrite Ascii.eqb_refl in Hsl. discriminate.
Qed.

Theorem free_wildcard_takes_rest s caps : matches [C] s caps <-> s <> [] /\ caps = [s].
Proof.
  split.
  - intro H. inversion H; subst. auto.
  - intros [H ->]. constructor. assumption.
Qed.

Theorem free_wildcard_not_empty caps : ~ matches [C] [] caps.
Proof. intro H. apply free_wildcard_takes_rest in H as [H _]. congruence. Qed.

Theorem captures_nonempty_and_fill_the_path p s caps :
  matches p s caps -> Forall (fun c => c <> []) caps /\ s = instantiate p caps.
Proof. intro H. split; [eapply matches_caps_nonempty; eassumption | apply matches_instantiate; assumption]. Qed.

(** ** backslash-escaped ':' , '*' and backslash at the start of a segment are literals *)

Lemma parse_go_inseg seg : has_slash seg = false ->
  parse_go InSeg seg = Some (lits seg, [], []).
Proof.
  induction seg as [|c r IH]; [reflexivity|]. simpl. intro H. apply orb_false_iff in H as [Hc Hr].
  rewrite Hc. rewrite (IH Hr). reflexivity.
Qed.

Lemma parse_go_inseg_then seg rest p cur ks : has_slash seg = false ->
  parse_go SegStart rest = Some (p, cur, ks) ->
  parse_go InSeg (seg ++ ch_slash :: rest) = Some (lits seg ++ L ch_slash :: p, [], ks).
Proof.
  intros Hs Hr. induction seg as [|c r IH]; simpl.
  - rewrite Hr. reflexivity.
  - simpl in Hs. apply orb_false_iff in Hs as [Hc Hs]. rewrite Hc. rewrite (IH Hs). reflexivity.
Qed.

Lemma parse_go_slash md r :
  parse_go md (ch_slash :: r)
  = match parse_go SegStart r with Some (p, _, ks) => Some (L ch_slash :: p, [], ks) | None => None end.
Proof. reflexivity. Qed.

(** an escaped segment, alone or followed by more of the expression *)
Theorem escaped_segment_is_literal c seg :
  is_special c = true -> has_slash seg = false ->
  parse_go SegStart (ch_bslash :: c :: seg) = Some (lits (c :: seg), [], []) /\
  forall rest p cur ks, parse_go SegStart rest = Some (p, cur, ks) ->
    parse_go SegStart (ch_bslash :: c :: seg ++ ch_slash :: rest)
    = Some (lits (c :: seg) ++ L ch_slash :: p, [], ks).
Proof.
  intros Hc Hs. split.
  - cbn [parse_go]. change (Ascii.eqb ch_bslash ch_slash) with false. cbv iota.
    change (Ascii.eqb ch_bslash ch_star) with false. change (Ascii.eqb ch_bslash ch_colon) with false.
    rewrite Ascii.eqb_refl. rewrite Hc. rewrite (parse_go_inseg seg Hs). reflexivity.
  - intros rest p cur ks Hr. cbn [parse_go]. change (Ascii.eqb ch_bslash ch_slash) with false. cbv iota.
    change (Ascii.eqb ch_bslash ch_star) with false. change (Ascii.eqb ch_bslash ch_colon) with false.
    rewrite Ascii.eqb_refl. rewrite Hc. rewrite (parse_go_inseg_then seg rest p cur ks Hs Hr). reflexivity.
Qed.

(** the expression  /\:name  (or  /\*name ,  /\\name ) matches exactly the path  /:name *)
Theorem escaped_expression_matches_literally c seg :
  is_special c = true -> has_slash seg = false ->
  parse_expr (ch_slash :: ch_bslash :: c :: seg) = Some (lits (ch_slash :: c :: seg), []) /\
  forall path caps, matches (lits (ch_slash :: c :: seg)) path caps <-> path = ch_slash :: c :: seg /\ caps = [].
Proof.
  intros Hc Hs. split; [|intros; apply matches_lits].
  unfold parse_expr. rewrite parse_go_slash.
  rewrite (proj1 (escaped_segment_is_literal c seg Hc Hs)). reflexivity.
Qed.

(** ':' and '*' that do not start a segment are literals as well *)
Theorem special_inside_segment_is_literal c seg :
  Ascii.eqb c ch_slash = false -> is_special c = false -> has_slash seg = false ->
  parse_go SegStart (c :: seg) = Some (lits (c :: seg), [], []).
Proof.
  intros Hsl Hc Hs. unfold is_special in Hc. apply orb_false_iff in Hc as [Hc Hb]. apply orb_false_iff in Hc as [Hco Hst].
  cbn [parse_go]. rewrite Hsl, Hst, Hco, Hb. rewrite (parse_go_inseg seg Hs). reflexivity.
Qed.

(** * Part 2 — the search of the index finds what the specification says

    (the lemma names [repaired_...] date from before fix e897fef was applied: they are about
    [find_in false] / [tree_find true true true], which is the code as it is NOW; the lemmas
    about [find_in true] / [tree_find false false false] are about the pinned code) *)

Section Search.
Variable V : Type.
Variable can_add : list V -> V -> bool.
Notation db := (db V).
Notation matcher := (matcher V).

(** the search as it is now (since fix e897fef), any index state, any matcher *)
Theorem repaired_find_is_spec (d : db) path (m : matcher) :
  wf_db V d -> find_in false d path m = spec_lookup d path m.
Proof. intros (H1 & H2 & _). apply find_is_spec; assumption. Qed.

(** the pinned code (before fix e897fef), outside finding C02-F1 *)
Theorem find_is_spec_guarded (d : db) path (m : matcher) :
  wf_db V d -> cond_only m -> guard_F1 d path m = false ->
  find_in true d path m = spec_lookup d path m.
Proof.
  intros Hwf Hm Hg. rewrite (find_faithful_eq V m Hm d path Hg). apply repaired_find_is_spec. assumption.
Qed.

Theorem loaded_find_is_spec (l : list (addop V)) path (m : matcher) :
  cond_only m -> guard_F1 (load can_add l) path m = false ->
  find_in true (load can_add l) path m = spec_lookup (load can_add l) path m.
Proof. intros. apply find_is_spec_guarded; [apply load_wf | assumption | assumption]. Qed.

Theorem loaded_repaired_find_is_spec (l : list (addop V)) path (m : matcher) :
  find_in false (load can_add l) path m = spec_lookup (load can_add l) path m.
Proof. apply repaired_find_is_spec. apply load_wf. Qed.

End Search.

(** * Part 2b — stage 2: the compressed tree of tree.go (Radix/Tree.v) *)

Section TreeSearch.
Variable V : Type.
Notation matcher := (matcher V).

(** findNode as it is now (since e897fef / 88da16a / 16cf34b) on any well-formed tree: the
    specification on the tree's content *)
Theorem tree_repaired_find_is_spec (m : matcher) (t : tree V) path :
  wfb t = true -> tree_find true true true m t path = spec_lookup (abs t) path m.
Proof.
  intro H. rewrite (tree_find_refines V m true t path H). cbn [negb].
  apply find_is_spec; [apply abs_NoDup; assumption | apply abs_nonempty].
Qed.

(** the pinned findNode (before e897fef / 88da16a / 16cf34b), capture-independent conditions,
    outside C02-F1: the value (and key names) the specification gives *)
Theorem tree_find_is_spec_guarded (m : matcher) (t : tree V) path :
  cond_only m -> wfb t = true -> guard_F1 (abs t) path m = false ->
  found_strip V (tree_find false false false m t path) = found_strip V (spec_lookup (abs t) path m).
Proof.
  intros Hm H Hg. rewrite (tree_as_is_refines V m Hm false t path H). cbn [negb].
  rewrite (find_faithful_eq V m Hm (abs t) path Hg).
  rewrite find_is_spec; [reflexivity | apply abs_NoDup; assumption | apply abs_nonempty].
Qed.

(** the tree built by ANY sequence of Adds (addNode / splitCommonPrefix / Add of tree.go,
    transcribed), searched by findNode as it is: the specification on the machine's index *)
Theorem tree_loaded_find_is_spec (can_add : list V -> V -> bool) (m : matcher) (l : list (addop V)) path :
  tree_find true true true m (tree_load V can_add l) path = spec_lookup (load can_add l) path m.
Proof.
  rewrite (tree_load_find V can_add m true l path). cbn [negb]. apply repaired_find_is_spec. apply load_wf.
Qed.

End TreeSearch.

(** * Part 3 — the repository *)

(** [AddRuleSet]s applied to the empty repository: accepted sets add their routes
    in order, a set one of whose [Add]s fails leaves the index as it was *)
Fixpoint load_rulesets (d : db rval) (l : list (nat * list rule_def)) : db rval :=
  match l with
  | [] => d
  | (src, rs) :: r => load_rulesets (fst (add_ruleset d src rs)) r
  end.

Lemma add_all_wf l : forall d d', wf_db rval d -> add_all d l = Some d' -> wf_db rval d'.
Proof.
  induction l as [|a r IH]; intros d d' Hwf; cbn [add_all].
  - intro H. inversion H; subst. assumption.
  - pose proof (step_wf rval same_src d a Hwf) as Hs. unfold step in Hs.
    destruct (add_expr same_src d (ao_expr a) (ao_val a) (ao_bt a)) as [d1| |]; try discriminate.
    apply IH. exact Hs.
Qed.

Lemma add_ruleset_wf d src rs : wf_db rval d -> wf_db rval (fst (add_ruleset d src rs)).
Proof.
  intro Hwf. unfold add_ruleset. destruct (add_all d (ruleset_adds src rs)) as [d'|] eqn:E; cbn [fst]; [|assumption].
  eapply add_all_wf; eassumption.
Qed.

Theorem load_rulesets_wf l : forall d, wf_db rval d -> wf_db rval (load_rulesets d l).
Proof.
  induction l as [|[src rs] r IH]; intros d Hwf; [assumption|]. cbn [load_rulesets]. apply IH. apply add_ruleset_wf. assumption.
Qed.

(** the rule returned by the repository: the specification's answer, else the
    default rule, else "no rule" — for every sequence of rule sets *)
Theorem find_rule_is_spec (sets : list (nat * list rule_def)) dflt path (m : matcher rval) :
  cond_only m -> guard_F1 (load_rulesets [] sets) path m = false ->
  find_rule true (load_rulesets [] sets) dflt path m = spec_find_rule (load_rulesets [] sets) dflt path m.
Proof.
  intros Hm Hg. unfold find_rule, spec_find_rule. f_equal.
  apply find_is_spec_guarded; [apply load_rulesets_wf; apply wf_db_nil | assumption | assumption].
Qed.

Theorem repaired_find_rule_is_spec (sets : list (nat * list rule_def)) dflt path (m : matcher rval) :
  find_rule false (load_rulesets [] sets) dflt path m = spec_find_rule (load_rulesets [] sets) dflt path m.
Proof.
  unfold find_rule, spec_find_rule. f_equal. apply repaired_find_is_spec. apply load_rulesets_wf. apply wf_db_nil.
Qed.

Theorem default_or_norule (d : db rval) dflt path (m : matcher rval) :
  match spec_lookup d path m with
  | Found v _ _ => spec_find_rule d dflt path m = ORule (fst v)
  | NoMatch => spec_find_rule d dflt path m = if dflt then ODefault else ONoRule
  end.
Proof. unfold spec_find_rule. destruct (spec_lookup d path m); reflexivity. Qed.

(** ** the repository on the compressed tree *)

Fixpoint tree_load_rulesets (t : tree rval) (l : list (nat * list rule_def)) : tree rval :=
  match l with
  | [] => t
  | (src, rs) :: r => tree_load_rulesets (fst (tree_add_ruleset t src rs)) r
  end.

Lemma tree_add_all_refines l : forall (t : tree rval) (d : db rval),
  wfb t = true -> same_entries rval (abs t) d ->
  match tree_add_all t l, add_all d l with
  | Some t', Some d' => wfb t' = true /\ same_entries rval (abs t') d'
  | None, None => True
  | _, _ => False
  end.
Proof.
  induction l as [|a r IH]; intros t d Hwf Hs; cbn [tree_add_all add_all]; [split; assumption|].
  destruct (tree_add_refines rval same_src t (ao_expr a) (ao_val a) (ao_bt a) Hwf) as [Hk Hok].
  unfold add_expr in *. destruct (parse_expr (ao_expr a)) as [[p ks]|].
  - destruct (add_same_entries rval same_src (abs t) d p ks (ao_val a) (ao_bt a) Hs) as [Hk2 Hs2].
    destruct (tree_add same_src t (ao_expr a) (ao_val a) (ao_bt a)) as [t'| | |] eqn:Et; cbn [tkind] in Hk.
    + destruct (Hok t' eq_refl) as (Hw & d' & Hd' & Hse). rewrite Hd' in Hk2. cbn [akind] in Hk2.
      destruct (add same_src d p ks (ao_val a) (ao_bt a)) as [d2'| |] eqn:Ed; try discriminate.
      apply IH; [exact Hw|]. intro q. rewrite (Hse q). apply (Hs2 d' d2' Hd' eq_refl).
    + inversion Hk as [Hk']. rewrite <- Hk' in Hk2. destruct (add same_src d p ks (ao_val a) (ao_bt a)); try discriminate. exact I.
    + inversion Hk as [Hk']. rewrite <- Hk' in Hk2. destruct (add same_src d p ks (ao_val a) (ao_bt a)); try discriminate. exact I.
    + discriminate.
  - destruct (tree_add same_src t (ao_expr a) (ao_val a) (ao_bt a)); cbn [tkind akind] in Hk; try discriminate; exact I.
Qed.

Lemma tree_load_rulesets_refines l : forall (t : tree rval) (d : db rval),
  wfb t = true -> same_entries rval (abs t) d ->
  wfb (tree_load_rulesets t l) = true /\ same_entries rval (abs (tree_load_rulesets t l)) (load_rulesets d l).
Proof.
  induction l as [|[src rs] r IH]; intros t d Hwf Hs; [split; assumption|].
  cbn [tree_load_rulesets load_rulesets]. unfold tree_add_ruleset, add_ruleset.
  pose proof (tree_add_all_refines (ruleset_adds src rs) t d Hwf Hs) as H.
  destruct (tree_add_all t (ruleset_adds src rs)) as [t'|]; destruct (add_all d (ruleset_adds src rs)) as [d'|];
    cbn [fst]; try contradiction.
  - destruct H as [Hw Hs']. apply IH; assumption.
  - apply IH; assumption.
Qed.

(** after any sequence of rule sets, [FindRule] on the compressed tree returns the rule
    the specification selects on what was loaded, else the default rule, else "no rule" *)
Theorem tree_find_rule_is_spec (sets : list (nat * list rule_def)) dflt path (m : matcher rval) :
  tree_find_rule (tree_load_rulesets empty_tree sets) dflt path m
  = spec_find_rule (load_rulesets [] sets) dflt path m.
Proof.
  destruct (tree_load_rulesets_refines sets empty_tree [] eq_refl ltac:(intro r; reflexivity)) as [Hw Hs].
  unfold tree_find_rule, spec_find_rule. f_equal.
  rewrite (tree_find_refines rval m true _ path Hw). cbn [negb].
  pose proof (load_rulesets_wf sets [] (wf_db_nil rval)) as (Hnd & Hne & _).
  rewrite (find_in_perm rval m false _ (load_rulesets [] sets) path).
  - apply find_is_spec; assumption.
  - apply same_assoc_perm; [apply abs_NoDup; exact Hw | exact Hnd | exact Hs].
  - apply abs_NoDup. exact Hw.
Qed.

(** * Finding C02-F1: witness, and non-vacuity of the guarded theorem *)

Definition ex_str (s : string) : str := list_ascii_of_string s.
Definition ex_add (e : string) (id : nat) (bt : bool) : addop nat :=
  {| ao_expr := ex_str e; ao_val := id; ao_bt := bt |}.
Definition ex_any (_ : list nat) (_ : nat) : bool := true.
Definition ex_only (ok : list nat) : matcher nat := fun v _ _ => existsb (Nat.eqb v) ok.

Lemma ex_only_cond ok : cond_only (ex_only ok).
Proof. intros v ks cs ks' cs'. reflexivity. Qed.

(**  /foo/**  does not allow backtracking, its only rule is not acceptable, yet
    the lookup falls back to  /**  *)
Definition F1_adds : list (addop nat) :=
  [ex_add "/foo/**" 1 false; ex_add "/**" 2 false; ex_add "/foo/:x" 3 true].

Theorem F1_refuted :
  exists (l : list (addop nat)) path (m : matcher nat),
    cond_only m /\ guard_F1 (load ex_any l) path m = true /\
    find_in true (load ex_any l) path m <> spec_lookup (load ex_any l) path m.
Proof.
  exists F1_adds, (ex_str "/foo/bar/baz"), (ex_only [2]).
  split; [apply ex_only_cond|]. split; [vm_compute; reflexivity|]. vm_compute. discriminate.
Qed.

(** after fix e897fef ([find_in false]) the same lookup answers "no rule" *)
Example F1_fixed_example :
  find_in false (load ex_any F1_adds) (ex_str "/foo/bar/baz") (ex_only [2]) = NoMatch /\
  spec_lookup (load ex_any F1_adds) (ex_str "/foo/bar/baz") (ex_only [2]) = NoMatch.
Proof. vm_compute. split; reflexivity. Qed.

(** the theorems are not vacuous: on this index the first lookup tries three
    candidates and stops at  /foo/:x  (no backtracking), the second falls from
    /foo/**  (backtracking allowed) to  /**  — pinned and current code alike (the C02-F1 guard is off) *)
Definition NV_adds : list (addop nat) :=
  [ex_add "/foo/**" 1 true; ex_add "/**" 2 true; ex_add "/foo/:x" 3 false; ex_add "/foo/bar" 4 true].

Example nonvacuous :
  guard_F1 (load ex_any NV_adds) (ex_str "/foo/bar") (ex_only [2]) = false /\
  find_in true (load ex_any NV_adds) (ex_str "/foo/bar") (ex_only [2]) = NoMatch /\
  guard_F1 (load ex_any NV_adds) (ex_str "/foo/bar/baz") (ex_only [2]) = false /\
  find_in true (load ex_any NV_adds) (ex_str "/foo/bar/baz") (ex_only [2])
  = Found 2 [ex_str "*"] [ex_str "foo/bar/baz"].
Proof. vm_compute. repeat split. Qed.

Example nonvacuous_current :
  find_in false (load ex_any NV_adds) (ex_str "/foo/bar") (ex_only [2]) = NoMatch /\
  find_in false (load ex_any NV_adds) (ex_str "/foo/bar/baz") (ex_only [2])
  = Found 2 [ex_str "*"] [ex_str "foo/bar/baz"] /\
  find_in false (load ex_any NV_adds) (ex_str "/foo/bar") (ex_only [1; 2; 3; 4]) = Found 4 [] [].
Proof. vm_compute. repeat split. Qed.

(** * The backtracking flag as the property states it (finding C02-F2) *)

Section FlagTheorems.
Variable V : Type.
Variable vflag : V -> bool.
Variable can_add : list V -> V -> bool.
Notation matcher := (matcher V).

(** outside C02-F2 the compressed tree returns what the specification says on the loaded
    content with every expression's flag = conjunction of its rules' flags *)
Theorem tree_find_is_spec_F2 (m : matcher) (l : list (addop V)) path :
  guard_F2 vflag (load can_add l) path m = false ->
  tree_find true true true m (tree_load V can_add l) path = spec_lookup (respec vflag (load can_add l)) path m.
Proof.
  intro Hg. rewrite (tree_loaded_find_is_spec V can_add m l path). apply spec_lookup_respec. exact Hg.
Qed.

Theorem find_is_spec_F2 (m : matcher) (l : list (addop V)) path :
  guard_F2 vflag (load can_add l) path m = false ->
  find_in false (load can_add l) path m = spec_lookup (respec vflag (load can_add l)) path m.
Proof.
  intro Hg. rewrite (loaded_repaired_find_is_spec V can_add l path m). apply spec_lookup_respec. exact Hg.
Qed.

End FlagTheorems.

(** repository level, against [spec_lookup] directly *)
Theorem tree_find_rule_is_spec_F2 (vflag : rval -> bool) (sets : list (nat * list rule_def)) dflt path (m : matcher rval) :
  guard_F2 vflag (load_rulesets [] sets) path m = false ->
  match spec_lookup (respec vflag (load_rulesets [] sets)) path m with
  | Found v _ _ => tree_find_rule (tree_load_rulesets empty_tree sets) dflt path m = ORule (fst v)
  | NoMatch => tree_find_rule (tree_load_rulesets empty_tree sets) dflt path m = if dflt then ODefault else ONoRule
  end.
Proof.
  intro Hg. rewrite (tree_find_rule_is_spec sets dflt path m). unfold spec_find_rule.
  rewrite (spec_lookup_respec rval vflag m _ path Hg).
  destruct (spec_lookup (respec vflag (load_rulesets [] sets)) path m); reflexivity.
Qed.

(** the witness of C02-F2: rule 1 forbids backtracking, rule 2 (added last, same expression)
    allows it, both fail: the lookup falls back to  /:y/:z  *)
Definition F2_vflag (v : nat) : bool := negb (Nat.eqb v 1).
Definition F2_adds : list (addop nat) :=
  [ex_add "/a/:x" 1 false; ex_add "/a/:x" 2 true; ex_add "/:y/:z" 3 true].

Lemma F2_adds_flags : flags_from_values F2_vflag F2_adds.
Proof. intros a [<-|[<-|[<-|[]]]]; reflexivity. Qed.

Theorem F2_refuted :
  exists (l : list (addop nat)) path (m : matcher nat),
    flags_from_values F2_vflag l /\ guard_F2 F2_vflag (load ex_any l) path m = true /\
    tree_find true true true m (tree_load nat ex_any l) path <> spec_lookup (respec F2_vflag (load ex_any l)) path m.
Proof.
  exists F2_adds, (ex_str "/a/b"), (ex_only [3]). split; [exact F2_adds_flags|].
  split; [vm_compute; reflexivity | vm_compute; discriminate].
Qed.

(** * the tie-breaks of the specificity order never decide *)

(** the order without its tie-breaks: [None] where it would have to compare two different
    literal bytes or a pattern with a proper extension of it *)
Fixpoint kind_cmp (p q : pat) : option comparison :=
  match p, q with
  | [], [] => Some Eq
  | [], _ :: _ | _ :: _, [] => None
  | a :: p', b :: q' =>
    match a, b with
    | L x, L y => if Ascii.eqb x y then kind_cmp p' q' else None
    | L _, _ => Some Lt
    | W, L _ => Some Gt
    | W, W => kind_cmp p' q'
    | W, C => Some Lt
    | C, C => kind_cmp p' q'
    | C, _ => Some Gt
    end
  end.

Lemma matchesb_cons_nil t p : matchesb (t :: p) [] = false.
Proof. destruct t as [c| |]; [reflexivity | reflexivity | destruct p; reflexivity]. Qed.

(** two expressions matching one path are ordered by "literal < single wildcard < free
    wildcard" at the first position where they differ — never by byte order or length *)
Theorem ties_never_decide p : forall q s,
  matchesb p s = true -> matchesb q s = true -> kind_cmp p q = Some (pat_cmp p q).
Proof.
  induction p as [|a p IH]; intros q s Hp Hq.
  - destruct q as [|b q]; [reflexivity|]. destruct s as [|c s]; [rewrite matchesb_cons_nil in Hq|]; discriminate.
  - destruct q as [|b q].
    { destruct s as [|c s]; [rewrite matchesb_cons_nil in Hp|]; discriminate. }
    destruct s as [|c s]; [rewrite matchesb_cons_nil in Hp; discriminate|].
    destruct a as [x| |], b as [y| |]; cbn [kind_cmp pat_cmp tok_cmp]; try reflexivity.
    + rewrite matchesb_L in Hp, Hq.
      destruct (Ascii.eqb x c) eqn:Ex; [|discriminate]. destruct (Ascii.eqb y c) eqn:Ey; [|discriminate].
      apply Ascii.eqb_eq in Ex. apply Ascii.eqb_eq in Ey. subst x y. rewrite Ascii.eqb_refl, N.compare_refl.
      apply (IH q s Hp Hq).
    + destruct (take_seg (c :: s)) as [seg rest] eqn:Hts.
      rewrite (matchesb_W p _ _ _ Hts) in Hp. rewrite (matchesb_W q _ _ _ Hts) in Hq.
      destruct seg; [discriminate|]. apply (IH q rest Hp Hq).
    + rewrite matchesb_C in Hp, Hq. destruct p; [|discriminate]. destruct q; [|discriminate]. reflexivity.
Qed.


(** the hypotheses of the main theorem are satisfiable on a non-trivial input: three / two
    candidates, with and without backtracking, guard off *)
Definition NV_vflag (v : nat) : bool := negb (Nat.eqb v 3).

Example nonvacuous_tree :
  flags_from_values NV_vflag NV_adds /\
  guard_F2 NV_vflag (load ex_any NV_adds) (ex_str "/foo/bar") (ex_only [2]) = false /\
  tree_find true true true (ex_only [2]) (tree_load nat ex_any NV_adds) (ex_str "/foo/bar") = NoMatch /\
  guard_F2 NV_vflag (load ex_any NV_adds) (ex_str "/foo/bar/baz") (ex_only [2]) = false /\
  tree_find true true true (ex_only [2]) (tree_load nat ex_any NV_adds) (ex_str "/foo/bar/baz")
  = Found 2 [ex_str "*"] [ex_str "foo/bar/baz"].
Proof.
  split; [intros a [<-|[<-|[<-|[<-|[]]]]]; reflexivity|]. vm_compute. repeat split.
Qed.

(** * finding C02-F3 (= C06-F1 seen from C02): after an update the rules of one expression are
    no longer tried in rule-set order.  Rule set 1 = [A; B], both on  /x ; an update changes only
    A's definition: A is deleted and re-appended behind B *)
Definition F3_rule (id : nat) : rule_def := {| r_id := id; r_bt := true; r_routes := [ex_str "/x"] |}.
Definition F3_ops : list hop :=
  [HCreate 1 [F3_rule 1; F3_rule 2] true;
   HUpdate 1 [{| h_rule := F3_rule 1; h_same := true; h_equal := false |};
              {| h_rule := F3_rule 2; h_same := true; h_equal := true |}] true].
Definition F3_any : matcher rval := fun _ _ _ => true.

Theorem F3_refuted :
  exists (ops : list hop) path (m : matcher rval),
    guard_F3 (hist_db ops) (fresh_db ops) path = true /\
    find_rule false (hist_db ops) false path m <> spec_find_rule (fresh_db ops) false path m.
Proof. exists F3_ops, (ex_str "/x"), F3_any. split; [vm_compute; reflexivity | vm_compute; discriminate]. Qed.

(** without any update the history model is the plain load: create-only histories are covered by
    the theorems above *)
Example F3_guard_off_without_update :
  guard_F3 (hist_db [HCreate 1 [F3_rule 1; F3_rule 2] true]) (fresh_db [HCreate 1 [F3_rule 1; F3_rule 2] true]) (ex_str "/x") = false.
Proof. vm_compute. reflexivity. Qed.

(** * independent of the order in which RULE SETS were loaded *)

Definition flat_sets (sets : list (nat * list rule_def)) : list (addop rval) :=
  flat_map (fun x => ruleset_adds (fst x) (snd x)) sets.

(** every rule set of the sequence is accepted *)
Fixpoint all_accepted (d : db rval) (sets : list (nat * list rule_def)) : bool :=
  match sets with
  | [] => true
  | (src, rs) :: r => snd (add_ruleset d src rs) && all_accepted (fst (add_ruleset d src rs)) r
  end.

Lemma add_all_app l1 : forall d l2,
  add_all d (l1 ++ l2) = match add_all d l1 with Some d1 => add_all d1 l2 | None => None end.
Proof.
  induction l1 as [|a r IH]; intros d l2; [reflexivity|]. cbn [app add_all].
  destruct (add_expr same_src d (ao_expr a) (ao_val a) (ao_bt a)); [apply IH | reflexivity | reflexivity].
Qed.

Lemma add_all_load l : forall d d', add_all d l = Some d' -> load_from same_src d l = d'.
Proof.
  induction l as [|a r IH]; intros d d'; cbn [add_all load_from fold_left]; [intro H; inversion H; reflexivity|].
  unfold step at 2. destruct (add_expr same_src d (ao_expr a) (ao_val a) (ao_bt a)) as [d1| |]; try discriminate. apply IH.
Qed.

Lemma all_accepted_add_all sets : forall d,
  all_accepted d sets = true -> add_all d (flat_sets sets) = Some (load_rulesets d sets).
Proof.
  induction sets as [|[src rs] r IH]; intros d H; [reflexivity|].
  cbn [all_accepted flat_sets flat_map fst snd load_rulesets] in *. apply andb_true_iff in H as [H1 H2].
  rewrite add_all_app. unfold add_ruleset in *. destruct (add_all d (ruleset_adds src rs)) as [d1|]; cbn [fst snd] in *; [|discriminate].
  apply IH. exact H2.
Qed.

(** one Add, seen from its own expression and from the others *)
Lemma add_ok_assoc (d d' : db rval) p ks v bt : add same_src d p ks v bt = AOk d' ->
  (exists n', assoc p d' = Some n' /\
      match assoc p d with
      | Some n => vals n' = vals n ++ [v] /\ same_src (vals n) v = true
      | None => vals n' = [v]
      end) /\
  (forall q, pat_eqb q p = false -> assoc q d' = assoc q d).
Proof.
  revert d'. induction d as [|[q0 n] r IH]; intros d'; cbn [add assoc].
  - destruct (same_src [] v); [|discriminate]. intro H. inversion H. split.
    + eexists. cbn [assoc]. rewrite pat_eqb_refl. split; reflexivity.
    + intros q Hq. cbn [assoc]. rewrite Hq. reflexivity.
  - destruct (pat_eqb p q0) eqn:E.
    + apply pat_eqb_eq in E. subst q0. destruct (merge_keys p n ks); [|discriminate].
      destruct (same_src (vals n) v) eqn:Ec; [|discriminate]. intro H. inversion H. split.
      * eexists. cbn [assoc]. rewrite pat_eqb_refl. split; [reflexivity|]. split; reflexivity.
      * intros q Hq. cbn [assoc]. rewrite Hq. reflexivity.
    + destruct (add same_src r p ks v bt) as [r'| |] eqn:Er; try discriminate.
      intro H. inversion H; subst d'. destruct (IH r' eq_refl) as [H1 H2]. split.
      * cbn [assoc]. rewrite E. exact H1.
      * intros q Hq. cbn [assoc]. destruct (pat_eqb q q0); [reflexivity | apply H2; exact Hq].
Qed.

Definition hd_src (n : node rval) : option nat := match vals n with v :: _ => Some (snd v) | [] => None end.

(** every value of an expression comes from the rule set of its first value *)
Definition srcs_ok (d : db rval) : Prop :=
  forall p n, assoc p d = Some n -> vals n <> [] /\ forall v, In v (vals n) -> hd_src n = Some (snd v).

Lemma add_srcs_ok (d d' : db rval) p ks v bt :
  srcs_ok d -> add same_src d p ks v bt = AOk d' ->
  srcs_ok d' /\
  (exists n', assoc p d' = Some n' /\ hd_src n' = Some (snd v)) /\
  (forall q n, assoc q d = Some n -> exists n', assoc q d' = Some n' /\ hd_src n' = hd_src n).
Proof.
  intros Hok Ha. destruct (add_ok_assoc d d' p ks v bt Ha) as [(n' & Hn' & Hv) Hother].
  assert (Hp : vals n' <> [] /\ (forall x, In x (vals n') -> hd_src n' = Some (snd x)) /\ hd_src n' = Some (snd v)
               /\ (forall n, assoc p d = Some n -> hd_src n' = hd_src n)).
  { destruct (assoc p d) as [n|] eqn:Ep.
    - destruct Hv as [Hv Hc]. destruct (Hok p n Ep) as [Hne Hall]. unfold hd_src in *. rewrite Hv.
      destruct (vals n) as [|v0 vs] eqn:Evn; [congruence|]. cbn [app]. cbn [same_src] in Hc. apply Nat.eqb_eq in Hc.
      split; [discriminate|]. split; [|split; [congruence | intros n0 H0; inversion H0; subst n0; rewrite Evn; reflexivity]].
      intros x Hx. cbn [In] in Hx. destruct Hx as [<-|Hx]; [reflexivity|]. apply in_app_or in Hx as [Hx|[<-|[]]].
      + apply (Hall x). right. exact Hx.
      + congruence.
    - unfold hd_src. rewrite Hv. split; [discriminate|]. split; [intros x [<-|[]]; reflexivity|]. split; [reflexivity | discriminate]. }
  destruct Hp as (Hne & Hall & Hhd & Hpres). split; [|split].
  - intros q n Hq. destruct (pat_eqb q p) eqn:E.
    + apply pat_eqb_eq in E. subst q. rewrite Hn' in Hq. inversion Hq; subst n. split; assumption.
    + rewrite (Hother q E) in Hq. apply (Hok q n Hq).
  - exists n'. split; assumption.
  - intros q n Hq. destruct (pat_eqb q p) eqn:E.
    + apply pat_eqb_eq in E. subst q. exists n'. split; [exact Hn' | apply Hpres; exact Hq].
    + exists n. split; [rewrite (Hother q E); exact Hq | reflexivity].
Qed.

(** in a sequence of Adds that all succeed, two Adds on one expression come from one rule set *)
Lemma add_all_one_src l : forall d d',
  srcs_ok d -> add_all d l = Some d' ->
  srcs_ok d' /\
  (forall q n, assoc q d = Some n -> exists n', assoc q d' = Some n' /\ hd_src n' = hd_src n) /\
  (forall a p ks, In a l -> parse_expr (ao_expr a) = Some (p, ks) ->
     exists n', assoc p d' = Some n' /\ hd_src n' = Some (snd (ao_val a))).
Proof.
  induction l as [|a r IH]; intros d d' Hok H; cbn [add_all] in H.
  - inversion H; subst d'. split; [exact Hok|]. split; [intros q n Hq; exists n; auto | intros a p ks []].
  - unfold add_expr in H. destruct (parse_expr (ao_expr a)) as [[p ks]|] eqn:Ep; [|discriminate].
    destruct (add same_src d p ks (ao_val a) (ao_bt a)) as [d1| |] eqn:Ea; try discriminate.
    destruct (add_srcs_ok d d1 p ks _ _ Hok Ea) as (Hok1 & (n1 & Hn1 & Hh1) & Hpres1).
    destruct (IH d1 d' Hok1 H) as (Hok' & Hpres' & Hall'). split; [exact Hok'|]. split.
    + intros q n Hq. destruct (Hpres1 q n Hq) as (n2 & Hq2 & Hh2). destruct (Hpres' q n2 Hq2) as (n3 & Hq3 & Hh3).
      exists n3. split; [exact Hq3 | congruence].
    + intros b q ks' [<-|Hb] Hpb.
      * rewrite Ep in Hpb. inversion Hpb; subst q ks'. destruct (Hpres' p n1 Hn1) as (n3 & Hq3 & Hh3).
        exists n3. split; [exact Hq3 | congruence].
      * apply (Hall' b q ks' Hb Hpb).
Qed.

Lemma srcs_ok_nil : srcs_ok [].
Proof. intros p n H. discriminate. Qed.

Lemma targets_parse (a : addop rval) p : targets p a = true -> exists ks, parse_expr (ao_expr a) = Some (p, ks).
Proof.
  unfold targets. destruct (parse_expr (ao_expr a)) as [[q ks]|]; [|discriminate]. intro H.
  apply pat_eqb_eq in H. subst q. eauto.
Qed.

Lemma ruleset_adds_src src rs a : In a (ruleset_adds src rs) -> snd (ao_val a) = src.
Proof.
  unfold ruleset_adds, rule_adds. intro H. apply in_flat_map in H as (r & _ & H). apply in_map_iff in H as (e & <- & _). reflexivity.
Qed.

Lemma filter_flat_map {A B} (f : B -> bool) (g : A -> list B) l :
  filter f (flat_map g l) = flat_map (fun x => filter f (g x)) l.
Proof. induction l as [|x r IH]; [reflexivity|]. cbn [flat_map]. rewrite filter_app, IH. reflexivity. Qed.

Lemma flat_map_all_nil {A B} (h : A -> list B) l : (forall y, In y l -> h y = []) -> flat_map h l = [].
Proof.
  induction l as [|y r IH]; intro H; [reflexivity|]. cbn [flat_map]. rewrite (H y (or_introl eq_refl)).
  apply IH. intros z Hz. apply H. right. exact Hz.
Qed.

Lemma flat_map_single {A B} (h : A -> list B) (x : A) l :
  NoDup l -> In x l -> (forall y, In y l -> y <> x -> h y = []) -> flat_map h l = h x.
Proof.
  induction l as [|y r IH]; intros Hnd Hin Hoth; [destruct Hin|]. inversion Hnd as [|y' r' Hy Hr]; subst. cbn [flat_map].
  destruct Hin as [->|Hin].
  - rewrite (flat_map_all_nil h r); [apply app_nil_r|].
    intros z Hz. apply Hoth; [right; exact Hz | intro E; subst z; contradiction].
  - rewrite (Hoth y (or_introl eq_refl)); [|intro E; subst y; contradiction]. cbn [app].
    apply IH; [assumption | assumption | intros z Hz; apply Hoth; right; exact Hz].
Qed.

Lemma NoDup_fst_inj {A B} (l : list (A * B)) x y :
  NoDup (map fst l) -> In x l -> In y l -> fst x = fst y -> x = y.
Proof.
  induction l as [|z r IH]; intros Hnd Hx Hy E; [destruct Hx|]. cbn [map] in Hnd. inversion Hnd; subst.
  destruct Hx as [->|Hx], Hy as [->|Hy]; [reflexivity | | | apply IH; assumption].
  - exfalso. apply H1. rewrite E. apply in_map. exact Hy.
  - exfalso. apply H1. rewrite <- E. apply in_map. exact Hx.
Qed.

Lemma filter_none {A} (f : A -> bool) l : (forall x, In x l -> f x = false) -> filter f l = [].
Proof.
  induction l as [|x r IH]; intro H; [reflexivity|]. cbn [filter]. rewrite (H x (or_introl eq_refl)).
  apply IH. intros y Hy. apply H. right. exact Hy.
Qed.

Definition set_adds (x : nat * list rule_def) : list (addop rval) := ruleset_adds (fst x) (snd x).

(** when all Adds succeed, the Adds on one expression are those of ONE rule set *)
Lemma flat_group (sets : list (nat * list rule_def)) d' p x a :
  NoDup (map fst sets) -> add_all [] (flat_sets sets) = Some d' ->
  In x sets -> In a (set_adds x) -> targets p a = true ->
  filter (targets p) (flat_sets sets) = filter (targets p) (set_adds x).
Proof.
  intros Hnd Hall Hx Ha Hta. unfold flat_sets. fold set_adds.
  change (flat_map (fun x0 => ruleset_adds (fst x0) (snd x0)) sets) with (flat_map set_adds sets).
  rewrite filter_flat_map.
  destruct (add_all_one_src (flat_sets sets) [] d' srcs_ok_nil Hall) as (_ & _ & Hsrc).
  apply (flat_map_single (fun y => filter (targets p) (set_adds y)) x sets).
  - eapply NoDup_map_inv. exact Hnd.
  - exact Hx.
  - intros y Hy Hne. apply filter_none. intros b Hb. destruct (targets p b) eqn:Etb; [|reflexivity]. exfalso. apply Hne.
    apply (NoDup_fst_inj sets y x Hnd Hy Hx).
    destruct (targets_parse a p Hta) as [ksa Hpa]. destruct (targets_parse b p Etb) as [ksb Hpb].
    assert (Hina : In a (flat_sets sets)) by (apply in_flat_map; exists x; split; assumption).
    assert (Hinb : In b (flat_sets sets)) by (apply in_flat_map; exists y; split; assumption).
    destruct (Hsrc a p ksa Hina Hpa) as (n1 & Hn1 & Hh1). destruct (Hsrc b p ksb Hinb Hpb) as (n2 & Hn2 & Hh2).
    rewrite Hn1 in Hn2. inversion Hn2; subst n2. rewrite Hh1 in Hh2. inversion Hh2 as [E].
    rewrite (ruleset_adds_src (fst x) (snd x) a Ha) in E. rewrite (ruleset_adds_src (fst y) (snd y) b Hb) in E. congruence.
Qed.

Theorem rulesets_order_independent fa (sets sets' : list (nat * list rule_def)) path (m : matcher rval) :
  Permutation sets sets' -> NoDup (map fst sets) ->
  all_accepted [] sets = true -> all_accepted [] sets' = true ->
  find_in fa (load_rulesets [] sets) path m = find_in fa (load_rulesets [] sets') path m.
Proof.
  intros HP Hnd Ha Ha'.
  pose proof (all_accepted_add_all sets [] Ha) as Hall. pose proof (all_accepted_add_all sets' [] Ha') as Hall'.
  rewrite <- (add_all_load _ _ _ Hall), <- (add_all_load _ _ _ Hall').
  apply (load_order_independent rval same_src fa (flat_sets sets) (flat_sets sets') m path).
  assert (Hnd' : NoDup (map fst sets')) by (eapply Permutation_NoDup; [apply Permutation_map; exact HP | exact Hnd]).
  intro p.
  destruct (find (fun x => existsb (targets p) (set_adds x)) sets) as [x|] eqn:Ef.
  - apply find_some in Ef as [Hx Ht]. apply existsb_exists in Ht as (a & Ha1 & Ha2).
    rewrite (flat_group sets _ p x a Hnd Hall Hx Ha1 Ha2).
    rewrite (flat_group sets' _ p x a Hnd' Hall' (Permutation_in _ HP Hx) Ha1 Ha2). reflexivity.
  - assert (Hnone : forall y, In y sets -> forall b, In b (set_adds y) -> targets p b = false).
    { intros y Hy b Hb. pose proof (find_none _ _ Ef y Hy) as Hn. cbn beta in Hn.
      destruct (targets p b) eqn:E; [|reflexivity]. assert (existsb (targets p) (set_adds y) = true) by (apply existsb_exists; eauto). congruence. }
    rewrite !filter_none; [reflexivity | |].
    + intros b Hb. apply in_flat_map in Hb as (y & Hy & Hb). apply (Hnone y (Permutation_in _ (Permutation_sym HP) Hy) b Hb).
    + intros b Hb. apply in_flat_map in Hb as (y & Hy & Hb). apply (Hnone y Hy b Hb).
Qed.

(** the same for the repository on the compressed tree *)
Theorem tree_rulesets_order_independent (sets sets' : list (nat * list rule_def)) dflt path (m : matcher rval) :
  Permutation sets sets' -> NoDup (map fst sets) ->
  all_accepted [] sets = true -> all_accepted [] sets' = true ->
  tree_find_rule (tree_load_rulesets empty_tree sets) dflt path m
  = tree_find_rule (tree_load_rulesets empty_tree sets') dflt path m.
Proof.
  intros HP Hnd Ha Ha'. rewrite !tree_find_rule_is_spec. unfold spec_find_rule. f_equal.
  rewrite <- !(repaired_find_is_spec rval _ path m) by (apply load_rulesets_wf; apply wf_db_nil).
  apply rulesets_order_independent; assumption.
Qed.

(** non-vacuity of [tree_rulesets_order_independent]: two rule sets (on disjoint expressions —
    by [all_accepted] and the values constraint two accepted sets never share an expression)
    accepted in both orders; the lookup goes through three expressions of both sets *)
Definition OI_sets : list (nat * list rule_def) :=
  [(1, [{| r_id := 1; r_bt := true; r_routes := [ex_str "/a/:x"] |}; {| r_id := 2; r_bt := true; r_routes := [ex_str "/a/b"] |}]);
   (2, [{| r_id := 3; r_bt := true; r_routes := [ex_str "/:y/b"] |}])].
Definition OI_only (ok : list nat) : matcher rval := fun v _ _ => existsb (Nat.eqb (fst v)) ok.

Example rulesets_order_nonvacuous :
  Permutation OI_sets (rev OI_sets) /\ NoDup (map fst OI_sets) /\
  all_accepted [] OI_sets = true /\ all_accepted [] (rev OI_sets) = true /\
  tree_find_rule (tree_load_rulesets empty_tree OI_sets) false (ex_str "/a/b") (OI_only [3]) = ORule 3 /\
  tree_find_rule (tree_load_rulesets empty_tree (rev OI_sets)) false (ex_str "/a/b") (OI_only [3]) = ORule 3 /\
  tree_find_rule (tree_load_rulesets empty_tree (rev OI_sets)) false (ex_str "/a/b") (OI_only [1; 3]) = ORule 1.
Proof.
  split; [apply Permutation_rev|]. split; [repeat constructor; cbn; intuition discriminate|].
  vm_compute. repeat split.
Qed.
