(** C02/Reach.v — the C02 statements in EVERY state the index can reach, not only after Adds.

    The repository changes its index by Add (AddRuleSet, UpdateRuleSet) and by Delete
    (UpdateRuleSet, DeleteRuleSet).  [Delete] / [delNode] / [deleteChild] of tree.go are
    transcribed over Radix/Tree.v in C06/TreeDel.v (owner: C06) and proved there to keep the
    invariant [wfd] (= Radix/Tree.v's [wfb] and the [shape] Delete needs) and to be the
    pattern-map machine's [delete] on the abstraction of the tree.  Here that is composed with
    C02's refinement of findNode, which needs nothing but [wfb]:

      [top]            one operation on the index: an Add (expression, value, flag) or a
                       Delete (expression, value matcher); a failed operation leaves the index
                       as it was
      [tree_run ops]   the compressed tree after the operations [ops] on the empty tree
      [mach_run ops]   the pattern-map machine's index after the same operations
      [valid_op]       the expression of a Delete is one ([parse_expr] accepts it; the
                       repository only deletes routes it has added)
      [run_refines]    after EVERY sequence of valid operations the tree satisfies [wfd] and
                       holds exactly the entries of the machine's index, which is a machine
                       state ([wf_db])
      [run_find_is_spec]   hence findNode on it returns what the specification says on that
                       content (most specific first, first acceptable value, backtracking only
                       if the failed expression's flag allows it)
      [run_assoc]      the entry of an expression is decided by the operations on THAT
                       expression alone, in their order ([run_order_independent])
      [reachable]      the same as an inductive closure (the form the repository level uses)

    No hypothesis beyond [valid_op]: any expressions, values, flags, constraint, matchers. *)
From HV Require Import Base.Prelude Radix.Spec Radix.SpecProofs Radix.Machine Radix.MachineProofs
  Radix.Load Radix.LoadProofs Radix.Tree Radix.TreeProofs Radix.TreeAddProofs
  C06.TreeDel C06.TreeDelFacts C06.TreeDelProofs C06.TreeAddShape.
From Coq Require Import Permutation.

Section Ops.
Variable V : Type.
Variable can_add : list V -> V -> bool.
Notation tree := (tree V).
Notation node := (node V).
Notation db := (db V).
Notation matcher := (matcher V).

(** ** operations *)

Inductive top :=
| OAdd (a : addop V)                      (* Tree.Add(expr, value, WithBacktracking(flag)) *)
| ODel (e : str) (f : V -> bool).         (* Tree.Delete(expr, matcher) *)

Definition tree_del (t : tree) (e : str) (f : V -> bool) : tree :=
  match tree_delete f t e with Some t' => t' | None => t end.

Definition tree_do (t : tree) (o : top) : tree :=
  match o with
  | OAdd a => tree_step V can_add t a
  | ODel e f => tree_del t e f
  end.

Definition mach_del (d : db) (e : str) (f : V -> bool) : db :=
  match parse_expr e with
  | Some (p, _) => match delete d p f with DOk d' => d' | DFailed => d end
  | None => d
  end.

Definition mach_do (d : db) (o : top) : db :=
  match o with
  | OAdd a => step can_add d a
  | ODel e f => mach_del d e f
  end.

Definition tree_run_from (t : tree) (ops : list top) : tree := fold_left tree_do ops t.
Definition mach_run_from (d : db) (ops : list top) : db := fold_left mach_do ops d.
Definition tree_run (ops : list top) : tree := tree_run_from empty_tree ops.
Definition mach_run (ops : list top) : db := mach_run_from [] ops.

Definition valid_op (o : top) : Prop :=
  match o with OAdd _ => True | ODel e _ => parse_expr e <> None end.

(** ** the machine's delete keeps the index a machine state *)

Lemma delete_nonempty (f : V -> bool) (d : db) p : forall d',
  delete d p f = DOk d' -> nonempty_db V d -> nonempty_db V d'.
Proof.
  induction d as [|[q n] r IH]; intros d'; cbn [delete]; [discriminate|].
  intros H Hne. inversion Hne as [|x l Hx Hl]; subst.
  destruct (pat_eqb p q).
  - destruct (Nat.eqb _ _); [discriminate|].
    destruct (filter (fun v => negb (f v)) (vals n)) as [|v0 vs] eqn:Ef; inversion H; subst; [exact Hl|].
    constructor; [cbn [snd vals]; discriminate | exact Hl].
  - destruct (delete r p f) as [r'|] eqn:Er; [|discriminate]. inversion H; subst.
    constructor; [exact Hx | apply IH; [reflexivity | exact Hl]].
Qed.

Lemma mach_del_wf (d : db) e f : wf_db V d -> wf_db V (mach_del d e f).
Proof.
  intros (H1 & H2 & H3). unfold mach_del.
  destruct (parse_expr e) as [[p ks]|]; [|repeat split; assumption].
  destruct (delete d p f) as [d'|] eqn:Ed; [|repeat split; assumption].
  repeat split.
  - eapply delete_NoDup; eassumption.
  - eapply delete_nonempty; eassumption.
  - rewrite Forall_forall in *. intros q Hq. apply H3. eapply delete_fst_incl; eassumption.
Qed.

Lemma mach_do_wf (d : db) o : wf_db V d -> wf_db V (mach_do d o).
Proof. destruct o as [a|e f]; cbn [mach_do]; [apply step_wf | apply mach_del_wf]. Qed.

(** ** one operation on the tree and on the machine *)

Lemma tree_step_wfd (t : tree) a : wfd t = true -> wfd (tree_step V can_add t a) = true.
Proof.
  intro Hwd. unfold tree_step.
  destruct (tree_add can_add t (ao_expr a) (ao_val a) (ao_bt a)) as [t'| | |] eqn:Et; try exact Hwd.
  eapply tree_add_wfd; eassumption.
Qed.

Lemma del_same_entries (t : tree) (d : db) e f :
  wfd t = true -> NoDup (map fst d) -> same_entries V (abs t) d -> parse_expr e <> None ->
  wfd (tree_del t e f) = true /\ same_entries V (abs (tree_del t e f)) (mach_del d e f).
Proof.
  intros Hwd Hnd Hs Hv. unfold tree_del, mach_del.
  destruct (parse_expr e) as [[p ks]|] eqn:Ep; [|congruence].
  pose proof (tree_delete_refines V f t e p ks Hwd Ep) as HT.
  pose proof (delete_same_entries V f (abs t) d p (abs_NoDup V t (wfd_leaf_or V t Hwd)) Hnd Hs) as HM.
  destruct (tree_delete f t e) as [t'|].
  - destruct HT as (Hwd' & d1 & Hd1 & Hse). rewrite Hd1 in HM.
    destruct (delete d p f) as [d2|]; [|contradiction].
    split; [exact Hwd'|]. intro r. rewrite (Hse r). apply HM.
  - rewrite HT in HM. destruct (delete d p f) as [d2|]; [contradiction|]. split; assumption.
Qed.

Lemma do_same_entries (t : tree) (d : db) o :
  wfd t = true -> wf_db V d -> same_entries V (abs t) d -> valid_op o ->
  wfd (tree_do t o) = true /\ same_entries V (abs (tree_do t o)) (mach_do d o).
Proof.
  intros Hwd Hwf Hs Hv. destruct o as [a|e f]; cbn [tree_do mach_do].
  - split; [apply tree_step_wfd; exact Hwd|].
    apply (step_same_entries V can_add t d a (wfd_leaf_or V t Hwd) Hs).
  - apply del_same_entries; try assumption. apply Hwf.
Qed.

(** ** every sequence of operations *)

Theorem run_from_refines ops : forall (t : tree) (d : db),
  wfd t = true -> wf_db V d -> same_entries V (abs t) d -> Forall valid_op ops ->
  wfd (tree_run_from t ops) = true /\ wf_db V (mach_run_from d ops) /\
  same_entries V (abs (tree_run_from t ops)) (mach_run_from d ops).
Proof.
  induction ops as [|o r IH]; intros t d Hwd Hwf Hs Hv; [split; [|split]; assumption|].
  inversion Hv as [|x l Ho Hr]; subst. cbn [tree_run_from mach_run_from fold_left].
  destruct (do_same_entries t d o Hwd Hwf Hs Ho) as [Hwd' Hs'].
  apply IH; [exact Hwd' | apply mach_do_wf; exact Hwf | exact Hs' | exact Hr].
Qed.

Theorem run_refines ops : Forall valid_op ops ->
  wfd (tree_run ops) = true /\ wf_db V (mach_run ops) /\ Permutation (abs (tree_run ops)) (mach_run ops).
Proof.
  intro Hv.
  destruct (run_from_refines ops empty_tree [] eq_refl (wf_db_nil V) ltac:(intro r; reflexivity) Hv) as (Hwd & Hwf & Hs).
  split; [exact Hwd|]. split; [exact Hwf|].
  apply same_assoc_perm; [apply abs_NoDup; apply wfd_leaf_or; exact Hwd | apply Hwf | exact Hs].
Qed.

(** findNode on the tree ([fx] = the C02-F1 / C03-F2 repair switch) is the machine's search
    on the machine's index *)
Theorem run_find_refines (m : matcher) fx ops path : Forall valid_op ops ->
  tree_find fx fx true m (tree_run ops) path = find_in (negb fx) (mach_run ops) path m.
Proof.
  intro Hv. destruct (run_refines ops Hv) as (Hwd & _ & HP). apply wfd_leaf_or in Hwd.
  rewrite (tree_find_refines V m fx _ path Hwd). apply find_in_perm; [exact HP | apply abs_NoDup; exact Hwd].
Qed.

(** findNode as it is now returns what the specification says on the content of the index *)
Theorem run_find_is_spec (m : matcher) ops path : Forall valid_op ops ->
  tree_find true true true m (tree_run ops) path = spec_lookup (mach_run ops) path m.
Proof.
  intro Hv. rewrite (run_find_refines m true ops path Hv). cbn [negb].
  destruct (run_refines ops Hv) as (_ & (H1 & H2 & _) & _). apply find_is_spec; assumption.
Qed.

(** ... and, outside finding C02-F2, what it says with the flag the property states: an
    expression allows backtracking iff all its rules do ([respec vflag]) *)
Theorem run_find_is_spec_F2 (vflag : V -> bool) (m : matcher) ops path : Forall valid_op ops ->
  guard_F2 vflag (mach_run ops) path m = false ->
  tree_find true true true m (tree_run ops) path = spec_lookup (respec vflag (mach_run ops)) path m.
Proof.
  intros Hv Hg. rewrite (run_find_is_spec m ops path Hv). apply spec_lookup_respec. exact Hg.
Qed.

(** ** the entry of an expression depends on the operations on that expression only *)

Definition op_targets (p : pat) (o : top) : bool :=
  match o with
  | OAdd a => targets p a
  | ODel e _ => match parse_expr e with Some (q, _) => pat_eqb p q | None => false end
  end.

(** what an operation on expression [p] does to the node of [p] ([None] = not in the index) *)
Definition op_upd (p : pat) (x : option node) (o : top) : option node :=
  match o with
  | OAdd a => upd_op can_add p x a
  | ODel _ f => match del_upd f x with Some y => y | None => x end
  end.

Definition op_node (p : pat) (ops : list top) : option node :=
  fold_left (op_upd p) (filter (op_targets p) ops) None.

Lemma mach_do_assoc (d : db) o p : NoDup (map fst d) ->
  assoc p (mach_do d o) = if op_targets p o then op_upd p (assoc p d) o else assoc p d.
Proof.
  intro Hnd. destruct o as [a|e f]; cbn [mach_do op_targets op_upd]; [apply step_assoc|].
  unfold mach_del. destruct (parse_expr e) as [[q ks]|]; [|reflexivity].
  pose proof (delete_assoc V f d q Hnd) as H.
  destruct (delete d q f) as [d'|].
  - destruct H as (y & Hy & Hu). rewrite (Hu p). destruct (pat_eqb p q) eqn:E; [|reflexivity].
    apply pat_eqb_eq in E. subst q. rewrite Hy. reflexivity.
  - destruct (pat_eqb p q) eqn:E; [|reflexivity]. apply pat_eqb_eq in E. subst q. rewrite H. reflexivity.
Qed.

Lemma mach_run_from_assoc ops p : forall d : db, wf_db V d ->
  assoc p (mach_run_from d ops) = fold_left (op_upd p) (filter (op_targets p) ops) (assoc p d).
Proof.
  induction ops as [|o r IH]; intros d Hwf; [reflexivity|].
  cbn [mach_run_from fold_left filter]. fold (mach_run_from (mach_do d o) r).
  rewrite (IH _ (mach_do_wf d o Hwf)), (mach_do_assoc d o p (proj1 Hwf)).
  destruct (op_targets p o); reflexivity.
Qed.

Theorem run_assoc ops p : assoc p (mach_run ops) = op_node p ops.
Proof. apply mach_run_from_assoc. apply wf_db_nil. Qed.

(** two sequences of operations that differ only in how the operations on different
    expressions are interleaved *)
Definition same_op_groups (l l' : list top) : Prop :=
  forall p, filter (op_targets p) l = filter (op_targets p) l'.

Lemma mach_run_wf ops : wf_db V (mach_run ops).
Proof.
  unfold mach_run. generalize (wf_db_nil V). generalize (@nil (pat * node)).
  induction ops as [|o r IH]; intros d H; [exact H|]. apply IH. apply mach_do_wf. exact H.
Qed.

Theorem run_order_independent (m : matcher) l l' path :
  Forall valid_op l -> Forall valid_op l' -> same_op_groups l l' ->
  tree_find true true true m (tree_run l) path = tree_find true true true m (tree_run l') path.
Proof.
  intros Hv Hv' Hg. rewrite (run_find_refines m true l path Hv), (run_find_refines m true l' path Hv').
  apply find_in_perm; [|apply mach_run_wf].
  apply same_assoc_perm; [apply mach_run_wf | apply mach_run_wf |].
  intro p. rewrite !run_assoc. unfold op_node. rewrite (Hg p). reflexivity.
Qed.

(** ** the same as a closure: every tree the operations can produce *)

Inductive reachable : tree -> Prop :=
| reach_empty : reachable empty_tree
| reach_add t e v bt t' : reachable t -> tree_add can_add t e v bt = TOk t' -> reachable t'
| reach_del t e f t' : reachable t -> parse_expr e <> None -> tree_delete f t e = Some t' -> reachable t'.

Lemma tree_run_snoc ops o : tree_run (ops ++ [o]) = tree_do (tree_run ops) o.
Proof. unfold tree_run, tree_run_from. rewrite fold_left_app. reflexivity. Qed.

Theorem reachable_is_run t : reachable t -> exists ops, Forall valid_op ops /\ t = tree_run ops.
Proof.
  induction 1 as [|t e v bt t' _ (ops & Hv & Ht) Ha|t e f t' _ (ops & Hv & Ht) Hp Hd].
  - exists []. split; [constructor | reflexivity].
  - exists (ops ++ [OAdd {| ao_expr := e; ao_val := v; ao_bt := bt |}]). split.
    + apply Forall_app. split; [exact Hv | constructor; [exact I | constructor]].
    + rewrite tree_run_snoc, <- Ht. cbn [tree_do]. unfold tree_step. cbn [ao_expr ao_val ao_bt]. rewrite Ha. reflexivity.
  - exists (ops ++ [ODel e f]). split.
    + apply Forall_app. split; [exact Hv | constructor; [exact Hp | constructor]].
    + rewrite tree_run_snoc, <- Ht. cbn [tree_do]. unfold tree_del. rewrite Hd. reflexivity.
Qed.

Theorem run_reachable ops : Forall valid_op ops -> reachable (tree_run ops).
Proof.
  induction ops as [|o ops IH] using rev_ind; intro Hv; [constructor|].
  apply Forall_app in Hv as [Hv Ho]. inversion Ho as [|x l Hvo _]; subst.
  rewrite tree_run_snoc. specialize (IH Hv). destruct o as [a|e f]; cbn [tree_do].
  - unfold tree_step. destruct (tree_add can_add (tree_run ops) (ao_expr a) (ao_val a) (ao_bt a)) as [t'| | |] eqn:E; try exact IH.
    eapply reach_add; eassumption.
  - unfold tree_del. destruct (tree_delete f (tree_run ops) e) as [t'|] eqn:E; [|exact IH].
    eapply reach_del; eassumption.
Qed.

Theorem reachable_wfd t : reachable t -> wfd t = true.
Proof. intro H. destruct (reachable_is_run t H) as (ops & Hv & ->). apply run_refines. exact Hv. Qed.

(** in every reachable state findNode returns what the specification says on the content of the tree *)
Theorem reachable_find_is_spec (m : matcher) t path : reachable t ->
  tree_find true true true m t path = spec_lookup (abs t) path m.
Proof.
  intro H. apply reachable_wfd, wfd_leaf_or in H.
  rewrite (tree_find_refines V m true t path H). cbn [negb].
  apply find_is_spec; [apply abs_NoDup; exact H | apply abs_nonempty].
Qed.

End Ops.

Arguments OAdd {V}.
Arguments ODel {V}.
Arguments tree_del {V}.
Arguments tree_do {V}.
Arguments mach_del {V}.
Arguments mach_do {V}.
Arguments tree_run {V}.
Arguments mach_run {V}.
Arguments valid_op {V}.
Arguments op_targets {V}.
Arguments op_upd {V}.
Arguments op_node {V}.
Arguments same_op_groups {V}.
Arguments reachable {V}.
