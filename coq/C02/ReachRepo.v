(** C02/ReachRepo.v — the repository level of C02/Reach.v: after EVERY history of
    AddRuleSet / UpdateRuleSet / DeleteRuleSet (C02/HistTree.v: the operations on the
    compressed tree as repository_impl.go issues them) the index is a reachable tree, so it
    satisfies the invariant and FindRule returns the rule the specification selects on the
    routes stored, else the default rule, else "no rule".

    The only hypothesis of C02/Reach.v — a Delete names an expression — is discharged here:
    the repository deletes routes of rules it knows, and it knows a rule only after all its
    routes were added ([known_ok]).

    [hstep_plan] ties the bookkeeping [hplan] to the machine-level history model of
    C02/Model.v ([hstep], the one the implementation is compared with on every run). *)
From HV Require Import Base.Prelude Radix.Spec Radix.SpecProofs Radix.Machine Radix.MachineProofs
  Radix.Load Radix.LoadProofs Radix.Tree Radix.TreeProofs Radix.TreeAddProofs
  C06.TreeDel C06.TreeDelFacts C02.Model C02.Proofs C02.Reach C02.HistTree.

(** ** [hplan] is what [hstep] does *)
Lemma hstep_plan (d : db rval) (kn : known) o :
  hstep (d, kn) o =
  match hplan kn o with
  | Some (src, to_del, to_add, kn') =>
    (fold_left upsert_op (ruleset_adds src to_add) (fold_left delete_op (ruleset_adds src to_del) d), kn')
  | None => (d, kn)
  end.
Proof. destruct o as [src rs [|]|src rs [|]|src [|]]; reflexivity. Qed.

Lemma hplan_known (kn : known) o src to_del to_add kn' :
  hplan kn o = Some (src, to_del, to_add, kn') ->
  incl to_del (map snd kn) /\ forall x, In x kn' -> In x kn \/ In (snd x) to_add.
Proof.
  destruct o as [s rs [|]|s rs [|]|s [|]]; cbn [hplan]; intro H; inversion H; subst; clear H.
  - split; [intros x []|]. intros x Hx. apply in_app_or in Hx as [Hx|Hx]; [left; exact Hx|].
    right. apply in_map_iff in Hx as (r & <- & Hr). exact Hr.
  - split.
    + intros x Hx. apply in_map_iff in Hx as (y & <- & Hy). apply filter_In in Hy as [Hy _].
      apply filter_In in Hy as [Hy _]. apply in_map. exact Hy.
    + intros x Hx. apply in_app_or in Hx as [Hx|Hx]; [left; apply filter_In in Hx; tauto|].
      right. apply in_map_iff in Hx as (r & <- & Hr). exact Hr.
  - split.
    + intros x Hx. apply in_map_iff in Hx as (y & <- & Hy). apply filter_In in Hy as [Hy _]. apply in_map. exact Hy.
    + intros x Hx. left. apply filter_In in Hx. tauto.
Qed.

(** ** the expressions of the operations issued for a list of rules *)

Lemma map_snd_combine_seq {A} (l : list A) : forall s, map snd (combine (seq s (length l)) l) = l.
Proof. induction l as [|x l IH]; intro s; [reflexivity|]. cbn [length seq combine map snd]. rewrite IH. reflexivity. Qed.

Lemma rule_uadds_exprs src r : map ao_expr (rule_uadds src r) = r_routes r.
Proof. unfold rule_uadds. rewrite map_map. cbn [ao_expr]. apply map_snd_combine_seq. Qed.

Lemma ruleset_uadds_exprs src rs : map ao_expr (ruleset_uadds src rs) = flat_map r_routes rs.
Proof.
  unfold ruleset_uadds. induction rs as [|r rs IH]; [reflexivity|].
  cbn [flat_map]. rewrite map_app, rule_uadds_exprs, IH. reflexivity.
Qed.

Definition parses (e : str) : Prop := parse_expr e <> None.

Definition rules_ok (rs : list rule_def) : Prop := Forall (fun r => Forall parses (r_routes r)) rs.

Definition known_ok (kn : known) : Prop := rules_ok (map snd kn).

Lemma rules_ok_exprs src rs : rules_ok rs <-> Forall parses (map ao_expr (ruleset_uadds src rs)).
Proof.
  rewrite ruleset_uadds_exprs. unfold rules_ok. induction rs as [|r rs IH]; cbn [flat_map]; [split; constructor|].
  rewrite Forall_app. split.
  - intro H. inversion H; subst. split; [assumption | apply IH; assumption].
  - intros [H1 H2]. constructor; [assumption | apply IH; assumption].
Qed.

(** ** Adds and Deletes of a rule-set operation stay inside the reachable trees *)

Lemma add_ok_parses (t t' : tree uval) e v bt :
  wfb t = true -> tree_add usame_src t e v bt = TOk t' -> parses e.
Proof.
  intros Hw Ha. destruct (tree_add_refines uval usame_src t e v bt Hw) as [Hk _].
  rewrite Ha in Hk. cbn [tkind] in Hk. unfold add_expr in Hk. intro Hp. rewrite Hp in Hk. discriminate.
Qed.

Lemma utree_add_all_reach l : forall t t', reachable usame_src t -> utree_add_all t l = Some t' ->
  reachable usame_src t' /\ Forall parses (map ao_expr l).
Proof.
  induction l as [|a r IH]; intros t t' Hr; cbn [utree_add_all map].
  - intro H. inversion H; subst. split; [exact Hr | constructor].
  - destruct (tree_add usame_src t (ao_expr a) (ao_val a) (ao_bt a)) as [t1| | |] eqn:Ea; try discriminate.
    intro H. destruct (IH t1 t' (reach_add uval usame_src _ _ _ _ _ Hr Ea) H) as [Hr' Hp]. split; [exact Hr'|].
    constructor; [|exact Hp]. eapply add_ok_parses; [|exact Ea].
    apply wfd_leaf_or. apply (reachable_wfd uval usame_src). exact Hr.
Qed.

Lemma utree_del_all_reach l : forall t t', reachable usame_src t -> Forall parses (map ao_expr l) ->
  utree_del_all t l = Some t' -> reachable usame_src t'.
Proof.
  induction l as [|a r IH]; intros t t' Hr Hp; cbn [utree_del_all].
  - intro H. inversion H; subst. exact Hr.
  - cbn [map] in Hp. inversion Hp as [|x l Hpa Hpr]; subst.
    destruct (tree_delete (uval_eqb (ao_val a)) t (ao_expr a)) as [t1|] eqn:Ed; [|discriminate].
    apply IH; [|exact Hpr]. eapply reach_del; eassumption.
Qed.

(** ** every history *)

Definition ts_inv (st : tstate) : Prop := reachable usame_src (ts_tree st) /\ known_ok (ts_known st).

Lemma thstep_inv st o : ts_inv st -> ts_inv (thstep st o).
Proof.
  intros [Hr Hk]. unfold thstep. destruct (ts_ok st); [|split; assumption].
  destruct (hplan (ts_known st) o) as [[[[src to_del] to_add] kn']|] eqn:Ep; [|split; assumption].
  destruct (hplan_known _ _ _ _ _ _ Ep) as [Hdel Hkn].
  destruct (utree_del_all (ts_tree st) (ruleset_uadds src to_del)) as [t1|] eqn:Ed; [|split; assumption].
  assert (Hdok : rules_ok to_del).
  { unfold rules_ok, known_ok, rules_ok in *. rewrite Forall_forall in *. intros r Hin. apply Hk. apply Hdel. exact Hin. }
  pose proof (utree_del_all_reach _ _ _ Hr (proj1 (rules_ok_exprs src to_del) Hdok) Ed) as Hr1.
  destruct (utree_add_all t1 (ruleset_uadds src to_add)) as [t2|] eqn:Ea; [|split; assumption].
  destruct (utree_add_all_reach _ _ _ Hr1 Ea) as [Hr2 Hpa]. apply rules_ok_exprs in Hpa.
  split; [exact Hr2|]. cbn [ts_known]. unfold known_ok, rules_ok in *. rewrite Forall_forall in *.
  intros r Hin. apply in_map_iff in Hin as (x & <- & Hx). destruct (Hkn x Hx) as [H|H].
  - apply Hk. apply in_map. exact H.
  - apply Hpa. exact H.
Qed.

Theorem hist_tree_inv ops : ts_inv (hist_tree ops).
Proof.
  unfold hist_tree. assert (H0 : ts_inv ts_init) by (split; [constructor | constructor]).
  revert H0. generalize ts_init. induction ops as [|o r IH]; intros st H; [exact H|].
  cbn [fold_left]. apply IH. apply thstep_inv. exact H.
Qed.

(** after every history the index of the repository is a reachable tree ... *)
Theorem hist_tree_reachable ops : reachable usame_src (ts_tree (hist_tree ops)).
Proof. apply hist_tree_inv. Qed.

(** ... it satisfies the invariant of Find / Add / Delete ... *)
Theorem hist_tree_wfd ops : wfd (ts_tree (hist_tree ops)) = true.
Proof. apply (reachable_wfd uval usame_src). apply hist_tree_reachable. Qed.

(** ... and FindRule answers with the rule the specification selects on the routes stored
    (the flag of an expression being the one in force), else the default rule, else "no rule" *)
Theorem hist_find_rule_is_spec ops dflt path (m : matcher rval) :
  utree_find_rule (ts_tree (hist_tree ops)) dflt path m
  = outcome_of dflt (ufound (spec_lookup (abs (ts_tree (hist_tree ops))) path (m_u m))).
Proof.
  unfold utree_find_rule. rewrite (reachable_find_is_spec uval usame_src (m_u m) _ path (hist_tree_reachable ops)). reflexivity.
Qed.

(** the same with the flag the property states (all rules of the failed expression allow
    backtracking), outside finding C02-F2, against [spec_lookup] directly *)
Theorem hist_find_rule_is_spec_F2 (vflag : rval -> bool) ops dflt path (m : matcher rval) :
  let t := ts_tree (hist_tree ops) in
  let uflag := fun v : uval => vflag (fst v) in
  guard_F2 uflag (abs t) path (m_u m) = false ->
  match spec_lookup (respec uflag (abs t)) path (m_u m) with
  | Found v _ _ => utree_find_rule t dflt path m = ORule (fst (fst v))
  | NoMatch => utree_find_rule t dflt path m = if dflt then ODefault else ONoRule
  end.
Proof.
  cbv zeta. intro Hg. rewrite hist_find_rule_is_spec.
  rewrite (spec_lookup_respec uval (fun v : uval => vflag (fst v)) (m_u m) _ path Hg).
  destruct (spec_lookup _ path (m_u m)); reflexivity.
Qed.

(** ** the routes stored after a history, independently of the tree: when the model tree has
    followed the history ([ts_ok]), it is the tree after the flat list of the Deletes and Adds
    the accepted operations issue ([hist_ops]), so its content is the pattern-map machine's
    index after those operations ([mach_run]: per expression, Adds append a route and set the
    flag, Deletes remove the very route; C02/Reach.v [run_assoc]) *)

Definition del_op (a : addop uval) : top uval := ODel (ao_expr a) (uval_eqb (ao_val a)).

Definition step_ops (kn : known) (o : hop) : list (top uval) :=
  match hplan kn o with
  | Some (src, to_del, to_add, _) => map del_op (ruleset_uadds src to_del) ++ map OAdd (ruleset_uadds src to_add)
  | None => []
  end.

Definition known_step (kn : known) (o : hop) : known :=
  match hplan kn o with Some (_, _, _, kn') => kn' | None => kn end.

Fixpoint hist_ops_from (kn : known) (ops : list hop) : list (top uval) :=
  match ops with
  | [] => []
  | o :: r => step_ops kn o ++ hist_ops_from (known_step kn o) r
  end.

Definition hist_ops (ops : list hop) : list (top uval) := hist_ops_from [] ops.

Notation run_from := (tree_run_from uval usame_src).

Lemma run_from_app t l1 l2 : run_from t (l1 ++ l2) = run_from (run_from t l1) l2.
Proof. unfold tree_run_from. apply fold_left_app. Qed.

Lemma utree_del_all_run l : forall t t', utree_del_all t l = Some t' -> run_from t (map del_op l) = t'.
Proof.
  induction l as [|a r IH]; intros t t'; cbn [utree_del_all map]; [intro H; inversion H; reflexivity|].
  destruct (tree_delete (uval_eqb (ao_val a)) t (ao_expr a)) as [t1|] eqn:Ed; [|discriminate].
  intro H. unfold tree_run_from. cbn [fold_left del_op tree_do]. unfold tree_del. rewrite Ed. apply IH. exact H.
Qed.

Lemma utree_add_all_run l : forall t t', utree_add_all t l = Some t' -> run_from t (map OAdd l) = t'.
Proof.
  induction l as [|a r IH]; intros t t'; cbn [utree_add_all map]; [intro H; inversion H; reflexivity|].
  destruct (tree_add usame_src t (ao_expr a) (ao_val a) (ao_bt a)) as [t1| | |] eqn:Ea; try discriminate.
  intro H. unfold tree_run_from. cbn [fold_left tree_do]. unfold tree_step. rewrite Ea. apply IH. exact H.
Qed.

Lemma valid_del_ops l : Forall parses (map ao_expr l) -> Forall valid_op (map del_op l).
Proof.
  induction l as [|a r IH]; cbn [map]; intro H; [constructor|]. inversion H; subst.
  constructor; [assumption | apply IH; assumption].
Qed.

Lemma valid_add_ops (l : list (addop uval)) : Forall valid_op (map OAdd l).
Proof. induction l as [|a r IH]; cbn [map]; constructor; [exact I | exact IH]. Qed.

Lemma thstep_ok_inv st o : ts_ok (thstep st o) = true -> ts_ok st = true.
Proof. unfold thstep. destruct (ts_ok st) eqn:E; [reflexivity | intro H; rewrite E in H; exact H]. Qed.

Lemma thstep_ops st o : ts_inv st -> ts_ok (thstep st o) = true ->
  ts_tree (thstep st o) = run_from (ts_tree st) (step_ops (ts_known st) o) /\
  ts_known (thstep st o) = known_step (ts_known st) o /\
  Forall valid_op (step_ops (ts_known st) o).
Proof.
  intros [Hr Hk]. unfold thstep, step_ops, known_step. destruct (ts_ok st) eqn:Eok; [|intro H; rewrite Eok in H; discriminate].
  destruct (hplan (ts_known st) o) as [[[[src to_del] to_add] kn']|] eqn:Ep; [|intros _; repeat split; constructor].
  destruct (hplan_known _ _ _ _ _ _ Ep) as [Hdel _].
  destruct (utree_del_all (ts_tree st) (ruleset_uadds src to_del)) as [t1|] eqn:Ed; [|discriminate].
  destruct (utree_add_all t1 (ruleset_uadds src to_add)) as [t2|] eqn:Ea; [|discriminate].
  intros _. cbn [ts_tree ts_known]. split; [|split; [reflexivity|]].
  - rewrite run_from_app, (utree_del_all_run _ _ _ Ed). symmetry. apply utree_add_all_run. exact Ea.
  - apply Forall_app. split; [|apply valid_add_ops]. apply valid_del_ops. apply rules_ok_exprs.
    unfold rules_ok, known_ok, rules_ok in *. rewrite Forall_forall in *. intros r Hin. apply Hk. apply Hdel. exact Hin.
Qed.

Lemma fold_thstep_ops ops : forall st, ts_inv st -> ts_ok (fold_left thstep ops st) = true ->
  ts_tree (fold_left thstep ops st) = run_from (ts_tree st) (hist_ops_from (ts_known st) ops) /\
  Forall valid_op (hist_ops_from (ts_known st) ops).
Proof.
  induction ops as [|o r IH]; intros st Hinv Hok; [split; [reflexivity | constructor]|].
  cbn [fold_left hist_ops_from] in *.
  pose proof (thstep_inv st o Hinv) as Hinv'.
  destruct (IH (thstep st o) Hinv' Hok) as [Ht Hv].
  assert (Hok1 : ts_ok (thstep st o) = true).
  { clear - Hok. revert Hok. generalize (thstep st o). induction r as [|o' r IHr]; intros st' H; [exact H|].
    cbn [fold_left] in H. apply IHr in H. eapply thstep_ok_inv. exact H. }
  destruct (thstep_ops st o Hinv Hok1) as (Ht1 & Hk1 & Hv1).
  rewrite Hk1 in Ht, Hv. rewrite Ht, Ht1, run_from_app. split; [reflexivity|]. apply Forall_app. split; assumption.
Qed.

(** when the model tree has followed the history it is the tree after the flat list of
    operations, all of them valid *)
Theorem hist_tree_is_run ops : ts_ok (hist_tree ops) = true ->
  ts_tree (hist_tree ops) = tree_run usame_src (hist_ops ops) /\ Forall valid_op (hist_ops ops).
Proof.
  intro Hok. apply (fold_thstep_ops ops ts_init); [split; constructor | exact Hok].
Qed.

(** ... hence FindRule answers with what the specification selects in the machine's index after
    those operations *)
Theorem hist_find_rule_machine ops dflt path (m : matcher rval) : ts_ok (hist_tree ops) = true ->
  utree_find_rule (ts_tree (hist_tree ops)) dflt path m
  = outcome_of dflt (ufound (spec_lookup (mach_run usame_src (hist_ops ops)) path (m_u m))).
Proof.
  intro Hok. destruct (hist_tree_is_run ops Hok) as [Ht Hv]. unfold utree_find_rule. rewrite Ht.
  rewrite (run_find_is_spec uval usame_src (m_u m) _ path Hv). reflexivity.
Qed.

Theorem hist_stored_routes ops dflt path (m : matcher rval) : ts_ok (hist_tree ops) = true ->
  ts_tree (hist_tree ops) = tree_run usame_src (hist_ops ops) /\
  Forall valid_op (hist_ops ops) /\
  utree_find_rule (ts_tree (hist_tree ops)) dflt path m
  = outcome_of dflt (ufound (spec_lookup (mach_run usame_src (hist_ops ops)) path (m_u m))).
Proof.
  intro Hok. destruct (hist_tree_is_run ops Hok) as [Ht Hv].
  split; [exact Ht|]. split; [exact Hv|]. apply hist_find_rule_machine. exact Hok.
Qed.

(** ** non-vacuity: a history with an update and a delete whose tree went through prefix
    splits and a merge ([deleteChild]), and lookups that try several expressions *)

Local Open Scope string_scope.

Definition rx_str (s : string) : str := list_ascii_of_string s.
Definition rx_rule (id : nat) (bt : bool) (routes : list string) : rule_def :=
  {| r_id := id; r_bt := bt; r_routes := map rx_str routes |}.
Definition rx_hr (r : rule_def) (same equal : bool) : hrule := {| h_rule := r; h_same := same; h_equal := equal |}.

(** set 1: /foo/bar, /foo/baz/:x (no backtracking), /foo/**; set 2: /:a/bar, /**.  Then set 1 is
    updated (rule 2 changed and moved to /foo/bazaar/:x, rule 3 gone), then set 2 is deleted. *)
Definition rx_ops : list hop :=
  [ HCreate 1 [rx_rule 1 true ["/foo/bar"]; rx_rule 2 false ["/foo/baz/:x"; "/foo/baz/:x"]; rx_rule 3 true ["/foo/**"]] true;
    HCreate 2 [rx_rule 4 true ["/:a/bar"]; rx_rule 5 true ["/**"]] true;
    HUpdate 1 [rx_hr (rx_rule 1 true ["/foo/bar"]) true true; rx_hr (rx_rule 2 true ["/foo/bazaar/:x"]) true false] true;
    HDelete 2 true ].

Definition rx_only (ok : list nat) : matcher rval := fun v _ _ => existsb (Nat.eqb (fst v)) ok.

Example hist_nonvacuous :
  ts_ok (hist_tree rx_ops) = true /\
  ts_ok (hist_tree (firstn 3 rx_ops)) = true /\
  (* after the update, before the delete: /foo/bar fails, /:a/bar is tried next *)
  utree_find_rule (ts_tree (hist_tree (firstn 3 rx_ops))) false (rx_str "/foo/bar") (rx_only [4; 5]) = ORule 4 /\
  (* the deleted routes are gone, the moved one is found with its capture *)
  utree_find_rule (ts_tree (hist_tree (firstn 3 rx_ops))) false (rx_str "/foo/baz/1") (rx_only [1; 2; 3; 4; 5]) = ORule 5 /\
  utree_find_rule (ts_tree (hist_tree (firstn 3 rx_ops))) false (rx_str "/foo/bazaar/1") (rx_only [1; 2; 3; 4; 5]) = ORule 2 /\
  (* after the delete of set 2 *)
  utree_find_rule (ts_tree (hist_tree rx_ops)) false (rx_str "/foo/bar") (rx_only [4; 5]) = ONoRule /\
  utree_find_rule (ts_tree (hist_tree rx_ops)) true (rx_str "/x/bar") (rx_only [1; 2; 3; 4; 5]) = ODefault /\
  map fst (abs (ts_tree (hist_tree rx_ops))) = [lits (rx_str "/foo/bar"); (lits (rx_str "/foo/bazaar/") ++ [W])%list].
Proof. vm_compute. repeat split. Qed.

(** why [valid_op] is needed: a Delete whose "expression" is not one ('/' after a free
    wildcard) removes the route of ANOTHER expression from the tree, the machine ignores it;
    the repository never issues such a Delete ([known_ok]) *)
Example delete_of_a_non_expression :
  let t := tree_run usame_src [OAdd {| ao_expr := rx_str "/a/*x"; ao_val := ((1, 1), 0); ao_bt := true |}] in
  parse_expr (rx_str "/a/*x/b") = None /\
  map fst (abs t) = [(lits (rx_str "/a/") ++ [C])%list] /\
  option_map (fun t' => abs t') (tree_delete (fun _ => true) t (rx_str "/a/*x/b")) = Some [].
Proof. vm_compute. repeat split. Qed.

(** finding C02-F3 on the compressed tree as it is now (the witness of C02/Proofs.v [F3_refuted],
    which is stated on the machine-level history model): after the update the tree holds B before A
    on  /x  and FindRule answers B, a fresh load of the rule set in force answers A *)
Theorem F3_refuted_on_tree :
  ts_ok (hist_tree F3_ops) = true /\
  guard_F3 (hist_db F3_ops) (fresh_db F3_ops) (ex_str "/x") = true /\
  proj_db (abs (ts_tree (hist_tree F3_ops))) = hist_db F3_ops /\
  utree_find_rule (ts_tree (hist_tree F3_ops)) false (ex_str "/x") F3_any = ORule 2 /\
  spec_find_rule (fresh_db F3_ops) false (ex_str "/x") F3_any = ORule 1.
Proof. vm_compute. repeat split. Qed.
