(** C12 — inputs of the entry-point level model and specification that go beyond
    [C12.Model.scenario] (which C01 builds on and which is therefore kept as it is):
    the rule's list of error handlers with their conditions and rule-level
    configuration, failures that only the proxy service can have, where the respond
    configuration comes from, and which repairs the tree under test contains. *)
From HV Require Import Base.Prelude Base.ErrChain C12.Model.

(** rule-level configuration handed to [ErrorHandler.WithConfig]: none / an empty map
    (the prototype is used as it is), or [{realm: r}] for a www_authenticate handler.
    (A redirect handler rejects every non-empty configuration when the rule is
    loaded; that is not a response and not modelled here.) *)
Inductive wconf := WcNone | WcRealm (r : string).

(** one entry of a rule's [error_handler] list: does its condition hold for this
    failure (no [if]: always), the mechanism, the rule-level configuration *)
Record xhandler := { x_applies : bool; x_mech : mechanism; x_conf : wconf }.

(** failures of the proxy service's own Finalize (request_context.go): the rule has
    no [forward_to], or httputil.ReverseProxy reports an error (upstream closes the
    connection, does not answer in time, ...) *)
Inductive pfail := PNoUpstream | PUpstreamFails.

Inductive xscenario :=
| XFail (hs : list xhandler) (cause : err)   (* a pipeline step failed with [cause]; [hs] = the rule's error handlers
                                                ([] also stands for an error returned by the executor itself, e.g. no rule) *)
| XPanic (v : option err)                    (* something panics; Some e = the panic value is an error *)
| XProxy (p : pfail).                        (* the pipeline succeeded, the proxy's Finalize fails *)

(** which repairs the tree contains: fixes/C12-F1.diff (challenge header), fixes/C12-F4.diff (koanf tag) *)
Record fixes := { fx1 : bool; fx4 : bool }.
