(** C12 — proofs about the translators and the entry points of C12/Model.v.  The
    specification vocabulary is in C12/Spec.v (re-exported: C01 builds on it). *)
From HV Require Import Base.Prelude Base.ErrChain C12.Model.
From HV Require Export C12.Spec.
Local Open Scope Z_scope.

Definition http_status (r : hresp) : option Z :=
  match r with HResp s _ _ => Some s | HPanic _ => None end.

Definition http_location (r : hresp) : option string :=
  match r with HResp _ h _ => h_location h | HPanic h => h_location h end.

(** ** The two switches compute the specified class *)

Lemma is_occurs t e : is_ t e = occurs t e.
Proof. apply is_leaves. Qed.

Lemma error_writer_status v o code h :
  valid_code code = true -> exists h' b, error_writer v o code h = HResp code h' b.
Proof. intro H. unfold error_writer. rewrite H. eauto. Qed.

Lemma error_writer_location v o code h :
  http_location (error_writer v o code h) = h_location h.
Proof.
  unfold error_writer. destruct v; simpl;
    [destruct (o_neg_http o) as [m|]; [destruct (body_ne o m)|] |]; destruct (valid_code code); reflexivity.
Qed.

(** outside finding C12-F2 the override rules of both translators (HTTP: [!= 0],
    gRPC: [> 0]) select the specified status: the override when it is an HTTP
    status code, the kind's own status otherwise *)
Lemma codes_agree ov d :
  (negb (ov =? 0) && negb (valid_code ov)) = false -> valid_code d = true ->
  http_code ov d = (if valid_code ov then ov else d) /\
  grpc_code ov d = (if valid_code ov then ov else d) /\
  valid_code (if valid_code ov then ov else d) = true.
Proof.
  unfold http_code, grpc_code, valid_code. intros G Hd.
  destruct (ov =? 0) eqn:E0.
  - apply Z.eqb_eq in E0. subst. simpl. auto.
  - simpl in G. apply negb_false_iff in G. unfold valid_code in G. rewrite G.
    destruct (0 <? ov) eqn:E1; [auto|]. lia.
Qed.

Lemma ew_branch v o ov d h :
  (negb (ov =? 0) && negb (valid_code ov)) = false -> valid_code d = true ->
  exists h' b, error_writer v o (http_code ov d) h = HResp (if valid_code ov then ov else d) h' b /\
               h_location h' = h_location h.
Proof.
  intros G Hd. destruct (codes_agree ov d G Hd) as (E & _ & V). rewrite E.
  pose proof (error_writer_location v o (if valid_code ov then ov else d) h) as L.
  destruct (error_writer_status v o _ h V) as (h' & b & W). rewrite W in *. eauto.
Qed.

Lemma error_response_fields gc code v o :
  g_code (error_response gc code v o) = gc /\ g_status (error_response gc code v o) = code /\
  h_location (g_hdrs (error_response gc code v o)) = None.
Proof. unfold error_response. destruct v; simpl; auto. Qed.

Lemma er_branch gc v o ov d :
  (negb (ov =? 0) && negb (valid_code ov)) = false -> valid_code d = true ->
  exists x, Some (error_response gc (grpc_code ov d) v o) = Some x /\
            g_status x = (if valid_code ov then ov else d) /\ g_code x = gc /\ h_location (g_hdrs x) = None.
Proof.
  intros G Hd. destruct (codes_agree ov d G Hd) as (_ & E & _). rewrite E.
  eexists; split; [reflexivity|].
  destruct (error_response_fields gc (if valid_code ov then ov else d) v o) as (A & B & C). auto.
Qed.

(** the class computed by the specification, read off the tree *)
Inductive class_view (e : err) : class -> Prop :=
| CVAuthn : occurs (TKind KAuthentication) e = true -> class_view e ClAuthn
| CVAuthz : occurs (TKind KAuthentication) e = false -> occurs (TKind KAuthorization) e = true -> class_view e ClAuthz
| CVComm : occurs (TKind KAuthentication) e = false -> occurs (TKind KAuthorization) e = false ->
           occurs (TKind KTimeout) e || occurs (TKind KCommunication) e = true -> class_view e ClComm
| CVPrecond : occurs (TKind KAuthentication) e = false -> occurs (TKind KAuthorization) e = false ->
           occurs (TKind KTimeout) e || occurs (TKind KCommunication) e = false ->
           occurs (TKind KArgument) e = true -> class_view e ClPrecond
| CVNoRule : occurs (TKind KAuthentication) e = false -> occurs (TKind KAuthorization) e = false ->
           occurs (TKind KTimeout) e || occurs (TKind KCommunication) e = false ->
           occurs (TKind KArgument) e = false -> occurs (TKind KNoRule) e = true -> class_view e ClNoRule
| CVRedirect code to : occurs (TKind KAuthentication) e = false -> occurs (TKind KAuthorization) e = false ->
           occurs (TKind KTimeout) e || occurs (TKind KCommunication) e = false ->
           occurs (TKind KArgument) e = false -> occurs (TKind KNoRule) e = false ->
           occurs TRedirect e = true -> as_redirect e = Some (code, to) -> class_view e (ClRedirect code to)
| CVInternal : occurs (TKind KAuthentication) e = false -> occurs (TKind KAuthorization) e = false ->
           occurs (TKind KTimeout) e || occurs (TKind KCommunication) e = false ->
           occurs (TKind KArgument) e = false -> occurs (TKind KNoRule) e = false ->
           occurs TRedirect e = false -> class_view e ClInternal.

Lemma spec_class_view e : class_view e (spec_class e).
Proof.
  unfold spec_class.
  destruct (occurs (TKind KAuthentication) e) eqn:E1; [constructor; assumption|].
  destruct (occurs (TKind KAuthorization) e) eqn:E2; [constructor; assumption|].
  destruct (occurs (TKind KTimeout) e || occurs (TKind KCommunication) e) eqn:E3; [constructor; assumption|].
  destruct (occurs (TKind KArgument) e) eqn:E4; [constructor; assumption|].
  destruct (occurs (TKind KNoRule) e) eqn:E5; [constructor; assumption|].
  destruct (first_some leaf_redirect (leaves e)) as [[code to]|] eqn:A.
  - rewrite <- as_redirect_leaves in A. apply CVRedirect; try assumption.
    rewrite <- is_occurs. apply is_redirect_as. eauto.
  - apply CVInternal; try assumption.
    destruct (occurs TRedirect e) eqn:R; [|reflexivity].
    rewrite <- is_occurs in R. apply is_redirect_as in R as (code & to & R).
    rewrite as_redirect_leaves in R. congruence.
Qed.

(** both switches, branch by branch, in terms of the specified class *)
Lemma http_handle_view c o e h k : class_view e k ->
  http_handle c o e h =
  match k with
  | ClAuthn => error_writer (c_verbose c) o (http_code (ov_authn c) 401) h
  | ClAuthz => error_writer (c_verbose c) o (http_code (ov_authz c) 403) h
  | ClComm => error_writer (c_verbose c) o (http_code (ov_comm c) 502) h
  | ClPrecond => error_writer (c_verbose c) o (http_code (ov_precond c) 400) h
  | ClNoRule => error_writer (c_verbose c) o (http_code (ov_norule c) 404) h
  | ClRedirect code to =>
      let h' := {| h_location := Some to; h_www := h_www h; h_ctype := h_ctype h |} in
      if valid_code code then HResp code h' false else HPanic h'
  | ClInternal => error_writer (c_verbose c) o (http_code (ov_internal c) 500) h
  end.
Proof.
  unfold http_handle. rewrite !is_occurs.
  intro V; inversion V; subst;
    repeat match goal with H : _ = _ |- _ => rewrite H; clear H end; reflexivity.
Qed.

Lemma grpc_handle_view c o e k : class_view e k ->
  grpc_handle c o e =
  match k with
  | ClAuthn => Some (error_response GUnauthenticated (grpc_code (ov_authn c) 401) (c_verbose c) o)
  | ClAuthz => Some (error_response GPermissionDenied (grpc_code (ov_authz c) 403) (c_verbose c) o)
  | ClComm => Some (error_response GDeadlineExceeded (grpc_code (ov_comm c) 502) (c_verbose c) o)
  | ClPrecond => Some (error_response GInvalidArgument (grpc_code (ov_precond c) 400) (c_verbose c) o)
  | ClNoRule => Some (error_response GNotFound (grpc_code (ov_norule c) 404) (c_verbose c) o)
  | ClRedirect code to =>
      Some {| g_code := GFailedPrecondition; g_status := code;
              g_hdrs := {| h_location := Some to; h_www := None; h_ctype := None |}; g_body := false |}
  | ClInternal => Some (error_response GInternal (grpc_code (ov_internal c) 500) (c_verbose c) o)
  end.
Proof.
  unfold grpc_handle. rewrite !is_occurs.
  intro V; inversion V; subst;
    repeat match goal with H : _ = _ |- _ => rewrite H; clear H end; reflexivity.
Qed.

(** HTTP: outside finding C12-F2 the status is the specified one *)
Lemma http_kind_table c o e h :
  guard_F2 c e = false ->
  exists h' b, http_handle c o e h = HResp (spec_status c e) h' b /\
               h_location h' = match spec_location e with Some t => Some t | None => h_location h end.
Proof.
  unfold guard_F2, spec_status, spec_location, spec_status_of.
  rewrite (http_handle_view c o e h _ (spec_class_view e)).
  destruct (spec_class e) as [| | | | |code to|]; simpl; intro G;
    try (apply ew_branch; [exact G | reflexivity]).
  apply negb_false_iff in G. rewrite G. eauto.
Qed.

(** gRPC: the denied response carries the specified status, code and Location
    outside the guard of C12-F2 *)
Lemma grpc_kind_table c o e :
  guard_F2 c e = false ->
  exists d, grpc_handle c o e = Some d /\ g_status d = spec_status c e /\
            g_code d = spec_gcode (spec_class e) /\ h_location (g_hdrs d) = spec_location e.
Proof.
  unfold guard_F2, spec_status, spec_location, spec_status_of.
  rewrite (grpc_handle_view c o e _ (spec_class_view e)).
  destruct (spec_class e) as [| | | | |code to|]; simpl; intro G;
    try (apply er_branch; [exact G | reflexivity]).
  eexists; split; [reflexivity|]. simpl. auto.
Qed.

(** ** C12_kind_table *)
Theorem kind_table c o e :
  guard_F2 c e = false ->
  (exists h b, http_handle c o e no_hdrs = HResp (spec_status c e) h b /\ h_location h = spec_location e) /\
  (exists d, grpc_handle c o e = Some d /\ g_status d = spec_status c e /\
             g_code d = spec_gcode (spec_class e) /\ h_location (g_hdrs d) = spec_location e).
Proof.
  intro G. split; [|apply grpc_kind_table; exact G].
  destruct (http_kind_table c o e no_hdrs G) as (h & b & E & L).
  exists h, b. split; [exact E|]. rewrite L. simpl. destruct (spec_location e); reflexivity.
Qed.

(** ** C12_same_status *)
Theorem same_status c o e :
  guard_F2 c e = false ->
  exists s h b d, http_handle c o e no_hdrs = HResp s h b /\ grpc_handle c o e = Some d /\
    g_status d = s /\ h_location (g_hdrs d) = h_location h.
Proof.
  intro G. destruct (kind_table c o e G) as ((h & b & E & L) & (d & Ed & S & _ & Ld)).
  exists (spec_status c e), h, b, d. repeat split; try assumption. congruence.
Qed.

(** the guard is needed: a negative override *)
Definition f2_cfg := {| c_verbose := false; ov_authn := -5; ov_authz := 0; ov_comm := 0; ov_precond := 0;
                        ov_norule := 0; ov_internal := 0 |}.
Definition any_oracle := {| o_neg_http := Some Html; o_neg_grpc := Some Json; o_json_ne := true;
                            o_xml_ne := true; o_plain_ne := true |}.

Theorem F2_refuted :
  exists c o e, guard_F2o_class c (spec_class e) = true /\ guard_F5_class (spec_class e) = false /\
    http_status (http_handle c o e no_hdrs) <> option_map g_status (grpc_handle c o e).
Proof.
  exists f2_cfg, any_oracle, (Sentinel KAuthentication). split; [reflexivity|]. split; [reflexivity|].
  vm_compute. discriminate.
Qed.

(** the same split for a redirect error VALUE whose code is no status (C12-F5) *)
Theorem F5_refuted :
  exists c o e, guard_F5_class (spec_class e) = true /\ guard_F2o_class c (spec_class e) = false /\
    http_status (http_handle c o e no_hdrs) <> option_map g_status (grpc_handle c o e).
Proof.
  exists {| c_verbose := false; ov_authn := 0; ov_authz := 0; ov_comm := 0; ov_precond := 0; ov_norule := 0; ov_internal := 0 |},
         any_oracle, (WrapW (Redirect 5 "http://a")).
  split; [reflexivity|]. split; [reflexivity|]. vm_compute. discriminate.
Qed.

(** ** C12_never_success *)

Lemma success_like_valid s : success_like s = true -> valid_code s = true.
Proof. unfold success_like, valid_code. lia. Qed.

Lemma spec_status_of_not_success c k :
  overrides_not_success c -> success_like (default_status k) = false -> success_like (spec_status_of c k) = false.
Proof.
  intros (H1 & H2 & H3 & H4 & H5 & H6) D. unfold spec_status_of.
  destruct (valid_code (override c k)); [|exact D]. destruct k; simpl; auto.
Qed.

Lemma spec_status_not_success c e :
  overrides_not_success c -> redirects_not_success e -> success_like (spec_status c e) = false.
Proof.
  intros HO HR. unfold spec_status. apply spec_status_of_not_success; [exact HO|].
  pose proof (spec_class_view e) as V. inversion V; simpl; try reflexivity.
  apply HR. eapply as_redirect_code_In; eauto.
Qed.

(** the gRPC override rule never selects a success status either, even where it
    deviates from the specified status (inside guard F2) *)
Lemma grpc_code_not_success ov d : success_like ov = false -> success_like d = false ->
  success_like (grpc_code ov d) = false.
Proof. unfold grpc_code. destruct (0 <? ov); auto. Qed.

Lemma http_code_not_success ov d : success_like ov = false -> success_like d = false ->
  success_like (http_code ov d) = false.
Proof. unfold http_code. destruct (ov =? 0); auto. Qed.

Lemma error_writer_not_success v o code h :
  success_like code = false ->
  match error_writer v o code h with HResp s _ _ => success_like s = false | HPanic _ => True end.
Proof. intro H. unfold error_writer. destruct (valid_code code); [exact H | exact I]. Qed.

Lemma redirect_first_not_success e code to :
  redirects_not_success e -> as_redirect e = Some (code, to) -> success_like code = false.
Proof. intros HR A. apply HR. eapply as_redirect_code_In; eauto. Qed.

Theorem never_success c o e h :
  overrides_not_success c -> redirects_not_success e ->
  match http_handle c o e h with HResp s _ _ => success_like s = false | HPanic _ => True end /\
  match grpc_handle c o e with
  | Some d => success_like (g_status d) = false /\ g_code d <> GOk
  | None => True
  end.
Proof.
  intros (H1 & H2 & H3 & H4 & H5 & H6) HR. unfold http_handle, grpc_handle.
  destruct (is_ (TKind KAuthentication) e).
  { split; [apply error_writer_not_success, http_code_not_success; auto|].
    destruct (error_response_fields GUnauthenticated (grpc_code (ov_authn c) 401) (c_verbose c) o) as (A & B & _).
    rewrite A, B. split; [apply grpc_code_not_success; auto | discriminate]. }
  destruct (is_ (TKind KAuthorization) e).
  { split; [apply error_writer_not_success, http_code_not_success; auto|].
    destruct (error_response_fields GPermissionDenied (grpc_code (ov_authz c) 403) (c_verbose c) o) as (A & B & _).
    rewrite A, B. split; [apply grpc_code_not_success; auto | discriminate]. }
  destruct (is_ (TKind KTimeout) e || is_ (TKind KCommunication) e).
  { split; [apply error_writer_not_success, http_code_not_success; auto|].
    destruct (error_response_fields GDeadlineExceeded (grpc_code (ov_comm c) 502) (c_verbose c) o) as (A & B & _).
    rewrite A, B. split; [apply grpc_code_not_success; auto | discriminate]. }
  destruct (is_ (TKind KArgument) e).
  { split; [apply error_writer_not_success, http_code_not_success; auto|].
    destruct (error_response_fields GInvalidArgument (grpc_code (ov_precond c) 400) (c_verbose c) o) as (A & B & _).
    rewrite A, B. split; [apply grpc_code_not_success; auto | discriminate]. }
  destruct (is_ (TKind KNoRule) e).
  { split; [apply error_writer_not_success, http_code_not_success; auto|].
    destruct (error_response_fields GNotFound (grpc_code (ov_norule c) 404) (c_verbose c) o) as (A & B & _).
    rewrite A, B. split; [apply grpc_code_not_success; auto | discriminate]. }
  destruct (is_ TRedirect e).
  { destruct (as_redirect e) as [[code to]|] eqn:A; [|split; exact I].
    pose proof (redirect_first_not_success e code to HR A) as S.
    split; [destruct (valid_code code); [exact S | exact I]|]. simpl. split; [exact S | discriminate]. }
  split; [apply error_writer_not_success, http_code_not_success; auto|].
  destruct (error_response_fields GInternal (grpc_code (ov_internal c) 500) (c_verbose c) o) as (A & B & _).
  rewrite A, B. split; [apply grpc_code_not_success; auto | discriminate].
Qed.

(** the hypotheses are needed: an override of 200, a redirect with code 204 *)
Theorem success_override_possible :
  exists c o e, http_status (http_handle c o e no_hdrs) = Some 200 /\
                option_map g_status (grpc_handle c o e) = Some 200.
Proof.
  exists {| c_verbose := false; ov_authn := 200; ov_authz := 0; ov_comm := 0; ov_precond := 0;
            ov_norule := 0; ov_internal := 0 |}, any_oracle, (Sentinel KAuthentication).
  vm_compute. auto.
Qed.

(** ** C12_body_only_if_verbose *)
Theorem body_only_if_verbose c o e :
  (forall s h b, http_handle c o e no_hdrs = HResp s h b ->
     (b = true -> c_verbose c = true) /\
     (forall m, h_ctype h = Some m -> c_verbose c = true /\ o_neg_http o = Some m /\ b = true)) /\
  (forall d, grpc_handle c o e = Some d ->
     (g_body d = true -> c_verbose c = true) /\
     (forall m, h_ctype (g_hdrs d) = Some m ->
        c_verbose c = true /\ (o_neg_grpc o = Some m \/ (o_neg_grpc o = None /\ m = Html)))).
Proof.
  assert (EW : forall code s h b, error_writer (c_verbose c) o code no_hdrs = HResp s h b ->
     (b = true -> c_verbose c = true) /\
     (forall m, h_ctype h = Some m -> c_verbose c = true /\ o_neg_http o = Some m /\ b = true)).
  { intros code s h b. unfold error_writer.
    destruct (c_verbose c); [|destruct (valid_code code); [|discriminate]; intro E; inversion E; subst;
                               split; [discriminate | simpl; discriminate]].
    destruct (o_neg_http o) as [m0|]; [destruct (body_ne o m0)|];
      (destruct (valid_code code); [|discriminate]); intro E; inversion E; subst; simpl;
      (split; [reflexivity|]); intros m Hm; try discriminate.
    inversion Hm; subst. auto. }
  assert (ER : forall gc code d, error_response gc code (c_verbose c) o = d ->
     (g_body d = true -> c_verbose c = true) /\
     (forall m, h_ctype (g_hdrs d) = Some m ->
        c_verbose c = true /\ (o_neg_grpc o = Some m \/ (o_neg_grpc o = None /\ m = Html)))).
  { intros gc code d. unfold error_response. destruct (c_verbose c); intro E; subst; simpl.
    - split; [reflexivity|]. intros m Hm. split; [reflexivity|].
      destruct (o_neg_grpc o) as [m0|]; inversion Hm; subst; auto.
    - split; discriminate. }
  split.
  - intros s h b. unfold http_handle.
    repeat match goal with |- (if ?x then _ else _) = _ -> _ => destruct x; [apply EW|] end.
    destruct (is_ TRedirect e); [|apply EW].
    destruct (as_redirect e) as [[code to]|]; [|discriminate].
    destruct (valid_code code); [|discriminate]. intro E; inversion E; subst. simpl.
    split; discriminate.
  - intros d. unfold grpc_handle.
    repeat match goal with |- (if ?x then _ else _) = _ -> _ =>
      destruct x; [intro E; inversion E; eapply ER; reflexivity|] end.
    destruct (is_ TRedirect e); [|intro E; inversion E; eapply ER; reflexivity].
    destruct (as_redirect e) as [[code to]|]; [|discriminate].
    intro E; inversion E; subst; simpl. split; discriminate.
Qed.

(** ** C12_redirect_has_location (translator level) *)
Theorem redirect_has_location c o e code to :
  spec_class e = ClRedirect code to ->
  (valid_code code = true ->
     http_handle c o e no_hdrs = HResp code {| h_location := Some to; h_www := None; h_ctype := None |} false) /\
  (exists d, grpc_handle c o e = Some d /\ g_status d = code /\ g_code d = GFailedPrecondition /\
             h_location (g_hdrs d) = Some to /\ g_body d = false).
Proof.
  unfold spec_class, http_handle, grpc_handle. rewrite ?is_occurs.
  repeat match goal with |- (if ?b then _ else _) = _ -> _ => destruct b; [discriminate|] end.
  destruct (first_some leaf_redirect (leaves e)) as [[c' t']|] eqn:A; [|discriminate].
  intro K; inversion K; subst.
  assert (R : occurs TRedirect e = true).
  { rewrite <- is_occurs. apply is_redirect_as. exists code, to. rewrite as_redirect_leaves. exact A. }
  rewrite R. rewrite as_redirect_leaves, A. split.
  - intro V. rewrite V. reflexivity.
  - eexists; split; [reflexivity|]. simpl. auto.
Qed.

(** ** Failures handled by an error handler mechanism, through the entry points *)

(** no mechanism can make a failure disappear: some error always reaches the translator *)
Lemma final_error_some m cause : exists e, final_error (mech_exec m cause) = Some e.
Proof.
  destruct m as [|code [url|]|realm]; simpl; unfold final_error; simpl; eauto.
Qed.

Definition scenario_redirects_not_success (sc : scenario) : Prop :=
  match sc with
  | ScError e => redirects_not_success e
  | ScHandled m cause =>
      redirects_not_success cause /\
      match m with MRedirect code _ => success_like code = false | _ => True end
  | ScPanic v => match v with Some e => redirects_not_success e | None => True end
  end.

Lemma redirects_not_success_chain2 a b c :
  redirects_not_success a -> redirects_not_success b -> redirects_not_success (Chain [a; b] c).
Proof.
  unfold redirects_not_success, redirect_codes. simpl. intros Ha Hb z Hz.
  rewrite app_nil_r, flat_map_app in Hz. apply in_app_or in Hz as [Hz|Hz]; auto.
Qed.

Lemma redirects_not_success_leaf e :
  match e with Redirect _ _ | WrapW _ | JoinW _ | Chain _ _ => False | _ => True end ->
  redirects_not_success e.
Proof. destruct e; intros H z Hz; try contradiction; simpl in Hz; contradiction. Qed.

Lemma recovered_not_success v :
  match v with Some e => redirects_not_success e | None => True end ->
  redirects_not_success (recovered v).
Proof.
  intro H. unfold recovered. apply redirects_not_success_chain2.
  - apply redirects_not_success_leaf. exact I.
  - destruct v; [exact H | apply redirects_not_success_leaf; exact I].
Qed.

Lemma scenario_final_not_success sc e fc :
  scenario_redirects_not_success sc -> scenario_error sc = Some (Some e, fc) -> redirects_not_success e.
Proof.
  destruct sc as [e0|m cause|v]; simpl.
  - intros H E; inversion E; subst; exact H.
  - intros [Hc Hm] E. inversion E as [[E1 E2]]. clear E E2.
    destruct m as [|code [url|]|realm]; unfold final_error in E1; simpl in E1; inversion E1; subst.
    + exact Hc.
    + intros z Hz. simpl in Hz. destruct Hz as [Hz|[]]. subst.
      destruct (code =? 0) eqn:E0; [reflexivity | exact Hm].
    + apply redirects_not_success_chain2; apply redirects_not_success_leaf; exact I.
    + apply redirects_not_success_leaf; exact I.
  - discriminate.
Qed.

(** stack level: whatever happens, the answer is a non-success response (or
    no response at all), for all three entry points *)
Theorem never_success_stack c o sc :
  overrides_not_success c -> scenario_redirects_not_success sc ->
  match http_respond c o sc with
  | HFinal s _ _ => success_like s = false
  | HAbort => True
  | HPositive => False
  end /\
  match grpc_respond c o sc with
  | GDenied d => success_like (g_status d) = false /\ g_code d <> GOk
  | GStatusErr g => g <> GOk
  | GPositive => False
  end.
Proof.
  intros HO HS.
  assert (REC : forall v h, match v with Some e => redirects_not_success e | None => True end ->
            match http_recover c o v h with HFinal s _ _ => success_like s = false | HAbort => True | HPositive => False end).
  { intros v h Hv. unfold http_recover.
    pose proof (proj1 (never_success c (ne_always o) (recovered v) h HO (recovered_not_success v Hv))) as N.
    destruct (http_handle c (ne_always o) (recovered v) h); [exact N | exact I]. }
  unfold http_respond, grpc_respond.
  destruct (scenario_error sc) as [[[e|] fc]|] eqn:SE.
  - pose proof (scenario_final_not_success sc e fc HS SE) as HR.
    split.
    + pose proof (proj1 (never_success c (if fc then o else ne_always o) e no_hdrs HO HR)) as N.
      destruct (http_handle c (if fc then o else ne_always o) e no_hdrs); [exact N|].
      apply REC. exact I.
    + pose proof (proj2 (never_success c (if fc then o else ne_always o) e no_hdrs HO HR)) as N.
      destruct (grpc_handle c (if fc then o else ne_always o) e); [exact N | discriminate].
  - exfalso. destruct sc as [e0|m cause|v]; simpl in SE; try discriminate.
    inversion SE as [[E1 E2]]. destruct (final_error_some m cause) as (e & E). congruence.
  - destruct sc as [e0|m cause|v]; simpl in SE; try discriminate.
    split; [apply REC; exact HS | discriminate].
Qed.

(** what the statement demands of a handled failure's headers *)
Definition effective_realm (realm : string) : string :=
  if (String.length realm =? 0)%nat then "Please authenticate"%string else realm.

Definition demanded_headers (m : mechanism) (h : hdrs) : Prop :=
  match m with
  | MDefault => True
  | MRedirect _ (Some url) => h_location h = Some url
  | MRedirect _ None => True
  | MWWW realm => h_www h = Some ("Basic realm=" ++ effective_realm realm)%string
  end.

Definition redirect_status (code : Z) : Z := if code =? 0 then 302 else code.

(** a redirect handler's answer: its code and Location, identically on all entry points *)
Theorem redirect_handler_response c o code url cause :
  (valid_code (redirect_status code) = true ->
     http_respond c o (ScHandled (MRedirect code (Some url)) cause) =
       HFinal (redirect_status code) {| h_location := Some url; h_www := None; h_ctype := None |} false) /\
  grpc_respond c o (ScHandled (MRedirect code (Some url)) cause) =
    GDenied {| g_code := GFailedPrecondition; g_status := redirect_status code;
               g_hdrs := {| h_location := Some url; h_www := None; h_ctype := None |}; g_body := false |}.
Proof.
  unfold http_respond, grpc_respond, redirect_status. simpl. unfold final_error. simpl.
  unfold http_handle, grpc_handle. simpl. split; [|reflexivity].
  intro V. rewrite V. reflexivity.
Qed.

(** what a mechanism hands to the request context for the response: the
    www_authenticate handler its challenge naming the configured realm (the
    default realm when none is configured), the other two nothing *)
Theorem www_challenge_recorded m cause :
  hd_upstream (mech_exec m cause) =
  match m with
  | MWWW realm => [("WWW-Authenticate"%string, ("Basic realm=" ++ effective_realm realm)%string)]
  | _ => []
  end.
Proof. destruct m as [|code [url|]|realm]; reflexivity. Qed.

(** a redirect handler that the loader created has a code in 300..399 (302 when
    unset): a valid status that is never a success status, so the hypothesis "no
    redirect code is 1xx/2xx" is guaranteed for the redirect MECHANISM (it remains
    a hypothesis for RedirectError values built by other means) *)
Theorem created_redirect_code c o code to m cause :
  create_redirect code to = Some m ->
  m = MRedirect code to /\ 300 <= redirect_status code <= 399 /\
  valid_code (redirect_status code) = true /\ success_like (redirect_status code) = false /\
  (redirects_not_success cause -> scenario_redirects_not_success (ScHandled m cause)) /\
  (forall url, to = Some url ->
     http_respond c o (ScHandled m cause) =
       HFinal (redirect_status code) {| h_location := Some url; h_www := None; h_ctype := None |} false).
Proof.
  unfold create_redirect, redirect_code_ok. destruct ((code =? 0) || ((300 <=? code) && (code <=? 399))) eqn:E; [|discriminate].
  intro H; inversion H; subst. clear H.
  assert (R : 300 <= redirect_status code <= 399).
  { unfold redirect_status. destruct (code =? 0) eqn:Z0; [lia|]. simpl in E. lia. }
  assert (V : valid_code (redirect_status code) = true) by (unfold valid_code; lia).
  assert (S : success_like (redirect_status code) = false) by (unfold success_like; lia).
  split; [reflexivity|]. split; [exact R|]. split; [exact V|]. split; [exact S|]. split.
  - intro Hc. simpl. split; [exact Hc|]. unfold redirect_status in S.
    destruct (code =? 0) eqn:Z0; [|exact S]. apply Z.eqb_eq in Z0. subst. reflexivity.
  - intros url ->. apply (proj1 (redirect_handler_response c o code url cause)). exact V.
Qed.

Theorem success_redirect_not_creatable to :
  create_redirect 200 to = None /\ create_redirect 5 to = None /\ create_redirect (-1) to = None /\
  create_redirect 1000 to = None /\ create_redirect 299 to = None /\ create_redirect 400 to = None /\
  create_redirect 300 to = Some (MRedirect 300 to) /\ create_redirect 399 to = Some (MRedirect 399 to) /\
  create_redirect 0 to = Some (MRedirect 0 to).
Proof. repeat split; reflexivity. Qed.

(** a www_authenticate handler's answer has the authentication status ... *)
Theorem www_authenticate_status c o realm cause :
  (valid_code (http_code (ov_authn c) 401) = true ->
     exists h b, http_respond c o (ScHandled (MWWW realm) cause) = HFinal (http_code (ov_authn c) 401) h b) /\
  exists d, grpc_respond c o (ScHandled (MWWW realm) cause) = GDenied d /\
            g_code d = GUnauthenticated /\ g_status d = grpc_code (ov_authn c) 401.
Proof.
  unfold http_respond, grpc_respond. simpl. unfold final_error. simpl.
  unfold http_handle, grpc_handle. simpl. split.
  - intro V. destruct (error_writer_status (c_verbose c) (ne_always o) _ no_hdrs V) as (h & b & E).
    rewrite E. eauto.
  - eexists; split; [reflexivity|].
    destruct (error_response_fields GUnauthenticated (grpc_code (ov_authn c) 401) (c_verbose c) (ne_always o)) as (A & B & _).
    auto.
Qed.

(** ... but never the WWW-Authenticate header (finding C12-F1): no translator
    writes it and Finalize drops the upstream headers of a failed request *)
Lemma http_handle_www c o e h : h_www h = None ->
  match http_handle c o e h with HResp _ h' _ => h_www h' = None | HPanic h' => h_www h' = None end.
Proof.
  intro H.
  assert (EW : forall v code, match error_writer v o code h with HResp _ h' _ => h_www h' = None | HPanic h' => h_www h' = None end).
  { intros v code. unfold error_writer.
    destruct v; [destruct (o_neg_http o) as [m|]; [destruct (body_ne o m)|]|];
      destruct (valid_code code); simpl; exact H. }
  unfold http_handle.
  repeat match goal with |- match (if ?x then _ else _) with _ => _ end => destruct x; [apply EW|] end.
  destruct (is_ TRedirect e); [|apply EW].
  destruct (as_redirect e) as [[code to]|]; [destruct (valid_code code)|]; simpl; exact H.
Qed.

Lemma grpc_handle_www c o e d : grpc_handle c o e = Some d -> h_www (g_hdrs d) = None.
Proof.
  assert (ER : forall gc code, h_www (g_hdrs (error_response gc code (c_verbose c) o)) = None).
  { intros. unfold error_response. destruct (c_verbose c); reflexivity. }
  unfold grpc_handle.
  repeat match goal with |- (if ?x then _ else _) = _ -> _ => destruct x; [intro E; inversion E; apply ER|] end.
  destruct (is_ TRedirect e); [|intro E; inversion E; apply ER].
  destruct (as_redirect e) as [[code to]|]; [|discriminate]. intro E; inversion E; reflexivity.
Qed.

Theorem www_header_never_written c o sc :
  match http_respond c o sc with HFinal _ h _ => h_www h = None | _ => True end /\
  match grpc_respond c o sc with GDenied d => h_www (g_hdrs d) = None | _ => True end.
Proof.
  assert (REC : forall v h, h_www h = None ->
            match http_recover c o v h with HFinal _ h' _ => h_www h' = None | _ => True end).
  { intros v h Hh. unfold http_recover.
    pose proof (http_handle_www c (ne_always o) (recovered v) h Hh) as W.
    destruct (http_handle c (ne_always o) (recovered v) h); [exact W | exact I]. }
  unfold http_respond, grpc_respond.
  destruct (scenario_error sc) as [[[e|] fc]|].
  - split.
    + pose proof (http_handle_www c (if fc then o else ne_always o) e no_hdrs eq_refl) as W.
      destruct (http_handle c (if fc then o else ne_always o) e no_hdrs); [exact W | apply REC; exact W].
    + destruct (grpc_handle c (if fc then o else ne_always o) e) eqn:G; [|exact I].
      eapply grpc_handle_www; eauto.
  - split; exact I.
  - split; [|exact I]. destruct sc; try exact I. apply REC. reflexivity.
Qed.

(** C12_www_authenticate_has_header, in the form that survives finding F1:
    outside its guard every handled failure carries the headers the statement
    demands of its handler *)
Theorem handler_headers c o m cause :
  guard_F1 m = false ->
  (forall s h b, valid_code (match m with MRedirect code _ => redirect_status code | _ => 100 end) = true ->
     http_respond c o (ScHandled m cause) = HFinal s h b ->
     match m with MRedirect _ (Some _) => demanded_headers m h | _ => True end) /\
  (forall d, grpc_respond c o (ScHandled m cause) = GDenied d -> demanded_headers m (g_hdrs d)).
Proof.
  destruct m as [|code [url|]|realm]; simpl; try discriminate; intros _; split; try (intros; exact I).
  - intros s h b V E.
    rewrite (proj1 (redirect_handler_response c o code url cause) V) in E. inversion E; subst. reflexivity.
  - intros d E. rewrite (proj2 (redirect_handler_response c o code url cause)) in E.
    inversion E; subst. reflexivity.
Qed.

Theorem F1_refuted :
  exists c o m cause, guard_F1 m = true /\
    (forall s h b, http_respond c o (ScHandled m cause) = HFinal s h b -> ~ demanded_headers m h) /\
    (forall d, grpc_respond c o (ScHandled m cause) = GDenied d -> ~ demanded_headers m (g_hdrs d)) /\
    (exists s h b, http_respond c o (ScHandled m cause) = HFinal s h b) /\
    (exists d, grpc_respond c o (ScHandled m cause) = GDenied d).
Proof.
  exists {| c_verbose := false; ov_authn := 0; ov_authz := 0; ov_comm := 0; ov_precond := 0;
            ov_norule := 0; ov_internal := 0 |}, any_oracle, (MWWW "r"), (Sentinel KAuthorization).
  split; [reflexivity|]. split; [|split; [|split]].
  - intros s h b E. vm_compute in E. inversion E; subst. simpl. discriminate.
  - intros d E. vm_compute in E. inversion E; subst. simpl. discriminate.
  - vm_compute. eauto.
  - vm_compute. eauto.
Qed.

(** *** after the repair of C12-F1 (model variant [fixed = true]) the statement
    holds without guard: every answer to a failure handled by a www_authenticate
    handler carries the challenge naming the configured (or default) realm, on
    all three entry points; redirects keep their Location; nothing else changes *)
Lemma challenge_of_www realm cause :
  challenge_of (ScHandled (MWWW realm) cause) = Some ("Basic realm=" ++ effective_realm realm)%string.
Proof. reflexivity. Qed.

Lemma challenge_of_other sc :
  match sc with ScHandled (MWWW _) _ => False | _ => True end -> challenge_of sc = None.
Proof.
  destruct sc as [e|m cause|v]; simpl; auto. destruct m as [|code [url|]|realm]; simpl; auto. contradiction.
Qed.

Theorem www_authenticate_has_header_fixed c o realm cause :
  (forall s h b, http_respond_f true c o (ScHandled (MWWW realm) cause) = HFinal s h b ->
     h_www h = Some ("Basic realm=" ++ effective_realm realm)%string) /\
  (forall d, grpc_respond_f true c o (ScHandled (MWWW realm) cause) = GDenied d ->
     h_www (g_hdrs d) = Some ("Basic realm=" ++ effective_realm realm)%string) /\
  (exists d, grpc_respond_f true c o (ScHandled (MWWW realm) cause) = GDenied d /\
             g_code d = GUnauthenticated /\ g_status d = grpc_code (ov_authn c) 401) /\
  (valid_code (http_code (ov_authn c) 401) = true ->
     exists h b, http_respond_f true c o (ScHandled (MWWW realm) cause) = HFinal (http_code (ov_authn c) 401) h b).
Proof.
  unfold http_respond_f, grpc_respond_f. rewrite challenge_of_www.
  destruct (www_authenticate_status c o realm cause) as [HS (d & GD & G1 & G2)].
  split; [|split; [|split]].
  - intros s h b. destruct (http_respond c o (ScHandled (MWWW realm) cause)); try discriminate.
    intro E; inversion E; subst. reflexivity.
  - intros d'. rewrite GD. intro E; inversion E; subst. reflexivity.
  - rewrite GD. eexists; split; [reflexivity|]. simpl. auto.
  - intro V. destruct (HS V) as (h & b & E). rewrite E. eauto.
Qed.

(** the repair changes nothing but that header *)
Theorem fixed_only_adds_challenge c o sc :
  (match http_respond c o sc, http_respond_f true c o sc with
   | HFinal s h b, HFinal s' h' b' =>
       s = s' /\ b = b' /\ h_location h = h_location h' /\ h_ctype h = h_ctype h' /\
       (h_www h' = h_www h \/ h_www h' = challenge_of sc)
   | HAbort, HAbort | HPositive, HPositive => True
   | _, _ => False
   end) /\
  (match sc with ScHandled (MWWW _) _ => True | _ => http_respond_f true c o sc = http_respond c o sc /\
                                                      grpc_respond_f true c o sc = grpc_respond c o sc end) /\
  http_respond_f false c o sc = http_respond c o sc /\ grpc_respond_f false c o sc = grpc_respond c o sc.
Proof.
  split; [|split; [|split]].
  - unfold http_respond_f. destruct (http_respond c o sc); auto.
    destruct (challenge_of sc); simpl; auto 10.
  - assert (N : match sc with ScHandled (MWWW _) _ => False | _ => True end -> 
                http_respond_f true c o sc = http_respond c o sc /\ grpc_respond_f true c o sc = grpc_respond c o sc).
    { intro H. unfold http_respond_f, grpc_respond_f. rewrite (challenge_of_other sc H). simpl.
      split; [destruct (http_respond c o sc); reflexivity|].
      destruct (grpc_respond c o sc) as [[gc gs gh gb]| |]; reflexivity. }
    destruct sc as [e|m cause|v]; try (apply N; exact I).
    destruct m; try (apply N; exact I). exact I.
  - unfold http_respond_f. destruct (http_respond c o sc); reflexivity.
  - unfold grpc_respond_f. destruct (grpc_respond c o sc); reflexivity.
Qed.

(** ** a panic is answered by the internal-error class (HTTP) / a gRPC Internal status *)
Theorem panic_response c o :
  (valid_code (http_code (ov_internal c) 500) = true ->
     exists h b, http_respond c o (ScPanic None) = HFinal (http_code (ov_internal c) 500) h b) /\
  grpc_respond c o (ScPanic None) = GStatusErr GInternal.
Proof.
  split; [|reflexivity]. intro V. unfold http_respond. simpl. unfold http_recover, http_handle. simpl.
  destruct (error_writer_status (c_verbose c) (ne_always o) _ no_hdrs V) as (h & b & E). rewrite E. eauto.
Qed.

(** non-vacuity of the hypotheses of the main theorems *)
Example nonvacuous :
  let c := {| c_verbose := true; ov_authn := 0; ov_authz := 470; ov_comm := 0; ov_precond := 0;
              ov_norule := 0; ov_internal := 0 |} in
  let e := Chain [Sentinel KInternal; WrapW (JoinW [Foreign 1%nat; Chain [Sentinel KAuthorization] true]);
                  Redirect 302 "http://x"] false in
  guard_F2 c e = false /\ overrides_not_success c /\ redirects_not_success e /\
  spec_class e = ClAuthz /\
  http_handle c any_oracle e no_hdrs =
    HResp 470 {| h_location := None; h_www := None; h_ctype := Some Html |} true.
Proof.
  simpl. repeat split; try reflexivity.
  intros z Hz. simpl in Hz. destruct Hz as [Hz|[]]. subst. reflexivity.
Qed.
