(** C12 — the specification, transcribed from the property statement.  Nothing in
    this file calls a function of the model of heimdall's code (C12/Model.v,
    C12/Stack.v) except the range test [valid_code] ("is an HTTP status code": 100..999) and the
    equality test [media_eqb]; otherwise it uses their input TYPES only (error trees, respond
    configuration, mechanisms, handler lists) and Go's errors.Is/As reading
    "some leaf of the tree" ([Base.ErrChain.leaves]).

    Statement: "Every failure is translated into the response of its kind:
    authentication 401, authorization 403, communication or timeout 502,
    precondition 400, no rule 404, a redirect to the handler's status code with a
    Location header, a www-authenticate challenge to 401 with a WWW-Authenticate
    header naming the configured realm, anything else 500, or the status configured
    for that kind, and identically by the HTTP services and the Envoy gRPC service.
    A failure never yields a success status, and error details appear in the body
    only when verbose responses are enabled, in the negotiated content type." *)
From HV Require Import Base.Prelude Base.ErrChain C12.Model C12.Inputs.
Local Open Scope Z_scope.

(** ** kinds of failures and their statuses *)

Inductive class :=
| ClAuthn | ClAuthz | ClComm | ClPrecond | ClNoRule
| ClRedirect (code : Z) (to : string)
| ClInternal.

(** "a failure of kind k": a value of that kind occurs somewhere in the error
    value, however deeply nested or wrapped *)
Definition occurs (t : target) (e : err) : bool := existsb (leaf_is t) (leaves e).

(** kind table with its precedence: authentication, authorization,
    communication or timeout, precondition, no rule, redirect, anything else *)
Definition spec_class (e : err) : class :=
  if occurs (TKind KAuthentication) e then ClAuthn
  else if occurs (TKind KAuthorization) e then ClAuthz
  else if occurs (TKind KTimeout) e || occurs (TKind KCommunication) e then ClComm
  else if occurs (TKind KArgument) e then ClPrecond
  else if occurs (TKind KNoRule) e then ClNoRule
  else match first_some leaf_redirect (leaves e) with
       | Some (c, t) => ClRedirect c t
       | None => ClInternal
       end.

Definition default_status (k : class) : Z :=
  match k with
  | ClAuthn => 401 | ClAuthz => 403 | ClComm => 502 | ClPrecond => 400 | ClNoRule => 404
  | ClRedirect c _ => c
  | ClInternal => 500
  end.

(** "or the status configured for that kind" *)
Definition override (c : cfg) (k : class) : Z :=
  match k with
  | ClAuthn => ov_authn c | ClAuthz => ov_authz c | ClComm => ov_comm c | ClPrecond => ov_precond c
  | ClNoRule => ov_norule c | ClInternal => ov_internal c
  | ClRedirect _ _ => 0
  end.

(** a configured status counts when it is an HTTP status code (three digits);
    anything else (0 = not configured, -5, 50, 1000) leaves the kind's own status *)
Definition spec_status_of (c : cfg) (k : class) : Z :=
  if valid_code (override c k) then override c k else default_status k.

Definition spec_status (c : cfg) (e : err) : Z := spec_status_of c (spec_class e).

Definition class_location (k : class) : option string :=
  match k with ClRedirect _ t => Some t | _ => None end.

Definition spec_location (e : err) : option string := class_location (spec_class e).

(** gRPC status code of the kind (model vocabulary: the statement does not mention
    gRPC codes, only "not OK" is part of the property) *)
Definition spec_gcode (k : class) : gcode :=
  match k with
  | ClAuthn => GUnauthenticated | ClAuthz => GPermissionDenied | ClComm => GDeadlineExceeded
  | ClPrecond => GInvalidArgument | ClNoRule => GNotFound | ClRedirect _ _ => GFailedPrecondition
  | ClInternal => GInternal
  end.

(** a status a client takes for success: 2xx, and 1xx (net/http sends an
    informational response and then an implicit 200) *)
Definition success_like (s : Z) : bool := (100 <=? s) && (s <=? 299).

(** a redirect handler's status code: the configured one, 302 when none is configured *)
Definition redirect_status (code : Z) : Z := if code =? 0 then 302 else code.

(** ** findings (guards on the inputs) *)

(** the status to send is not a three-digit code.  C12-F2: the kind's override is configured
    (non-zero) but no HTTP status.  C12-F5: a redirect error VALUE carries such a code (no
    heimdall mechanism produces one since 6c5864d; only code that builds the value by hand) *)
Definition guard_F2o_class (c : cfg) (k : class) : bool :=
  match k with
  | ClRedirect _ _ => false
  | _ => negb (override c k =? 0) && negb (valid_code (override c k))
  end.

Definition guard_F5_class (k : class) : bool :=
  match k with ClRedirect code _ => negb (valid_code code) | _ => false end.

Definition guard_F2_class (c : cfg) (k : class) : bool :=
  match k with
  | ClRedirect code _ => negb (valid_code code)
  | _ => negb (override c k =? 0) && negb (valid_code (override c k))
  end.

Lemma guard_F2_class_split c k : guard_F2_class c k = guard_F2o_class c k || guard_F5_class k.
Proof. destruct k; simpl; try rewrite orb_false_r; reflexivity. Qed.

Definition guard_F2 (c : cfg) (e : err) : bool := guard_F2_class c (spec_class e).

(** C12-F1: the failure is handled by a www_authenticate error handler *)
Definition guard_F1 (m : mechanism) : bool := match m with MWWW _ => true | _ => false end.

(** ** hypotheses of "never a success status": the operator did not configure one *)
Definition overrides_not_success (c : cfg) : Prop :=
  success_like (ov_authn c) = false /\ success_like (ov_authz c) = false /\
  success_like (ov_comm c) = false /\ success_like (ov_precond c) = false /\
  success_like (ov_norule c) = false /\ success_like (ov_internal c) = false.

Definition redirects_not_success (e : err) : Prop :=
  forall z, In z (redirect_codes e) -> success_like z = false.

Definition ov_not_success_b (c : cfg) : bool :=
  negb (success_like (ov_authn c)) && negb (success_like (ov_authz c)) && negb (success_like (ov_comm c)) &&
  negb (success_like (ov_precond c)) && negb (success_like (ov_norule c)) && negb (success_like (ov_internal c)).

(** ** what a client sees, and when it is what the statement demands *)

(** [contains p s]: [p] occurs in [s] ("a header naming the realm") *)
Fixpoint contains (p s : string) : bool :=
  String.prefix p s || match s with EmptyString => false | String _ s' => contains p s' end.

Inductive ctype := CtNone | CtKnown (m : media) | CtOther (s : string).

(** an answer to a failed request: an HTTP response, or the DeniedHttpResponse Envoy turns into one.
    [r_details]: the body, a header value or the gRPC status message contains a text of the failure
    (message of an error of the tree, of the chain, ...); [r_wf]: the body is well-formed for its type *)
Record reply := { r_status : Z; r_loc : option string; r_www : option string; r_ct : ctype;
                  r_body : bool; r_details : bool; r_wf : bool }.

Inductive seen :=
| SReply (r : reply)
| SNoResponse        (* no HTTP answer at all: connection dropped, gRPC status error that is not OK *)
| SSuccess.          (* a positive answer (request accepted / forwarded, gRPC code OK) *)

(** what the request's Accept header admits (RFC 7231 5.3.2, as ranked by the negotiation
    library on 2-element lists, so independent of any server-side order of preference):
    [nv_free]: no constraint (no header, an empty or malformed one, or none of the types in
    question is acceptable: the statement's "negotiated content type" has no referent);
    otherwise the most preferred acceptable types *)
Record negview := { nv_free : bool; nv_allowed : list media; nv_other : list string }.

Definition allowed (nv : negview) (ct : ctype) : bool :=
  match ct with
  | CtNone => false
  | CtKnown m => nv_free nv || existsb (media_eqb m) (nv_allowed nv)
  | CtOther s => nv_free nv || existsb (String.eqb s) (nv_other nv)
  end.

(** what the statement demands for one failed request: the admissible kinds (one, except for
    a panic), the realm a WWW-Authenticate header has to name, and whether "no response at
    all" is admissible (only when something panicked) *)
Record demand := { d_classes : list class; d_realm : option string; d_hard : bool }.

Definition class_ok (c : cfg) (k : class) (r : reply) : bool :=
  (r_status r =? spec_status_of c k) && option_eqb String.eqb (r_loc r) (class_location k).

(** clauses that a recorded finding is known to break on the request at hand (used by the
    evaluator only when the implementation deviates from the model on an input of an open
    finding, to decide by the REMAINING clauses; [no_waiver] everywhere else) *)
Record waiver := { w_status : bool; w_www : bool }.
Definition no_waiver := {| w_status := false; w_www := false |}.

(** [hyp]: the hypotheses of never-success hold for this request (no override, no redirect
    code involved is 1xx/2xx) *)
Definition reply_ok_w (w : waiver) (c : cfg) (nv : negview) (hyp : bool) (d : demand) (r : reply) : bool :=
  (* the response of its kind (status of the kind or its override; Location of a redirect) *)
  (w_status w || existsb (fun k => class_ok c k r) (d_classes d)) &&
  (* never a success status *)
  implb hyp (negb (success_like (r_status r))) &&
  (* details only when verbose, in the negotiated content type *)
  implb (r_details r) (c_verbose c && allowed nv (r_ct r) && r_wf r) &&
  (* a challenge names the configured realm *)
  (w_www w ||
   match d_realm d with
   | None => true
   | Some realm => match r_www r with Some v => contains realm v | None => false end
   end).

Definition seen_ok_w (w : waiver) (c : cfg) (nv : negview) (hyp : bool) (d : demand) (s : seen) : bool :=
  match s with
  | SReply r => reply_ok_w w c nv hyp d r
  | SNoResponse => d_hard d || w_status w
  | SSuccess => false
  end.

Definition reply_ok := reply_ok_w no_waiver.
Definition seen_ok := seen_ok_w no_waiver.

(** "identically by the HTTP services and the Envoy gRPC service" *)
Definition same_reply (a b : seen) : bool :=
  match a, b with
  | SReply x, SReply y => (r_status x =? r_status y) && option_eqb String.eqb (r_loc x) (r_loc y)
  | _, _ => true
  end.

(** ** the demand of a scenario *)

Fixpoint first_applicable (hs : list xhandler) : option xhandler :=
  match hs with
  | [] => None
  | h :: r => if x_applies h then Some h else first_applicable r
  end.

(** the kind of failure a client is to be told about after an error handler mechanism ran:
    the default handler leaves the failure as it is; a redirect handler turns it into a
    redirect with its code and rendered URL (an internal error when the URL cannot be
    rendered); a www_authenticate handler into an authentication failure *)
Definition handler_class (m : mechanism) (cause : err) : class :=
  match m with
  | MDefault => spec_class cause
  | MRedirect code (Some url) => ClRedirect (redirect_status code) url
  | MRedirect _ None => ClInternal
  | MWWW _ => ClAuthn
  end.

(** the realm configured for a www_authenticate handler: the rule's, else the prototype's *)
Definition handler_realm (h : xhandler) : option string :=
  match x_mech h with
  | MWWW realm => Some (match x_conf h with WcRealm r => r | WcNone => realm end)
  | _ => None
  end.

Definition demand_of (sc : xscenario) : demand :=
  match sc with
  | XFail hs cause =>
      match first_applicable hs with
      | None => {| d_classes := [spec_class cause]; d_realm := None; d_hard := false |}
      | Some h => {| d_classes := [handler_class (x_mech h) cause]; d_realm := handler_realm h; d_hard := false |}
      end
  | XPanic v =>
      (* a panic is an internal error; when the panic value is itself a failure of some kind,
         answering with that kind is admissible too *)
      {| d_classes := ClInternal :: match v with Some e => [spec_class e] | None => [] end;
         d_realm := None; d_hard := true |}
  | XProxy PNoUpstream => {| d_classes := [ClInternal]; d_realm := None; d_hard := false |}
  | XProxy PUpstreamFails => {| d_classes := [ClComm]; d_realm := None; d_hard := false |}
  end.

(** all redirect codes that can become the status of the answer *)
Definition x_redirect_codes (sc : xscenario) : list Z :=
  match sc with
  | XFail hs cause =>
      redirect_codes cause ++
      flat_map (fun h => match x_mech h with MRedirect code _ => [redirect_status code] | _ => [] end) hs
  | XPanic (Some e) => redirect_codes e
  | _ => []
  end.

Definition hyp_never_success (c : cfg) (sc : xscenario) : bool :=
  ov_not_success_b c && forallb (fun z => negb (success_like z)) (x_redirect_codes sc).
