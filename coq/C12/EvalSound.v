(** C12 — soundness of the evaluator of the correspondence stream (Run/Eval_C12.v):
    whenever the implementation's observations correspond to the model ([corr]) and the
    negotiation oracle is sane, the property predicate [prop] holds on the OBSERVATIONS, up
    to the clauses the open findings break on that input ([waived]); in particular, with no
    guard firing, [corr] implies [prop].  So the row "correspondence holds, property fails, no
    guard" of the verdict table (DESIGN 4) cannot occur except through a wrong oracle, and the
    theorems of C12/StackProofs.v are tied to what [prop] checks. *)
From HV Require Import Base.Prelude Base.ErrChain C12.Model C12.Inputs C12.Spec C12.Stack C12.Proofs C12.StackProofs
  Run.Eval_C12.
Local Open Scope Z_scope.

(** a larger waiver admits more *)
Definition wle (a b : waiver) : Prop :=
  (w_status a = true -> w_status b = true) /\ (w_www a = true -> w_www b = true).

Lemma orb_mono (a b x : bool) : (a = true -> b = true) -> a || x = true -> b || x = true.
Proof. destruct a, b, x; simpl; auto. Qed.

Lemma reply_ok_w_mono a b c nv hyp d r : wle a b -> reply_ok_w a c nv hyp d r = true -> reply_ok_w b c nv hyp d r = true.
Proof.
  intros [H1 H2]. unfold reply_ok_w. intro H.
  apply andb_true_iff in H as [H H4]. apply andb_true_iff in H as [H H3]. apply andb_true_iff in H as [H0 H5].
  repeat (apply andb_true_iff; split); try assumption.
  - eapply orb_mono; eauto.
  - eapply orb_mono; eauto.
Qed.

Lemma seen_ok_w_mono a b c nv hyp d s : wle a b -> seen_ok_w a c nv hyp d s = true -> seen_ok_w b c nv hyp d s = true.
Proof.
  intros L. destruct s; simpl; [apply reply_ok_w_mono; exact L | | auto].
  intro H. apply orb_true_iff in H as [H|H]; [rewrite H; reflexivity|].
  rewrite (proj1 L H). apply orb_true_r.
Qed.

(** the model's replies: a body is where the details are, and it is well-formed *)
Definition model_seen (m : seen) : Prop :=
  match m with SReply a => r_details a = r_body a | _ => True end.

Lemma model_seen_hresp r : model_seen (seen_of_hresp r).
Proof. destruct r; simpl; auto. Qed.
Lemma model_seen_gdenied d : model_seen (seen_of_gdenied d).
Proof. unfold seen_of_gdenied. destruct (gcode_eqb (g_code d) GOk); simpl; auto. Qed.
Lemma model_seen_ghandle r : model_seen (seen_of_ghandle r).
Proof. destruct r; simpl; [apply model_seen_gdenied | exact I]. Qed.
Lemma model_seen_hfinal f : model_seen (seen_of_hfinal f).
Proof. destruct f; simpl; auto. Qed.
Lemma model_seen_gfinal g : model_seen (seen_of_gfinal g).
Proof. destruct g as [d|c|]; simpl; [apply model_seen_gdenied | destruct (gcode_eqb c GOk); exact I | exact I]. Qed.

Lemma ctype_eqb_eq a b : ctype_eqb a b = true -> a = b.
Proof.
  destruct a as [|x|x], b as [|y|y]; simpl; intro H; try discriminate; try reflexivity.
  - destruct x, y; simpl in H; try discriminate; reflexivity.
  - apply String.eqb_eq in H. congruence.
Qed.

Lemma opt_str_eqb_eq (a b : option string) : option_eqb String.eqb a b = true -> a = b.
Proof.
  destruct a, b; simpl; intro H; try discriminate; try reflexivity.
  apply String.eqb_eq in H. congruence.
Qed.

(** transfer of the specification's verdict from the model's answer to a matching observation *)
Lemma reply_transfer w c nv hyp d a b :
  r_details a = r_body a -> reply_match a b = true ->
  reply_ok_w w c nv hyp d a = true -> reply_ok_w w c nv hyp d b = true.
Proof.
  intros MD M. unfold reply_match in M.
  repeat (apply andb_true_iff in M as [M ?]).
  apply Z.eqb_eq in M.
  match goal with H : option_eqb String.eqb (r_loc a) (r_loc b) = true |- _ => apply opt_str_eqb_eq in H; rename H into EL end.
  match goal with H : option_eqb String.eqb (r_www a) (r_www b) = true |- _ => apply opt_str_eqb_eq in H; rename H into EW end.
  match goal with H : ctype_eqb _ _ = true |- _ => apply ctype_eqb_eq in H; rename H into EC end.
  match goal with H : Bool.eqb _ _ = true |- _ => apply Bool.eqb_prop in H; rename H into EB end.
  unfold reply_ok_w, class_ok. rewrite <- M, <- EL, <- EW, <- EC.
  intro R. apply andb_true_iff in R as [R R4]. apply andb_true_iff in R as [R R3]. apply andb_true_iff in R as [R1 R2].
  repeat (apply andb_true_iff; split); try assumption.
  destruct (r_details b) eqn:DB; [|reflexivity]. simpl in *.
  match goal with X : r_body a = true |- _ => rename X into BA end.
  rewrite MD, BA in R3. simpl in R3.
  apply andb_true_iff in R3 as [R3 _].
  match goal with X : r_wf b = true |- _ => rewrite X end.
  rewrite R3. reflexivity.
Qed.

Lemma seen_transfer w c nv hyp d m o :
  model_seen m -> seen_match m o = true ->
  seen_ok_w w c nv hyp d m = true -> obs_ok w c nv hyp d o = true.
Proof.
  intros MS M. destruct m as [a| |]; destruct o as [b [|]| | | |s]; simpl in M; try discriminate; simpl.
  - apply reply_transfer; assumption.
  - auto.
Qed.

Lemma same_transfer m1 m2 o1 o2 :
  seen_match m1 o1 = true -> seen_match m2 o2 = true -> same_reply m1 m2 = true ->
  same_reply (seen_of o1) (seen_of o2) = true.
Proof.
  intros M1 M2.
  destruct m1 as [a1| |]; destruct o1 as [b1 [|]| | | |s1]; simpl in M1; try discriminate; simpl; try reflexivity;
  destruct m2 as [a2| |]; destruct o2 as [b2 [|]| | | |s2]; simpl in M2; try discriminate; simpl; try reflexivity.
  unfold reply_match in M1, M2.
  repeat (apply andb_true_iff in M1 as [M1 ?]). repeat (apply andb_true_iff in M2 as [M2 ?]).
  apply Z.eqb_eq in M1, M2.
  repeat match goal with H : option_eqb String.eqb (r_loc _) (r_loc _) = true |- _ => apply opt_str_eqb_eq in H end.
  congruence.
Qed.

Lemma str_list_eqb_eq (a b : list string) : list_eqb String.eqb a b = true -> a = b.
Proof. apply list_eqb_spec. intros x y. apply String.eqb_eq. Qed.

Lemma waived_covers_x fx k :
  wle (xwaiver fx (k_file k) (k_cfg k) (to_x (k_sc k) (k_err k))) (waived fx k).
Proof.
  unfold wle, xwaiver, waived, g_F1, g_F2, g_F4; simpl. split; [|auto].
  intro H. apply orb_true_iff in H as [H|H]; rewrite H; repeat rewrite orb_true_r; reflexivity.
Qed.

Lemma waived_covers_t fx k :
  wle (twaiver fx (k_file k) (k_cfg k) (k_err k)) (waived fx k).
Proof.
  unfold wle, twaiver, waived, g_F1, g_F2, g_F4; simpl. split; [|discriminate].
  intro H. apply orb_true_iff in H as [H|H]; rewrite H; repeat rewrite orb_true_r; reflexivity.
Qed.

Lemma redirects_b_thyp c e : ov_not_success_b c && redirects_not_success_b e = thyp c e.
Proof. reflexivity. Qed.

Lemma dec_transfer fx file c o nv sc w od :
  oracle_ok nv o = true -> wle (xwaiver fx file c sc) w ->
  seen_match (seen_of_hfinal (entry_http fx false file c o sc)) od = true ->
  obs_ok w c nv (hyp_never_success c sc) (demand_of sc) od = true.
Proof.
  intros OK L M. destruct sc as [hs cause|v|p].
  - eapply seen_transfer; [apply model_seen_hfinal | exact M |].
    eapply seen_ok_w_mono; [exact L|]. apply http_entry_meets_spec; [exact OK | exact I].
  - eapply seen_transfer; [apply model_seen_hfinal | exact M |].
    eapply seen_ok_w_mono; [exact L|]. apply http_entry_meets_spec; [exact OK | exact I].
  - unfold entry_http, x_http_respond in M. simpl in M.
    destruct od as [? [|]| | | |?]; simpl in M; try discriminate; reflexivity.
Qed.

Lemma prx_transfer fx file c o nv sc w op :
  oracle_ok nv o = true -> wle (xwaiver fx file c sc) w ->
  seen_match (seen_of_hfinal (entry_http fx true file c o sc)) op = true ->
  obs_ok w c nv (hyp_never_success c sc) (demand_of sc) op = true.
Proof.
  intros OK L M.
  eapply seen_transfer; [apply model_seen_hfinal | exact M |].
  eapply seen_ok_w_mono; [exact L|]. apply http_entry_meets_spec; [exact OK|]. destruct sc; auto.
Qed.

Lemma env_transfer fx file c o nv sc w oe :
  oracle_ok nv o = true -> wle (xwaiver fx file c sc) w ->
  seen_match (seen_of_gfinal (entry_grpc fx file c o sc)) oe = true ->
  obs_ok w c nv (hyp_never_success c sc) (demand_of sc) oe = true.
Proof.
  intros OK L M. destruct sc as [hs cause|v|p].
  - eapply seen_transfer; [apply model_seen_gfinal | exact M |].
    eapply seen_ok_w_mono; [exact L|]. apply grpc_entry_meets_spec; [exact OK | exact I].
  - eapply seen_transfer; [apply model_seen_gfinal | exact M |].
    eapply seen_ok_w_mono; [exact L|]. apply grpc_entry_meets_spec; [exact OK | exact I].
  - unfold entry_grpc, x_grpc_respond in M. simpl in M.
    destruct oe as [? [|]| | | |?]; simpl in M; try discriminate; reflexivity.
Qed.

Lemma match_same_model m o1 o2 :
  seen_match m o1 = true -> seen_match m o2 = true -> same_reply (seen_of o1) (seen_of o2) = true.
Proof.
  intros M1 M2.
  destruct m as [a| |]; destruct o1 as [b1 [|]| | | |s1]; simpl in M1; try discriminate; simpl; try reflexivity;
    destruct o2 as [b2 [|]| | | |s2]; simpl in M2; try discriminate; simpl; try reflexivity.
  unfold reply_match in M1, M2.
  repeat (apply andb_true_iff in M1 as [M1 ?]). repeat (apply andb_true_iff in M2 as [M2 ?]).
  apply Z.eqb_eq in M1, M2.
  repeat match goal with X : option_eqb String.eqb (r_loc _) (r_loc _) = true |- _ => apply opt_str_eqb_eq in X end.
  rewrite <- M1, <- M2, Z.eqb_refl. simpl.
  match goal with X1 : r_loc a = r_loc b1, X2 : r_loc a = r_loc b2 |- _ => rewrite <- X1, <- X2 end.
  apply option_eqb_str_refl.
Qed.

Lemma entries_same_transfer fx file c o sc od op oe :
  xguard_F2 (loaded fx file c) sc = false ->
  seen_match (seen_of_hfinal (entry_http fx false file c o sc)) od = true ->
  seen_match (seen_of_hfinal (entry_http fx true file c o sc)) op = true ->
  seen_match (seen_of_gfinal (entry_grpc fx file c o sc)) oe = true ->
  same_reply (seen_of od) (seen_of oe) && same_reply (seen_of op) (seen_of oe) && same_reply (seen_of od) (seen_of op) = true.
Proof.
  intros G MD MP ME.
  destruct sc as [hs cause|v|p].
  - destruct (entries_same fx false file c o (XFail hs cause) G I) as [S1 S2].
    destruct (entries_same fx true file c o (XFail hs cause) G I) as [S3 _].
    apply andb_true_iff; split; [apply andb_true_iff; split|].
    + eapply same_transfer; [exact MD | exact ME | exact S1].
    + eapply same_transfer; [exact MP | exact ME | exact S3].
    + rewrite S2 in MP. eapply match_same_model; eassumption.
  - destruct (entries_same fx false file c o (XPanic v) G I) as [S1 S2].
    destruct (entries_same fx true file c o (XPanic v) G I) as [S3 _].
    apply andb_true_iff; split; [apply andb_true_iff; split|].
    + eapply same_transfer; [exact MD | exact ME | exact S1].
    + eapply same_transfer; [exact MP | exact ME | exact S3].
    + rewrite S2 in MP. eapply match_same_model; eassumption.
  - unfold entry_http, x_http_respond in MD. unfold entry_grpc, x_grpc_respond in ME. simpl in MD, ME.
    assert (E1 : seen_of od = SSuccess) by (destruct od as [? [|]| | | |?]; simpl in *; try discriminate; reflexivity).
    assert (E2 : seen_of oe = SSuccess) by (destruct oe as [? [|]| | | |?]; simpl in *; try discriminate; reflexivity).
    rewrite E1, E2. destruct (seen_of op); reflexivity.
Qed.

Theorem eval_sound fx k :
  corr fx k = true -> oracle_ok (k_nv k) (k_or k) = true -> prop_w (waived fx k) k = true.
Proof.
  intros C OK. unfold corr in C.
  repeat (apply andb_true_iff in C as [C ?]).
  match goal with X : seen_match _ (k_http k) = true |- _ => rename X into MH end.
  match goal with X : seen_match _ (k_grpc k) = true |- _ => rename X into MG end.
  match goal with X : seen_match _ (k_dec k) = true |- _ => rename X into MD end.
  match goal with X : seen_match _ (k_prx k) = true |- _ => rename X into MP end.
  match goal with X : seen_match _ (k_env k) = true |- _ => rename X into ME end.
  match goal with X : list_eqb String.eqb _ (k_up k) = true |- _ => apply str_list_eqb_eq in X; rename X into UP end.
  match goal with X : mk_ok _ = true |- _ => rename X into MK end.
  set (c := k_cfg k) in *. set (e := k_err k) in *. set (sc := to_x (k_sc k) e) in *.
  set (c' := loaded fx (k_file k) c) in *. set (o := k_or k) in *. set (nv := k_nv k) in *.
  unfold prop_w. fold c e sc nv o. rewrite OK, MK. simpl. rewrite andb_true_r.
  (* the waiver's status flag decides the "identically" clauses *)
  assert (WS : g_F2 fx k || g_F4 fx k = false -> guard_F2 c' e = false /\ xguard_F2 c' sc = false).
  { unfold g_F2; simpl. fold c e sc c'. intro W.
    apply orb_false_iff in W as [W _]. apply orb_false_iff in W. exact W. }
  apply andb_true_iff; split.
  - (* translators *)
    rewrite redirects_b_thyp.
    apply andb_true_iff; split; [apply andb_true_iff; split|].
    + eapply seen_transfer; [apply model_seen_hresp | exact MH |].
      eapply seen_ok_w_mono; [apply waived_covers_t|]. apply http_translator_meets_spec. exact OK.
    + eapply seen_transfer; [apply model_seen_ghandle | exact MG |].
      eapply seen_ok_w_mono; [apply waived_covers_t|]. apply grpc_translator_meets_spec. exact OK.
    + destruct (g_F2 fx k || g_F4 fx k) eqn:W; [reflexivity|]. simpl.
      eapply same_transfer; [exact MH | exact MG |]. apply translators_same. apply (proj1 (WS eq_refl)).
  - (* entry points *)
    apply andb_true_iff; split; [apply andb_true_iff; split; [apply andb_true_iff; split; [apply andb_true_iff; split|]|]|].
    + eapply dec_transfer; [exact OK | apply waived_covers_x | exact MD].
    + eapply prx_transfer; [exact OK | apply waived_covers_x | exact MP].
    + eapply env_transfer; [exact OK | apply waived_covers_x | exact ME].
    + destruct (g_F2 fx k || g_F4 fx k) eqn:W; [reflexivity|]. simpl.
      eapply entries_same_transfer; [apply (proj2 (WS eq_refl)) | exact MD | exact MP | exact ME].
    + (* the challenge handed to the request context *)
      rewrite <- UP.
      destruct (d_realm (demand_of sc)) as [realm|] eqn:DR; [|reflexivity].
      destruct (x_challenge_names sc realm DR) as (v & _ & XC & CV). rewrite XC. simpl. rewrite CV. reflexivity.
Qed.

Lemma existsb_orb {A} (f g : A -> bool) l : existsb (fun x => f x || g x) l = existsb f l || existsb g l.
Proof.
  induction l as [|x r IH]; simpl; [reflexivity|]. rewrite IH.
  destruct (f x), (g x), (existsb f r), (existsb g r); reflexivity.
Qed.

Lemma existsb_ext_all {A} (f g : A -> bool) l : (forall x, f x = g x) -> existsb f l = existsb g l.
Proof. intro H. induction l as [|x r IH]; simpl; [reflexivity|]. rewrite H, IH. reflexivity. Qed.

Lemma g_F2_split fx k : g_F2 fx k = false <-> g_F2o fx k = false /\ g_F5 k = false.
Proof.
  unfold g_F2, g_F2o, g_F5, guard_F2, xguard_F2.
  rewrite guard_F2_class_split.
  rewrite (existsb_ext_all _ _ _ (fun x => guard_F2_class_split _ x)).
  rewrite existsb_orb.
  repeat rewrite orb_false_iff. tauto.
Qed.

(** with no guard firing nothing is waived: correspondence implies the property predicate *)
Corollary eval_sound_unguarded fx k :
  corr fx k = true -> oracle_ok (k_nv k) (k_or k) = true -> v_guards (check fx k) = [] -> prop k = true.
Proof.
  intros C OK G. pose proof (eval_sound fx k C OK) as S.
  unfold check, guards in G. simpl in G.
  assert (W : waived fx k = no_waiver).
  { unfold waived, no_waiver.
    destruct (g_F1 fx k); [discriminate|]. destruct (g_F2o fx k) eqn:A; [discriminate|].
    destruct (g_F5 k) eqn:B; [discriminate|]. destruct (g_F4 fx k); [discriminate|].
    rewrite (proj2 (g_F2_split fx k) (conj A B)). reflexivity. }
  rewrite W in S. exact S.
Qed.
