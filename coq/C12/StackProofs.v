(** C12 — the entry-point level model (C12/Stack.v) meets the specification
    (C12/Spec.v) outside the guards of the recorded findings. *)
From HV Require Import Base.Prelude Base.ErrChain C12.Model C12.Inputs C12.Spec C12.Stack C12.Proofs.
Local Open Scope Z_scope.

(** ** what a client sees of the model's outputs *)

(** a body, when the model sends one, is the rendering of the failure (it carries the
    details) and is well-formed for its type (rendering is an oracle, see the trusted base) *)
Definition reply_of (s : Z) (h : hdrs) (b : bool) : reply :=
  {| r_status := s; r_loc := h_location h; r_www := h_www h;
     r_ct := match h_ctype h with Some m => CtKnown m | None => CtNone end;
     r_body := b; r_details := b; r_wf := true |}.

Definition seen_of_hresp (r : hresp) : seen :=
  match r with HResp s h b => SReply (reply_of s h b) | HPanic _ => SNoResponse end.

Definition seen_of_gdenied (d : gdenied) : seen :=
  if gcode_eqb (g_code d) GOk then SSuccess else SReply (reply_of (g_status d) (g_hdrs d) (g_body d)).

Definition seen_of_ghandle (r : option gdenied) : seen :=
  match r with Some d => seen_of_gdenied d | None => SNoResponse end.

Definition seen_of_hfinal (f : hfinal) : seen :=
  match f with HFinal s h b => SReply (reply_of s h b) | HAbort => SNoResponse | HPositive => SSuccess end.

Definition seen_of_gfinal (g : gfinal) : seen :=
  match g with
  | GDenied d => seen_of_gdenied d
  | GStatusErr c => if gcode_eqb c GOk then SSuccess else SNoResponse
  | GPositive => SSuccess
  end.

(** the negotiation oracle is sane: what the translators negotiate (observed on a probe
    request) is a type the Accept header admits *)
Definition oracle_ok (nv : negview) (o : oracle) : bool :=
  match o_neg_http o with Some m => allowed nv (CtKnown m) | None => true end &&
  match o_neg_grpc o with Some m => allowed nv (CtKnown m) | None => allowed nv (CtKnown Html) end.

(** ** guards of the findings at entry-point level *)

(** C12-F1: a WWW-Authenticate header is demanded (unless the tree contains the repair) *)
Definition xguard_F1 (fx : fixes) (sc : xscenario) : bool :=
  negb (fx1 fx) && match d_realm (demand_of sc) with Some _ => true | None => false end.

(** C12-F2 on the configuration as loaded: one of the admissible kinds has an override
    (or redirect code) that is no HTTP status *)
Definition xguard_F2 (c : cfg) (sc : xscenario) : bool :=
  existsb (guard_F2_class c) (d_classes (demand_of sc)).

(** C12-F4: the configuration comes from a file, a precondition override that is an HTTP
    status is configured and the failure is a precondition failure *)
Definition is_precond (k : class) : bool := match k with ClPrecond => true | _ => false end.

Definition xguard_F4 (fx : fixes) (from_file : bool) (c : cfg) (ks : list class) : bool :=
  from_file && negb (fx4 fx) && valid_code (ov_precond c) && existsb is_precond ks.

(** ** small facts *)

Lemma option_eqb_str_refl (x : option string) : option_eqb String.eqb x x = true.
Proof. destruct x; simpl; [apply String.eqb_refl | reflexivity]. Qed.

Lemma prefix_refl_app p x : String.prefix p (p ++ x) = true.
Proof.
  induction p as [|a p IH]; simpl; [destruct x; reflexivity|].
  destruct (ascii_dec a a) as [_|N]; [exact IH | contradiction].
Qed.

Lemma contains_empty s : contains "" s = true.
Proof. destruct s; reflexivity. Qed.

Lemma contains_prefix p s : String.prefix p s = true -> contains p s = true.
Proof. intro H. destruct s; simpl in *; rewrite H; reflexivity. Qed.

Lemma contains_app p a x : contains p (a ++ p ++ x) = true.
Proof.
  induction a as [|ch a IH]; simpl.
  - apply contains_prefix, prefix_refl_app.
  - rewrite IH. apply orb_true_r.
Qed.

Lemma contains_suffix p a : contains p (a ++ p) = true.
Proof.
  assert (E : (a ++ p)%string = (a ++ p ++ "")%string).
  { f_equal. induction p as [|c p IH]; simpl; [reflexivity | rewrite <- IH; reflexivity]. }
  rewrite E. apply contains_app.
Qed.

Lemma media_eqb_refl m : media_eqb m m = true.
Proof. destruct m; reflexivity. Qed.

Lemma ne_always_neg o : o_neg_http (ne_always o) = o_neg_http o /\ o_neg_grpc (ne_always o) = o_neg_grpc o.
Proof. split; reflexivity. Qed.

Lemma oracle_ok_ne_always nv o : oracle_ok nv (ne_always o) = oracle_ok nv o.
Proof. reflexivity. Qed.

(** ** the translators, fact by fact (no guard needed for these) *)

(** the Content-Type on a writer the error writer works on (a first attempt whose WriteHeader
    panicked may have left one): none, or the negotiated type of a verbose response *)
Definition ct_inv (v : bool) (o : oracle) (h : hdrs) : Prop :=
  h_ctype h = None \/ (v = true /\ h_ctype h = o_neg_http o /\ o_neg_http o <> None).

Lemma ct_inv_no_hdrs v o : ct_inv v o no_hdrs.
Proof. left. reflexivity. Qed.

Lemma error_writer_generic v o code h :
  ct_inv v o h ->
  match error_writer v o code h with
  | HResp s h' b =>
      s = code /\ valid_code code = true /\ h_location h' = h_location h /\ h_www h' = h_www h /\ ct_inv v o h' /\
      (b = true -> v = true /\ exists m, h_ctype h' = Some m /\ o_neg_http o = Some m)
  | HPanic h' => valid_code code = false /\ h_location h' = h_location h /\ h_www h' = h_www h /\ ct_inv v o h'
  end.
Proof.
  intro I. unfold error_writer.
  destruct v.
  - destruct (o_neg_http o) as [m|] eqn:N.
    + destruct (body_ne o m); destruct (valid_code code) eqn:V; simpl;
        repeat split; try reflexivity; try exact I; try discriminate;
        try (right; repeat split; [symmetry; exact N | rewrite N; discriminate]);
        try (exists m; split; reflexivity).
    + destruct (valid_code code) eqn:V; simpl; repeat split; try reflexivity; try exact I; try discriminate.
  - destruct (valid_code code) eqn:V; simpl; repeat split; try reflexivity; try exact I; try discriminate.
Qed.

Lemma http_handle_generic c o e h :
  ct_inv (c_verbose c) o h ->
  match http_handle c o e h with
  | HResp s h' b =>
      h_www h' = h_www h /\ ct_inv (c_verbose c) o h' /\
      (b = true -> c_verbose c = true /\ exists m, h_ctype h' = Some m /\ o_neg_http o = Some m)
  | HPanic h' => h_www h' = h_www h /\ ct_inv (c_verbose c) o h'
  end.
Proof.
  intro I. rewrite (http_handle_view c o e h _ (spec_class_view e)).
  assert (EW : forall code,
    match error_writer (c_verbose c) o code h with
    | HResp s h' b => h_www h' = h_www h /\ ct_inv (c_verbose c) o h' /\
        (b = true -> c_verbose c = true /\ exists m, h_ctype h' = Some m /\ o_neg_http o = Some m)
    | HPanic h' => h_www h' = h_www h /\ ct_inv (c_verbose c) o h'
    end).
  { intro code. pose proof (error_writer_generic (c_verbose c) o code h I) as G.
    destruct (error_writer (c_verbose c) o code h); [destruct G as (_ & _ & _ & W & J & B) | destruct G as (_ & _ & W & J)]; auto. }
  destruct (spec_class e) as [| | | | |code to|]; try apply EW.
  simpl. destruct (valid_code code); simpl; repeat split; try exact I; discriminate.
Qed.

Lemma grpc_handle_generic c o e d : grpc_handle c o e = Some d ->
  g_code d <> GOk /\ h_www (g_hdrs d) = None /\
  (g_body d = true -> c_verbose c = true /\
     exists m, h_ctype (g_hdrs d) = Some m /\ (o_neg_grpc o = Some m \/ (o_neg_grpc o = None /\ m = Html))).
Proof.
  rewrite (grpc_handle_view c o e _ (spec_class_view e)).
  assert (ER : forall gc code x, gc <> GOk -> Some (error_response gc code (c_verbose c) o) = Some x ->
    g_code x <> GOk /\ h_www (g_hdrs x) = None /\
    (g_body x = true -> c_verbose c = true /\
       exists m, h_ctype (g_hdrs x) = Some m /\ (o_neg_grpc o = Some m \/ (o_neg_grpc o = None /\ m = Html)))).
  { intros gc code x Hg E. inversion E; subst x. clear E. unfold error_response.
    destruct (c_verbose c); simpl; repeat split; try assumption; try discriminate.
    destruct (o_neg_grpc o) as [m|]; eexists; split; try reflexivity; auto. }
  destruct (spec_class e) as [| | | | |code to|]; try (apply ER; discriminate).
  intro E; inversion E; subst d. simpl. repeat split; try discriminate.
Qed.

(** ** which failure reaches the translator *)

(** an error handler list never makes a failure disappear: some error always reaches the
    translator (blind spot of a composite handler that would swallow a failing handler) *)
Lemma x_exec_final h cause : exists e, final_error (x_exec h cause) = Some e.
Proof.
  destruct h as [a m w]. unfold x_exec; simpl.
  destruct m as [|code [url|]|realm]; destruct w; unfold final_error; simpl; eauto.
Qed.

Lemma run_handlers_final hs cause : exists e, final_error (run_handlers hs cause) = Some e.
Proof.
  induction hs as [|h r IH]; simpl; [unfold final_error; simpl; eauto|].
  destruct (x_applies h); [apply x_exec_final | exact IH].
Qed.

(** ... and that error is of the kind the specification demands for the list *)
Lemma x_exec_class h cause e :
  final_error (x_exec h cause) = Some e -> spec_class e = handler_class (x_mech h) cause.
Proof.
  destruct h as [a m w]. unfold x_exec; simpl.
  destruct m as [|code [url|]|realm]; destruct w; unfold final_error; simpl;
    intro E; inversion E; subst; reflexivity.
Qed.

Lemma run_handlers_class hs cause e :
  final_error (run_handlers hs cause) = Some e ->
  spec_class e = match first_applicable hs with
                 | None => spec_class cause
                 | Some h => handler_class (x_mech h) cause
                 end.
Proof.
  induction hs as [|h r IH]; simpl.
  - unfold final_error; simpl. intro E; inversion E; reflexivity.
  - destruct (x_applies h); [apply x_exec_class | exact IH].
Qed.

Lemma spec_class_recovered v :
  spec_class (recovered v) = match v with Some e => spec_class e | None => ClInternal end.
Proof.
  unfold recovered, spec_class, occurs. simpl. rewrite app_nil_r.
  destruct v as [e|]; reflexivity.
Qed.

Lemma x_error_class proxy sc e fc :
  x_scenario_error proxy sc = Some (Some e, fc) -> In (spec_class e) (d_classes (demand_of sc)).
Proof.
  destruct sc as [hs cause|v|p]; simpl; try discriminate.
  - intro E. inversion E as [[E1 E2]]. apply run_handlers_class in E1. rewrite E1.
    destruct (first_applicable hs); simpl; auto.
  - destruct proxy; intro E; inversion E; subst. destruct p; simpl; auto.
Qed.

Lemma x_panic_class v : In (spec_class (recovered v)) (d_classes (demand_of (XPanic v))).
Proof. rewrite spec_class_recovered. destruct v; simpl; auto. Qed.

(** ** the configuration as loaded *)
Lemma loaded_verbose fx file c : c_verbose (loaded fx file c) = c_verbose c.
Proof. unfold loaded. destruct (file && negb (fx4 fx)); reflexivity. Qed.

Lemma loaded_status fx file c ks k :
  In k ks -> xguard_F4 fx file c ks = false -> spec_status_of (loaded fx file c) k = spec_status_of c k.
Proof.
  intros Hin G. unfold loaded. destruct (file && negb (fx4 fx)) eqn:F; [|reflexivity].
  destruct k; try reflexivity.
  unfold spec_status_of; simpl. unfold xguard_F4 in G. rewrite F in G. simpl in G.
  assert (P : existsb is_precond ks = true) by (apply existsb_exists; exists ClPrecond; auto).
  rewrite P, andb_true_r in G. rewrite G. reflexivity.
Qed.

Lemma loaded_not_success fx file c : ov_not_success_b c = true -> overrides_not_success (loaded fx file c).
Proof.
  unfold ov_not_success_b, overrides_not_success, loaded. intro H.
  repeat (apply andb_true_iff in H as [H ?]).
  repeat match goal with X : negb _ = true |- _ => apply negb_true_iff in X end.
  destruct (file && negb (fx4 fx)); simpl; auto 10.
Qed.

(** ** never a success status, at entry-point level *)
Lemma forallb_app_l {A} (f : A -> bool) l1 l2 : forallb f (l1 ++ l2) = true -> forallb f l1 = true /\ forallb f l2 = true.
Proof. rewrite forallb_app. apply andb_true_iff. Qed.

Lemma codes_not_success e : forallb (fun z => negb (success_like z)) (redirect_codes e) = true -> redirects_not_success e.
Proof.
  intros H z Hz. rewrite forallb_forall in H. apply H in Hz. apply negb_true_iff in Hz. exact Hz.
Qed.

Lemma x_exec_not_success h cause e :
  redirects_not_success cause ->
  match x_mech h with MRedirect code _ => success_like (redirect_status code) = false | _ => True end ->
  final_error (x_exec h cause) = Some e -> redirects_not_success e.
Proof.
  destruct h as [a m w]. unfold x_exec; simpl. intros Hc Hm.
  destruct m as [|code [url|]|realm]; destruct w; unfold final_error; simpl; intro E; inversion E; subst;
    try exact Hc; try (apply redirects_not_success_leaf; exact I);
    try (apply redirects_not_success_chain2; apply redirects_not_success_leaf; exact I).
  - intros z Hz. simpl in Hz. destruct Hz as [Hz|[]]. subst. exact Hm.
  - intros z Hz. simpl in Hz. destruct Hz as [Hz|[]]. subst. exact Hm.
Qed.

Lemma x_final_not_success proxy c sc e fc :
  hyp_never_success c sc = true -> x_scenario_error proxy sc = Some (Some e, fc) -> redirects_not_success e.
Proof.
  unfold hyp_never_success. intro H. apply andb_true_iff in H as [_ H].
  destruct sc as [hs cause|v|p]; simpl in *; try discriminate.
  - apply forallb_app_l in H as [Hc Hh]. apply codes_not_success in Hc.
    intro E. inversion E as [[E1 E2]]. clear E E2. revert E1.
    induction hs as [|h r IH]; simpl.
    + unfold final_error; simpl. intro E; inversion E; subst. exact Hc.
    + simpl in Hh. apply forallb_app_l in Hh as [H1 H2].
      destruct (x_applies h); [|apply IH; exact H2].
      apply x_exec_not_success; [exact Hc|].
      destruct (x_mech h); try exact I. simpl in H1. rewrite andb_true_r in H1. apply negb_true_iff in H1. exact H1.
  - destruct proxy; intro E; inversion E; subst. destruct p.
    + intros z Hz; simpl in Hz; contradiction.
    + intros z Hz; simpl in Hz; contradiction.
Qed.

Lemma x_panic_not_success c v : hyp_never_success c (XPanic v) = true ->
  match v with Some e => redirects_not_success e | None => True end.
Proof.
  unfold hyp_never_success. intro H. apply andb_true_iff in H as [_ H].
  destruct v as [e|]; [|exact I]. apply codes_not_success. exact H.
Qed.

(** ** the entry points: what holds always, and what holds outside C12-F2 / C12-F4 *)

Lemma ct_inv_oracle v o1 o2 h : o_neg_http o1 = o_neg_http o2 -> ct_inv v o1 h -> ct_inv v o2 h.
Proof. unfold ct_inv. intros E [H|H]; [left; exact H | right; rewrite <- E; exact H]. Qed.

(** what every HTTP answer to a failure satisfies, F2 or not *)
Definition hfinal_generic (hyp verbose : bool) (o : oracle) (f : hfinal) : Prop :=
  match f with
  | HFinal s h b =>
      (hyp = true -> success_like s = false) /\ h_www h = None /\
      (b = true -> verbose = true /\ exists m, h_ctype h = Some m /\ o_neg_http o = Some m)
  | HAbort => True
  | HPositive => False
  end.

Lemma http_recover_generic hyp c o v h0 :
  ct_inv (c_verbose c) o h0 -> h_www h0 = None ->
  (hyp = true -> overrides_not_success c /\ match v with Some e => redirects_not_success e | None => True end) ->
  hfinal_generic hyp (c_verbose c) o (http_recover c o v h0).
Proof.
  intros I W H. unfold http_recover.
  pose proof (http_handle_generic c (ne_always o) (recovered v) h0 (ct_inv_oracle _ o (ne_always o) h0 eq_refl I)) as G.
  destruct (http_handle c (ne_always o) (recovered v) h0) as [s h b|h] eqn:E; simpl; [|trivial].
  destruct G as (G1 & _ & G3). split; [|split].
  - intro Hy. destruct (H Hy) as [HO HV].
    pose proof (proj1 (never_success c (ne_always o) (recovered v) h0 HO (recovered_not_success v HV))) as N.
    rewrite E in N. exact N.
  - congruence.
  - exact G3.
Qed.

Lemma x_http_generic hyp proxy c o sc :
  (hyp = true -> overrides_not_success c) ->
  (hyp = true -> forall e fc, x_scenario_error proxy sc = Some (Some e, fc) -> redirects_not_success e) ->
  (hyp = true -> forall v, sc = XPanic v -> match v with Some e => redirects_not_success e | None => True end) ->
  match sc with XProxy _ => proxy = true | _ => True end ->
  hfinal_generic hyp (c_verbose c) o (x_http_respond proxy c o sc).
Proof.
  intros HO HE HP HX. unfold x_http_respond.
  destruct (x_scenario_error proxy sc) as [[[e|] fc]|] eqn:SE.
  - set (o' := if fc then o else ne_always o).
    assert (EO : o_neg_http o' = o_neg_http o) by (unfold o'; destruct fc; reflexivity).
    pose proof (http_handle_generic c o' e no_hdrs (ct_inv_no_hdrs _ _)) as G.
    destruct (http_handle c o' e no_hdrs) as [s h b|h] eqn:E.
    + destruct G as (G1 & _ & G3). simpl. split; [|split].
      * intro Hy. pose proof (proj1 (never_success c o' e no_hdrs (HO Hy) (HE Hy e fc eq_refl))) as N.
        rewrite E in N. exact N.
      * exact G1.
      * rewrite <- EO. exact G3.
    + destruct G as (G1 & G2). apply http_recover_generic.
      * apply (ct_inv_oracle _ o' o h EO G2).
      * exact G1.
      * intro Hy. split; [apply HO; exact Hy | exact I].
  - (* no error: only an XProxy scenario on a service that is not the proxy *)
    destruct sc as [hs cause|v|p]; simpl in SE; try discriminate.
    + inversion SE as [[E1 E2]]. destruct (run_handlers_final hs cause) as (e & E). congruence.
    + subst proxy. discriminate.
  - destruct sc as [hs cause|v|p]; simpl in SE; try discriminate.
    + apply http_recover_generic; [apply ct_inv_no_hdrs | reflexivity|].
      intro Hy. split; [apply HO; exact Hy | apply (HP Hy v eq_refl)].
    + destruct proxy; discriminate.
Qed.

Lemma existsb_false_In {A} (f : A -> bool) l x : existsb f l = false -> In x l -> f x = false.
Proof.
  intros H Hin. destruct (f x) eqn:E; [|reflexivity].
  assert (existsb f l = true) by (apply existsb_exists; eauto). congruence.
Qed.

(** outside C12-F2 every HTTP answer has the status and Location of an admissible kind *)
Lemma x_http_exact proxy c o sc :
  xguard_F2 c sc = false -> match sc with XProxy _ => proxy = true | _ => True end ->
  exists k s h b, x_http_respond proxy c o sc = HFinal s h b /\ In k (d_classes (demand_of sc)) /\
                  s = spec_status_of c k /\ h_location h = class_location k.
Proof.
  intros G HX. unfold xguard_F2 in G. unfold x_http_respond.
  destruct (x_scenario_error proxy sc) as [[[e|] fc]|] eqn:SE.
  - pose proof (x_error_class proxy sc e fc SE) as Hin.
    pose proof (existsb_false_In _ _ _ G Hin) as G2.
    destruct (http_kind_table c (if fc then o else ne_always o) e no_hdrs G2) as (h & b & E & L).
    rewrite E. exists (spec_class e), (spec_status c e), h, b. repeat split; try assumption.
    rewrite L. unfold spec_location. destruct (class_location (spec_class e)); reflexivity.
  - destruct sc as [hs cause|v|p]; simpl in SE; try discriminate.
    + inversion SE as [[E1 E2]]. destruct (run_handlers_final hs cause) as (e & E). congruence.
    + subst proxy. discriminate.
  - destruct sc as [hs cause|v|p]; simpl in SE; try discriminate; [|destruct proxy; discriminate].
    pose proof (x_panic_class v) as Hin.
    pose proof (existsb_false_In _ _ _ G Hin) as G2.
    unfold http_recover.
    destruct (http_kind_table c (ne_always o) (recovered v) no_hdrs G2) as (h & b & E & L).
    rewrite E. exists (spec_class (recovered v)), (spec_status c (recovered v)), h, b. repeat split; try assumption.
    rewrite L. unfold spec_location. destruct (class_location (spec_class (recovered v))); reflexivity.
Qed.

(** the same for the Envoy gRPC service *)
Definition gfinal_generic (hyp verbose : bool) (o : oracle) (g : gfinal) : Prop :=
  match g with
  | GDenied d =>
      (hyp = true -> success_like (g_status d) = false) /\ g_code d <> GOk /\ h_www (g_hdrs d) = None /\
      (g_body d = true -> verbose = true /\
         exists m, h_ctype (g_hdrs d) = Some m /\ (o_neg_grpc o = Some m \/ (o_neg_grpc o = None /\ m = Html)))
  | GStatusErr c => c <> GOk
  | GPositive => False
  end.

Lemma x_grpc_generic hyp c o sc :
  (hyp = true -> overrides_not_success c) ->
  (hyp = true -> forall e fc, x_scenario_error false sc = Some (Some e, fc) -> redirects_not_success e) ->
  match sc with XProxy _ => False | _ => True end ->
  gfinal_generic hyp (c_verbose c) o (x_grpc_respond c o sc).
Proof.
  intros HO HE HX. unfold x_grpc_respond.
  destruct (x_scenario_error false sc) as [[[e|] fc]|] eqn:SE; simpl.
  - set (o' := if fc then o else ne_always o).
    assert (EO : o_neg_grpc o' = o_neg_grpc o) by (unfold o'; destruct fc; reflexivity).
    destruct (grpc_handle c o' e) as [d|] eqn:E; simpl; [|discriminate].
    destruct (grpc_handle_generic c o' e d E) as (G1 & G2 & G3).
    split; [|split; [exact G1 | split; [exact G2 | rewrite <- EO; exact G3]]].
    intro Hy. pose proof (proj2 (never_success c o' e no_hdrs (HO Hy) (HE Hy e fc eq_refl))) as N.
    rewrite E in N. apply N.
  - destruct sc as [hs cause|v|p]; simpl in SE; try discriminate; [|contradiction].
    inversion SE as [[E1 E2]]. destruct (run_handlers_final hs cause) as (e & E). congruence.
  - discriminate.
Qed.

Lemma x_grpc_exact c o sc :
  xguard_F2 c sc = false -> match sc with XFail _ _ => True | _ => False end ->
  exists k d, x_grpc_respond c o sc = GDenied d /\ In k (d_classes (demand_of sc)) /\
              g_status d = spec_status_of c k /\ h_location (g_hdrs d) = class_location k.
Proof.
  intros G HX. unfold xguard_F2 in G. unfold x_grpc_respond.
  destruct sc as [hs cause|v|p]; try contradiction.
  destruct (x_scenario_error false (XFail hs cause)) as [[[e|] fc]|] eqn:SE.
  - pose proof (x_error_class false _ e fc SE) as Hin.
    pose proof (existsb_false_In _ _ _ G Hin) as G2.
    destruct (grpc_kind_table c (if fc then o else ne_always o) e G2) as (d & E & S & _ & L).
    rewrite E. exists (spec_class e), d. repeat split; assumption.
  - simpl in SE. inversion SE as [[E1 E2]]. destruct (run_handlers_final hs cause) as (e & E). congruence.
  - simpl in SE. discriminate.
Qed.

(** ** the challenge of a www_authenticate handler names the configured realm *)
Lemma x_challenge_names sc realm :
  d_realm (demand_of sc) = Some realm ->
  exists v, x_challenge sc = Some v /\ x_challenges sc = [v] /\ contains realm v = true.
Proof.
  destruct sc as [hs cause|v|[|]]; simpl; try discriminate.
  induction hs as [|h r IH]; simpl; [discriminate|].
  destruct (x_applies h) eqn:A; [|exact IH].
  simpl. unfold handler_realm, x_exec. destruct h as [a m w]; simpl.
  destruct m as [|code [url|]|rlm]; try discriminate.
  destruct w as [|r']; simpl; intro E; inversion E; subst realm; clear E.
  - eexists; split; [reflexivity|]. split; [reflexivity|].
    destruct (String.length rlm =? 0)%nat eqn:L.
    + destruct rlm; [apply contains_empty | discriminate].
    + exact (contains_suffix rlm "Basic realm=").
  - eexists; split; [reflexivity|]. split; [reflexivity|]. exact (contains_suffix r' "Basic realm=").
Qed.

Lemma x_challenge_none sc : d_realm (demand_of sc) = None -> x_challenges sc = [] .
Proof.
  destruct sc as [hs cause|v|p]; simpl; try reflexivity.
  induction hs as [|h r IH]; simpl; [reflexivity|].
  destruct (x_applies h) eqn:A; [|exact IH].
  simpl. unfold handler_realm, x_exec. destruct h as [a m w]; simpl.
  destruct m as [|code [url|]|rlm]; destruct w; simpl; try reflexivity; discriminate.
Qed.

(** ** the entry points meet the specification *)

(** the clauses the open findings break on an input (nothing is waived outside their guards) *)
Definition xwaiver (fx : fixes) (from_file : bool) (c : cfg) (sc : xscenario) : waiver :=
  {| w_status := xguard_F2 (loaded fx from_file c) sc || xguard_F4 fx from_file c (d_classes (demand_of sc));
     w_www := xguard_F1 fx sc |}.

Lemma allowed_of_oracle_http nv o m : oracle_ok nv o = true -> o_neg_http o = Some m -> allowed nv (CtKnown m) = true.
Proof. unfold oracle_ok. intros H E. rewrite E in H. apply andb_true_iff in H as [H _]. exact H. Qed.

Lemma allowed_of_oracle_grpc nv o m : oracle_ok nv o = true ->
  (o_neg_grpc o = Some m \/ (o_neg_grpc o = None /\ m = Html)) -> allowed nv (CtKnown m) = true.
Proof.
  unfold oracle_ok. intros H E. apply andb_true_iff in H as [_ H].
  destruct E as [E|[E ->]]; rewrite E in H; exact H.
Qed.

Lemma with_www_fields w h :
  h_location (with_www w h) = h_location h /\ h_ctype (with_www w h) = h_ctype h /\
  h_www (with_www w h) = match w with Some v => Some v | None => h_www h end.
Proof. destruct w; simpl; auto. Qed.

Lemma with_www_loc w h : h_location (with_www w h) = h_location h.
Proof. destruct w; reflexivity. Qed.

Lemma reply_ok_w_intro w c nv hyp d s h b :
  (w_status w = false -> exists k, In k (d_classes d) /\ s = spec_status_of c k /\ h_location h = class_location k) ->
  (hyp = true -> success_like s = false) ->
  (b = true -> c_verbose c = true /\ exists m, h_ctype h = Some m /\ allowed nv (CtKnown m) = true) ->
  (w_www w = false -> forall realm, d_realm d = Some realm -> exists v, h_www h = Some v /\ contains realm v = true) ->
  reply_ok_w w c nv hyp d (reply_of s h b) = true.
Proof.
  intros H1 H2 H3 H4. unfold reply_ok_w, reply_of; simpl.
  apply andb_true_iff; split; [apply andb_true_iff; split; [apply andb_true_iff; split|]|].
  - destruct (w_status w); [reflexivity|]. simpl.
    destruct (H1 eq_refl) as (k & Hin & Hs & Hl). apply existsb_exists. exists k. split; [exact Hin|].
    unfold class_ok; simpl. subst s. rewrite Z.eqb_refl, Hl. simpl. apply option_eqb_str_refl.
  - destruct hyp; [|reflexivity]. simpl. rewrite (H2 eq_refl). reflexivity.
  - destruct b; [|reflexivity]. simpl. destruct (H3 eq_refl) as (V & m & Hm & A).
    rewrite V, Hm, A. reflexivity.
  - destruct (w_www w); [reflexivity|]. simpl.
    destruct (d_realm d) as [realm|]; [|reflexivity].
    destruct (H4 eq_refl realm eq_refl) as (v & Hv & Cv). rewrite Hv. exact Cv.
Qed.

Lemma hyp_parts c sc : hyp_never_success c sc = true -> ov_not_success_b c = true.
Proof. unfold hyp_never_success. intro H. apply andb_true_iff in H as [H _]. exact H. Qed.

Lemma fx1_of_guard fx sc realm : xguard_F1 fx sc = false -> d_realm (demand_of sc) = Some realm -> fx1 fx = true.
Proof. unfold xguard_F1. intros G E. rewrite E in G. destruct (fx1 fx); [reflexivity | discriminate]. Qed.

(** decision and proxy service: on EVERY input the answer satisfies every clause of the
    statement that no open finding breaks there ([xwaiver]); outside the guards, all of them *)
Theorem http_entry_meets_spec fx proxy file c o nv sc :
  oracle_ok nv o = true -> match sc with XProxy _ => proxy = true | _ => True end ->
  seen_ok_w (xwaiver fx file c sc) c nv (hyp_never_success c sc) (demand_of sc)
            (seen_of_hfinal (entry_http fx proxy file c o sc)) = true.
Proof.
  intros OK HX.
  set (c' := loaded fx file c). set (hyp := hyp_never_success c sc).
  assert (G : hfinal_generic hyp (c_verbose c') o (x_http_respond proxy c' o sc)).
  { apply x_http_generic; try exact HX.
    - intro Hy. apply loaded_not_success. apply (hyp_parts c sc Hy).
    - intros Hy e fc SE. apply (x_final_not_success proxy c sc e fc Hy SE).
    - intros Hy v ->. apply (x_panic_not_success c v Hy). }
  assert (EX : w_status (xwaiver fx file c sc) = false ->
    exists k s h b, x_http_respond proxy c' o sc = HFinal s h b /\ In k (d_classes (demand_of sc)) /\
                    s = spec_status_of c k /\ h_location h = class_location k).
  { simpl. intro W. apply orb_false_iff in W as [W2 W4].
    destruct (x_http_exact proxy c' o sc W2 HX) as (k & s & h & b & E & Hin & Hs & Hl).
    exists k, s, h, b. repeat split; try assumption.
    rewrite Hs. apply (loaded_status fx file c _ k Hin W4). }
  unfold entry_http. fold c'.
  destruct (x_http_respond proxy c' o sc) as [s h b| |] eqn:R; simpl.
  - destruct G as (G1 & G2 & G3).
    set (h2 := if fx1 fx then with_www (x_challenge sc) h else h).
    assert (F : h_location h2 = h_location h /\ h_ctype h2 = h_ctype h).
    { unfold h2. destruct (fx1 fx); [|auto]. destruct (with_www_fields (x_challenge sc) h) as (A & B & _). auto. }
    destruct F as [FL FC].
    apply reply_ok_w_intro.
    + intro W. destruct (EX W) as (k & s0 & h0 & b0 & E & Hin & Hs & Hl). inversion E; subst s0 h0 b0.
      exists k. repeat split; try assumption. rewrite FL. exact Hl.
    + exact G1.
    + intro Hb. destruct (G3 Hb) as (V & m & Hm & N). split; [rewrite <- (loaded_verbose fx file c); exact V|].
      exists m. split; [rewrite FC; exact Hm | apply (allowed_of_oracle_http nv o m OK N)].
    + simpl. intros W realm E. pose proof (fx1_of_guard fx sc realm W E) as F1.
      destruct (x_challenge_names sc realm E) as (v & Cv & _ & Nv).
      exists v. split; [|exact Nv]. unfold h2. rewrite F1, Cv. reflexivity.
  - destruct (w_status (xwaiver fx file c sc)) eqn:W.
    + simpl in W. rewrite W. apply orb_true_r.
    + destruct (EX eq_refl) as (k & s0 & h0 & b0 & E & _). discriminate.
  - contradiction.
Qed.

Lemma gcode_eqb_neq g : g <> GOk -> gcode_eqb g GOk = false.
Proof. destruct g; simpl; intro H; try reflexivity. contradiction. Qed.

(** the Envoy gRPC service *)
Theorem grpc_entry_meets_spec fx file c o nv sc :
  oracle_ok nv o = true -> match sc with XProxy _ => False | _ => True end ->
  seen_ok_w (xwaiver fx file c sc) c nv (hyp_never_success c sc) (demand_of sc)
            (seen_of_gfinal (entry_grpc fx file c o sc)) = true.
Proof.
  intros OK HX.
  set (c' := loaded fx file c). set (hyp := hyp_never_success c sc).
  assert (G : gfinal_generic hyp (c_verbose c') o (x_grpc_respond c' o sc)).
  { apply x_grpc_generic; try exact HX.
    - intro Hy. apply loaded_not_success. apply (hyp_parts c sc Hy).
    - intros Hy e fc SE. apply (x_final_not_success false c sc e fc Hy SE). }
  assert (EX : w_status (xwaiver fx file c sc) = false -> match sc with XFail _ _ => True | _ => False end ->
    exists k d, x_grpc_respond c' o sc = GDenied d /\ In k (d_classes (demand_of sc)) /\
                g_status d = spec_status_of c k /\ h_location (g_hdrs d) = class_location k).
  { simpl. intros W HF. apply orb_false_iff in W as [W2 W4].
    destruct (x_grpc_exact c' o sc W2 HF) as (k & d & E & Hin & Hs & Hl).
    exists k, d. repeat split; try assumption.
    rewrite Hs. apply (loaded_status fx file c _ k Hin W4). }
  unfold entry_grpc. fold c'.
  destruct (x_grpc_respond c' o sc) as [d|g|] eqn:R.
  - destruct G as (G1 & G2 & G3 & G4).
    assert (XF : match sc with XFail _ _ => True | _ => False end).
    { destruct sc as [hs cause|v|p]; [exact I | | contradiction]. unfold x_grpc_respond in R. simpl in R. discriminate. }
    set (h2 := if fx1 fx then with_www (x_challenge sc) (g_hdrs d) else g_hdrs d).
    assert (F : h_location h2 = h_location (g_hdrs d) /\ h_ctype h2 = h_ctype (g_hdrs d)).
    { unfold h2. destruct (fx1 fx); [|auto]. destruct (with_www_fields (x_challenge sc) (g_hdrs d)) as (A & B & _). auto. }
    destruct F as [FL FC].
    assert (S : seen_of_gfinal (GDenied (if fx1 fx
                   then {| g_code := g_code d; g_status := g_status d; g_hdrs := with_www (x_challenge sc) (g_hdrs d); g_body := g_body d |}
                   else d)) = SReply (reply_of (g_status d) h2 (g_body d))).
    { unfold seen_of_gfinal, seen_of_gdenied, h2. destruct (fx1 fx); simpl; rewrite (gcode_eqb_neq _ G2); reflexivity. }
    rewrite S. unfold seen_ok_w.
    apply reply_ok_w_intro.
    + intro W. destruct (EX W XF) as (k & d0 & E & Hin & Hs & Hl). inversion E; subst d0.
      exists k. repeat split; try assumption. rewrite FL. exact Hl.
    + exact G1.
    + intro Hb. destruct (G4 Hb) as (V & m & Hm & N). split; [rewrite <- (loaded_verbose fx file c); exact V|].
      exists m. split; [rewrite FC; exact Hm | apply (allowed_of_oracle_grpc nv o m OK N)].
    + intros W realm E. pose proof (fx1_of_guard fx sc realm W E) as F1.
      destruct (x_challenge_names sc realm E) as (v & Cv & _ & Nv).
      exists v. split; [|exact Nv]. unfold h2. rewrite F1, Cv. reflexivity.
  - simpl in G. unfold seen_of_gfinal. rewrite (gcode_eqb_neq _ G). unfold seen_ok_w.
    destruct (w_status (xwaiver fx file c sc)) eqn:W; [apply orb_true_r|].
    destruct sc as [hs cause|v|p]; [|reflexivity | contradiction].
    destruct (EX eq_refl I) as (k & d0 & E & _). discriminate.
  - contradiction.
Qed.

(** ** the two translators on an error value itself (same statement, one level down) *)
Definition twaiver (fx : fixes) (from_file : bool) (c : cfg) (e : err) : waiver :=
  {| w_status := guard_F2 (loaded fx from_file c) e || xguard_F4 fx from_file c [spec_class e]; w_www := false |}.

Definition tdemand (e : err) : demand := {| d_classes := [spec_class e]; d_realm := None; d_hard := false |}.

Definition thyp (c : cfg) (e : err) : bool :=
  ov_not_success_b c && forallb (fun z => negb (success_like z)) (redirect_codes e).

Lemma thyp_parts fx file c e : thyp c e = true -> overrides_not_success (loaded fx file c) /\ redirects_not_success e.
Proof.
  unfold thyp. intro H. apply andb_true_iff in H as [H1 H2].
  split; [apply loaded_not_success; exact H1 | apply codes_not_success; exact H2].
Qed.

Theorem http_translator_meets_spec fx file c o nv e :
  oracle_ok nv o = true ->
  seen_ok_w (twaiver fx file c e) c nv (thyp c e) (tdemand e)
            (seen_of_hresp (http_handle (loaded fx file c) o e no_hdrs)) = true.
Proof.
  intro OK. set (c' := loaded fx file c).
  pose proof (http_handle_generic c' o e no_hdrs (ct_inv_no_hdrs _ _)) as G.
  assert (EX : w_status (twaiver fx file c e) = false ->
    exists h b, http_handle c' o e no_hdrs = HResp (spec_status_of c (spec_class e)) h b /\
                h_location h = class_location (spec_class e)).
  { simpl. intro W. apply orb_false_iff in W as [W2 W4].
    destruct (http_kind_table c' o e no_hdrs W2) as (h & b & E & L).
    exists h, b. split.
    - rewrite E. unfold spec_status. f_equal. apply (loaded_status fx file c [spec_class e]); [left; reflexivity | exact W4].
    - rewrite L. unfold spec_location. destruct (class_location (spec_class e)); reflexivity. }
  destruct (http_handle c' o e no_hdrs) as [s h b|h] eqn:R; simpl.
  - destruct G as (G1 & _ & G3). apply reply_ok_w_intro.
    + intro W. destruct (EX W) as (h0 & b0 & E & L). inversion E; subst.
      exists (spec_class e). split; [left; reflexivity | split; [reflexivity | exact L]].
    + intro Hy. destruct (thyp_parts fx file c e Hy) as [HO HR].
      pose proof (proj1 (never_success c' o e no_hdrs HO HR)) as N. fold c' in N. rewrite R in N. exact N.
    + intro Hb. destruct (G3 Hb) as (V & m & Hm & N). split; [rewrite <- (loaded_verbose fx file c); exact V|].
      exists m. split; [exact Hm | apply (allowed_of_oracle_http nv o m OK N)].
    + simpl. intros _ realm E. discriminate.
  - destruct (w_status (twaiver fx file c e)) eqn:W; [simpl in W; rewrite W; reflexivity|].
    destruct (EX eq_refl) as (h0 & b0 & E & _). discriminate.
Qed.

Theorem grpc_translator_meets_spec fx file c o nv e :
  oracle_ok nv o = true ->
  seen_ok_w (twaiver fx file c e) c nv (thyp c e) (tdemand e)
            (seen_of_ghandle (grpc_handle (loaded fx file c) o e)) = true.
Proof.
  intro OK. set (c' := loaded fx file c).
  assert (EX : w_status (twaiver fx file c e) = false ->
    exists d, grpc_handle c' o e = Some d /\ g_status d = spec_status_of c (spec_class e) /\
              h_location (g_hdrs d) = class_location (spec_class e)).
  { simpl. intro W. apply orb_false_iff in W as [W2 W4].
    destruct (grpc_kind_table c' o e W2) as (d & E & S & _ & L).
    exists d. repeat split; try assumption.
    rewrite S. unfold spec_status. apply (loaded_status fx file c [spec_class e]); [left; reflexivity | exact W4]. }
  destruct (grpc_handle c' o e) as [d|] eqn:R; simpl.
  - destruct (grpc_handle_generic c' o e d R) as (G2 & G3 & G4).
    unfold seen_of_gdenied. rewrite (gcode_eqb_neq _ G2). simpl.
    apply reply_ok_w_intro.
    + intro W. destruct (EX W) as (d0 & E & S & L). inversion E; subst d0.
      exists (spec_class e). split; [left; reflexivity | split; assumption].
    + intro Hy. destruct (thyp_parts fx file c e Hy) as [HO HR].
      pose proof (proj2 (never_success c' o e no_hdrs HO HR)) as N. fold c' in N. rewrite R in N. apply N.
    + intro Hb. destruct (G4 Hb) as (V & m & Hm & N). split; [rewrite <- (loaded_verbose fx file c); exact V|].
      exists m. split; [exact Hm | apply (allowed_of_oracle_grpc nv o m OK N)].
    + simpl. intros _ realm E. discriminate.
  - destruct (w_status (twaiver fx file c e)) eqn:W; [simpl in W; rewrite W; reflexivity|].
    destruct (EX eq_refl) as (d0 & E & _). discriminate.
Qed.

(** ** "identically by the HTTP services and the Envoy gRPC service" (outside C12-F2) *)
Theorem translators_same c o e :
  guard_F2 c e = false ->
  same_reply (seen_of_hresp (http_handle c o e no_hdrs)) (seen_of_ghandle (grpc_handle c o e)) = true.
Proof.
  intro G. destruct (kind_table c o e G) as ((h & b & E & L) & (d & Ed & S & Gc & Ld)).
  rewrite E, Ed. simpl. unfold seen_of_gdenied.
  destruct (gcode_eqb (g_code d) GOk); [reflexivity|]. simpl.
  rewrite S, Z.eqb_refl, L, Ld. simpl. apply option_eqb_str_refl.
Qed.

Lemma demand_single_fail hs cause : exists k, d_classes (demand_of (XFail hs cause)) = [k].
Proof. simpl. destruct (first_applicable hs); simpl; eauto. Qed.

Theorem entries_same fx proxy file c o sc :
  xguard_F2 (loaded fx file c) sc = false -> match sc with XProxy _ => False | _ => True end ->
  same_reply (seen_of_hfinal (entry_http fx proxy file c o sc)) (seen_of_gfinal (entry_grpc fx file c o sc)) = true /\
  entry_http fx true file c o sc = entry_http fx false file c o sc.
Proof.
  intros G HX. split.
  - destruct sc as [hs cause|v|p]; [| |contradiction].
    + destruct (x_http_exact proxy (loaded fx file c) o (XFail hs cause) G I) as (k & s & h & b & E & Hin & Hs & Hl).
      destruct (x_grpc_exact (loaded fx file c) o (XFail hs cause) G I) as (k' & d & E' & Hin' & Hs' & Hl').
      destruct (demand_single_fail hs cause) as (k0 & K). rewrite K in Hin, Hin'.
      destruct Hin as [<-|[]]. destruct Hin' as [<-|[]].
      unfold entry_http, entry_grpc. rewrite E, E'.
      remember (if fx1 fx then with_www (x_challenge (XFail hs cause)) h else h) as hh eqn:Hh.
      remember (if fx1 fx
                then {| g_code := g_code d; g_status := g_status d;
                        g_hdrs := with_www (x_challenge (XFail hs cause)) (g_hdrs d); g_body := g_body d |}
                else d) as dd eqn:Hd.
      assert (L : h_location hh = h_location (g_hdrs dd)).
      { subst hh dd. destruct (fx1 fx); simpl; [rewrite !with_www_loc|]; congruence. }
      assert (S : g_status dd = s) by (subst dd; destruct (fx1 fx); simpl; congruence).
      clear Hh Hd. simpl. unfold seen_of_gdenied.
      destruct (gcode_eqb (g_code dd) GOk); [reflexivity|]. simpl.
      rewrite L, S, Z.eqb_refl. simpl. apply option_eqb_str_refl.
    + unfold entry_grpc, x_grpc_respond. simpl.
      destruct (seen_of_hfinal (entry_http fx proxy file c o (XPanic v))); reflexivity.
  - destruct sc as [hs cause|v|p]; [reflexivity | reflexivity | contradiction].
Qed.

(** ** corollaries in the form of DESIGN 4: outside the guards, the full statement *)
Theorem entry_points_meet_spec fx file c o nv sc :
  oracle_ok nv o = true ->
  xguard_F1 fx sc = false -> xguard_F2 (loaded fx file c) sc = false ->
  xguard_F4 fx file c (d_classes (demand_of sc)) = false ->
  (forall proxy, match sc with XProxy _ => proxy = true | _ => True end ->
     seen_ok c nv (hyp_never_success c sc) (demand_of sc) (seen_of_hfinal (entry_http fx proxy file c o sc)) = true) /\
  match sc with
  | XProxy _ => True
  | _ => seen_ok c nv (hyp_never_success c sc) (demand_of sc) (seen_of_gfinal (entry_grpc fx file c o sc)) = true /\
         (forall proxy, same_reply (seen_of_hfinal (entry_http fx proxy file c o sc))
                                   (seen_of_gfinal (entry_grpc fx file c o sc)) = true) /\
         entry_http fx true file c o sc = entry_http fx false file c o sc
  end.
Proof.
  intros OK G1 G2 G4.
  assert (W : xwaiver fx file c sc = no_waiver) by (unfold xwaiver; rewrite G1, G2, G4; reflexivity).
  split.
  - intros proxy HX. unfold seen_ok. rewrite <- W. apply http_entry_meets_spec; assumption.
  - destruct sc as [hs cause|v|p]; [| |exact I].
    + split; [unfold seen_ok; rewrite <- W; apply grpc_entry_meets_spec; [assumption | exact I]|].
      split; [intro proxy; apply (entries_same fx proxy file c o _ G2 I) | apply (entries_same fx false file c o _ G2 I)].
    + split; [unfold seen_ok; rewrite <- W; apply grpc_entry_meets_spec; [assumption | exact I]|].
      split; [intro proxy; apply (entries_same fx proxy file c o _ G2 I) | apply (entries_same fx false file c o _ G2 I)].
Qed.

(** the handler list of a rule never swallows a failure, and what it leaves is of the demanded kind *)
Theorem handlers_never_swallow hs cause :
  exists e, final_error (run_handlers hs cause) = Some e /\
            d_classes (demand_of (XFail hs cause)) = [spec_class e].
Proof.
  destruct (run_handlers_final hs cause) as (e & E). exists e. split; [exact E|].
  rewrite (run_handlers_class hs cause e E). simpl. destruct (first_applicable hs); reflexivity.
Qed.

(** ** the entry-point level model extends the one of C12/Model.v (on which C01 builds) *)
Theorem stack_extends_model c o sc :
  x_http_respond false c o (x_of sc) = http_respond c o sc /\
  x_http_respond true c o (x_of sc) = http_respond c o sc /\
  x_grpc_respond c o (x_of sc) = grpc_respond c o sc.
Proof.
  destruct sc as [e|m cause|v]; simpl.
  - repeat split; reflexivity.
  - unfold x_http_respond, x_grpc_respond, http_respond, grpc_respond. simpl.
    unfold x_exec. simpl. destruct m as [|code to|realm]; repeat split; reflexivity.
  - repeat split; reflexivity.
Qed.

(** ** C12-F4 (repaired by ed62adc): the pinned behaviour, and that the guard was needed *)
Definition f4_cfg := {| c_verbose := false; ov_authn := 0; ov_authz := 0; ov_comm := 0; ov_precond := 418;
                        ov_norule := 0; ov_internal := 0 |}.
Definition free_view := {| nv_free := true; nv_allowed := []; nv_other := [] |}.
Definition f4_sc := XFail [] (Chain [Sentinel KArgument] false).
Definition unrepaired := {| fx1 := false; fx4 := false |}.

Theorem F4_pinned_refuted :
  xguard_F4 unrepaired true f4_cfg (d_classes (demand_of f4_sc)) = true /\
  xguard_F1 unrepaired f4_sc = false /\ xguard_F2 (loaded unrepaired true f4_cfg) f4_sc = false /\
  oracle_ok free_view any_oracle = true /\
  seen_ok f4_cfg free_view (hyp_never_success f4_cfg f4_sc) (demand_of f4_sc)
          (seen_of_hfinal (entry_http unrepaired false true f4_cfg any_oracle f4_sc)) = false /\
  seen_ok f4_cfg free_view (hyp_never_success f4_cfg f4_sc) (demand_of f4_sc)
          (seen_of_gfinal (entry_grpc unrepaired true f4_cfg any_oracle f4_sc)) = false /\
  (* the configuration struct filled directly, or the repaired loader: 418 *)
  seen_ok f4_cfg free_view (hyp_never_success f4_cfg f4_sc) (demand_of f4_sc)
          (seen_of_hfinal (entry_http unrepaired false false f4_cfg any_oracle f4_sc)) = true /\
  seen_ok f4_cfg free_view (hyp_never_success f4_cfg f4_sc) (demand_of f4_sc)
          (seen_of_hfinal (entry_http {| fx1 := false; fx4 := true |} false true f4_cfg any_oracle f4_sc)) = true.
Proof. vm_compute. repeat split; reflexivity. Qed.



(** the tree as it is: C12-F4 repaired (ed62adc), C12-F1 open *)
Definition as_is := {| fx1 := false; fx4 := true |}.

Lemma xguard_F4_repaired fx file c ks : fx4 fx = true -> xguard_F4 fx file c ks = false.
Proof. unfold xguard_F4. intros ->. simpl. rewrite andb_false_r. reflexivity. Qed.

Lemma loaded_repaired fx file c : fx4 fx = true -> loaded fx file c = c.
Proof. unfold loaded. intros ->. rewrite andb_false_r. reflexivity. Qed.

Theorem entry_points_meet_spec_as_is file c o nv sc :
  oracle_ok nv o = true -> xguard_F1 as_is sc = false -> xguard_F2 c sc = false ->
  (forall proxy, match sc with XProxy _ => proxy = true | _ => True end ->
     seen_ok c nv (hyp_never_success c sc) (demand_of sc) (seen_of_hfinal (entry_http as_is proxy file c o sc)) = true) /\
  match sc with
  | XProxy _ => True
  | _ => seen_ok c nv (hyp_never_success c sc) (demand_of sc) (seen_of_gfinal (entry_grpc as_is file c o sc)) = true /\
         (forall proxy, same_reply (seen_of_hfinal (entry_http as_is proxy file c o sc))
                                   (seen_of_gfinal (entry_grpc as_is file c o sc)) = true) /\
         entry_http as_is true file c o sc = entry_http as_is false file c o sc
  end.
Proof.
  intros OK G1 G2. apply entry_points_meet_spec; try assumption.
  - rewrite loaded_repaired; [exact G2 | reflexivity].
  - apply xguard_F4_repaired. reflexivity.
Qed.

(** ** C12-F1 (open): the guard is needed, stated with the specification of the main theorem.  A failure
    handled by a www_authenticate handler with realm "r", the tree as it is: the guard fires, no other
    does, and the answers of the HTTP services and of the Envoy service do not satisfy [seen_ok] (the
    WWW-Authenticate header is missing); with the repair (fx1 = true) they do *)
Definition zero_cfg := {| c_verbose := false; ov_authn := 0; ov_authz := 0; ov_comm := 0; ov_precond := 0;
                          ov_norule := 0; ov_internal := 0 |}.
Definition f1_sc := XFail [{| x_applies := true; x_mech := MWWW "r"; x_conf := WcNone |}] (Sentinel KAuthorization).
Definition repaired := {| fx1 := true; fx4 := true |}.

Theorem F1_refuted_spec :
  xguard_F1 as_is f1_sc = true /\ xguard_F2 zero_cfg f1_sc = false /\
  xguard_F4 as_is false zero_cfg (d_classes (demand_of f1_sc)) = false /\
  oracle_ok free_view any_oracle = true /\
  seen_ok zero_cfg free_view (hyp_never_success zero_cfg f1_sc) (demand_of f1_sc)
          (seen_of_hfinal (entry_http as_is false false zero_cfg any_oracle f1_sc)) = false /\
  seen_ok zero_cfg free_view (hyp_never_success zero_cfg f1_sc) (demand_of f1_sc)
          (seen_of_hfinal (entry_http as_is true false zero_cfg any_oracle f1_sc)) = false /\
  seen_ok zero_cfg free_view (hyp_never_success zero_cfg f1_sc) (demand_of f1_sc)
          (seen_of_gfinal (entry_grpc as_is false zero_cfg any_oracle f1_sc)) = false /\
  (* everything but the challenge clause holds there (what C12_entry_points_inside_guards says in general) *)
  seen_ok_w (xwaiver as_is false zero_cfg f1_sc) zero_cfg free_view (hyp_never_success zero_cfg f1_sc) (demand_of f1_sc)
          (seen_of_hfinal (entry_http as_is false false zero_cfg any_oracle f1_sc)) = true /\
  xwaiver as_is false zero_cfg f1_sc = {| w_status := false; w_www := true |} /\
  (* with fixes/C12-F1.diff *)
  seen_ok zero_cfg free_view (hyp_never_success zero_cfg f1_sc) (demand_of f1_sc)
          (seen_of_hfinal (entry_http repaired false false zero_cfg any_oracle f1_sc)) = true /\
  seen_ok zero_cfg free_view (hyp_never_success zero_cfg f1_sc) (demand_of f1_sc)
          (seen_of_gfinal (entry_grpc repaired false zero_cfg any_oracle f1_sc)) = true.
Proof. vm_compute. repeat split; reflexivity. Qed.

(** the hypotheses of [entry_points_meet_spec_as_is] are satisfiable by a non-trivial input: a rule whose
    first handler (www_authenticate, condition false) does not apply and whose second one redirects,
    configuration from a file, an authorization failure wrapped three levels deep, an Accept header that
    admits text/html only and an oracle that negotiates it *)
Definition html_oracle :=
  ne_always {| o_neg_http := Some Html; o_neg_grpc := Some Html; o_json_ne := true; o_xml_ne := true; o_plain_ne := true |}.

Example nonvacuous_entry :
  let c := {| c_verbose := true; ov_authn := 0; ov_authz := 470; ov_comm := 0; ov_precond := 0;
              ov_norule := 0; ov_internal := 503 |} in
  let cause := Chain [Sentinel KInternal; WrapW (JoinW [Foreign 5%nat; Chain [Sentinel KAuthorization] true])] false in
  let sc := XFail [ {| x_applies := false; x_mech := MWWW "r"; x_conf := WcNone |};
                    {| x_applies := true; x_mech := MRedirect 307 (Some "http://idp/login"%string); x_conf := WcNone |} ] cause in
  let nv := {| nv_free := false; nv_allowed := [Html]; nv_other := [] |} in
  oracle_ok nv html_oracle = true /\ oracle_ok nv any_oracle = false /\
  xguard_F1 as_is sc = false /\ xguard_F2 c sc = false /\
  demand_of sc = {| d_classes := [ClRedirect 307 "http://idp/login"]; d_realm := None; d_hard := false |} /\
  entry_http as_is true true c html_oracle sc =
    HFinal 307 {| h_location := Some "http://idp/login"%string; h_www := None; h_ctype := None |} false.
Proof. vm_compute. repeat split; reflexivity. Qed.
