(** C12 — the entry-point level model (C12/Stack.v) meets the specification
    (C12/Spec.v) outside the guards of the recorded findings. *)
From HV Require Import Base.Prelude Base.ErrChain C12.Model C12.Inputs C12.Spec C12.Stack C12.Proofs.
Local Open Scope Z_scope.

(** ** what a client sees of the model's outputs *)

(** a body, when the model sends one, is the rendering of the failure (it carries the
    details) and is well-formed for its type (rendering is an oracle, see the trusted base) *)
Definition reply_of (s : Z) (h : hdrs) (b : bool) : reply :=
  {| r_status := s; r_loc := h_location h; r_www := h_www h;
     r_ct := match h_ctype h with Some m => CtKnown m | None => CtNone end;
     r_body := b; r_details := b; r_wf := true |}.

Definition seen_of_hresp (r : hresp) : seen :=
  match r with HResp s h b => SReply (reply_of s h b) | HPanic _ => SNoResponse end.

Definition seen_of_gdenied (d : gdenied) : seen :=
  if gcode_eqb (g_code d) GOk then SSuccess else SReply (reply_of (g_status d) (g_hdrs d) (g_body d)).

Definition seen_of_ghandle (r : option gdenied) : seen :=
  match r with Some d => seen_of_gdenied d | None => SNoResponse end.

Definition seen_of_hfinal (f : hfinal) : seen :=
  match f with HFinal s h b => SReply (reply_of s h b) | HAbort => SNoResponse | HPositive => SSuccess end.

Definition seen_of_gfinal (g : gfinal) : seen :=
  match g with
  | GDenied d => seen_of_gdenied d
  | GStatusErr c => if gcode_eqb c GOk then SSuccess else SNoResponse
  | GPositive => SSuccess
  end.

(** the negotiation oracle is sane: what the translators negotiate (observed on a probe
    request) is a type the Accept header admits *)
Definition oracle_ok (nv : negview) (o : oracle) : bool :=
  match o_neg_http o with Some m => allowed nv (CtKnown m) | None => true end &&
  match o_neg_grpc o with Some m => allowed nv (CtKnown m) | None => allowed nv (CtKnown Html) end.

(** ** guards of the findings at entry-point level *)

(** C12-F1: a WWW-Authenticate header is demanded (unless the tree contains the repair) *)
Definition xguard_F1 (fx : fixes) (sc : xscenario) : bool :=
  negb (fx1 fx) && match d_realm (demand_of sc) with Some _ => true | None => false end.

(** C12-F2 on the configuration as loaded: one of the admissible kinds has an override
    (or redirect code) that is no HTTP status *)
Definition xguard_F2 (c : cfg) (sc : xscenario) : bool :=
  existsb (guard_F2_class c) (d_classes (demand_of sc)).

(** C12-F4: the configuration comes from a file, a precondition override that is an HTTP
    status is configured and the failure is a precondition failure *)
Definition is_precond (k : class) : bool := match k with ClPrecond => true | _ => false end.

Definition xguard_F4 (fx : fixes) (from_file : bool) (c : cfg) (ks : list class) : bool :=
  from_file && negb (fx4 fx) && valid_code (ov_precond c) && existsb is_precond ks.
