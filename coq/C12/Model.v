(** C12 — model of heimdall's two error translators and of the way a failure
    travels to them through the three entry points.

    Go sources transcribed (as they are):
    - internal/handler/middleware/http/errorhandler/{error_handler,options,defaults,formatter}.go
    - internal/handler/middleware/grpc/errorhandler/{interceptor,options,defaults,error_response}.go
    - internal/handler/middleware/http/recovery/handler.go, the grpc recovery interceptor of
      envoyextauth/grpcv3/service.go
    - internal/rules/mechanisms/errorhandlers/{default,redirect,www_authenticate}_error_handler.go
    - internal/handler/service/handler.go, decision|proxy/request_context.go Finalize (error part),
      envoyextauth/grpcv3/{handler,request_context}.go (error part)

    Error values are [Base.ErrChain.err] trees.  Not modelled, supplied per case as
    observed data ("oracle"): the answer of elnormous/contenttype for the Accept
    header against each translator's list of media types, and whether the body
    rendered for a media type is non-empty (goccy/go-json, encoding/xml, Error()).
    Status codes are unbounded [Z] (assumption: they fit in int32, the width of
    envoy's StatusCode). *)
From HV Require Import Base.Prelude Base.ErrChain.
Local Open Scope Z_scope.

(** ** Configuration and oracles *)

(** `serve.<service>.respond`: verbose flag and the raw override codes (0 = not set) *)
Record cfg := {
  c_verbose : bool;
  ov_authn : Z; ov_authz : Z; ov_comm : Z; ov_precond : Z; ov_norule : Z; ov_internal : Z }.

Inductive media := Html | Json | Plain | Xml.

Definition media_eqb (a b : media) : bool :=
  match a, b with Html, Html | Json, Json | Plain, Plain | Xml, Xml => true | _, _ => false end.

(** observed library behaviour on the inputs of one case *)
Record oracle := {
  o_neg_http : option media;   (* contenttype.GetAcceptableMediaType(req, [html; json; plain; xml]); None = error *)
  o_neg_grpc : option media;   (* contenttype.GetAcceptableMediaTypeFromHeader(accept, [json; xml; html; plain]) *)
  o_json_ne : bool;            (* len(json.Marshal(err)) != 0 *)
  o_xml_ne : bool;             (* len(xml.Marshal(err)) != 0 *)
  o_plain_ne : bool }.         (* len(err.Error()) != 0 *)

(** is the body rendered for media type [m] non-empty?  html is "<p>%s</p>" *)
Definition body_ne (o : oracle) (m : media) : bool :=
  match m with Html => true | Json => o_json_ne o | Xml => o_xml_ne o | Plain => o_plain_ne o end.

(** the errors heimdall itself creates on these paths (ErrorChain with a message,
    bare sentinel) render to a non-empty body in every format *)
Definition ne_always (o : oracle) : oracle :=
  {| o_neg_http := o_neg_http o; o_neg_grpc := o_neg_grpc o;
     o_json_ne := true; o_xml_ne := true; o_plain_ne := true |}.

(** ** HTTP translator *)

(** net/http checkWriteHeaderCode: anything but three digits panics *)
Definition valid_code (c : Z) : bool := (100 <=? c) && (c <=? 999).

(** response headers the property talks about, plus status and body presence *)
Record hdrs := { h_location : option string; h_www : option string; h_ctype : option media }.
Definition no_hdrs := {| h_location := None; h_www := None; h_ctype := None |}.

Inductive hresp :=
| HResp (status : Z) (h : hdrs) (body : bool)
| HPanic (h : hdrs).        (* WriteHeader panicked; [h] = headers already set on the writer *)

(** formatter.go errorWriter(options, code) on a writer that already carries [h] *)
Definition error_writer (verbose : bool) (o : oracle) (code : Z) (h : hdrs) : hresp :=
  let mt := if verbose
            then match o_neg_http o with
                 | Some m => if body_ne o m then Some m else None
                 | None => None
                 end
            else None in
  let h' := match mt with
            | Some m => {| h_location := h_location h; h_www := h_www h; h_ctype := Some m |}
            | None => h
            end in
  if valid_code code then HResp code h' (match mt with Some _ => true | None => false end)
  else HPanic h'.

(** options.go: an override replaces the default writer iff [code != 0] *)
Definition http_code (ov dflt : Z) : Z := if ov =? 0 then dflt else ov.

(** error_handler.go HandleError *)
Definition http_handle (c : cfg) (o : oracle) (e : err) (h : hdrs) : hresp :=
  if is_ (TKind KAuthentication) e then error_writer (c_verbose c) o (http_code (ov_authn c) 401) h
  else if is_ (TKind KAuthorization) e then error_writer (c_verbose c) o (http_code (ov_authz c) 403) h
  else if is_ (TKind KTimeout) e || is_ (TKind KCommunication) e
       then error_writer (c_verbose c) o (http_code (ov_comm c) 502) h
  else if is_ (TKind KArgument) e then error_writer (c_verbose c) o (http_code (ov_precond c) 400) h
  else if is_ (TKind KNoRule) e then error_writer (c_verbose c) o (http_code (ov_norule c) 404) h
  else if is_ TRedirect e then
    match as_redirect e with
    | Some (code, to) =>
        let h' := {| h_location := Some to; h_www := h_www h; h_ctype := h_ctype h |} in
        if valid_code code then HResp code h' false else HPanic h'
    | None => HPanic h          (* nil dereference of redirectError; unreachable, see ErrChain.is_redirect_as *)
    end
  else error_writer (c_verbose c) o (http_code (ov_internal c) 500) h.

(** ** gRPC translator *)

Inductive gcode := GOk | GUnauthenticated | GPermissionDenied | GDeadlineExceeded | GInvalidArgument
                 | GNotFound | GFailedPrecondition | GInternal.

Record gdenied := { g_code : gcode; g_status : Z; g_hdrs : hdrs; g_body : bool }.

(** error_response.go errorResponse *)
Definition error_response (gc : gcode) (code : Z) (verbose : bool) (o : oracle) : gdenied :=
  if verbose then
    let ct := match o_neg_grpc o with Some m => m | None => Html end in
    {| g_code := gc; g_status := code;
       g_hdrs := {| h_location := None; h_www := None; h_ctype := Some ct |};
       g_body := body_ne o ct |}
  else {| g_code := gc; g_status := code; g_hdrs := no_hdrs; g_body := false |}.

(** options.go: an override replaces the default iff [code > 0] *)
Definition grpc_code (ov dflt : Z) : Z := if 0 <? ov then ov else dflt.

(** interceptor.go intercept (err != nil) ; None = nil dereference *)
Definition grpc_handle (c : cfg) (o : oracle) (e : err) : option gdenied :=
  if is_ (TKind KAuthentication) e
  then Some (error_response GUnauthenticated (grpc_code (ov_authn c) 401) (c_verbose c) o)
  else if is_ (TKind KAuthorization) e
  then Some (error_response GPermissionDenied (grpc_code (ov_authz c) 403) (c_verbose c) o)
  else if is_ (TKind KTimeout) e || is_ (TKind KCommunication) e
  then Some (error_response GDeadlineExceeded (grpc_code (ov_comm c) 502) (c_verbose c) o)
  else if is_ (TKind KArgument) e
  then Some (error_response GInvalidArgument (grpc_code (ov_precond c) 400) (c_verbose c) o)
  else if is_ (TKind KNoRule) e
  then Some (error_response GNotFound (grpc_code (ov_norule c) 404) (c_verbose c) o)
  else if is_ TRedirect e then
    match as_redirect e with
    | Some (code, to) =>
        Some {| g_code := GFailedPrecondition; g_status := code;
                g_hdrs := {| h_location := Some to; h_www := None; h_ctype := None |};
                g_body := false |}
    | None => None
    end
  else Some (error_response GInternal (grpc_code (ov_internal c) 500) (c_verbose c) o).

(** ** From a failed rule execution to the translators *)

(** the three error handler mechanisms as configured *)
Inductive mechanism :=
| MDefault
| MRedirect (code : Z) (to : option string)   (* configured code (0 = unset); rendered `to`, None = template fails *)
| MWWW (realm : string).                      (* configured realm ("" = unset) *)

(** errorhandlers.newRedirectErrorHandler (since fix: 6c5864d, finding C20-F1b):
    `code` is validated with `omitempty,gte=300,lte=399` whatever the source of the
    configuration; an unset code (0) becomes 302 at execution time.  [None] = the
    handler cannot be created. *)
Definition redirect_code_ok (code : Z) : bool := (code =? 0) || ((300 <=? code) && (code <=? 399)).

Definition create_redirect (code : Z) (to : option string) : option mechanism :=
  if redirect_code_ok code then Some (MRedirect code to) else None.

(** what a mechanism's Execute does to the request context and returns *)
Record handled := {
  hd_ret : option err;                (* returned error (None = nil) *)
  hd_pipeline : option err;           (* ctx.SetPipelineError *)
  hd_upstream : list (string * string) }.   (* ctx.AddHeaderForUpstream *)

Definition render_failed : err := Chain [Sentinel KInternal; Foreign 0%nat] false.

Definition mech_exec (m : mechanism) (cause : err) : handled :=
  match m with
  | MDefault => {| hd_ret := None; hd_pipeline := Some cause; hd_upstream := [] |}
  | MRedirect code to =>
      match to with
      | Some url => {| hd_ret := None;
                       hd_pipeline := Some (Redirect (if code =? 0 then 302 else code) url);
                       hd_upstream := [] |}
      | None => {| hd_ret := Some render_failed; hd_pipeline := None; hd_upstream := [] |}
      end
  | MWWW realm =>
      let r := if (String.length realm =? 0)%nat then "Please authenticate"%string else realm in
      {| hd_ret := None; hd_pipeline := Some (Sentinel KAuthentication);
         hd_upstream := [("WWW-Authenticate"%string, ("Basic realm=" ++ r)%string)] |}
  end.

(** what reaches the error translator.  The rule returns [(nil, hd_ret)]; when
    that is nil the handler calls Finalize, and all three Finalize
    implementations return the recorded pipeline error *before* any upstream
    header is copied to the response: [hd_upstream] is dropped.  [None] = no
    error reaches the translator (the request is answered positively). *)
Definition final_error (hd : handled) : option err :=
  match hd_ret hd with
  | Some e => Some e
  | None => hd_pipeline hd
  end.

Inductive scenario :=
| ScError (e : err)                          (* the executor returns e (no rule, or unhandled) *)
| ScHandled (m : mechanism) (cause : err)    (* a rule failed with cause, mechanism m handles it *)
| ScPanic (v : option err).                  (* something panics; Some e = the panic value is an error *)

(** recovery/handler.go: ErrInternal chain caused by the panic value *)
Definition recovered (v : option err) : err :=
  Chain [Sentinel KInternal; match v with Some e => e | None => Foreign 0%nat end] false.

Inductive hfinal :=
| HFinal (status : Z) (h : hdrs) (body : bool)
| HAbort                      (* panic escaped the recovery middleware: net/http drops the connection *)
| HPositive.                  (* not an error response (only for completeness) *)

(** the error which the HTTP translator sees in a scenario, and whether the
    formatted body of that error is described by the case's oracle (it is for
    errors coming from the case, not for the ones heimdall creates itself) *)
Definition scenario_error (sc : scenario) : option (option err * bool) :=
  match sc with
  | ScError e => Some (Some e, true)
  | ScHandled m cause =>
      let hd := mech_exec m cause in
      Some (final_error hd, match m with MDefault => true | _ => false end)
  | ScPanic _ => None
  end.

(** decision and proxy service: alice chain ... recovery.New(eh) ... service.NewHandler *)
Definition http_recover (c : cfg) (o : oracle) (v : option err) (h : hdrs) : hfinal :=
  match http_handle c (ne_always o) (recovered v) h with
  | HResp s h' b => HFinal s h' b
  | HPanic _ => HAbort
  end.

Definition http_respond (c : cfg) (o : oracle) (sc : scenario) : hfinal :=
  match scenario_error sc with
  | None => match sc with ScPanic v => http_recover c o v no_hdrs | _ => HPositive end
  | Some (None, _) => HPositive
  | Some (Some e, from_case) =>
      match http_handle c (if from_case then o else ne_always o) e no_hdrs with
      | HResp s h b => HFinal s h b
      | HPanic h => http_recover c o None h    (* panic value is a string *)
      end
  end.

(** envoy grpc service: recovery interceptor outside the error handler interceptor *)
Inductive gfinal :=
| GDenied (d : gdenied)
| GStatusErr (code : gcode)     (* no CheckResponse, a gRPC status error *)
| GPositive.

Definition grpc_respond (c : cfg) (o : oracle) (sc : scenario) : gfinal :=
  match scenario_error sc with
  | None => GStatusErr GInternal
  | Some (None, _) => GPositive
  | Some (Some e, from_case) =>
      match grpc_handle c (if from_case then o else ne_always o) e with
      | Some d => GDenied d
      | None => GStatusErr GInternal
      end
  end.

(** ** The entry points after the repair of finding C12-F1 (fixes/C12-F1.diff)

    All three Finalize implementations look for a `WWW-Authenticate` header among
    the headers collected for the upstream when a pipeline error is recorded: the
    HTTP contexts put it on the response writer before returning the error (so it
    also survives a recovery after a panicking WriteHeader, like a stale Location),
    the Envoy context wraps the error into a ChallengeError, whose challenge the
    gRPC translator adds to the DeniedHttpResponse.  [fixed = false] is the code as
    it was. *)
Definition challenge_of (sc : scenario) : option string :=
  match sc with
  | ScHandled m cause =>
      match hd_ret (mech_exec m cause), hd_pipeline (mech_exec m cause) with
      | None, Some _ =>
          (fix find (l : list (string * string)) : option string :=
             match l with
             | [] => None
             | (k, v) :: r => if String.eqb k "WWW-Authenticate" then Some v else find r
             end) (hd_upstream (mech_exec m cause))
      | _, _ => None
      end
  | _ => None
  end.

Definition with_www (w : option string) (h : hdrs) : hdrs :=
  match w with
  | Some v => {| h_location := h_location h; h_www := Some v; h_ctype := h_ctype h |}
  | None => h
  end.

Definition http_respond_f (fixed : bool) (c : cfg) (o : oracle) (sc : scenario) : hfinal :=
  match http_respond c o sc with
  | HFinal s h b => HFinal s (if fixed then with_www (challenge_of sc) h else h) b
  | x => x
  end.

Definition grpc_respond_f (fixed : bool) (c : cfg) (o : oracle) (sc : scenario) : gfinal :=
  match grpc_respond c o sc with
  | GDenied d =>
      GDenied (if fixed
               then {| g_code := g_code d; g_status := g_status d;
                       g_hdrs := with_www (challenge_of sc) (g_hdrs d); g_body := g_body d |}
               else d)
  | x => x
  end.

(** ** equality tests for the evaluator *)
Definition hdrs_eqb (a b : hdrs) : bool :=
  option_eqb String.eqb (h_location a) (h_location b) &&
  option_eqb String.eqb (h_www a) (h_www b) &&
  option_eqb media_eqb (h_ctype a) (h_ctype b).

Definition hresp_eqb (a b : hresp) : bool :=
  match a, b with
  | HResp s h bd, HResp s' h' bd' => Z.eqb s s' && hdrs_eqb h h' && Bool.eqb bd bd'
  | HPanic _, HPanic _ => true     (* headers of a panicked writer are not observable *)
  | _, _ => false
  end.

Definition gcode_eqb (a b : gcode) : bool :=
  match a, b with
  | GOk, GOk | GUnauthenticated, GUnauthenticated | GPermissionDenied, GPermissionDenied
  | GDeadlineExceeded, GDeadlineExceeded | GInvalidArgument, GInvalidArgument
  | GNotFound, GNotFound | GFailedPrecondition, GFailedPrecondition | GInternal, GInternal => true
  | _, _ => false
  end.

Definition gdenied_eqb (a b : gdenied) : bool :=
  gcode_eqb (g_code a) (g_code b) && Z.eqb (g_status a) (g_status b) &&
  hdrs_eqb (g_hdrs a) (g_hdrs b) && Bool.eqb (g_body a) (g_body b).

Definition hfinal_eqb (a b : hfinal) : bool :=
  match a, b with
  | HFinal s h bd, HFinal s' h' bd' => Z.eqb s s' && hdrs_eqb h h' && Bool.eqb bd bd'
  | HAbort, HAbort | HPositive, HPositive => true
  | _, _ => false
  end.

Definition gfinal_eqb (a b : gfinal) : bool :=
  match a, b with
  | GDenied x, GDenied y => gdenied_eqb x y
  | GStatusErr x, GStatusErr y => gcode_eqb x y
  | GPositive, GPositive => true
  | _, _ => false
  end.
