(** C12 — model of the path of a failure through a rule's error handler list and the
    three entry points, built on the translators and the mechanisms of C12/Model.v.

    Go sources transcribed (as they are):
    - internal/rules/composite_error_handler.go, conditional_error_handler.go,
      rule_impl.go Execute (error part: [return nil, r.eh.Execute(ctx, err)])
    - errorhandlers/www_authenticate_error_handler.go WithConfig (a rule-level realm
      replaces the prototype's WITHOUT the default for an empty one)
    - handler/proxy/request_context.go Finalize (no upstream; ReverseProxy ErrorHandler)
    - internal/config/serve.go RespondConfig (koanf names of the overrides; as it is: [fx4 = true])
    - service/handler.go, recovery/handler.go, the three Finalize (as in Model.v) *)
From HV Require Import Base.Prelude Base.ErrChain C12.Model C12.Inputs.
Local Open Scope Z_scope.

(** ** configuration source *)

(** config.NewConfiguration on a file that uses the documented / schema names of the
    overrides.  Before ed62adc the loader's field for `precondition_error` was tagged
    `argument_error` (a name the schema rejects), so that override never arrived (finding C12-F4,
    repaired): [fx4 = false] keeps that pinned behaviour, [fx4 = true] (the tree as it is) loads the
    override.  [from_file = false]: the respond struct is filled directly. *)
Definition loaded (fx : fixes) (from_file : bool) (c : cfg) : cfg :=
  if from_file && negb (fx4 fx)
  then {| c_verbose := c_verbose c; ov_authn := ov_authn c; ov_authz := ov_authz c; ov_comm := ov_comm c;
          ov_precond := 0; ov_norule := ov_norule c; ov_internal := ov_internal c |}
  else c.

(** ** a rule's error handlers *)

(** a mechanism after WithConfig *)
Definition x_exec (h : xhandler) (cause : err) : handled :=
  match x_mech h, x_conf h with
  | MWWW _, WcRealm r =>
      {| hd_ret := None; hd_pipeline := Some (Sentinel KAuthentication);
         hd_upstream := [("WWW-Authenticate"%string, ("Basic realm=" ++ r)%string)] |}
  | m, _ => mech_exec m cause
  end.

(** compositeErrorHandler.Execute: the first handler whose condition holds decides
    (whatever it returns); when none applies the cause is returned *)
Fixpoint run_handlers (hs : list xhandler) (cause : err) : handled :=
  match hs with
  | [] => {| hd_ret := Some cause; hd_pipeline := None; hd_upstream := [] |}
  | h :: r => if x_applies h then x_exec h cause else run_handlers r cause
  end.

(** is the error that reaches the translator the case's own error value (so that the
    case's body oracle describes its rendering) rather than one heimdall creates? *)
Fixpoint from_case (hs : list xhandler) : bool :=
  match hs with
  | [] => true
  | h :: r => if x_applies h then match x_mech h with MDefault => true | _ => false end else from_case r
  end.

(** proxy Finalize's own failures *)
Definition proxy_error (p : pfail) : err :=
  match p with
  | PNoUpstream => Chain [Sentinel KConfiguration] false
  | PUpstreamFails => Chain [Sentinel KCommunication; Foreign 0%nat] false
  end.

(** the error the translator of an entry point sees ([proxy]: the proxy service);
    None = a panic; Some (None, _) = no error: a positive answer *)
Definition x_scenario_error (proxy : bool) (sc : xscenario) : option (option err * bool) :=
  match sc with
  | XFail hs cause => Some (final_error (run_handlers hs cause), from_case hs)
  | XPanic _ => None
  | XProxy p => if proxy then Some (Some (proxy_error p), false) else Some (None, false)
  end.

Definition x_http_respond (proxy : bool) (c : cfg) (o : oracle) (sc : xscenario) : hfinal :=
  match x_scenario_error proxy sc with
  | None => match sc with XPanic v => http_recover c o v no_hdrs | _ => HPositive end
  | Some (None, _) => HPositive
  | Some (Some e, fc) =>
      match http_handle c (if fc then o else ne_always o) e no_hdrs with
      | HResp s h b => HFinal s h b
      | HPanic h => http_recover c o None h
      end
  end.

Definition x_grpc_respond (c : cfg) (o : oracle) (sc : xscenario) : gfinal :=
  match x_scenario_error false sc with
  | None => GStatusErr GInternal
  | Some (None, _) => GPositive
  | Some (Some e, fc) =>
      match grpc_handle c (if fc then o else ne_always o) e with
      | Some d => GDenied d
      | None => GStatusErr GInternal
      end
  end.

(** the challenge a repaired Finalize (fixes/C12-F1.diff) finds among the upstream headers *)
Definition x_challenge (sc : xscenario) : option string :=
  match sc with
  | XFail hs cause =>
      let hd := run_handlers hs cause in
      match hd_ret hd, hd_pipeline hd with
      | None, Some _ =>
          (fix find (l : list (string * string)) : option string :=
             match l with
             | [] => None
             | (k, v) :: r => if String.eqb k "WWW-Authenticate" then Some v else find r
             end) (hd_upstream hd)
      | _, _ => None
      end
  | _ => None
  end.

(** the complete entry points: configuration source, handlers, translators, repairs *)
Definition entry_http (fx : fixes) (proxy from_file : bool) (c : cfg) (o : oracle) (sc : xscenario) : hfinal :=
  match x_http_respond proxy (loaded fx from_file c) o sc with
  | HFinal s h b => HFinal s (if fx1 fx then with_www (x_challenge sc) h else h) b
  | x => x
  end.

Definition entry_grpc (fx : fixes) (from_file : bool) (c : cfg) (o : oracle) (sc : xscenario) : gfinal :=
  match x_grpc_respond (loaded fx from_file c) o sc with
  | GDenied d =>
      GDenied (if fx1 fx
               then {| g_code := g_code d; g_status := g_status d;
                       g_hdrs := with_www (x_challenge sc) (g_hdrs d); g_body := g_body d |}
               else d)
  | x => x
  end.

(** what the handlers hand to ctx.AddHeaderForUpstream under the name WWW-Authenticate *)
Definition x_challenges (sc : xscenario) : list string :=
  match sc with
  | XFail hs cause =>
      flat_map (fun kv => if String.eqb (fst kv) "WWW-Authenticate" then [snd kv] else [])
               (hd_upstream (run_handlers hs cause))
  | _ => []
  end.

(** embedding of the scenarios of C12/Model.v *)
Definition x_of (sc : scenario) : xscenario :=
  match sc with
  | ScError e => XFail [] e
  | ScHandled m cause => XFail [{| x_applies := true; x_mech := m; x_conf := WcNone |}] cause
  | ScPanic v => XPanic v
  end.
