(** C18 — state-dependent acceptance: the Kubernetes provider model (per event).

    The Kubernetes provider keeps no record of what it applied: WHICH calls it makes
    (kind, source, content) is decided by the informer's store and the object's
    generation alone and does not depend on the processor's answers ([k8s_calls_shape]).
    Run against the state-dependent processor of Accept.v, each call is answered as of
    the repository at the moment of the call.

    What the code achieves is therefore weaker than for the polling providers: a
    version of a RuleSet is offered when it is DELIVERED (first sight: OnCreated; a new
    generation: OnUpdated) and never again.  A version refused for an external reason
    (its path is held by another source) is not retried — neither when the other source
    goes away, nor at a relist, which re-delivers the object with the same generation —
    until the object's spec changes.  [k8s_no_retry]: the witness history, on which the
    polling specification [spec_repo_steps] demands the rule set loaded and the
    provider's repository stays without it; [k8s_next_generation_loads]: the next
    generation is offered and loaded (OnUpdated of a source that has nothing loaded).
    There is no general theorem for the Kubernetes provider against this processor. *)
From HV Require Import Base.Prelude C18.Model C18.ModelK8s C18.Spec C18.Proofs C18.ProofsK8s C18.Accept.

(** the calls do not depend on the oracle, only their answers do *)
Definition shape (p : pcall) : pkind * sid * option cid := (p_kind p, p_src p, p_cid p).

Lemma k_call_shape O1 O2 kind o : shape (k_call O1 kind o) = shape (k_call O2 kind o).
Proof. reflexivity. Qed.

Lemma k8s_atom_shape O1 O2 f7 f8 s a :
  fst (k8s_atom O1 f7 f8 s a) = fst (k8s_atom O2 f7 f8 s a) /\
  option_map (map shape) (snd (k8s_atom O1 f7 f8 s a)) = option_map (map shape) (snd (k8s_atom O2 f7 f8 s a)).
Proof.
  destruct a as [o|o|n]; simpl.
  - split; [reflexivity|]. destruct (s (k_name o)) as [old|]; simpl.
    + unfold f_update, k_update, k_delete, k_add. destruct (k_cls o), (k_cls old); simpl; try reflexivity.
      destruct (f8 && negb (Nat.eqb (k_uid old) (k_uid o))); simpl; [reflexivity|].
      destruct (Nat.eqb (k_gen old) (k_gen o)); reflexivity.
    + unfold f_add. destruct (k_cls o); reflexivity.
  - destruct (s (k_name o)); simpl; [|split; reflexivity]. split; [reflexivity|]. unfold f_delete. destruct (k_cls o); reflexivity.
  - destruct (s n) as [old|]; simpl; [|split; reflexivity]. split; [reflexivity|].
    destruct f7; simpl; [|reflexivity]. unfold f_delete. destruct (k_cls old); reflexivity.
Qed.

Section K8s.
Variable ok0 : cid -> bool.
Variable clash : cid -> cid -> bool.
Variable srcs : list sid.

(** the processor answers each call as of the repository at that moment *)
Fixpoint answer_calls (A : amap) (ps : list pcall) : amap * list pcall :=
  match ps with
  | [] => (A, [])
  | p :: r =>
    let ok := match p_kind p, p_cid p with
              | KDeleted, _ => true
              | _, Some c => dacc ok0 clash srcs A (p_src p) c
              | _, None => false
              end in
    let q := {| p_kind := p_kind p; p_src := p_src p; p_cid := p_cid p; p_ok := ok |} in
    let x := answer_calls (apply_call A q) r in (fst x, q :: snd x)
  end.

(** the provider after the fix: commits (f7 = f8 = true), one step per object handed to the handlers *)
Fixpoint k8s_dyn_atoms (s : kstore) (A : amap) (atoms : list katom) : kstore * amap * list (list pcall * list (option cid)) :=
  match atoms with
  | [] => (s, A, [])
  | a :: r =>
    let sx := k8s_atom O_all true true s a in
    let x := answer_calls A (match snd sx with Some cs => cs | None => [] end) in
    let rr := k8s_dyn_atoms (fst sx) (fst x) r in
    (fst (fst rr), snd (fst rr), (snd x, map (fst x) srcs) :: snd rr)
  end.

Fixpoint k8s_dyn_steps (nn : nat) (s : kstore) (A : amap) (h : list k8s_event) : list (list pcall * list (option cid)) :=
  match h with
  | [] => []
  | e :: r => let x := k8s_dyn_atoms s A (atoms_of nn s e) in
              snd x ++ k8s_dyn_steps nn (fst (fst x)) (snd (fst x)) r
  end.

End K8s.

Definition ksrcs2 : list sid := [Sid 0; Sid 1].

(** objects: name, uid, in class, generation, content *)
Definition kA1 := {| k_name := 0; k_uid := 0; k_cls := true; k_gen := 1; k_cid := 1 |}.
Definition kB1 := {| k_name := 1; k_uid := 1; k_cls := true; k_gen := 1; k_cid := 5 |}.
Definition kB2 := {| k_name := 1; k_uid := 1; k_cls := true; k_gen := 2; k_cid := 9 |}.

(** A (content 1) is added and loaded; B (content 5, same path) is added and refused;
    A is deleted; the watch breaks and the relist delivers B again (same generation) *)
Definition hk_no_retry : list k8s_event :=
  [KWatch WAdded kA1; KWatch WAdded kB1; KWatch WDeleted kA1; KRelist [kB1]; KRelist [kB1]].

(** what these events show of the sources, as the polling specification reads them *)
Definition hk_views : list (list (sid * sobs)) :=
  k8s_atom_views ks_empty (k8s_atoms_from 2 ks_empty hk_no_retry).

Theorem k8s_no_retry :
  let ok := fun _ : cid => true in
  k8s_wf 2 hk_no_retry = true /\
  (* the provider: B's rule set is offered once (refused) and never again *)
  map (fun x => map (fun p => (p_kind p, p_cid p, p_ok p)) (fst x)) (k8s_dyn_steps ok pclash ksrcs2 2 ks_empty a_empty hk_no_retry)
    = [[(KCreated, Some 1, true)]; [(KCreated, Some 5, false)]; [(KDeleted, None, true)]; []; []] /\
  last (map snd (k8s_dyn_steps ok pclash ksrcs2 2 ks_empty a_empty hk_no_retry)) [] = [None; None] /\
  (* the specification the polling providers meet: loaded at the first look after A is gone *)
  last (spec_repo_steps ok pclash ksrcs2 a_empty hk_views) [] = [None; Some 5].
Proof. cbv zeta. repeat split; vm_compute; reflexivity. Qed.

(** the next generation of B is offered (OnUpdated of a source that has nothing loaded) and loaded *)
Theorem k8s_next_generation_loads :
  let ok := fun _ : cid => true in
  let h := hk_no_retry ++ [KWatch WModified kB2] in
  k8s_wf 2 h = true /\
  last (map (fun x => map (fun p => (p_kind p, p_cid p, p_ok p)) (fst x)) (k8s_dyn_steps ok pclash ksrcs2 2 ks_empty a_empty h)) []
    = [(KUpdated, Some 9, true)] /\
  last (map snd (k8s_dyn_steps ok pclash ksrcs2 2 ks_empty a_empty h)) [] = [None; Some 9].
Proof. cbv zeta. repeat split; vm_compute; reflexivity. Qed.
